//go:build verif

package protogen

// VerifFieldTag exports the unexported fieldTag (FNV-1 hash of a schema path folded to 29 bits with the
// reserved-range avoidance) to the verification harness (property C28). Export wrapper only.
func VerifFieldTag(s string) (uint32, error) { return fieldTag(s) }
