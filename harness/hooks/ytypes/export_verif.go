//go:build verif

package ytypes

// VerifResetRegexpCache empties the compiled-pattern cache so that every explored execution of
// the C21 check starts from the cold state (cache misses, then the write-locked insert).
func VerifResetRegexpCache() { reCache = newRegexpCache() }
