// Command vchk runs one property check of the /verif machinery against the ygot tree it was
// built from (overlay build inside the ygot module).
package main

import (
	"runtime"
	"encoding/json"
	"flag"
	"fmt"
	"os"
	"time"

	"github.com/openconfig/ygot/zzverif/core"
	"github.com/openconfig/ygot/zzverif/props"
)

func main() {
	prop := flag.String("prop", "", "property id")
	tier := flag.String("tier", "quick", "quick|thorough")
	seed := flag.Int("seed", 0, "seed (only permutes shard assignment)")
	verif := flag.String("verif", "/verif", "verif dir")
	repo := flag.String("repo", "/repo", "repo dir")
	replay := flag.String("replay", "", "replay file")
	budget := flag.Duration("budget", 0, "internal deadline (0 = tier default)")
	dump := flag.String("dump", "", "debug: dump atoms of package")
	racePass := flag.Int("race-pass", 0, "C21: run the free-running goroutine pass this many rounds (binary built with -race) and exit")
	out := flag.String("out", "", "directory for evidence/ and replays/ (default: verif dir)")
	flag.Parse()
	if *racePass > 0 {
		for _, gmp := range []int{2, 4, 16} {
			runtime.GOMAXPROCS(gmp)
			props.C21RaceBodies(*racePass)
		}
		fmt.Println("race-pass completed")
		return
	}
	if *dump != "" {
		p := core.PkgByName(*dump)
		for _, a := range p.Atoms() {
			fmt.Printf("%d %s kind=%s focus=%v cfg=%v choice=%s path=%s\n", a.ID, a.Name, a.Kind, a.Focus, a.Config, a.Choice, a.Path)
		}
		return
	}
	if *replay != "" {
		b, err := os.ReadFile(*replay)
		if err != nil {
			fmt.Println("ERROR", err)
			os.Exit(2)
		}
		var doc struct {
			Property string          `json:"property"`
			Case     json.RawMessage `json:"case"`
		}
		if err := json.Unmarshal(b, &doc); err != nil {
			fmt.Println("ERROR", err)
			os.Exit(2)
		}
		p := core.PropByID(doc.Property)
		if p == nil || p.Replay == nil {
			fmt.Println("ERROR no replay for", doc.Property)
			os.Exit(2)
		}
		c := &core.Ctx{ID: doc.Property, Tier: *tier, VerifDir: *verif, RepoDir: *repo, R: core.NewReporter(doc.Property, *tier, *seed, *verif)}
		v, d := p.Replay(c, doc.Case)
		if v {
			fmt.Printf("VIOLATION property=%s replay=%s detail=%s\n", doc.Property, *replay, d)
			os.Exit(1)
		}
		fmt.Println("replay: no violation")
		return
	}
	p := core.PropByID(*prop)
	if p == nil {
		fmt.Printf("ERROR unknown property %q; have %v\n", *prop, core.PropIDs())
		os.Exit(2)
	}
	c := &core.Ctx{ID: *prop, Tier: *tier, Seed: *seed, VerifDir: *verif, RepoDir: *repo, R: core.NewReporter(*prop, *tier, *seed, *verif)}
	c.R.OutDir = *out
	d := *budget
	if d == 0 {
		d = 8 * time.Minute
		if *tier == "thorough" {
			d = 45 * time.Minute
		}
	}
	c.Deadline = time.Now().Add(d)
	p.Run(c)
	var rp func([]byte) (bool, string)
	if p.Replay != nil {
		rp = func(raw []byte) (bool, string) { return p.Replay(c, raw) }
	}
	os.Exit(c.R.Finish(c.Level, c.Rule, rp))
}
