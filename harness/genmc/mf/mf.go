// Package mf is the manifest shared by the phases of the genmc pipeline (plan/generate -> build/vet -> reflect).
package mf

import (
	"encoding/json"
	"os"
	"regexp"

	"github.com/openconfig/ygot/zzverif/genmc/fam"
)

// Result is the outcome of one phase for one case.
type Result struct {
	Status string `json:"status,omitempty"` // ok | fail | skipped
	Msg    string `json:"msg,omitempty"`
}

// Case is one (schema, configuration) state with what happened to it in every phase.
type Case struct {
	fam.Case
	Stage   string   `json:"stage"`
	Pkg     string   `json:"pkg"`
	Inputs  []string `json:"inputs"` // YANG files handed to the generator
	Paths   []string `json:"paths"`  // include directories
	Exclude []string `json:"exclude,omitempty"`
	// generation
	GenStatus string `json:"gen_status,omitempty"` // ok | error | panic
	GenMsg    string `json:"gen_msg,omitempty"`
	Hash      string `json:"hash,omitempty"`   // content hash of the generated code (package name and header masked)
	DupOf     string `json:"dup_of,omitempty"` // package with byte-identical code that is compiled instead
	Lines     int    `json:"lines,omitempty"`
	Cross     string `json:"cross,omitempty"` // cross-check against the generator binary: same | differs | binary-error:<msg>
	// compile / vet of the package that carries this case's code (its own or DupOf)
	Build Result `json:"build"`
	Vet   Result `json:"vet"`
}

// CodePkg returns the package that holds the case's generated code.
func (c *Case) CodePkg() string {
	if c.DupOf != "" {
		return c.DupOf
	}
	return c.Pkg
}

// Probe is one check of the reduction "a representation flag the schema cannot react to does not change the output".
type Probe struct {
	SchemaID string `json:"schema"`
	Flag     string `json:"flag"`
	Same     bool   `json:"same"`            // byte-identical output with the flag flipped
	Delta    string `json:"delta,omitempty"` // hash of the multiset of lines that differ (empty when Same)
	Msg      string `json:"msg,omitempty"`
	// Relevant is the verdict: the flag changes the code generated for this schema (beyond the schema-independent
	// preamble that generate_simple_unions always switches). Pairs containing the atom then vary the flag.
	Relevant bool `json:"relevant"`
}

// Manifest is everything the reflection binary needs.
type Manifest struct {
	Tier     string                 `json:"tier"`
	Repo     string                 `json:"repo"`
	Schemas  map[string]*fam.Schema `json:"schemas"`
	Cases    []*Case                `json:"cases"`
	Probes   []Probe                `json:"probes,omitempty"`
	Capped   []string               `json:"capped,omitempty"`
	Notes    map[string]interface{} `json:"notes,omitempty"`
	VetRun   bool                   `json:"vet_run"`
	Compiled []string               `json:"compiled,omitempty"` // packages linked into the reflection binaries
	ShardOf  map[string]int         `json:"shard_of,omitempty"` // package -> reflection binary that links it
	Shards   int                    `json:"shards,omitempty"`
}

// Load reads a manifest.
func Load(path string) (*Manifest, error) {
	b, err := os.ReadFile(path)
	if err != nil {
		return nil, err
	}
	m := &Manifest{}
	if err := json.Unmarshal(b, m); err != nil {
		return nil, err
	}
	if m.Schemas == nil {
		m.Schemas = map[string]*fam.Schema{}
	}
	if m.Notes == nil {
		m.Notes = map[string]interface{}{}
	}
	return m, nil
}

// Save writes a manifest.
func (m *Manifest) Save(path string) error {
	b, err := json.Marshal(m)
	if err != nil {
		return err
	}
	return os.WriteFile(path, b, 0o644)
}

// documentedErrors lists generator errors that ygot documents as the intended answer to an unsupported input;
// such cases are excluded from judgement and counted by name.
var documentedErrors = []struct {
	re   *regexp.Regexp
	name string
}{
	{regexp.MustCompile(`has a binary key -- this is unsupported|union key containing a binary -- this is unsupported`), "binary-list-key(docs/design.md: not supported, an error is returned)"},
	{regexp.MustCompile(`default value not supported for wrapper union values`), "default-on-wrapper-union(the error asks for generate_simple_unions)"},
	{regexp.MustCompile(`name conflict`), "enumerated-type-name-conflict(docs/design.md: such a collision causes an error)"},
	{regexp.MustCompile(`unsupported statement type|unknown entity type for mapping to Go: .* Kind: any`), "unsupported-yang-statement(notification/anyxml/anydata; see flag ignore_unsupported)"},
}

// DocumentedError returns the name of the documented refusal the generator error message is, or "".
func DocumentedError(msg string) string {
	for _, d := range documentedErrors {
		if d.re.MatchString(msg) {
			return d.name
		}
	}
	return ""
}
