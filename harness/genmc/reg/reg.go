// Package reg is the registry the generated packages of the genmc engine announce themselves to
// (each package gets a generated reg.go); the reflection binary reads it.
package reg

import (
	"reflect"
	"sort"

	"github.com/openconfig/goyang/pkg/yang"
)

// Pkg is one compiled generated package.
type Pkg struct {
	Name  string
	Root  reflect.Type // the fake root struct type
	Unzip func() (map[string]*yang.Entry, error)
}

var pkgs = map[string]*Pkg{}

// Register is called from the generated reg.go.
func Register(p *Pkg) { pkgs[p.Name] = p }

// Get returns the named package or nil.
func Get(name string) *Pkg { return pkgs[name] }

// Names lists the registered packages.
func Names() []string {
	var out []string
	for k := range pkgs {
		out = append(out, k)
	}
	sort.Strings(out)
	return out
}
