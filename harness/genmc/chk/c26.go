// Package chk holds the oracles of the genmc engine: C26 (generated Go code matches the schema it embeds) and
// C27 (the embedded schema matches the goyang compilation of the input YANG).
package chk

import (
	"fmt"
	"reflect"
	"sort"
	"strings"

	"github.com/openconfig/goyang/pkg/yang"
	"github.com/openconfig/ygot/ygot"
	"github.com/openconfig/ygot/zzverif/genmc/fam"
	"github.com/openconfig/ygot/zzverif/genmc/reg"
)

// Viol is one violated clause.
type Viol struct {
	Clause string `json:"clause"`
	Detail string `json:"detail"`
}

// Stats counts what one check looked at.
type Stats struct {
	Structs, Fields, Nodes, Excluded int
}

func isChoiceCase(e *yang.Entry) bool { return e.IsChoice() || e.IsCase() }

// dataChildren returns the data nodes below e with choice and case nodes skipped, sorted by name.
func dataChildren(e *yang.Entry) []*yang.Entry {
	var out []*yang.Entry
	var names []string
	for n := range e.Dir {
		names = append(names, n)
	}
	sort.Strings(names)
	for _, n := range names {
		c := e.Dir[n]
		if c.RPC != nil || c.Kind == yang.NotificationEntry {
			continue
		}
		if isChoiceCase(c) {
			out = append(out, dataChildren(c)...)
		} else {
			out = append(out, c)
		}
	}
	return out
}

// childByName finds the data node called name below e, looking through choice and case nodes.
func childByName(e *yang.Entry, name string) *yang.Entry {
	if c, ok := e.Dir[name]; ok && !isChoiceCase(c) {
		return c
	}
	for _, c := range e.Dir {
		if isChoiceCase(c) {
			if r := childByName(c, name); r != nil {
				return r
			}
		}
	}
	return nil
}

func resolvePath(e *yang.Entry, path []string) *yang.Entry {
	cur := e
	for _, p := range path {
		if cur == nil || cur.Dir == nil {
			return nil
		}
		cur = childByName(cur, p)
	}
	return cur
}

// readOnly is the harness's own reading of RFC 7950 7.21.1: config is inherited from the closest ancestor that sets it.
func readOnly(e *yang.Entry) bool {
	for ; e != nil; e = e.Parent {
		switch e.Config {
		case yang.TSTrue:
			return false
		case yang.TSFalse:
			return true
		}
	}
	return false
}

// expField is one field the struct of a directory must have.
type expField struct {
	node   *yang.Entry
	paths  []string // "a/b" relative schema paths, choice/case omitted
	shadow []string
}

func isDir(e *yang.Entry) bool { return e.Dir != nil || e.Kind == yang.DirectoryEntry }

// expectedFields is the harness's own implementation of the documented mapping from a schema directory to the
// fields of its struct (docs/design.md "OpenConfig Path Compression" and the comment on genutil.FindAllChildren):
//
//	uncompressed: every child data node (choice/case skipped) is one field with path <name>;
//	compressed:   children of the containers "config" and "state" are hoisted (path config/<n>, state/<n>); when a
//	              name exists under both, the prioritised container wins (config, or state under
//	              prefer_operational_state) and the other path becomes the shadow path; a directory whose only
//	              child is a list is skipped (path <dir>/<list>); choice/case are skipped; in a list a direct child
//	              leaf of type leafref (the key, pointing at config/<key>) is merged into the hoisted leaf of the
//	              same name, which gains the path <key>;
//	exclude_state: config false nodes are dropped.
func expectedFields(e *yang.Entry, f fam.Flags) ([]*expField, []string) {
	var notes []string
	if f.ExcludeState && readOnly(e) {
		return nil, nil
	}
	var out []*expField
	if !f.Compress {
		for _, c := range dataChildren(e) {
			if f.ExcludeState && readOnly(c) {
				continue
			}
			out = append(out, &expField{node: c, paths: []string{c.Name}})
		}
		return out, nil
	}
	prio, deprio := "config", "state"
	if f.PreferOpState {
		prio, deprio = "state", "config"
	}
	byName := map[string]*expField{}
	add := func(x *expField) {
		if old, dup := byName[x.node.Name]; dup {
			notes = append(notes, fmt.Sprintf("two compressed children are called %q (%s and %s): outside the OpenConfig conventions", x.node.Name, old.paths[0], x.paths[0]))
			return
		}
		byName[x.node.Name] = x
		out = append(out, x)
	}
	var names []string
	for n := range e.Dir {
		names = append(names, n)
	}
	sort.Strings(names)
	hoist := func(cn string, prioritised bool) {
		c, ok := e.Dir[cn]
		if !ok || !isDir(c) || isChoiceCase(c) {
			return
		}
		if f.ExcludeState && readOnly(c) {
			return
		}
		for _, gc := range dataChildren(c) {
			p := cn + "/" + gc.Name
			if old, dup := byName[gc.Name]; dup && !prioritised && strings.HasPrefix(old.paths[0], prio+"/") {
				old.shadow = append(old.shadow, p)
				continue
			}
			add(&expField{node: gc, paths: []string{p}})
		}
	}
	hoist(prio, true)
	hoist(deprio, false)
	var keyLeaves []*yang.Entry
	for _, n := range names {
		c := e.Dir[n]
		if c.RPC != nil || c.Kind == yang.NotificationEntry {
			continue
		}
		if (n == "config" || n == "state") && isDir(c) && !isChoiceCase(c) {
			continue
		}
		if f.ExcludeState && readOnly(c) {
			continue
		}
		switch {
		case isChoiceCase(c):
			for _, d := range dataChildren(c) {
				if f.ExcludeState && readOnly(d) {
					continue
				}
				add(&expField{node: d, paths: []string{d.Name}})
			}
		case isDir(c):
			var only []*yang.Entry
			for _, g := range c.Dir {
				only = append(only, g)
			}
			if len(only) == 1 && only[0].IsList() {
				if f.ExcludeState && readOnly(only[0]) {
					continue
				}
				add(&expField{node: only[0], paths: []string{c.Name + "/" + only[0].Name}})
			} else {
				add(&expField{node: c, paths: []string{c.Name}})
			}
		default:
			if e.IsList() && c.Type != nil && c.Type.Kind == yang.Yleafref {
				keyLeaves = append(keyLeaves, c)
				continue
			}
			add(&expField{node: c, paths: []string{c.Name}})
		}
	}
	for _, k := range keyLeaves {
		x, ok := byName[k.Name]
		if !ok {
			notes = append(notes, fmt.Sprintf("list %s has a direct leafref leaf %q without a config/state leaf of that name: outside the OpenConfig conventions", e.Name, k.Name))
			continue
		}
		x.paths = append(x.paths, k.Name)
		if len(x.shadow) > 0 {
			x.shadow = append(x.shadow, k.Name)
		}
	}
	return out, notes
}

var (
	goEnumType       = reflect.TypeOf((*ygot.GoEnum)(nil)).Elem()
	goOrderedMapType = reflect.TypeOf((*ygot.GoOrderedMap)(nil)).Elem()
)

// goClass classifies a field type of a generated struct.
func goClass(t reflect.Type) string {
	switch t.Kind() {
	case reflect.Ptr:
		if t.Elem().Kind() == reflect.Struct {
			if t.Implements(goOrderedMapType) {
				return "ordered-map"
			}
			return "struct-ptr"
		}
		return "scalar-ptr"
	case reflect.Map:
		return "map"
	case reflect.Slice:
		if t.Elem().Kind() == reflect.Uint8 && t.Name() != "" {
			return "binary"
		}
		if t.Elem().Kind() == reflect.Ptr && t.Elem().Elem().Kind() == reflect.Struct {
			return "struct-slice"
		}
		return "slice"
	case reflect.Interface:
		return "union"
	case reflect.Int64:
		if t.Implements(goEnumType) {
			return "enum"
		}
	case reflect.Bool:
		if t.Name() == "YANGEmpty" {
			return "empty"
		}
	}
	return "other(" + t.String() + ")"
}

// scalarName names the Go representation of a leaf value for the documented type table.
func scalarName(t reflect.Type) string {
	switch c := goClass(t); c {
	case "enum", "union", "binary", "empty":
		return c
	}
	if t.Name() != "" && t.PkgPath() != "" { // a named non-builtin type that is none of the above
		return "named(" + t.Name() + ")"
	}
	return t.Kind().String()
}

func stripPrefix(s string) string {
	if i := strings.Index(s, ":"); i >= 0 {
		return s[i+1:]
	}
	return s
}

// leafrefTarget resolves the path of a leafref in the embedded schema tree (prefixes ignored, choice/case skipped).
func leafrefTarget(n *yang.Entry, path string) *yang.Entry {
	cur := n
	parts := strings.Split(path, "/")
	if strings.HasPrefix(path, "/") {
		for cur.Parent != nil {
			cur = cur.Parent
		}
		parts = parts[1:]
	}
	dataParent := func(e *yang.Entry) *yang.Entry {
		p := e.Parent
		for p != nil && isChoiceCase(p) {
			p = p.Parent
		}
		return p
	}
	for _, p := range parts {
		if i := strings.Index(p, "["); i >= 0 {
			p = p[:i]
		}
		switch p = stripPrefix(p); p {
		case "", ".":
		case "..":
			cur = dataParent(cur)
		default:
			if cur.Dir == nil {
				return nil
			}
			cur = childByName(cur, p)
		}
		if cur == nil {
			return nil
		}
	}
	return cur
}

// expectedScalar returns the Go representation docs/design.md ("Mapping of YANG Types to Go Types") gives a
// leaf type, or "" where the table leaves it open (bits, unresolvable leafref).
func expectedScalar(n *yang.Entry, t *yang.YangType, depth int) string {
	if t == nil || depth > 8 {
		return ""
	}
	switch t.Kind {
	case yang.Yint8, yang.Yint16, yang.Yint32, yang.Yint64, yang.Yuint8, yang.Yuint16, yang.Yuint32, yang.Yuint64:
		return yang.TypeKindToName[t.Kind]
	case yang.Ystring:
		return "string"
	case yang.Ybool:
		return "bool"
	case yang.Ydecimal64:
		return "float64"
	case yang.Yempty:
		return "empty"
	case yang.Ybinary:
		return "binary"
	case yang.Yenum, yang.Yidentityref:
		return "enum"
	case yang.Yleafref:
		tg := leafrefTarget(n, t.Path)
		if tg == nil || tg.Type == nil {
			return ""
		}
		return expectedScalar(tg, tg.Type, depth+1)
	case yang.Yunion:
		set := map[string]bool{}
		var flat func(ts []*yang.YangType) bool
		flat = func(ts []*yang.YangType) bool {
			for _, m := range ts {
				if m.Kind == yang.Yunion {
					if !flat(m.Type) {
						return false
					}
					continue
				}
				x := expectedScalar(n, m, depth+1)
				if x == "" {
					return false
				}
				if x == "enum" { // two enumerated members are different Go types
					x = fmt.Sprintf("enum%d", len(set))
				}
				set[x] = true
			}
			return true
		}
		if !flat(t.Type) {
			return ""
		}
		if len(set) == 1 {
			for k := range set {
				if strings.HasPrefix(k, "enum") {
					return "enum"
				}
				return k
			}
		}
		return "union"
	}
	return ""
}

type c26 struct {
	p     *reg.Pkg
	f     fam.Flags
	src   *Source
	tree  map[string]*yang.Entry
	seen  map[reflect.Type]bool
	viols []Viol
	st    Stats
	notes map[string]bool
}

func (c *c26) bad(clause, format string, a ...interface{}) {
	c.viols = append(c.viols, Viol{Clause: clause, Detail: fmt.Sprintf(format, a...)})
}

func splitPaths(tag string) [][]string {
	if tag == "" {
		return nil
	}
	var out [][]string
	for _, p := range strings.Split(tag, "|") {
		out = append(out, strings.Split(strings.Trim(p, "/"), "/"))
	}
	return out
}

func joinPaths(ps [][]string) []string {
	var out []string
	for _, p := range ps {
		out = append(out, strings.Join(p, "/"))
	}
	sort.Strings(out)
	return out
}

func hasPresence(e *yang.Entry) bool {
	_, ok := e.Extra["presence"]
	return ok
}

func yangKind(e *yang.Entry) string {
	switch {
	case e.IsLeafList():
		return "leaf-list"
	case e.IsLeaf():
		return "leaf"
	case e.IsList() && e.Key != "":
		return "keyed-list"
	case e.IsList():
		return "unkeyed-list"
	case e.IsContainer():
		return "container"
	case e.IsChoice():
		return "choice"
	case e.IsCase():
		return "case"
	}
	return fmt.Sprintf("kind%d", e.Kind)
}

// CheckC26 walks the generated structs from the fake root together with the schema tree the package embeds.
func CheckC26(p *reg.Pkg, f fam.Flags, src *Source) ([]Viol, Stats, []string) {
	c := &c26{p: p, f: f, src: src, seen: map[reflect.Type]bool{}, notes: map[string]bool{}}
	tree, err := p.Unzip()
	if err != nil {
		c.bad("unzip-error", "UnzipSchema: %v", err)
		return c.viols, c.st, nil
	}
	c.tree = tree
	root := tree[p.Root.Name()]
	if root == nil {
		c.bad("root-struct-not-in-schema", "UnzipSchema() has no entry for the fake root struct %s", p.Root.Name())
		return c.viols, c.st, nil
	}
	c.walk(p.Root, root, "")
	for name := range tree {
		found := false
		for t := range c.seen {
			if t.Name() == name {
				found = true
			}
		}
		if !found {
			c.bad("schema-struct-unreachable", "UnzipSchema() maps struct name %s but no such struct is reachable from the fake root", name)
		}
	}
	var notes []string
	for n := range c.notes {
		notes = append(notes, n)
	}
	sort.Strings(notes)
	return c.viols, c.st, notes
}

func (c *c26) walk(t reflect.Type, e *yang.Entry, where string) {
	if c.seen[t] {
		return
	}
	c.seen[t] = true
	c.st.Structs++
	if sn, _ := e.Annotation["structname"].(string); sn != t.Name() {
		c.bad("structname-annotation", "%s: struct %s is mapped to a schema node whose structname annotation is %q", where, t.Name(), sn)
	}
	if got := c.tree[t.Name()]; got != e {
		c.bad("structname-annotation", "%s: UnzipSchema()[%s] is not the node the field tags lead to", where, t.Name())
	}
	exp, notes := expectedFields(e, c.f)
	for _, n := range notes {
		c.notes[n] = true
	}
	if len(notes) > 0 {
		// the directory is outside the documented conventions: its field set is not judged
		c.st.Excluded++
		exp = nil
	}
	used := map[*yang.Entry]int{}
	type fieldInfo struct {
		sf    reflect.StructField
		paths [][]string
		nodes []*yang.Entry
	}
	var fields []fieldInfo
	for i := 0; i < t.NumField(); i++ {
		sf := t.Field(i)
		if sf.Tag.Get("ygotAnnotation") != "" {
			continue
		}
		c.st.Fields++
		fw := where + "/" + t.Name() + "." + sf.Name
		pt, ok := sf.Tag.Lookup("path")
		if !ok || pt == "" {
			c.bad("field-without-path", "%s has no path tag", fw)
			continue
		}
		fi := fieldInfo{sf: sf, paths: splitPaths(pt)}
		resolved := true
		for _, p := range fi.paths {
			n := resolvePath(e, p)
			if n == nil {
				c.bad("tag-unresolved", "%s: path %q does not resolve in the embedded schema below %s", fw, strings.Join(p, "/"), e.Name)
				resolved = false
				continue
			}
			fi.nodes = append(fi.nodes, n)
		}
		if !resolved || len(fi.nodes) == 0 {
			continue
		}
		n := fi.nodes[0]
		used[n]++
		fields = append(fields, fi)
		c.checkModules(fw, e, sf, fi.paths, "module")
		c.checkKind(fw, sf, n)
		// shadow paths resolve too, and name the same leaf name
		if sp := sf.Tag.Get("shadow-path"); sp != "" {
			for _, p := range splitPaths(sp) {
				if sn := resolvePath(e, p); sn == nil {
					c.bad("tag-unresolved", "%s: shadow-path %q does not resolve in the embedded schema", fw, strings.Join(p, "/"))
				} else if sn.Name != n.Name {
					c.bad("shadow-path", "%s: shadow-path %q names node %s, the field is %s", fw, strings.Join(p, "/"), sn.Name, n.Name)
				}
			}
			c.checkModules(fw, e, sf, splitPaths(sp), "shadow-module")
		}
		if c.f.Presence {
			want := n.IsContainer() && hasPresence(n)
			if got := sf.Tag.Get("yangPresence") == "true"; got != want {
				c.bad("presence-tag", "%s: yangPresence tag is %v, the schema node %s has presence=%v", fw, got, n.Name, want)
			}
		}
	}
	if exp != nil || len(notes) == 0 {
		expBy := map[*yang.Entry]*expField{}
		for _, x := range exp {
			expBy[x.node] = x
			c.st.Nodes++
			switch used[x.node] {
			case 1:
			case 0:
				c.bad("missing-field("+yangKind(x.node)+")", "%s: struct %s has no field for schema node %s (expected path %s) under %s", where, t.Name(), x.node.Name, strings.Join(x.paths, "|"), c.f.Behaviour())
			default:
				c.bad("duplicate-field", "%s: struct %s has %d fields for schema node %s", where, t.Name(), used[x.node], x.node.Name)
			}
		}
		for _, fi := range fields {
			x := expBy[fi.nodes[0]]
			fw := where + "/" + t.Name() + "." + fi.sf.Name
			if x == nil {
				c.bad("unexpected-field("+yangKind(fi.nodes[0])+")", "%s (path %s) maps a schema node that is not a child of %s under %s", fw, fi.sf.Tag.Get("path"), e.Name, c.f.Behaviour())
				continue
			}
			want := append([]string{}, x.paths...)
			sort.Strings(want)
			if got := joinPaths(fi.paths); strings.Join(got, "|") != strings.Join(want, "|") {
				c.bad("path-set", "%s: path tag %q, expected the paths %v under %s", fw, fi.sf.Tag.Get("path"), want, c.f.Behaviour())
			}
			if c.f.IgnoreShadow {
				ws := append([]string{}, x.shadow...)
				sort.Strings(ws)
				if got := joinPaths(splitPaths(fi.sf.Tag.Get("shadow-path"))); strings.Join(got, "|") != strings.Join(ws, "|") {
					c.bad("shadow-path", "%s: shadow-path tag %q, expected %v under %s", fw, fi.sf.Tag.Get("shadow-path"), ws, c.f.Behaviour())
				}
			}
		}
	}
	// recurse
	for _, fi := range fields {
		n := fi.nodes[0]
		var et reflect.Type
		ft := fi.sf.Type
		switch goClass(ft) {
		case "struct-ptr":
			et = ft.Elem()
		case "map":
			if ft.Elem().Kind() == reflect.Ptr && ft.Elem().Elem().Kind() == reflect.Struct {
				et = ft.Elem().Elem()
			}
		case "struct-slice":
			et = ft.Elem().Elem()
		case "ordered-map":
			if vm, ok := ft.Elem().FieldByName("valueMap"); ok && vm.Type.Kind() == reflect.Map && vm.Type.Elem().Kind() == reflect.Ptr {
				et = vm.Type.Elem().Elem()
			}
		}
		if et != nil && et.Kind() == reflect.Struct && isDir(n) {
			c.walk(et, n, where+"/"+n.Name)
		}
	}
}

// checkModules compares the module tag with the module each path element belongs to according to goyang.
func (c *c26) checkModules(fw string, e *yang.Entry, sf reflect.StructField, paths [][]string, tag string) {
	mt, ok := sf.Tag.Lookup(tag)
	if !ok {
		c.bad("module-tag", "%s has no %s tag", fw, tag)
		return
	}
	mods := splitPaths(mt)
	if len(mods) != len(paths) {
		c.bad("module-tag", "%s: %s tag %q has %d alternatives, the path tag has %d", fw, tag, mt, len(mods), len(paths))
		return
	}
	for i, p := range paths {
		if len(mods[i]) != len(p) {
			c.bad("module-tag", "%s: %s tag %q does not have one module per element of path %q", fw, tag, mt, strings.Join(p, "/"))
			continue
		}
		if c.src == nil {
			continue
		}
		cur := e
		for j, el := range p {
			cur = childByName(cur, el)
			if cur == nil {
				break
			}
			want, known := c.src.ModuleOf(schemaPathOf(cur))
			if known && want != mods[i][j] {
				c.bad("module-tag", "%s: element %q of path %q is tagged module %q, goyang places it in module %q", fw, el, strings.Join(p, "/"), mods[i][j], want)
			}
		}
	}
}

// schemaPathOf returns the data path of an embedded schema node from the fake root (choice/case omitted).
func schemaPathOf(e *yang.Entry) string {
	var parts []string
	for ; e != nil && e.Parent != nil; e = e.Parent {
		if !isChoiceCase(e) {
			parts = append([]string{e.Name}, parts...)
		}
	}
	return "/" + strings.Join(parts, "/")
}

func (c *c26) checkKind(fw string, sf reflect.StructField, n *yang.Entry) {
	ft := sf.Type
	gc := goClass(ft)
	yk := yangKind(n)
	mismatch := func() {
		c.bad("kind-mismatch("+yk+"->"+strings.SplitN(gc, "(", 2)[0]+")", "%s has Go type %s but the schema node %s is a %s", fw, ft, n.Name, yk)
	}
	switch yk {
	case "leaf":
		switch gc {
		case "scalar-ptr", "enum", "union", "binary", "empty":
		default:
			mismatch()
			return
		}
		vt := ft
		if gc == "scalar-ptr" {
			vt = ft.Elem()
		}
		c.checkScalar(fw, vt, n)
	case "leaf-list":
		if gc != "slice" {
			mismatch()
			return
		}
		c.checkScalar(fw, ft.Elem(), n)
	case "container":
		if gc != "struct-ptr" {
			mismatch()
		}
	case "unkeyed-list":
		if gc != "struct-slice" {
			mismatch()
		}
	case "keyed-list":
		ordered := n.ListAttr != nil && n.ListAttr.OrderedByUser
		var kt, et reflect.Type
		switch gc {
		case "map":
			kt = ft.Key()
			if ft.Elem().Kind() != reflect.Ptr || ft.Elem().Elem().Kind() != reflect.Struct {
				mismatch()
				return
			}
			et = ft.Elem().Elem()
			if ordered && c.f.OrderedMaps {
				c.bad("ordered-representation", "%s: ordered-by user list %s is a plain Go map although generate_ordered_maps is set", fw, n.Name)
			}
		case "ordered-map":
			ks, ok1 := ft.Elem().FieldByName("keys")
			vm, ok2 := ft.Elem().FieldByName("valueMap")
			if !ok1 || !ok2 || ks.Type.Kind() != reflect.Slice || vm.Type.Kind() != reflect.Map || vm.Type.Elem().Kind() != reflect.Ptr {
				c.bad("ordered-map-shape", "%s: ordered map type %s lacks keys []K / valueMap map[K]*V", fw, ft)
				return
			}
			kt, et = vm.Type.Key(), vm.Type.Elem().Elem()
			if ks.Type.Elem() != kt {
				c.bad("key-type", "%s: ordered map keys are %s but the value map is keyed by %s", fw, ks.Type.Elem(), kt)
			}
			if !ordered || !c.f.OrderedMaps {
				c.bad("ordered-representation", "%s: list %s (ordered-by user=%v, generate_ordered_maps=%v) is an ordered map", fw, n.Name, ordered, c.f.OrderedMaps)
			}
		default:
			mismatch()
			return
		}
		c.checkKey(fw, n, kt, et)
	default:
		c.bad("kind-mismatch("+yk+")", "%s maps schema node %s of kind %s", fw, n.Name, yk)
	}
}

// checkKey compares the Go key type with the key leaves of the list's entry struct, in the order of the key statement.
func (c *c26) checkKey(fw string, n *yang.Entry, kt, et reflect.Type) {
	keys := strings.Fields(n.Key)
	var kts []reflect.Type
	for _, k := range keys {
		var found *reflect.StructField
		for i := 0; i < et.NumField(); i++ {
			sf := et.Field(i)
			if sf.Tag.Get("ygotAnnotation") != "" {
				continue
			}
			for _, p := range splitPaths(sf.Tag.Get("path")) {
				if len(p) == 1 && p[0] == k {
					x := sf
					found = &x
				}
			}
		}
		if found == nil {
			c.bad("key-leaf-missing", "%s: entry struct %s has no field with path %q for key leaf of list %s", fw, et.Name(), k, n.Name)
			return
		}
		t := found.Type
		if t.Kind() == reflect.Ptr {
			t = t.Elem()
		}
		kts = append(kts, t)
	}
	if len(keys) == 1 {
		if kt != kts[0] {
			c.bad("key-type", "%s: list %s is keyed by Go type %s but its key leaf %s has type %s", fw, n.Name, kt, keys[0], kts[0])
		}
		return
	}
	if kt.Kind() != reflect.Struct || kt.NumField() != len(keys) {
		c.bad("key-type", "%s: list %s has %d keys but the Go key type is %s", fw, n.Name, len(keys), kt)
		return
	}
	for i := range keys {
		kf := kt.Field(i)
		if kf.Type != kts[i] {
			c.bad("key-type", "%s: key struct field %s.%s has type %s, key leaf %s has type %s", fw, kt.Name(), kf.Name, kf.Type, keys[i], kts[i])
		}
		if pt, ok := kf.Tag.Lookup("path"); ok && pt != keys[i] {
			c.bad("key-type", "%s: key struct field %s.%s is tagged path %q, the %d. key of the list is %s", fw, kt.Name(), kf.Name, pt, i+1, keys[i])
		}
	}
}

func (c *c26) checkScalar(fw string, vt reflect.Type, n *yang.Entry) {
	want := expectedScalar(n, n.Type, 0)
	if want == "" {
		c.st.Excluded++
		return
	}
	if got := scalarName(vt); got != want {
		tn := ""
		if n.Type != nil {
			tn = yang.TypeKindToName[n.Type.Kind]
		}
		c.bad("leaf-gotype("+tn+")", "%s: value type %s (%s) but a %s leaf maps to %s (docs/design.md type table)", fw, vt, got, tn, want)
	}
}
