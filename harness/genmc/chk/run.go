package chk

import (
	"fmt"
	"os"
	"path/filepath"
	"regexp"
	"sort"
	"strings"
	"sync"

	"github.com/openconfig/ygot/zzverif/core"
	"github.com/openconfig/ygot/zzverif/genmc/fam"
	"github.com/openconfig/ygot/zzverif/genmc/mf"
)

// caseViol is a violation found for one case before signatures are formed.
type caseViol struct {
	c *mf.Case
	v Viol
}

// replayCase is what is written into a replay file: everything needed to regenerate the one package.
type replayCase struct {
	Case    fam.Case    `json:"case"`
	Schema  *fam.Schema `json:"schema"`
	Inputs  []string    `json:"corpus_inputs,omitempty"`
	Paths   []string    `json:"corpus_paths,omitempty"`
	Exclude []string    `json:"exclude_modules,omitempty"`
	Command string      `json:"generator_command"`
	Clause  string      `json:"clause"`
}

func behShort(f fam.Flags) string {
	switch f.Behaviour() {
	case "Uncompressed":
		return "u"
	case "UncompressedExcludeDerivedState":
		return "ux"
	case "PreferIntendedConfig":
		return "c"
	case "ExcludeDerivedState":
		return "cx"
	}
	return "co"
}

var (
	reErrClass = []struct {
		re  *regexp.Regexp
		cls string
	}{
		{regexp.MustCompile(`redeclared`), "redeclared"},
		{regexp.MustCompile(`field and method with the same name`), "field-and-method"},
		{regexp.MustCompile(`duplicate (field|method|case|key|argument)`), "duplicate"},
		{regexp.MustCompile(`already declared|method .* already declared`), "redeclared"},
		{regexp.MustCompile(`syntax error|expected `), "syntax"},
		{regexp.MustCompile(`undefined:`), "undefined"},
		{regexp.MustCompile(`cannot use|mismatched types|invalid operation`), "type-error"},
		{regexp.MustCompile(`declared and not used|imported and not used`), "unused"},
		{regexp.MustCompile(`missing return`), "missing-return"},
	}
	reVetAnalyzer = regexp.MustCompile(`(?m)^.*\.go:\d+:\d+: (.*)$`)
)

func compileClass(msg string) string {
	for _, l := range strings.Split(msg, "\n") {
		if !strings.Contains(l, ".go:") {
			continue
		}
		for _, rc := range reErrClass {
			if rc.re.MatchString(l) {
				return rc.cls
			}
		}
		return "other"
	}
	return "other"
}

func vetClass(msg string) string {
	m := reVetAnalyzer.FindStringSubmatch(msg)
	if m == nil {
		return "other"
	}
	t := m[1]
	switch {
	case strings.Contains(t, "redeclared"), strings.Contains(t, "field and method"), strings.Contains(t, "undefined"):
		return "typecheck"
	case strings.Contains(t, "composite literal"):
		return "composites"
	case strings.Contains(t, "copies lock") || strings.Contains(t, "passes lock"):
		return "copylocks"
	case strings.Contains(t, "self-assignment"):
		return "assign"
	case strings.Contains(t, "unreachable code"):
		return "unreachable"
	case strings.Contains(t, "struct field tag"):
		return "structtag"
	case strings.Contains(t, "result of") && strings.Contains(t, "not used"):
		return "unusedresult"
	case strings.Contains(t, "possible misuse") || strings.Contains(t, "Printf") || strings.Contains(t, "format %"):
		return "printf"
	}
	return "other"
}

// genErrClass abstracts a generator error message to a stable word.
func genErrClass(msg string) string {
	switch {
	case strings.Contains(msg, "duplicate"):
		return "duplicate"
	case strings.Contains(msg, "binary"):
		return "binary-key"
	case strings.Contains(msg, "unsupported") || strings.Contains(msg, "unimplemented"):
		return "unsupported"
	case strings.Contains(msg, "could not resolve") || strings.Contains(msg, "cannot find") || strings.Contains(msg, "not found"):
		return "unresolved"
	case strings.Contains(msg, "nil pointer") || strings.Contains(msg, "index out of range"):
		return "runtime-error"
	}
	return "other"
}

// FoundViol is one violated clause of one case (index into Manifest.Cases).
type FoundViol struct {
	Case   int    `json:"case"`
	Clause string `json:"clause"`
	Detail string `json:"detail"`
}

// Partial is what one reflection binary (one shard of the compiled packages) contributes.
type Partial struct {
	Counters   map[string]int64 `json:"counters"`
	Outcomes   map[string]int64 `json:"outcomes"`
	NonTrivial []string         `json:"nontrivial"`
	Found      []FoundViol      `json:"found"`
	Stats      map[int]Stats    `json:"stats"` // per fully processed case
}

type recorder struct {
	mu sync.Mutex
	p  *Partial
}

func (r *recorder) add(k string, n int64) { r.mu.Lock(); r.p.Counters[k] += n; r.mu.Unlock() }
func (r *recorder) outcome(k string)      { r.mu.Lock(); r.p.Outcomes[k]++; r.mu.Unlock() }
func (r *recorder) nontrivial(k string) {
	r.mu.Lock()
	r.p.NonTrivial = append(r.p.NonTrivial, k)
	r.mu.Unlock()
}

// Evaluate judges the cases whose generated package is linked into this binary (shard); cases without a
// compiled package (generator error, compile error, not compiled) are judged by shard 0.
func Evaluate(prop string, m *mf.Manifest, shard int) *Partial {
	rec := &recorder{p: &Partial{Counters: map[string]int64{}, Outcomes: map[string]int64{}, Stats: map[int]Stats{}}}
	srcCache := sync.Map{}
	source := func(cs *mf.Case) *Source {
		if v, ok := srcCache.Load(cs.SchemaID); ok {
			return v.(*Source)
		}
		s := Compile(cs.Inputs, cs.Paths, cs.Exclude)
		srcCache.Store(cs.SchemaID, s)
		return s
	}

	index := map[*mf.Case]int{}
	for i, cs := range m.Cases {
		index[cs] = i
	}
	add := func(cs *mf.Case, clause, detail string) {
		rec.mu.Lock()
		rec.p.Found = append(rec.p.Found, FoundViol{Case: index[cs], Clause: clause, Detail: detail})
		rec.mu.Unlock()
	}
	core.ParallelFor(len(m.Cases), func(i int) {
		cs := m.Cases[i]
		s := m.Schemas[cs.SchemaID]
		if mine := m.ShardOf[cs.CodePkg()]; mine != shard { // cases without a linked package belong to shard 0
			return
		}
		rec.add("states", 1)
		rec.add("evaluations", 1)
		rec.add("transitions", 1) // schema + flags -> generator
		if cs.Cross != "" {
			rec.add("crosschecked_against_generator_binary", 1)
			if strings.HasPrefix(cs.Cross, "nondeterministic") {
				rec.outcome("crosscheck-not-assessable(generator output differs between identical runs: C25 matter)")
			} else if cs.Cross != "same" && prop == "C26" {
				add(cs, "harness-generation-differs-from-binary", "in-process generation and the generator binary disagree: "+cs.Cross)
			}
		}
		if cs.GenStatus != "ok" {
			rec.outcome("generator-" + cs.GenStatus)
			switch doc := mf.DocumentedError(cs.GenMsg); {
			case doc != "" && cs.GenStatus == "error":
				rec.outcome("excluded-documented-unsupported:" + doc)
			case prop == "C26":
				add(cs, "generator-"+cs.GenStatus+"("+genErrClass(cs.GenMsg)+")", "the generator returned "+cs.GenStatus+" for a schema of the supported subset: "+trunc(cs.GenMsg, 600))
			default:
				rec.outcome("excluded-not-generated(C26 matter)")
			}
			return
		}
		if s != nil && s.Unsupported != "" {
			rec.outcome("documented-unsupported-but-generated")
		}
		switch cs.Build.Status {
		case "skipped", "":
			rec.outcome("not-compiled(deadline)")
			return
		case "fail":
			rec.add("transitions", 1)
			rec.outcome("compile-failed")
			if prop == "C26" {
				add(cs, "compile-error("+compileClass(cs.Build.Msg)+")", "the generator reported no error but the package does not compile: "+trunc(cs.Build.Msg, 700))
			} else {
				rec.outcome("excluded-not-compiled(C26 matter)")
			}
			return
		}
		rec.add("transitions", 1) // generated code -> compiled package
		if prop == "C26" {
			switch cs.Vet.Status {
			case "fail":
				rec.add("transitions", 1)
				rec.outcome("vet-failed")
				add(cs, "vet("+vetClass(cs.Vet.Msg)+")", "go vet reports: "+trunc(cs.Vet.Msg, 700))
			case "ok":
				rec.add("transitions", 1)
				rec.outcome("vet-clean")
			default:
				rec.outcome("vet-not-run")
			}
		}
		p := Reg(cs.CodePkg())
		if p == nil {
			fmt.Fprintf(os.Stderr, "ERROR genmc: package %s compiled but is not linked into the reflection binary\n", cs.CodePkg())
			os.Exit(2)
		}
		src := source(cs)
		if src.Err != nil {
			fmt.Fprintf(os.Stderr, "ERROR genmc: goyang cannot compile %s although the generator could: %v\n", cs.SchemaID, src.Err)
			os.Exit(2)
		}
		rec.add("transitions", 1) // compiled package -> reflection
		var vs []Viol
		var st Stats
		if prop == "C26" {
			var notes []string
			vs, st, notes = CheckC26(p, cs.Flags, src)
			for range notes {
				rec.outcome("excluded-directory-outside-openconfig-conventions")
			}
			rec.add("struct_fields_checked", int64(st.Fields))
			rec.add("structs_checked", int64(st.Structs))
			rec.add("schema_nodes_expected_as_fields", int64(st.Nodes))
			rec.add("leaf_types_left_open_by_the_type_table", int64(st.Excluded))
		} else {
			var white map[string]int
			vs, st, white = CheckC27(p, cs.Flags, src)
			rec.add("schema_nodes_compared", int64(st.Nodes))
			for k, n := range white {
				rec.add("whitelisted:"+k, int64(n))
			}
		}
		if cs.DupOf == "" {
			rec.add("traces_validated_against_impl", 1)
			rec.nontrivial(cs.SchemaID + "|" + cs.Hash)
		}
		if len(vs) == 0 {
			rec.outcome("conforms")
		} else {
			rec.outcome("violates")
		}
		seenClause := map[string]bool{}
		for _, v := range vs {
			if seenClause[v.Clause] {
				continue // one per clause and case is enough for the signature; the detail names the first node
			}
			seenClause[v.Clause] = true
			add(cs, v.Clause, v.Detail)
		}
		rec.mu.Lock()
		rec.p.Stats[i] = st
		rec.mu.Unlock()
	})
	sort.Slice(rec.p.Found, func(i, j int) bool {
		a, b := rec.p.Found[i], rec.p.Found[j]
		if a.Case != b.Case {
			return a.Case < b.Case
		}
		return a.Clause < b.Clause
	})
	return rec.p
}

// Report merges the partial results, forms the signatures and hands everything to the reporter.
func Report(prop string, m *mf.Manifest, parts []*Partial, c *core.Ctx) {
	r := c.R
	c.Level = "model_checking"
	if prop == "C26" {
		c.Rule = "genmc: bounded-exhaustive family of YANG schemas = fixed skeleton (generic G / OpenConfig-style O) + feature atoms (" +
			fmt.Sprint(len(fam.Atoms())) + " atoms; quick: <=1 atom at nesting position 1 or 2, thorough: also all pairs of atoms) x generator flag combinations (single atoms: pairwise-complete over 14 flags and the position, " +
			"thorough adds the full product of the 4 representation-changing flags; pairs: product of simple-unions/ordered-maps where relevant), plus the repository's YANG corpus; every state = one (schema, configuration) handed to the generator library of the tree under test; " +
			"non-trivial = a distinct generated package (content hash) that compiled and whose structs were walked against UnzipSchema()"
	} else {
		c.Rule = "genmc: same schema family and corpus as C26; every state = one (schema, configuration); the schema embedded in the compiled package (UnzipSchema) is walked in lock-step with " +
			"the harness's own goyang compilation of the same YANG; non-trivial = a distinct generated package whose embedded schema was compared node by node"
	}
	r.Assume("goyang's parser and ToEntry are the source of schema facts (trusted); Go reflect and go build/go vet are trusted")
	r.Assume("the family is bounded: schemas outside skeleton+<=2 atoms and flag combinations outside the stated covering are not examined (the property's 'randomly generated modules' is narrowed to this bounded-exhaustive family)")
	r.Assume("two-atom schemas vary only those representation flags that their syntax can react to or that changed the generated code of one of their atoms alone (measured by the probes of this run); a flag that matters only for the combination of two atoms would be missed")
	for _, cp := range m.Capped {
		r.Capped(cp)
	}
	for k, v := range m.Notes {
		r.Note(k, v)
	}
	// probes of the relevance reduction (made on the single-atom schemas by the generation phase): a flag that
	// changed the output although the schema's syntax did not suggest it is treated as relevant for every pair
	// containing the atom
	bad := 0
	for _, p := range m.Probes {
		switch {
		case p.Msg == "nondeterministic":
			r.Outcome("probe-not-assessable(generator output differs between identical runs)")
		case p.Relevant:
			bad++
			r.Outcome("probe: flag changes the output unexpectedly -> varied in pairs with this atom")
		default:
			r.Outcome("probe: flag leaves the output unchanged")
		}
	}
	r.Note("relevance_probes", len(m.Probes))
	r.Note("relevance_probes_flag_relevant_beyond_syntax", bad)

	var found []caseViol
	stats := map[int]Stats{}
	for _, p := range parts {
		for k, n := range p.Counters {
			r.Add(k, n)
		}
		for k, n := range p.Outcomes {
			for i := int64(0); i < n; i++ {
				r.Outcome(k)
			}
		}
		for _, k := range p.NonTrivial {
			r.NonTrivial(k)
		}
		for _, f := range p.Found {
			found = append(found, caseViol{m.Cases[f.Case], Viol{f.Clause, f.Detail}})
		}
		for i, st := range p.Stats {
			stats[i] = st
		}
	}
	// samples: the first fully processed case of each kind (in enumeration order), written out with its YANG
	sampled := map[string]bool{}
	for i, cs := range m.Cases {
		if _, done := stats[i]; !done {
			continue
		}
		s := m.Schemas[cs.SchemaID]
		key := cs.Kind
		if s != nil {
			key += s.Skel + fmt.Sprint(len(s.Atoms))
		}
		if sampled[key] {
			continue
		}
		sampled[key] = true
		st := stats[i]
		smp := map[string]interface{}{"case": cs.ID, "flags": cs.Flags.String(), "generated_lines": cs.Lines, "structs_walked": st.Structs, "fields_checked": st.Fields, "schema_nodes": st.Nodes,
			"generator_status": cs.GenStatus, "build": cs.Build.Status, "vet": cs.Vet.Status}
		if s != nil && len(s.Files) > 0 && len(s.Atoms) > 0 {
			smp["yang"] = s.Files[0].Text
		} else if len(cs.Inputs) > 0 {
			smp["yang_files"] = cs.Inputs
		}
		r.Sample(smp)
	}

	// Signatures. Failures of a whole phase (generator error, compile error, vet) are identified by the phase and
	// the atoms: "compile-error:col-enum-fold"; the class of the first error line depends on the flags and is only
	// part of the detail. Reflection clauses are identified by clause, skeleton/compression behaviour and atoms.
	// Cases are reduced to what already fails with fewer atoms: a pair to the atom that fails alone with the same
	// clause, a single atom to the bare skeleton.
	phaseClause := func(cl string) (string, bool) {
		for _, p := range []string{"generator-error", "generator-panic", "compile-error", "vet"} {
			if strings.HasPrefix(cl, p+"(") {
				return p, true
			}
		}
		return cl, false
	}
	ctxOf := func(f caseViol, s *fam.Schema) string {
		cl, phase := phaseClause(f.v.Clause)
		if phase || prop == "C27" { // the embedded schema does not depend on the skeleton style or the flags
			return cl + "|"
		}
		return cl + "|" + s.Skel + "/" + behShort(f.c.Flags)
	}
	alone := map[string]bool{} // context|atom (atom "skeleton" for the bare skeleton)
	for _, f := range found {
		s := m.Schemas[f.c.SchemaID]
		if s == nil || s.Skel == "corpus" {
			continue
		}
		switch len(s.Atoms) {
		case 0:
			alone[ctxOf(f, s)+"|skeleton"] = true
		case 1:
			alone[ctxOf(f, s)+"|"+s.Atoms[0]] = true
		}
	}
	sort.SliceStable(found, func(i, j int) bool {
		a, b := found[i], found[j]
		sa, sb := m.Schemas[a.c.SchemaID], m.Schemas[b.c.SchemaID]
		la, lb := 9, 9
		if sa != nil {
			la = len(sa.Atoms)
		}
		if sb != nil {
			lb = len(sb.Atoms)
		}
		if la != lb {
			return la < lb
		}
		return a.c.ID < b.c.ID
	})
	for _, f := range found {
		s := m.Schemas[f.c.SchemaID]
		cl, phase := phaseClause(f.v.Clause)
		var shape string
		if s != nil && s.Skel != "corpus" {
			atoms := s.Atoms
			cx := ctxOf(f, s)
			if alone[cx+"|skeleton"] {
				atoms = nil
			} else if len(atoms) > 1 {
				var culprits []string
				for _, a := range atoms {
					if alone[cx+"|"+a] {
						culprits = append(culprits, a)
					}
				}
				if len(culprits) > 0 {
					atoms = culprits
				}
			}
			as := "skeleton"
			if len(atoms) > 0 {
				as = strings.Join(atoms, "+")
			}
			if phase || prop == "C27" {
				shape = as
			} else {
				shape = s.Skel + "/" + behShort(f.c.Flags) + ":" + as
			}
		} else if phase || prop == "C27" {
			shape = f.c.SchemaID
		} else {
			shape = f.c.SchemaID + "/" + behShort(f.c.Flags)
		}
		rc := replayCase{Case: f.c.Case, Schema: s, Clause: f.v.Clause, Exclude: f.c.Exclude}
		if f.c.Kind == "corpus" {
			for _, p := range f.c.Inputs {
				rc.Inputs = append(rc.Inputs, relTo(m.Repo, p))
			}
			for _, p := range f.c.Paths {
				rc.Paths = append(rc.Paths, relTo(m.Repo, p))
			}
		}
		var files []string
		if s != nil {
			for _, fl := range s.Files {
				if fl.Generate {
					files = append(files, fl.Name)
				}
			}
		}
		files = append(files, rc.Inputs...)
		rc.Command = "generator " + strings.Join(f.c.Flags.Args(), " ") + " -path=<dir of the yang files> -output_file=x.go -package_name=x " + strings.Join(files, " ")
		r.Violation(cl+":"+shape, fmt.Sprintf("[%s flags=%s] %s", f.c.ID, f.c.Flags.String(), f.v.Detail), rc)
	}
}

func relTo(base, p string) string {
	if rel, err := filepath.Rel(base, p); err == nil && !strings.HasPrefix(rel, "..") {
		return rel
	}
	return p
}

func trunc(s string, n int) string {
	s = strings.TrimSpace(s)
	if len(s) > n {
		return s[:n] + "..."
	}
	return s
}

// Run evaluates and reports in one process (a single reflection binary holds every package).
func Run(prop string, m *mf.Manifest, c *core.Ctx) {
	Report(prop, m, []*Partial{Evaluate(prop, m, 0)}, c)
}
