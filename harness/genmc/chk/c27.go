package chk

import (
	"encoding/json"
	"fmt"
	"reflect"
	"sort"
	"strings"
	"sync"

	"github.com/openconfig/goyang/pkg/yang"
	"github.com/openconfig/ygot/zzverif/genmc/fam"
	"github.com/openconfig/ygot/zzverif/genmc/reg"
)

// Source is the harness's own goyang compilation of the YANG handed to the generator
// (yang.NewModules / Read / Process / ToEntry); it is never modified after Compile.
type Source struct {
	Root    map[string]*yang.Entry // top-level data nodes of all (non-excluded) modules
	nsToMod map[string]string
	Err     error
}

var compileMu sync.Mutex

// Compile parses and processes the input modules.
func Compile(inputs, paths, exclude []string) *Source {
	compileMu.Lock()
	defer compileMu.Unlock()
	s := &Source{Root: map[string]*yang.Entry{}, nsToMod: map[string]string{}}
	ms := yang.NewModules()
	for _, p := range paths {
		ms.AddPath(p + "/...")
	}
	for _, f := range inputs {
		if err := ms.Read(f); err != nil {
			s.Err = err
			return s
		}
	}
	if errs := ms.Process(); len(errs) > 0 {
		s.Err = fmt.Errorf("%v", errs)
		return s
	}
	ex := map[string]bool{}
	for _, e := range exclude {
		ex[e] = true
	}
	mods := map[string]*yang.Module{}
	for _, m := range ms.Modules {
		if mods[m.Name] == nil {
			mods[m.Name] = m
		}
	}
	var names []string
	for n := range mods {
		names = append(names, n)
	}
	sort.Strings(names)
	for _, n := range names {
		m := mods[n]
		if m.Namespace != nil {
			s.nsToMod[m.Namespace.Name] = m.Name
		}
		e := yang.ToEntry(m)
		if errs := e.GetErrors(); len(errs) > 0 {
			s.Err = fmt.Errorf("%v", errs)
			return s
		}
		if ex[n] {
			continue
		}
		for cn, c := range e.Dir {
			if c.RPC != nil {
				continue
			}
			if _, dup := s.Root[cn]; dup {
				s.Err = fmt.Errorf("two modules define the top-level node %s", cn)
				return s
			}
			s.Root[cn] = c
		}
	}
	return s
}

// Node resolves a data path (choice/case omitted) from the module roots.
func (s *Source) Node(path string) *yang.Entry {
	parts := strings.Split(strings.Trim(path, "/"), "/")
	if len(parts) == 0 || parts[0] == "" {
		return nil
	}
	cur := s.Root[parts[0]]
	for _, p := range parts[1:] {
		if cur == nil || cur.Dir == nil {
			return nil
		}
		cur = childByName(cur, p)
	}
	return cur
}

// ModuleOf returns the name of the module whose namespace the node at the data path belongs to.
func (s *Source) ModuleOf(path string) (string, bool) {
	if s == nil || s.Err != nil {
		return "", false
	}
	n := s.Node(path)
	if n == nil {
		return "", false
	}
	m, ok := s.nsToMod[n.Namespace().Name]
	return m, ok
}

var knownAnnotations = map[string]bool{"schemapath": true, "structname": true, "isFakeRoot": true, "isCompressedSchema": true, "ygot-oc-compressed-leaf": true}

type c27 struct {
	f     fam.Flags
	viols []Viol
	st    Stats
	white map[string]int
	tree  map[string]*yang.Entry
}

func (c *c27) bad(clause, format string, a ...interface{}) {
	if len(c.viols) < 200 {
		c.viols = append(c.viols, Viol{Clause: clause, Detail: fmt.Sprintf(format, a...)})
	}
}

// CheckC27 walks the embedded schema and the goyang tree in lock-step.
func CheckC27(p *reg.Pkg, f fam.Flags, src *Source) ([]Viol, Stats, map[string]int) {
	c := &c27{f: f, white: map[string]int{}}
	tree, err := p.Unzip()
	if err != nil {
		c.bad("unzip-error", "UnzipSchema: %v", err)
		return c.viols, c.st, c.white
	}
	c.tree = tree
	root := tree[p.Root.Name()]
	if root == nil {
		c.bad("root-struct-not-in-schema", "UnzipSchema() has no entry for the fake root struct %s", p.Root.Name())
		return c.viols, c.st, c.white
	}
	if root.Name != "device" || root.Kind != yang.DirectoryEntry {
		c.bad("diff(root)", "fake root is %q kind %v, expected directory \"device\"", root.Name, root.Kind)
	}
	if _, ok := root.Annotation["isFakeRoot"]; !ok {
		c.bad("annotation(isFakeRoot)", "the root entry lacks the documented isFakeRoot annotation")
	}
	if _, ok := root.Annotation["isCompressedSchema"]; ok != f.Compress {
		c.bad("annotation(isCompressedSchema)", "isCompressedSchema annotation present=%v, compress_paths=%v", ok, f.Compress)
	}
	c.annotations(root, "/")
	c.white["fake-root-added"]++
	c.dir(root.Dir, src.Root, root, "")
	return c.viols, c.st, c.white
}

func (c *c27) annotations(a *yang.Entry, path string) {
	for k := range a.Annotation {
		if !knownAnnotations[k] {
			c.bad("annotation-unknown", "%s carries the annotation %q, which is not one of the documented additions", path, k)
			continue
		}
		c.white["annotation-added:"+k]++
	}
	if sp, ok := a.Annotation["schemapath"]; ok && path != "/" {
		if s, _ := sp.(string); !strings.HasSuffix(s, path) {
			c.bad("annotation(schemapath)", "%s: schemapath annotation is %q", path, s)
		}
	}
	if sn, ok := a.Annotation["structname"].(string); ok {
		if c.tree[sn] != a {
			c.bad("schema-map", "%s: UnzipSchema()[%q] is not the entry annotated with that struct name", path, sn)
		}
	}
}

func (c *c27) dir(a, b map[string]*yang.Entry, parent *yang.Entry, path string) {
	var names []string
	for n := range a {
		names = append(names, n)
	}
	for n := range b {
		if _, ok := a[n]; !ok {
			names = append(names, n)
		}
	}
	sort.Strings(names)
	for _, n := range names {
		ea, eb := a[n], b[n]
		switch {
		case eb != nil && eb.RPC != nil:
			continue
		case ea == nil:
			c.bad("node-missing("+yangKind(eb)+")", "%s/%s exists in the YANG but not in the embedded schema", path, n)
		case eb == nil:
			c.bad("node-extra("+yangKind(ea)+")", "%s/%s exists in the embedded schema but not in the YANG", path, n)
		default:
			if ea.Parent != parent {
				c.bad("parent-link", "%s/%s: Parent does not point to the enclosing entry after GzipToSchema", path, n)
			}
			c.entry(ea, eb, path+"/"+n)
		}
	}
}

func valName(v *yang.Value) string {
	if v == nil {
		return "<nil>"
	}
	return v.Name
}

func (c *c27) entry(a, b *yang.Entry, path string) {
	c.st.Nodes++
	diff := func(field string, x, y interface{}) {
		if !reflect.DeepEqual(x, y) {
			c.bad("diff("+field+")", "%s (%s): embedded %s = %v, goyang has %v", path, yangKind(b), field, x, y)
		}
	}
	diff("Name", a.Name, b.Name)
	diff("Kind", a.Kind, b.Kind)
	diff("Config", a.Config, b.Config)
	diff("Key", a.Key, b.Key)
	diff("Mandatory", a.Mandatory, b.Mandatory)
	diff("Units", a.Units, b.Units)
	if len(a.Default) != 0 || len(b.Default) != 0 {
		diff("Default", a.Default, b.Default)
	}
	diff("Prefix", valName(a.Prefix), valName(b.Prefix))
	switch {
	case a.Description == b.Description:
	case a.Description == "":
		c.white["description-dropped"]++
	default:
		diff("Description", a.Description, b.Description)
	}
	if (a.ListAttr == nil) != (b.ListAttr == nil) {
		diff("ListAttr", a.ListAttr != nil, b.ListAttr != nil)
	} else if a.ListAttr != nil {
		diff("ListAttr.MinElements", a.ListAttr.MinElements, b.ListAttr.MinElements)
		diff("ListAttr.MaxElements", a.ListAttr.MaxElements, b.ListAttr.MaxElements)
		diff("ListAttr.OrderedByUser", a.ListAttr.OrderedByUser, b.ListAttr.OrderedByUser)
		diff("ListAttr.OrderedBy", valName(a.ListAttr.OrderedBy), valName(b.ListAttr.OrderedBy))
	}
	// presence and the other statements goyang keeps in Extra
	ka, kb := extraNames(a.Extra), extraNames(b.Extra)
	keys := map[string]bool{}
	for k := range ka {
		keys[k] = true
	}
	for k := range kb {
		keys[k] = true
	}
	for k := range keys {
		diff("Extra."+k, ka[k], kb[k])
	}
	diff("Exts", stmts(a.Exts), stmts(b.Exts))
	if (a.Type == nil) != (b.Type == nil) {
		diff("Type", a.Type != nil, b.Type != nil)
	} else if a.Type != nil {
		c.typ(a.Type, b.Type, path, "Type", 0)
	}
	c.annotations(a, path)
	switch {
	case a.Dir == nil && b.Dir != nil && len(b.Dir) == 0:
		// goyang marks a directory by a non-nil Dir map (Entry.IsDir)
		c.bad("empty-directory-lost("+yangKind(b)+")", "%s: the node has no children; in the embedded schema its Dir map is nil, so yang.Entry.IsDir() no longer holds for it", path)
	case a.Dir != nil || b.Dir != nil:
		c.dir(a.Dir, b.Dir, a, path)
	}
}

func stmts(ss []*yang.Statement) []string {
	var out []string
	for _, s := range ss {
		if s != nil {
			out = append(out, s.Keyword+" "+s.Argument)
		}
	}
	return out
}

// extraNames reduces Entry.Extra (decoded JSON on one side, goyang AST values on the other) to the argument names.
func extraNames(m map[string][]interface{}) map[string][]string {
	out := map[string][]string{}
	for k, vs := range m {
		for _, v := range vs {
			name := ""
			switch x := v.(type) {
			case map[string]interface{}:
				name, _ = x["Name"].(string)
			default:
				b, err := json.Marshal(v)
				if err == nil {
					var mm map[string]interface{}
					if json.Unmarshal(b, &mm) == nil {
						name, _ = mm["Name"].(string)
					}
				}
			}
			out[k] = append(out[k], name)
		}
	}
	return out
}

func identNames(i *yang.Identity, depth int) []string {
	if i == nil || depth > 6 {
		return nil
	}
	out := []string{i.Name}
	var sub []string
	for _, v := range i.Values {
		sub = append(sub, strings.Join(identNames(v, depth+1), ">"))
	}
	sort.Strings(sub)
	return append(out, sub...)
}

func enumMaps(e *yang.EnumType) (map[int64]string, map[string]int64) {
	if e == nil {
		return nil, nil
	}
	return e.ToString, e.ToInt
}

// toState is the documented transformation of prefer_operational_state (genutil.TransformEntry): a leafref whose
// path ends in .../config/<leaf> is pointed at .../state/<leaf>.
func toState(p string) string {
	parts := strings.Split(p, "/")
	if len(parts) < 3 {
		return p
	}
	i := len(parts) - 2
	if stripPrefix(parts[i]) == "config" {
		parts[i] = strings.TrimSuffix(parts[i], "config") + "state"
	}
	return strings.Join(parts, "/")
}

func (c *c27) typ(a, b *yang.YangType, path, where string, depth int) {
	diff := func(field string, x, y interface{}) {
		if !reflect.DeepEqual(x, y) {
			c.bad("diff("+where+"."+field+")", "%s: embedded %s.%s = %v, goyang has %v", path, where, field, x, y)
		}
	}
	if depth > 0 {
		where = "Type.Type"
	}
	diff("Name", a.Name, b.Name)
	diff("Kind", a.Kind, b.Kind)
	diff("IdentityBase", identNames(a.IdentityBase, 0), identNames(b.IdentityBase, 0))
	as, ai := enumMaps(a.Enum)
	bs, bi := enumMaps(b.Enum)
	if len(as) != 0 || len(bs) != 0 {
		diff("Enum.ToString", as, bs)
	}
	if len(ai) != 0 || len(bi) != 0 {
		diff("Enum.ToInt", ai, bi)
	}
	as, ai = enumMaps(a.Bit)
	bs, bi = enumMaps(b.Bit)
	if len(as) != 0 || len(bs) != 0 {
		diff("Bit.ToString", as, bs)
	}
	if len(ai) != 0 || len(bi) != 0 {
		diff("Bit.ToInt", ai, bi)
	}
	diff("Units", a.Units, b.Units)
	diff("Default", a.Default, b.Default)
	diff("HasDefault", a.HasDefault, b.HasDefault)
	diff("FractionDigits", a.FractionDigits, b.FractionDigits)
	diff("Length", rangeStr(a.Length), rangeStr(b.Length))
	diff("Range", rangeStr(a.Range), rangeStr(b.Range))
	diff("OptionalInstance", a.OptionalInstance, b.OptionalInstance)
	switch {
	case a.Path == b.Path:
	case c.f.PreferOpState && a.Path == toState(b.Path):
		c.white["leafref-config-to-state"]++
	default:
		diff("Path", a.Path, b.Path)
	}
	if len(a.Pattern) != 0 || len(b.Pattern) != 0 {
		diff("Pattern", a.Pattern, b.Pattern)
	}
	if len(a.POSIXPattern) != 0 || len(b.POSIXPattern) != 0 {
		diff("POSIXPattern", a.POSIXPattern, b.POSIXPattern)
	}
	if len(a.Type) != len(b.Type) {
		diff("Type(members)", len(a.Type), len(b.Type))
		return
	}
	for i := range a.Type {
		c.typ(a.Type[i], b.Type[i], fmt.Sprintf("%s[union member %d]", path, i), where, depth+1)
	}
}

// rangeStr renders a range with every number spelled out (value, fraction digits, sign), so that nothing a
// JSON round trip could lose is hidden by a pretty printer.
func rangeStr(r yang.YangRange) string {
	var parts []string
	num := func(n yang.Number) string { return fmt.Sprintf("%v/%d/%v", n.Value, n.FractionDigits, n.Negative) }
	for _, x := range r {
		parts = append(parts, num(x.Min)+".."+num(x.Max))
	}
	return strings.Join(parts, "|")
}

// Reg is a small indirection so that callers need not import reg.
func Reg(name string) *reg.Pkg { return reg.Get(name) }
