package fam

import (
	"sort"
	"strings"
)

// Flags is one generator configuration. generate_fakeroot (name "device") and include_schema are always on.
type Flags struct {
	Compress         bool `json:"compress_paths,omitempty"`
	SimpleUnions     bool `json:"generate_simple_unions,omitempty"`
	OrderedMaps      bool `json:"generate_ordered_maps,omitempty"`
	ShortenEnum      bool `json:"shorten_enum_leaf_names,omitempty"`
	PopulateDefaults bool `json:"generate_populate_defaults,omitempty"`
	Getters          bool `json:"generate_getters,omitempty"`
	Append           bool `json:"generate_append,omitempty"`
	Rename           bool `json:"generate_rename,omitempty"`
	Delete           bool `json:"generate_delete,omitempty"`
	LeafGetters      bool `json:"generate_leaf_getters,omitempty"`
	Presence         bool `json:"yangpresence,omitempty"`
	ExcludeState     bool `json:"exclude_state,omitempty"`
	PreferOpState    bool `json:"prefer_operational_state,omitempty"`
	IgnoreShadow     bool `json:"ignore_shadow_schema_paths,omitempty"`
	// Pos2 is not a generator flag: it is the pseudo-factor "the atom sits at position 2" used when the
	// covering array also covers the nesting position (factor index PosFactor).
	Pos2 bool `json:"-"`
}

// PosFactor is the index of the position pseudo-factor.
const PosFactor = 14

// FlagNames lists the factors in a fixed order; the first four change the Go representation.
var FlagNames = []string{"compress_paths", "generate_simple_unions", "generate_ordered_maps", "shorten_enum_leaf_names",
	"generate_populate_defaults", "generate_getters", "generate_append", "generate_rename", "generate_delete", "generate_leaf_getters",
	"yangpresence", "exclude_state", "prefer_operational_state", "ignore_shadow_schema_paths"}

func (f *Flags) ptr(i int) *bool {
	return []*bool{&f.Compress, &f.SimpleUnions, &f.OrderedMaps, &f.ShortenEnum, &f.PopulateDefaults, &f.Getters, &f.Append, &f.Rename, &f.Delete,
		&f.LeafGetters, &f.Presence, &f.ExcludeState, &f.PreferOpState, &f.IgnoreShadow, &f.Pos2}[i]
}

// Get returns the value of factor i.
func (f Flags) Get(i int) bool { return *f.ptr(i) }

// Set sets factor i.
func (f *Flags) Set(i int, v bool) { *f.ptr(i) = v }

// Valid reports whether the combination is accepted by the generator and meaningful: prefer_operational_state
// needs compress_paths and no exclude_state (genutil.TranslateToCompressBehaviour); shorten_enum_leaf_names and
// ignore_shadow_schema_paths only act on compressed schemas, so they are only set together with compress_paths.
func (f Flags) Valid() bool {
	if f.PreferOpState && (!f.Compress || f.ExcludeState) {
		return false
	}
	if (f.ShortenEnum || f.IgnoreShadow) && !f.Compress {
		return false
	}
	return true
}

// Args renders the generator command line flags (every factor explicitly, since generate_ordered_maps defaults to true).
func (f Flags) Args() []string {
	out := []string{"-generate_fakeroot", "-fakeroot_name=device", "-include_schema"}
	for i, n := range FlagNames {
		v := "false"
		if f.Get(i) {
			v = "true"
		}
		out = append(out, "-"+n+"="+v)
	}
	return out
}

// String is a compact rendering: the names of the set flags.
func (f Flags) String() string {
	var on []string
	for i, n := range FlagNames {
		if f.Get(i) {
			on = append(on, n)
		}
	}
	if len(on) == 0 {
		return "(none)"
	}
	return strings.Join(on, ",")
}

// Behaviour names the compression behaviour the flags select (genutil.TranslateToCompressBehaviour).
func (f Flags) Behaviour() string {
	switch {
	case f.PreferOpState:
		return "PreferOperationalState"
	case f.Compress && f.ExcludeState:
		return "ExcludeDerivedState"
	case f.Compress:
		return "PreferIntendedConfig"
	case f.ExcludeState:
		return "UncompressedExcludeDerivedState"
	}
	return "Uncompressed"
}

// Pairwise returns a deterministic covering array: every pair of factor values (i=a, j=b), i<j, over the free
// factors that occurs in at least one Valid combination agreeing with fixed occurs in some returned row.
// fixed maps factor index -> forced value. Greedy construction, fixed tie-breaking.
func Pairwise(fixed map[int]bool) []Flags {
	n := len(FlagNames) + 1
	var free []int
	for i := 0; i < n; i++ {
		if _, ok := fixed[i]; !ok {
			free = append(free, i)
		}
	}
	base := Flags{}
	for i, v := range fixed {
		base.Set(i, v)
	}
	// all valid assignments of the free factors would be 2^len(free) (<= 16384): enumerate them once.
	var all []Flags
	for m := 0; m < 1<<len(free); m++ {
		f := base
		for bi, i := range free {
			f.Set(i, m&(1<<bi) != 0)
		}
		if f.Valid() {
			all = append(all, f)
		}
	}
	type pair struct {
		i, j int
		a, b bool
	}
	need := map[pair]bool{}
	for _, f := range all {
		for x := 0; x < len(free); x++ {
			for y := x + 1; y < len(free); y++ {
				need[pair{free[x], free[y], f.Get(free[x]), f.Get(free[y])}] = true
			}
		}
	}
	var rows []Flags
	for len(need) > 0 {
		best, bestN := -1, 0
		for ci, f := range all {
			c := 0
			for x := 0; x < len(free); x++ {
				for y := x + 1; y < len(free); y++ {
					if need[pair{free[x], free[y], f.Get(free[x]), f.Get(free[y])}] {
						c++
					}
				}
			}
			if c > bestN {
				best, bestN = ci, c
			}
		}
		if best < 0 {
			break
		}
		f := all[best]
		rows = append(rows, f)
		for x := 0; x < len(free); x++ {
			for y := x + 1; y < len(free); y++ {
				delete(need, pair{free[x], free[y], f.Get(free[x]), f.Get(free[y])})
			}
		}
	}
	return rows
}

// RepProduct extends rows so that every Valid combination of the representation-changing factors rep
// (indices) that agrees with fixed occurs; the other factors of an added row are copied from the rows in rotation.
func RepProduct(rows []Flags, rep []int, fixed map[int]bool) []Flags {
	have := map[string]bool{}
	key := func(f Flags) string {
		k := ""
		for _, i := range rep {
			if f.Get(i) {
				k += "1"
			} else {
				k += "0"
			}
		}
		return k
	}
	for _, r := range rows {
		have[key(r)] = true
	}
	out := append([]Flags{}, rows...)
	rot := 0
	for m := 0; m < 1<<len(rep); m++ {
		f := rows[rot%len(rows)]
		for bi, i := range rep {
			f.Set(i, m&(1<<bi) != 0)
		}
		skip := false
		for i, v := range fixed {
			if f.Get(i) != v {
				skip = true
			}
		}
		if skip || have[key(f)] {
			continue
		}
		if !f.Valid() {
			// repair dependent factors deterministically
			if !f.Compress {
				f.PreferOpState, f.ShortenEnum, f.IgnoreShadow = false, false, false
			}
			if !f.Valid() {
				continue
			}
			if have[key(f)] {
				continue
			}
		}
		have[key(f)] = true
		out = append(out, f)
		rot++
	}
	return out
}

// SortedKeys is a helper for deterministic map iteration.
func SortedKeys(m map[string]bool) []string {
	var out []string
	for k := range m {
		out = append(out, k)
	}
	sort.Strings(out)
	return out
}
