package fam

// Atom is one feature added to the skeleton. Node, typedef, identity and grouping names are unique per atom so
// that any two atoms can be combined; only the collision atoms clash on purpose (after name mangling).
type Atom struct {
	ID        string
	Class     string      // abstract class used in reports
	Items     []*Item     // placed at the chosen position
	RootItems []*Item     // placed at the root of the module (independent of the position)
	Top       string      // module-level statements (typedef, identity), style independent; @P@ = own prefix
	Groupings []*Grouping // module-level groupings
	Augs      []*Aug
	NeedExt   bool // imports gmc-ext (prefix x)
	NeedOCExt bool // imports openconfig-extensions (prefix oc-ext)
	// ExtraModule, if set, returns an additional module (name, text) that is passed to the generator
	// together with the main module; main and p are the main module's name and prefix.
	ExtraModule func(main, p string) (string, string)
	// Unsupported is non-empty when ygot documents that it does not support the feature: the generator is
	// expected to return an error, the case is counted as excluded and nothing is judged.
	Unsupported string
	// Only restricts the atom to one skeleton ("G" or "O"); empty: both.
	Only string
	// PlainMirror (style O): the leaves are written out twice, once in config and once in state, instead of being
	// defined in one grouping used by both containers.
	PlainMirror bool
}

func v(name string) *Item { return leaf(name, "type string;") }

const (
	tStr   = "type string;"
	tU8    = "type uint8;"
	tEnumK = "type enumeration { enum KA; enum KB; }"
)

// Atoms returns the feature atoms in a fixed order, simplest first.
func Atoms() []*Atom {
	var as []*Atom
	add := func(a *Atom) { as = append(as, a) }

	// ---- containers ------------------------------------------------------------------------------------
	add(&Atom{ID: "cont", Class: "container", Items: []*Item{cont("c1", v("c1-leaf"))}})
	add(&Atom{ID: "pcont", Class: "container", Items: []*Item{pcont("pc1", v("pc1-leaf"))}})
	add(&Atom{ID: "cont-nested", Class: "container", Items: []*Item{cont("cn1", cont("cn2", v("cn2-leaf"), pcont("cn3")))}})
	add(&Atom{ID: "cont-empty", Class: "container", Items: []*Item{cont("ce1")}})

	// ---- leaves of every base type ---------------------------------------------------------------------
	add(&Atom{ID: "leaf-ints", Class: "leaf", Items: []*Item{
		leaf("i8", `type int8 { range "-5..5 | 100"; }`), leaf("i16", "type int16;"), leaf("i32", `type int32 { range "min..-1 | 1..max"; }`), leaf("i64", "type int64;"),
		leaf("u8", "type uint8;"), leaf("u16", `type uint16 { range "1..4094"; }`), leaf("u32", "type uint32;"), leaf("u64", `type uint64 { range "0..18446744073709551615"; }`)}})
	add(&Atom{ID: "leaf-dec64", Class: "leaf", Items: []*Item{leaf("d64", `type decimal64 { fraction-digits 3; range "-1.5..2.5 | 10..max"; }`), leaf("d64b", "type decimal64 { fraction-digits 18; }")}})
	add(&Atom{ID: "leaf-str", Class: "leaf", Items: []*Item{leaf("str", `type string { length "1..10 | 20"; pattern 'a[0-9]+'; pattern '.*z'; }`), leaf("str-plain", tStr)}})
	add(&Atom{ID: "leaf-str-posix", Class: "leaf", NeedOCExt: true, Items: []*Item{leaf("pstr", `type string { oc-ext:posix-pattern '^a[0-9]+$'; oc-ext:posix-pattern '^.*z$'; }`)}})
	add(&Atom{ID: "leaf-bin", Class: "leaf", Items: []*Item{leaf("bin", `type binary { length "2..4"; }`)}})
	add(&Atom{ID: "leaf-bool", Class: "leaf", Items: []*Item{leaf("flag", "type boolean;")}})
	add(&Atom{ID: "leaf-empty", Class: "leaf", Items: []*Item{leaf("mark", "type empty;")}})
	add(&Atom{ID: "leaf-enum", Class: "leaf", Items: []*Item{leaf("colour", "type enumeration { enum ALPHA; enum beta-gamma { value 5; } enum DELTA; }")}})
	add(&Atom{ID: "leaf-idref", Class: "leaf", Top: "identity lbase;\nidentity lone { base lbase; }\nidentity ltwo { base lone; }\n",
		Items: []*Item{leaf("idr", "type identityref { base lbase; }")}})
	add(&Atom{ID: "leaf-idref-x", Class: "leaf", NeedExt: true, Items: []*Item{leaf("idrx", "type identityref { base x:xbase; }")}})
	// two base identities with the SAME NAME in two modules (identity names are unique per module only), each the
	// base of an identityref leaf: whatever identifies an identityref type by the bare name of its base confuses them
	add(&Atom{ID: "leaf-idref-samename", Class: "leaf", NeedExt: true, Top: "identity xbase;\nidentity xown { base xbase; }\n",
		Items: []*Item{leaf("idr-own", "type identityref { base xbase; }"), leaf("idr-ext", "type identityref { base x:xbase; }")}})
	add(&Atom{ID: "leaf-union", Class: "leaf", Items: []*Item{leaf("un", `type union { type int8; type string { length "1..3"; } type enumeration { enum UA; enum UB; } }`)}})
	add(&Atom{ID: "leaf-union-nested", Class: "leaf", Top: "identity nbase;\nidentity nid { base nbase; }\n",
		Items: []*Item{leaf("unn", `type union { type union { type uint8; type boolean; } type decimal64 { fraction-digits 2; } type identityref { base nbase; } type binary; }`)}})
	add(&Atom{ID: "leaf-union-single", Class: "leaf", Items: []*Item{leaf("uns", `type union { type string { pattern 'q.*'; } }`), leaf("une", `type union { type enumeration { enum SA; enum SB; } }`)}})
	add(&Atom{ID: "leafref-rel", Class: "leaf", Items: []*Item{leaf("lr-rel", `type leafref { path "@REL_ID@"; }`)}})
	add(&Atom{ID: "leafref-abs", Class: "leaf", Items: []*Item{leaf("lr-abs", `type leafref { path "@ABS_ID@"; }`)}})
	add(&Atom{ID: "leafref-enum", Class: "leaf", Items: []*Item{leaf("lre-target", "type enumeration { enum TA; enum TB; }"), leaf("lre-ref", `type leafref { path "../lre-target"; }`)}})
	add(&Atom{ID: "leaf-bits", Class: "leaf", Items: []*Item{leaf("bts", "type bits { bit b0; bit b1 { position 5; } }")}})
	add(&Atom{ID: "oc-mirror-enum", Class: "leaf", Only: "O", PlainMirror: true, Items: []*Item{leaf("mirr", "type enumeration { enum MIA; enum MIB; }"), leaf("mirr-s", tStr)}})
	add(&Atom{ID: "leaf-stateonly", Class: "leaf", Items: []*Item{leaf("so", "type uint32;").with(func(i *Item) { i.StateOnly = true })}})

	// ---- leaf-lists ------------------------------------------------------------------------------------
	add(&Atom{ID: "ll-str", Class: "leaf-list", Items: []*Item{leafList("lls", `type string { length "1..5"; }`).with(func(i *Item) { i.Extra = "max-elements 3;"; i.Ordered = true })}})
	add(&Atom{ID: "ll-enum", Class: "leaf-list", Items: []*Item{leafList("lle", "type enumeration { enum LA; enum LB; }"), leafList("lli", "type int64;")}})
	add(&Atom{ID: "ll-union", Class: "leaf-list", Items: []*Item{leafList("llu", `type union { type uint32; type string; type enumeration { enum LUA; } }`)}})

	// ---- lists keyed by every key type -----------------------------------------------------------------
	kl := func(name, keyType string) *Item { return list(name, []string{"k"}, leaf("k", keyType), v(name+"-v")) }
	add(&Atom{ID: "list-key-str", Class: "list", Items: []*Item{kl("kls", `type string { length "1..8"; }`)}})
	add(&Atom{ID: "list-key-sints", Class: "list", Items: []*Item{kl("kli8", "type int8;"), kl("kli16", "type int16;"), kl("kli32", "type int32;"), kl("kli64", "type int64;")}})
	add(&Atom{ID: "list-key-uints", Class: "list", Items: []*Item{kl("klu8", "type uint8;"), kl("klu16", "type uint16;"), kl("klu32", "type uint32;"), kl("klu64", "type uint64;")}})
	add(&Atom{ID: "list-key-dec64", Class: "list", Items: []*Item{kl("kld", "type decimal64 { fraction-digits 2; }")}})
	add(&Atom{ID: "list-key-bool", Class: "list", Items: []*Item{kl("klb", "type boolean;")}})
	add(&Atom{ID: "list-key-enum", Class: "list", Items: []*Item{kl("kle", tEnumK)}})
	add(&Atom{ID: "list-key-idref", Class: "list", Top: "identity kbase;\nidentity kone { base kbase; }\n", Items: []*Item{kl("kli", "type identityref { base kbase; }")}})
	add(&Atom{ID: "list-key-union", Class: "list", Items: []*Item{kl("klun", "type union { type int64; type string; type enumeration { enum KUA; enum KUB; } }")}})
	add(&Atom{ID: "list-key-lref", Class: "list", Items: []*Item{kl("kllr", `type leafref { path "@REL_ID@"; }`)}})
	add(&Atom{ID: "list-key-bin", Class: "list", Unsupported: "docs/design.md 'Note on using binary as a list key type': binary list keys are not supported, an error is returned",
		Items: []*Item{kl("klbin", "type binary;")}})
	add(&Atom{ID: "list-multi", Class: "list", Items: []*Item{list("ml", []string{"mk1", "mk2", "mk3"}, leaf("mk1", tStr), leaf("mk2", "type enumeration { enum MA; enum MB; }"), leaf("mk3", tU8), v("ml-v"))}})
	add(&Atom{ID: "list-ordered", Class: "list", Items: []*Item{list("ol", []string{"ok"}, leaf("ok", "type uint32;"), v("ol-v"), cont("ol-c", v("ol-c-leaf"))).with(func(i *Item) { i.Ordered = true })}})
	add(&Atom{ID: "list-ordered-multi", Class: "list", Items: []*Item{list("oml", []string{"ok1", "ok2"}, leaf("ok1", tStr), leaf("ok2", "type int16;"), v("oml-v")).with(func(i *Item) { i.Ordered = true })}})
	add(&Atom{ID: "list-unkeyed", Class: "list", Items: []*Item{list("ul", nil, v("ul-v"), leaf("ul-n", "type uint16;")).with(func(i *Item) { i.ConfigFalse = true })}})
	add(&Atom{ID: "list-nested", Class: "list", Items: []*Item{list("nl", []string{"nk"}, leaf("nk", tStr), list("nl2", []string{"nk2"}, leaf("nk2", "type uint16;"), v("nl2-v")))}})

	// ---- typedefs --------------------------------------------------------------------------------------
	add(&Atom{ID: "typedef-enum", Class: "typedef", Top: "typedef tde { type enumeration { enum TDA; enum TDB { value 9; } } }\n",
		Items: []*Item{leaf("tde-leaf", "type tde;"), leaf("tde-leaf2", "type @P@:tde;")}})
	add(&Atom{ID: "typedef-union", Class: "typedef", Top: "typedef tdu { type union { type uint16 { range \"1..10\"; } type enumeration { enum TUA; enum TUB; } } }\n",
		Items: []*Item{leaf("tdu-leaf", "type tdu;")}})
	add(&Atom{ID: "typedef-chain", Class: "typedef", Top: "typedef tdc0 { type string { length \"1..20\"; } }\ntypedef tdc1 { type tdc0 { length \"2..9\"; pattern 'c.*'; } }\n",
		Items: []*Item{leaf("tdc-leaf", "type tdc1;")}})
	add(&Atom{ID: "typedef-x", Class: "typedef", NeedExt: true, Items: []*Item{leaf("tdx-e", "type x:xenum;"), leaf("tdx-u", "type x:xunion;")}})

	// ---- groupings -------------------------------------------------------------------------------------
	add(&Atom{ID: "grouping", Class: "grouping", Groupings: []*Grouping{{Name: "grp-leaves", Items: []*Item{v("gl-a"), leaf("gl-e", "type enumeration { enum GA; enum GB; }")}}},
		Items: []*Item{uses("grp-leaves", true)}})
	add(&Atom{ID: "grouping-dir", Class: "grouping", Groupings: []*Grouping{{Name: "grp-dir", Items: []*Item{cont("gd-c", v("gd-leaf"), leaf("gd-e", "type enumeration { enum GDA; }"))}}},
		Items: []*Item{uses("grp-dir", false)}})
	add(&Atom{ID: "grouping-twice", Class: "grouping", Groupings: []*Grouping{{Name: "grp-twice", Items: []*Item{leaf("gt-e", "type enumeration { enum GTA; enum GTB; }"), v("gt-s")}}},
		Items: []*Item{cont("gt-one", uses("grp-twice", true)), cont("gt-two", uses("grp-twice", true))}})
	add(&Atom{ID: "grouping-x", Class: "grouping", NeedExt: true, Items: []*Item{uses("x:xgrp", true)}})

	// ---- augments --------------------------------------------------------------------------------------
	add(&Atom{ID: "augment-same", Class: "augment", Augs: []*Aug{{Items: []*Item{v("as-leaf"), cont("as-c", v("as-c-leaf"))}}}})
	add(&Atom{ID: "augment-other", Class: "augment", Augs: []*Aug{{Other: true, Items: []*Item{v("ao-leaf"), leaf("ao-e", "type enumeration { enum AOA; enum AOB; }"), cont("ao-c", v("ao-c-leaf"))}}}})

	// ---- choice / case ---------------------------------------------------------------------------------
	add(&Atom{ID: "choice-leaves", Class: "choice", Items: []*Item{choice("ch1", &Alt{"ch1-a", []*Item{v("ch1-a-leaf"), leaf("ch1-a-n", tU8)}}, &Alt{"ch1-b", []*Item{v("ch1-b-leaf")}})}})
	add(&Atom{ID: "choice-short", Class: "choice", Items: []*Item{choice("ch2", &Alt{"ch2-x", []*Item{v("ch2-x")}}, &Alt{"ch2-y", []*Item{leafList("ch2-y", tStr)}}).with(func(i *Item) { i.Shorthand = true })}})
	add(&Atom{ID: "choice-nested", Class: "choice", Items: []*Item{choice("ch3", &Alt{"ch3-a", []*Item{v("ch3-a-leaf"),
		choice("ch3-in", &Alt{"ch3-in-a", []*Item{v("ch3-in-a-leaf")}}, &Alt{"ch3-in-b", []*Item{v("ch3-in-b-leaf")}})}}, &Alt{"ch3-b", []*Item{v("ch3-b-leaf")}})}})
	add(&Atom{ID: "choice-dirs", Class: "choice", Items: []*Item{choice("ch4", &Alt{"ch4-a", []*Item{cont("ch4-ca", v("ch4-ca-leaf"))}},
		&Alt{"ch4-b", []*Item{list("ch4-l", []string{"ch4-k"}, leaf("ch4-k", tStr)), cont("ch4-cb", v("ch4-cb-leaf"))}})}})

	// ---- config false ----------------------------------------------------------------------------------
	add(&Atom{ID: "cfgfalse", Class: "config-false", Items: []*Item{cont("ro", v("ro-leaf"), cont("ro-c", leaf("ro-n", "type uint64;")),
		list("ro-l", nil, v("ro-l-v"))).with(func(i *Item) { i.ConfigFalse = true })}})

	// ---- defaults --------------------------------------------------------------------------------------
	add(&Atom{ID: "defaults", Class: "default", Items: []*Item{leaf("df-i", "type int8;", "-1"), leaf("df-s", tStr, "dflt"), leaf("df-b", "type boolean;", "true"),
		leaf("df-d", "type decimal64 { fraction-digits 2; }", "1.5"), leaf("df-e", "type enumeration { enum DA; enum DB; }", "DB"), leaf("df-u64", "type uint64;", "18446744073709551615"),
	}})
	add(&Atom{ID: "default-union", Class: "default", Items: []*Item{leaf("df-un", "type union { type uint8; type string; }", "x"), leaf("df-une", "type union { type uint8; type enumeration { enum DUA; enum DUB; } }", "DUB")}})
	add(&Atom{ID: "default-binary", Class: "default", Items: []*Item{leaf("df-bin", "type binary;", "YWJj"), leafList("df-llbin", "type binary;", "YWJj")}})
	add(&Atom{ID: "default-idref", Class: "default", Top: "identity dbase;\nidentity done { base dbase; }\n", Items: []*Item{leaf("df-id", "type identityref { base dbase; }", "done")}})
	add(&Atom{ID: "default-typedef", Class: "default", Top: "typedef tdd { type uint16; default 42; }\ntypedef tdde { type enumeration { enum TDDA; enum TDDB; } default TDDB; }\n",
		Items: []*Item{leaf("df-td", "type tdd;"), leaf("df-tde", "type tdde;"), leaf("df-td-over", "type tdd;", "7")}})
	add(&Atom{ID: "ll-default", Class: "default", Items: []*Item{leafList("df-ll", tStr, "a", "b"), leafList("df-lle", "type enumeration { enum LDA; enum LDB; }", "LDB")}})

	// ---- name collisions -------------------------------------------------------------------------------
	add(&Atom{ID: "col-leaf-camel", Class: "collision", Items: []*Item{v("foo-bar"), v("foo_bar"), v("FooBar")}})
	add(&Atom{ID: "col-cont-camel", Class: "collision", Items: []*Item{cont("a-b", v("ab-x")), cont("a_b", v("ab-y")), cont("AB", v("ab-z"))}})
	add(&Atom{ID: "col-list-key-name", Class: "collision", Items: []*Item{list("lkn", []string{"lkn"}, leaf("lkn", tStr), v("lkn-v"))}})
	add(&Atom{ID: "col-leaf-cont", Class: "collision", Items: []*Item{v("cc-x"), cont("cc_x", v("cc-in"))}})
	add(&Atom{ID: "col-enumconst-struct", Class: "collision", Items: []*Item{leaf("kol-or", "type enumeration { enum RED; enum BLUE; }"), cont("kol_or", cont("RED", v("red-leaf")))}})
	add(&Atom{ID: "col-keyword", Class: "collision", Items: []*Item{v("type"), v("func"), leafList("range", tStr), v("interface"), v("nil"), v("string"), v("len"),
		cont("go", v("map"), v("struct")), list("select", []string{"chan"}, leaf("chan", tStr), v("default"))}})
	add(&Atom{ID: "col-digit", Class: "collision", Items: []*Item{v("_9lives"), v("x.y"), leaf("dg-e", `type enumeration { enum 1x; enum "9-9"; enum "a b"; enum "*"; enum "x.y"; }`)}})
	add(&Atom{ID: "col-enum-fold", Class: "collision", Items: []*Item{leaf("fold", "type enumeration { enum A-B; enum A_B; }")}})
	add(&Atom{ID: "col-enum-unset", Class: "collision", Items: []*Item{leaf("unset", "type enumeration { enum UNSET; enum SET; }")}})
	add(&Atom{ID: "col-ident-dup", Class: "collision", Top: "identity dupbase;\nidentity dup { base dupbase; }\n", Items: []*Item{leaf("dup-ref", "type identityref { base dupbase; }")},
		ExtraModule: func(main, p string) (string, string) {
			n := main + "-dup"
			return n, "module " + n + " {\n  yang-version 1.1;\n  namespace \"urn:" + n + "\";\n  prefix dd;\n  import " + main + " { prefix " + p + "; }\n  identity dup { base " + p + ":dupbase; }\n}\n"
		}})
	add(&Atom{ID: "col-listkey-struct", Class: "collision", Items: []*Item{list("mkl", []string{"ka", "kb"}, leaf("ka", tStr), leaf("kb", tU8), cont("Key", v("key-leaf")))}})
	// a multi-key list next to a container whose struct name equals the default name of the list's key struct
	// (<List>_Key): the key struct must fall back to another name whether or not the clashing struct is below the list
	add(&Atom{ID: "col-listkey-sibling", Class: "collision", Items: []*Item{list("mks", []string{"ka", "kb"}, leaf("ka", tStr), leaf("kb", tU8)), cont("mks_Key", v("sk-leaf"))}})
	add(&Atom{ID: "col-orderedmap-struct", Class: "collision", Items: []*Item{list("oll", []string{"ok"}, leaf("ok", tStr), cont("OrderedMap", v("om-leaf"))).with(func(i *Item) { i.Ordered = true })}})
	add(&Atom{ID: "col-union-struct", Class: "collision", Items: []*Item{leaf("uu", "type union { type int8; type string; }"), cont("uu_Union", v("uu-leaf"))}})
	add(&Atom{ID: "col-method-validate", Class: "collision", Items: []*Item{v("validate")}})
	add(&Atom{ID: "col-method-getter", Class: "collision", Items: []*Item{v("gfoo"), v("get-gfoo"), cont("gbar", v("gbar-leaf")), v("get-or-create-gbar")}})
	add(&Atom{ID: "col-method-new", Class: "collision", Items: []*Item{list("nfoo", []string{"nk"}, leaf("nk", tStr)), v("new-nfoo"), v("append-nfoo"), v("delete-nfoo")}})
	add(&Atom{ID: "col-typedef-identity", Class: "collision", Top: "typedef tti { type enumeration { enum TTA; } }\nidentity tti;\nidentity tti-one { base tti; }\n",
		Items: []*Item{leaf("tti-t", "type tti;"), leaf("tti-i", "type identityref { base tti; }")}})
	add(&Atom{ID: "col-fakeroot", Class: "collision", RootItems: []*Item{cont("device", v("dev-leaf"))}, Items: []*Item{cont("Device", v("dev2-leaf"))}})
	return as
}
