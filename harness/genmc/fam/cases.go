package fam

import (
	"fmt"
	"sort"
)

// Case is one state of the explored space: a schema under one generator configuration.
type Case struct {
	ID       string `json:"id"` // <schema id>#<row>
	Kind     string `json:"kind"`
	SchemaID string `json:"schema"`
	Flags    Flags  `json:"flags"`
}

// Plan is the enumerated space of one stage.
type Plan struct {
	Schemas map[string]*Schema
	Cases   []Case
}

func (p *Plan) add(s *Schema, rows []Flags) {
	if _, ok := p.Schemas[s.ID]; !ok {
		p.Schemas[s.ID] = s
	}
	for i, f := range rows {
		f.Pos2 = false
		p.Cases = append(p.Cases, Case{ID: fmt.Sprintf("%s#%d", s.ID, i), Kind: "family", SchemaID: s.ID, Flags: f})
	}
}

// uncompressedFixed pins the factors that only act on compressed schemas.
func uncompressedFixed() map[int]bool { return map[int]bool{0: false, 3: false, 12: false, 13: false} }

// Singles enumerates the skeletons alone and every atom alone. Per (atom, skeleton) one deterministic covering
// array covers every pair of values of the generator flags AND of the nesting position (skeleton G: uncompressed
// configurations only; skeleton O: all). thorough extends the array so that every valid combination of the four
// representation-changing flags occurs (the other factors of an added row are taken from the array in rotation).
func Singles(thorough bool) *Plan {
	p := &Plan{Schemas: map[string]*Schema{}}
	rep := []int{0, 1, 2, 3}
	fixedFor := func(sk string) map[int]bool {
		if sk == "G" {
			return uncompressedFixed()
		}
		return map[int]bool{}
	}
	rows := map[string][]Flags{}
	for _, sk := range []string{"G", "O"} {
		rows[sk] = Pairwise(fixedFor(sk))
		if thorough {
			rows[sk] = RepProduct(rows[sk], rep, fixedFor(sk))
		}
	}
	for _, sk := range []string{"G", "O"} {
		p.add(Build(sk, nil, nil), rows[sk])
	}
	for _, a := range Atoms() {
		for _, sk := range []string{"G", "O"} {
			if a.Only != "" && a.Only != sk {
				continue
			}
			var r1, r2 []Flags
			for _, f := range rows[sk] {
				if f.Pos2 {
					r2 = append(r2, f)
				} else {
					r1 = append(r1, f)
				}
			}
			p.add(Build(sk, []*Atom{a}, []int{1}), r1)
			p.add(Build(sk, []*Atom{a}, []int{2}), r2)
		}
	}
	return p
}

// PairFlags returns the configurations of a two-atom schema: the helper-generating flags all on, the
// compression fixed by the skeleton (G: uncompressed, O: compressed with ignore_shadow_schema_paths), and the
// full product of generate_simple_unions / generate_ordered_maps where the schema can react to them (a union /
// an ordered-by user list in its syntax, or an atom whose single-atom probe showed that the flag changes its
// code). shorten_enum_leaf_names only renames enumerated types; it is varied on the single-atom schemas only.
func PairFlags(s *Schema) []Flags {
	base := Flags{PopulateDefaults: true, Getters: true, Append: true, Rename: true, Delete: true, LeafGetters: true, Presence: true, OrderedMaps: true}
	if s.Skel == "O" {
		base.Compress, base.IgnoreShadow = true, true
	}
	rows := []Flags{base}
	vary := func(idx int) {
		var out []Flags
		for _, r := range rows {
			out = append(out, r)
			r2 := r
			r2.Set(idx, !r.Get(idx))
			out = append(out, r2)
		}
		rows = out
	}
	if s.HasFeature("union") {
		vary(1)
	}
	if s.HasFeature("ordered") {
		vary(2)
	}
	return rows
}

// Pairs enumerates all unordered pairs of distinct atoms, both placed at position 1, in both skeletons.
// learned(skeleton, atom) returns additional features ("union", "ordered", "enum") measured by the probes.
// skip(skeleton, atom) excludes atoms that already fail alone (nothing new can be learned from a package that
// cannot be compiled), they are reported by the single-atom cases.
func Pairs(skip func(skel, atom string) bool, learned func(skel, atom string) []string) (*Plan, int) {
	p := &Plan{Schemas: map[string]*Schema{}}
	as := Atoms()
	skipped := 0
	for _, sk := range []string{"G", "O"} {
		for i := 0; i < len(as); i++ {
			for j := i + 1; j < len(as); j++ {
				a, b := as[i], as[j]
				if (a.Only != "" && a.Only != sk) || (b.Only != "" && b.Only != sk) {
					continue
				}
				if skip(sk, a.ID) || skip(sk, b.ID) {
					skipped++
					continue
				}
				s := Build(sk, []*Atom{a, b}, []int{1, 1})
				// features learned from the probes of the single-atom schemas (a flag changed the output
				// although the syntax did not suggest it)
				for _, x := range []*Atom{a, b} {
					for _, f := range learned(sk, x.ID) {
						if !s.HasFeature(f) {
							s.Features = append(s.Features, f)
						}
					}
				}
				sort.Strings(s.Features)
				p.add(s, PairFlags(s))
			}
		}
	}
	return p, skipped
}
