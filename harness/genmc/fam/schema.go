package fam

import (
	"fmt"
	"sort"
	"strings"
)

// File is one YANG file of a schema.
type File struct {
	Name     string `json:"name"`
	Text     string `json:"text"`
	Generate bool   `json:"generate"` // passed to the generator as an input module (otherwise found through -path)
}

// Schema is one member of the family: a skeleton plus 0..2 placed atoms.
type Schema struct {
	ID          string   `json:"id"`   // e.g. "G:leaf-str@1" or "O:cont@1+leaf-enum@1"
	Skel        string   `json:"skel"` // G | O
	Atoms       []string `json:"atoms"`
	Pos         []int    `json:"pos"`
	Files       []File   `json:"files"`
	Unsupported string   `json:"unsupported,omitempty"`
	Features    []string `json:"features,omitempty"` // syntactic features that make representation flags relevant
}

const extModule = `module gmc-ext {
  yang-version 1.1;
  namespace "urn:gmc-ext";
  prefix x;
  identity xbase;
  identity xone { base xbase; }
  identity xtwo { base xbase; }
  typedef xenum { type enumeration { enum XA; enum XB { value 7; } } }
  typedef xunion { type union { type uint16; type enumeration { enum XU; enum XV; } } }
  grouping xgrp { leaf xg-leaf { type string; } leaf xg-e { type xenum; } }
}
`

const ocExtModule = `module openconfig-extensions {
  yang-version 1;
  namespace "http://openconfig.net/yang/openconfig-ext";
  prefix oc-ext;
  extension posix-pattern { argument "pattern"; }
}
`

type skel struct {
	id, module, prefix string
	idPath             []string
}

var skels = map[string]*skel{
	"G": {id: "G", module: "gmc-g", prefix: "g", idPath: []string{"top", "id"}},
	"O": {id: "O", module: "openconfig-gmc", prefix: "oc", idPath: []string{"top", "config", "id"}},
}

// posCtx returns the data path of the node at position pos (1: the top container, 2: the list entry).
func (s *skel) posCtx(pos int) []string {
	switch {
	case pos == 1:
		return []string{"top"}
	case s.id == "G":
		return []string{"top", "item"}
	default:
		return []string{"top", "items", "item"}
	}
}

// Build assembles the schema made of the given atoms at the given positions (1 or 2).
func Build(skelID string, atoms []*Atom, pos []int) *Schema {
	s := skels[skelID]
	var ogrp strings.Builder
	ngrp := 0
	r := &renderer{style: skelID, prefix: s.prefix, idPath: s.idPath, groupings: &ogrp, ngrp: &ngrp}
	sc := &Schema{Skel: skelID, Pos: pos}
	var ids []string
	needExt, needOCExt := false, false
	var top, grp, root, augSame, augOther, augOtherGrp strings.Builder
	// leaf-like and directory-like text per position
	cfg, st, dirs := map[int]*strings.Builder{1: {}, 2: {}}, map[int]*strings.Builder{1: {}, 2: {}}, map[int]*strings.Builder{1: {}, 2: {}}
	var extra []File
	for i, a := range atoms {
		p := pos[i]
		ids = append(ids, fmt.Sprintf("%s@%d", a.ID, p))
		sc.Atoms = append(sc.Atoms, a.ID)
		if a.Unsupported != "" {
			sc.Unsupported = a.Unsupported
		}
		needExt = needExt || a.NeedExt
		needOCExt = needOCExt || a.NeedOCExt
		top.WriteString(indent(r.subst(a.Top, nil), 1))
		for _, g := range a.Groupings {
			fmt.Fprintf(&grp, "  grouping %s {\n", g.Name)
			leafOnly := true
			for _, it := range g.Items {
				if !it.leafLike() {
					leafOnly = false
				}
			}
			if leafOnly {
				// a grouping of leaves is used inside config and state: its body is plain leaves in both styles
				grp.WriteString((&renderer{style: "G", prefix: s.prefix, idPath: s.idPath}).leafLikes(g.Items, nil, 2, false))
			} else {
				grp.WriteString(r.body(g.Items, nil, 2, false))
			}
			grp.WriteString("  }\n")
		}
		ctx := s.posCtx(p)
		if skelID == "G" {
			depth := 2
			if p == 2 {
				depth = 3
			}
			dirs[p].WriteString(r.body(a.Items, ctx, depth, false))
		} else {
			depth := 2
			if p == 2 {
				depth = 4
			}
			r.plain = a.PlainMirror
			ct, stt := r.cfgState(a.Items, ctx, depth+1)
			cfg[p].WriteString(ct)
			st[p].WriteString(stt)
			dirs[p].WriteString(r.dirs(a.Items, ctx, depth, false))
		}
		root.WriteString(r.body(a.RootItems, nil, 1, false))
		for _, ag := range a.Augs {
			out := &augSame
			if ag.Other {
				out = &augOther
			}
			tgt := ""
			for _, e := range ctx {
				tgt += "/" + s.prefix + ":" + e
			}
			rr := *r
			if ag.Other {
				rr.groupings = &augOtherGrp // the groupings of an augmenting module live in that module
			}
			if skelID == "G" {
				fmt.Fprintf(out, "  augment \"%s\" {\n%s  }\n", tgt, rr.body(ag.Items, ctx, 2, false))
				continue
			}
			hasLeaf, hasDir := false, false
			for _, it := range ag.Items {
				if it.leafLike() {
					hasLeaf = true
				} else {
					hasDir = true
				}
			}
			if hasLeaf {
				ct, stt := rr.cfgState(ag.Items, ctx, 2)
				fmt.Fprintf(out, "  augment \"%s/%s:config\" {\n%s  }\n", tgt, s.prefix, ct)
				fmt.Fprintf(out, "  augment \"%s/%s:state\" {\n%s  }\n", tgt, s.prefix, stt)
			}
			if hasDir {
				fmt.Fprintf(out, "  augment \"%s\" {\n%s  }\n", tgt, rr.dirs(ag.Items, ctx, 2, false))
			}
		}
		if a.ExtraModule != nil {
			n, t := a.ExtraModule(s.module, s.prefix)
			extra = append(extra, File{Name: n + ".yang", Text: t, Generate: true})
		}
	}
	sc.ID = skelID + ":" + strings.Join(ids, "+")
	if len(ids) == 0 {
		sc.ID = skelID + ":skeleton"
	}

	var b strings.Builder
	fmt.Fprintf(&b, "module %s {\n  yang-version 1.1;\n  namespace \"urn:%s\";\n  prefix %s;\n", s.module, s.module, s.prefix)
	if needExt {
		b.WriteString("  import gmc-ext { prefix x; }\n")
	}
	if needOCExt {
		b.WriteString("  import openconfig-extensions { prefix oc-ext; }\n")
	}
	b.WriteString(top.String())
	b.WriteString(grp.String())
	b.WriteString(ogrp.String())
	if skelID == "G" {
		b.WriteString("  container top {\n    leaf id { type string; }\n")
		b.WriteString(dirs[1].String())
		b.WriteString("    list item {\n      key \"name\";\n      leaf name { type string; }\n      leaf val { type uint32; }\n")
		b.WriteString(dirs[2].String())
		b.WriteString("    }\n  }\n")
	} else {
		b.WriteString("  container top {\n    container config {\n      leaf id { type string; }\n")
		b.WriteString(cfg[1].String())
		b.WriteString("    }\n    container state {\n      config false;\n      leaf id { type string; }\n      leaf counter { type uint64; }\n")
		b.WriteString(st[1].String())
		b.WriteString("    }\n")
		b.WriteString(dirs[1].String())
		b.WriteString("    container items {\n      list item {\n        key \"name\";\n        leaf name { type leafref { path \"../config/name\"; } }\n")
		b.WriteString("        container config {\n          leaf name { type string; }\n          leaf val { type uint32; }\n")
		b.WriteString(cfg[2].String())
		b.WriteString("        }\n        container state {\n          config false;\n          leaf name { type string; }\n          leaf val { type uint32; }\n")
		b.WriteString(st[2].String())
		b.WriteString("        }\n")
		b.WriteString(dirs[2].String())
		b.WriteString("      }\n    }\n  }\n")
	}
	b.WriteString(root.String())
	b.WriteString(augSame.String())
	b.WriteString("}\n")
	sc.Files = append(sc.Files, File{Name: s.module + ".yang", Text: b.String(), Generate: true})
	if augOther.Len() > 0 {
		n := s.module + "-aug"
		t := fmt.Sprintf("module %s {\n  yang-version 1.1;\n  namespace \"urn:%s\";\n  prefix aug;\n  import %s { prefix %s; }\n%s%s}\n", n, n, s.module, s.prefix, augOtherGrp.String(), augOther.String())
		sc.Files = append(sc.Files, File{Name: n + ".yang", Text: t, Generate: true})
	}
	sc.Files = append(sc.Files, extra...)
	if needExt {
		sc.Files = append(sc.Files, File{Name: "gmc-ext.yang", Text: extModule})
	}
	if needOCExt {
		sc.Files = append(sc.Files, File{Name: "openconfig-extensions.yang", Text: ocExtModule})
	}
	// syntactic features deciding which representation-changing flags can matter
	all := ""
	for _, f := range sc.Files {
		all += f.Text
	}
	feat := map[string]bool{}
	if strings.Contains(all, "type union") || strings.Contains(all, "xunion") {
		feat["union"] = true
	}
	if strings.Contains(all, "ordered-by user") {
		feat["ordered"] = true
	}
	if strings.Contains(all, "enumeration") || strings.Contains(all, "xenum") || strings.Contains(all, "xgrp") {
		feat["enum"] = true
	}
	for f := range feat {
		sc.Features = append(sc.Features, f)
	}
	sort.Strings(sc.Features)
	return sc
}

func indent(s string, n int) string {
	if s == "" {
		return ""
	}
	lines := strings.Split(strings.TrimRight(s, "\n"), "\n")
	for i := range lines {
		lines[i] = ind(n) + lines[i]
	}
	return strings.Join(lines, "\n") + "\n"
}

// HasFeature reports whether the schema has the syntactic feature.
func (s *Schema) HasFeature(f string) bool {
	for _, x := range s.Features {
		if x == f {
			return true
		}
	}
	return false
}
