// Package fam is the schema family of the genmc engine (properties C26, C27): YANG modules assembled from
// feature atoms placed into a fixed skeleton, crossed with generator flag combinations. It has no ygot
// dependency; everything is enumerated in a fixed order.
package fam

import (
	"fmt"
	"strings"
)

// Item is an abstract YANG data definition. It is rendered in two styles: "G" (generic: nodes exactly as
// written) and "O" (OpenConfig style: leaves live in config/state containers, lists are wrapped in a
// surrounding container and keyed by leafrefs into config/).
type Item struct {
	Kind        string // leaf | leaf-list | container | list | choice | uses
	Name        string
	Type        string   // full type statement ("type string;"); tokens @REL_ID@, @ABS_ID@, @P@ are substituted
	Default     []string // default statement(s)
	Extra       string   // raw extra substatements
	Presence    bool
	ConfigFalse bool // container / list / leaf: config false
	StateOnly   bool // leaf: only in the state container (style O); config false leaf in style G
	Ordered     bool // list / leaf-list: ordered-by user
	Keys        []string
	Children    []*Item
	Cases       []*Alt // choice
	Shorthand   bool   // choice: cases written in shorthand form (single node without "case")
	LeafLike    bool   // uses: the grouping holds only leaves (goes into config and state in style O)
}

// Alt is one case of a choice.
type Alt struct {
	Name  string
	Items []*Item
}

// Grouping is a module-level grouping whose body is rendered in the style of the module.
type Grouping struct {
	Name  string
	Items []*Item
}

// Aug is an augmentation of the node the atom is placed in.
type Aug struct {
	Other bool // true: written in a second module that imports the main module
	Items []*Item
}

func leaf(name, typ string, def ...string) *Item {
	return &Item{Kind: "leaf", Name: name, Type: typ, Default: def}
}
func leafList(name, typ string, def ...string) *Item {
	return &Item{Kind: "leaf-list", Name: name, Type: typ, Default: def}
}
func cont(name string, ch ...*Item) *Item { return &Item{Kind: "container", Name: name, Children: ch} }
func pcont(name string, ch ...*Item) *Item {
	return &Item{Kind: "container", Name: name, Presence: true, Children: ch}
}
func list(name string, keys []string, ch ...*Item) *Item {
	return &Item{Kind: "list", Name: name, Keys: keys, Children: ch}
}
func choice(name string, cases ...*Alt) *Item { return &Item{Kind: "choice", Name: name, Cases: cases} }
func uses(name string, leafLike bool) *Item {
	return &Item{Kind: "uses", Name: name, LeafLike: leafLike}
}

func (it *Item) with(f func(*Item)) *Item { f(it); return it }

// leafLike reports whether the item goes into the config/state containers in style O.
func (it *Item) leafLike() bool {
	switch it.Kind {
	case "leaf", "leaf-list":
		return true
	case "uses":
		return it.LeafLike
	case "choice":
		for _, c := range it.Cases {
			for _, i := range c.Items {
				if !i.leafLike() {
					return false
				}
			}
		}
		return true
	}
	return false
}

// renderer renders items for one module.
type renderer struct {
	style  string   // "G" | "O"
	prefix string   // own prefix
	idPath []string // data path of the skeleton leaf that leafref atoms point to
	// style O: the leaves of a directory are defined once, in a module-level grouping that is used by both the
	// config and the state container (the OpenConfig convention); plain switches to two textual copies.
	plain     bool
	groupings *strings.Builder
	ngrp      *int
}

// cfgState returns the statements that go into the config and into the state container of the directory at
// ctx for its leaf-like items (style O).
func (r *renderer) cfgState(items []*Item, ctx []string, depth int) (string, string) {
	if r.plain || r.groupings == nil {
		return r.leafLikes(items, append(clone(ctx), "config"), depth, false), r.leafLikes(items, append(clone(ctx), "state"), depth, true)
	}
	var cfgItems, stItems []*Item
	for _, it := range items {
		if !it.leafLike() {
			continue
		}
		if (it.Kind == "leaf" || it.Kind == "leaf-list") && it.StateOnly {
			stItems = append(stItems, it)
		} else {
			cfgItems = append(cfgItems, it)
		}
	}
	cfg, st := "", ""
	mk := func(its []*Item, suffix string, inState bool) string {
		if len(its) == 0 {
			return ""
		}
		*r.ngrp++
		name := fmt.Sprintf("%s%d-%s", strings.Join(ctx, "-"), *r.ngrp, suffix)
		if len(ctx) == 0 {
			name = fmt.Sprintf("root%d-%s", *r.ngrp, suffix)
		}
		fmt.Fprintf(r.groupings, "  grouping %s {\n%s  }\n", name, r.leafLikes(its, append(clone(ctx), suffix), 2, inState))
		return fmt.Sprintf("%suses %s;\n", ind(depth), name)
	}
	c := mk(cfgItems, "config", false)
	cfg = c
	st = c + mk(stItems, "state", true)
	return cfg, st
}

func (r *renderer) subst(s string, ctx []string) string {
	if strings.Contains(s, "@REL_ID@") {
		common := 0
		for common < len(ctx) && common < len(r.idPath)-1 && ctx[common] == r.idPath[common] {
			common++
		}
		ups := 1 + len(ctx) - common
		s = strings.ReplaceAll(s, "@REL_ID@", strings.Repeat("../", ups)+strings.Join(r.idPath[common:], "/"))
	}
	if strings.Contains(s, "@ABS_ID@") {
		var b strings.Builder
		for _, e := range r.idPath {
			b.WriteString("/" + r.prefix + ":" + e)
		}
		s = strings.ReplaceAll(s, "@ABS_ID@", b.String())
	}
	return strings.ReplaceAll(s, "@P@", r.prefix)
}

func ind(n int) string { return strings.Repeat("  ", n) }

// leafText renders a leaf / leaf-list statement.
func (r *renderer) leafText(it *Item, ctx []string, depth int, cfgFalse bool) string {
	var b strings.Builder
	fmt.Fprintf(&b, "%s%s %s {\n", ind(depth), it.Kind, it.Name)
	fmt.Fprintf(&b, "%s%s\n", ind(depth+1), r.subst(it.Type, ctx))
	for _, d := range it.Default {
		fmt.Fprintf(&b, "%sdefault %q;\n", ind(depth+1), d)
	}
	if it.Ordered {
		fmt.Fprintf(&b, "%sordered-by user;\n", ind(depth+1))
	}
	if cfgFalse {
		fmt.Fprintf(&b, "%sconfig false;\n", ind(depth+1))
	}
	if it.Extra != "" {
		fmt.Fprintf(&b, "%s%s\n", ind(depth+1), r.subst(it.Extra, ctx))
	}
	fmt.Fprintf(&b, "%s}\n", ind(depth))
	return b.String()
}

// leafLikes renders leaf-like items (leaf, leaf-list, leaf-only choice, leaf-like uses) into a parent at ctx.
// inState selects the state mirror (style O): StateOnly leaves appear only there.
func (r *renderer) leafLikes(items []*Item, ctx []string, depth int, inState bool) string {
	var b strings.Builder
	for _, it := range items {
		if !it.leafLike() {
			continue
		}
		switch it.Kind {
		case "leaf", "leaf-list":
			if r.style == "O" && it.StateOnly && !inState {
				continue
			}
			b.WriteString(r.leafText(it, ctx, depth, r.style == "G" && (it.StateOnly || it.ConfigFalse)))
		case "uses":
			fmt.Fprintf(&b, "%suses %s;\n", ind(depth), it.Name)
		case "choice":
			b.WriteString(r.choiceText(it, ctx, depth, func(items []*Item, d int) string { return r.leafLikes(items, ctx, d, inState) }))
		}
	}
	return b.String()
}

func (r *renderer) choiceText(it *Item, ctx []string, depth int, body func([]*Item, int) string) string {
	var b strings.Builder
	fmt.Fprintf(&b, "%schoice %s {\n", ind(depth), it.Name)
	for _, c := range it.Cases {
		if it.Shorthand && len(c.Items) == 1 && c.Items[0].Kind != "choice" {
			b.WriteString(body(c.Items, depth+1))
			continue
		}
		fmt.Fprintf(&b, "%scase %s {\n", ind(depth+1), c.Name)
		b.WriteString(body(c.Items, depth+2))
		fmt.Fprintf(&b, "%s}\n", ind(depth+1))
	}
	fmt.Fprintf(&b, "%s}\n", ind(depth))
	return b.String()
}

// body renders the complete content of a directory node at ctx (all items, both kinds).
func (r *renderer) body(items []*Item, ctx []string, depth int, cfgFalse bool) string {
	var b strings.Builder
	if r.style == "G" {
		b.WriteString(r.leafLikes(items, ctx, depth, false))
	} else {
		hasCfg, hasAny := false, false
		for _, it := range items {
			if it.leafLike() {
				hasAny = true
				if !(it.Kind != "uses" && it.Kind != "choice" && it.StateOnly) {
					hasCfg = true
				}
			}
		}
		if hasAny {
			cfgText, stText := r.cfgState(items, ctx, depth+1)
			if hasCfg && !cfgFalse {
				fmt.Fprintf(&b, "%scontainer config {\n%s%s}\n", ind(depth), cfgText, ind(depth))
			}
			cf := ""
			if !cfgFalse {
				cf = ind(depth+1) + "config false;\n"
			}
			fmt.Fprintf(&b, "%scontainer state {\n%s%s%s}\n", ind(depth), cf, stText, ind(depth))
		}
	}
	b.WriteString(r.dirs(items, ctx, depth, cfgFalse))
	return b.String()
}

func clone(s []string) []string { return append([]string{}, s...) }

// dirs renders the directory-like items (container, list, choice with directories, uses of directories).
func (r *renderer) dirs(items []*Item, ctx []string, depth int, cfgFalse bool) string {
	var b strings.Builder
	for _, it := range items {
		if it.leafLike() {
			continue
		}
		switch it.Kind {
		case "uses":
			fmt.Fprintf(&b, "%suses %s;\n", ind(depth), it.Name)
		case "choice":
			b.WriteString(r.choiceText(it, ctx, depth, func(items []*Item, d int) string { return r.body(items, ctx, d, cfgFalse) }))
		case "container":
			fmt.Fprintf(&b, "%scontainer %s {\n", ind(depth), it.Name)
			if it.Presence {
				fmt.Fprintf(&b, "%spresence \"p\";\n", ind(depth+1))
			}
			cf := cfgFalse
			if it.ConfigFalse && !cfgFalse {
				fmt.Fprintf(&b, "%sconfig false;\n", ind(depth+1))
				cf = true
			}
			if it.Extra != "" {
				fmt.Fprintf(&b, "%s%s\n", ind(depth+1), it.Extra)
			}
			b.WriteString(r.body(it.Children, append(clone(ctx), it.Name), depth+1, cf))
			fmt.Fprintf(&b, "%s}\n", ind(depth))
		case "list":
			b.WriteString(r.listText(it, ctx, depth, cfgFalse))
		}
	}
	return b.String()
}

func (r *renderer) listText(it *Item, ctx []string, depth int, cfgFalse bool) string {
	var b strings.Builder
	cf := cfgFalse || it.ConfigFalse
	d := depth
	lctx := clone(ctx)
	if r.style == "O" {
		fmt.Fprintf(&b, "%scontainer %ss {\n", ind(d), it.Name)
		if it.ConfigFalse && !cfgFalse {
			fmt.Fprintf(&b, "%sconfig false;\n", ind(d+1))
		}
		lctx = append(lctx, it.Name+"s")
		d++
	}
	lctx = append(lctx, it.Name)
	fmt.Fprintf(&b, "%slist %s {\n", ind(d), it.Name)
	if len(it.Keys) > 0 {
		fmt.Fprintf(&b, "%skey \"%s\";\n", ind(d+1), strings.Join(it.Keys, " "))
	}
	if it.Ordered {
		fmt.Fprintf(&b, "%sordered-by user;\n", ind(d+1))
	}
	if r.style == "G" && it.ConfigFalse && !cfgFalse {
		fmt.Fprintf(&b, "%sconfig false;\n", ind(d+1))
	}
	if it.Extra != "" {
		fmt.Fprintf(&b, "%s%s\n", ind(d+1), it.Extra)
	}
	if r.style == "O" {
		tgt := "config"
		if cf {
			tgt = "state"
		}
		for _, k := range it.Keys {
			fmt.Fprintf(&b, "%sleaf %s { type leafref { path \"../%s/%s\"; } }\n", ind(d+1), k, tgt, k)
		}
	}
	b.WriteString(r.body(it.Children, lctx, d+1, cf))
	fmt.Fprintf(&b, "%s}\n", ind(d))
	if r.style == "O" {
		fmt.Fprintf(&b, "%s}\n", ind(depth))
	}
	return b.String()
}
