// Command genmc drives the phases of the genmc engine that run before the reflection binary:
//
//	genmc gen     enumerate the stage's (schema x configuration) cases, generate Go for each with the generator
//	              library of the tree under test (in-process, in parallel worker processes), write the packages
//	              as real files into the scratch copy, de-duplicate byte-identical outputs;
//	genmc build   go build / go vet the packages in batches, attribute failures to packages;
//	genmc imports write the import list of the reflection binary.
package main

import (
	"bytes"
	"crypto/sha256"
	"encoding/hex"
	"encoding/json"
	"flag"
	"fmt"
	"os"
	"os/exec"
	"path/filepath"
	"regexp"
	"runtime"
	"sort"
	"strings"
	"sync"
	"time"

	"github.com/openconfig/goyang/pkg/yang"
	"github.com/openconfig/ygot/genutil"
	"github.com/openconfig/ygot/gogen"
	"github.com/openconfig/ygot/ygen"
	"github.com/openconfig/ygot/zzverif/genmc/fam"
	"github.com/openconfig/ygot/zzverif/genmc/mf"
)

func die(format string, a ...interface{}) {
	fmt.Fprintf(os.Stderr, "ERROR genmc: "+format+"\n", a...)
	os.Exit(2)
}

var (
	work    = flag.String("work", "", "work directory (manifests, yang files)")
	scratch = flag.String("scratch", "", "scratch copy of the repository (generated packages are written below zzverif/gmc)")
	tier    = flag.String("tier", "quick", "quick|thorough")
	stage   = flag.String("stage", "a", "a: skeletons, single atoms, corpus; b: atom pairs (thorough)")
	shard   = flag.String("shard", "", "internal: worker i/n")
	jobs    = flag.Int("j", runtime.NumCPU(), "parallel workers")
	genbin  = flag.String("genbin", "", "generator binary for the cross-check")
	verif   = flag.String("verif", "", "verif directory (extra corpus under schemas/)")
	doVet   = flag.Bool("vet", true, "run go vet")
	until   = flag.Int64("deadline", 0, "unix time after which no new batch is started")
	only    = flag.String("only", "", "replay: JSON file with one recorded case (schema + flags)")
	shardSz = flag.Int("shardsize", 3000, "imports: maximal number of generated packages linked into one reflection binary")
	shardIx = flag.Int("shardidx", -1, "imports: write the import list of this shard (-1: only plan the shards)")
	filter  = flag.String("filter", "", "development aid: keep only cases whose schema id matches this regexp (the run is labelled non-exhaustive)")
)

func main() {
	if len(os.Args) < 2 {
		die("usage: genmc gen|build|imports [flags]")
	}
	cmd := os.Args[1]
	flag.CommandLine.Parse(os.Args[2:])
	switch cmd {
	case "gen":
		if *shard != "" {
			worker()
			return
		}
		gen()
	case "build":
		build()
	case "imports":
		imports()
	default:
		die("unknown command %q", cmd)
	}
}

func manifestPath(st string) string { return filepath.Join(*work, "manifest-"+st+".json") }

// ---- generation ------------------------------------------------------------------------------------------

// generate runs the Go generator library exactly as generator/generator.go wires it.
func generate(inputs, paths, exclude []string, f fam.Flags, pkg string) (code string, status, msg string) {
	defer func() {
		if r := recover(); r != nil {
			status, msg = "panic", fmt.Sprint(r)
		}
	}()
	cb, err := genutil.TranslateToCompressBehaviour(f.Compress, f.ExcludeState, f.PreferOpState)
	if err != nil {
		return "", "error", err.Error()
	}
	var inc []string
	for _, p := range paths {
		inc = append(inc, filepath.Join(p, "..."))
	}
	cg := gogen.New("", ygen.IROptions{
		ParseOptions: ygen.ParseOpts{ExcludeModules: exclude, YANGParseOptions: yang.Options{}},
		TransformationOptions: ygen.TransformationOpts{
			CompressBehaviour:          cb,
			GenerateFakeRoot:           true,
			FakeRootName:               "device",
			ShortenEnumLeafNames:       f.ShortenEnum,
			EnumerationsUseUnderscores: true,
		},
	}, gogen.GoOpts{
		PackageName:                         pkg,
		GenerateJSONSchema:                  true,
		YgotImportPath:                      genutil.GoDefaultYgotImportPath,
		YtypesImportPath:                    genutil.GoDefaultYtypesImportPath,
		GoyangImportPath:                    genutil.GoDefaultGoyangImportPath,
		GenerateRenameMethod:                f.Rename,
		AnnotationPrefix:                    gogen.DefaultAnnotationPrefix,
		AddYangPresence:                     f.Presence,
		GenerateGetters:                     f.Getters,
		GenerateDeleteMethod:                f.Delete,
		GenerateAppendMethod:                f.Append,
		GenerateLeafGetters:                 f.LeafGetters,
		GeneratePopulateDefault:             f.PopulateDefaults,
		ValidateFunctionName:                "Validate",
		GenerateSimpleUnions:                f.SimpleUnions,
		IgnoreShadowSchemaPaths:             f.IgnoreShadow,
		GenerateOrderedListsAsUnorderedMaps: !f.OrderedMaps,
	})
	gc, errs := cg.Generate(inputs, inc)
	if errs != nil {
		return "", "error", fmt.Sprint(errs)
	}
	var b strings.Builder
	b.WriteString(gc.CommonHeader)
	b.WriteString(gc.OneOffHeader)
	for _, s := range gc.Structs {
		fmt.Fprintln(&b, s.String())
	}
	for _, s := range gc.Enums {
		fmt.Fprintln(&b, s)
	}
	fmt.Fprintln(&b, gc.EnumMap)
	if len(gc.JSONSchemaCode) > 0 {
		fmt.Fprintln(&b, gc.JSONSchemaCode)
	}
	if len(gc.EnumTypeMap) > 0 {
		fmt.Fprintln(&b, gc.EnumTypeMap)
	}
	return b.String(), "ok", ""
}

// lineDelta hashes the multiset of lines by which two texts differ.
func lineDelta(a, b string) string {
	cnt := map[string]int{}
	for _, l := range strings.Split(a, "\n") {
		cnt[l]++
	}
	for _, l := range strings.Split(b, "\n") {
		cnt[l]--
	}
	var d []string
	for l, n := range cnt {
		if n != 0 {
			d = append(d, fmt.Sprintf("%+d %s", n, l))
		}
	}
	sort.Strings(d)
	h := sha256.Sum256([]byte(strings.Join(d, "\n")))
	return hex.EncodeToString(h[:8])
}

var pkgLine = regexp.MustCompile(`(?m)^package [A-Za-z0-9_]+$`)

// normalise masks what legitimately differs between two generations of the same code: the header comment
// (binary name, input paths) and the package name.
func normalise(code string) string {
	loc := pkgLine.FindStringIndex(code)
	if loc == nil {
		return code
	}
	return "package P" + code[loc[1]:]
}

func hashOf(code string) string {
	h := sha256.Sum256([]byte(normalise(code)))
	return hex.EncodeToString(h[:12])
}

func regGo(pkg string) string {
	return fmt.Sprintf(`package %s

import (
	"reflect"

	"github.com/openconfig/ygot/zzverif/genmc/reg"
)

func init() {
	reg.Register(&reg.Pkg{Name: %q, Root: reflect.TypeOf(Device{}), Unzip: UnzipSchema})
}
`, pkg, pkg)
}

func pkgDir(pkg string) string { return filepath.Join(*scratch, "zzverif", "gmc", pkg) }

type task struct {
	Case  *mf.Case  `json:"case,omitempty"`
	Probe *mf.Probe `json:"probe,omitempty"`
	// probe inputs
	Inputs []string  `json:"inputs,omitempty"`
	Paths  []string  `json:"paths,omitempty"`
	Flags  fam.Flags `json:"flags,omitempty"`
	Flip   int       `json:"flip,omitempty"`
}

func worker() {
	var i, n int
	fmt.Sscanf(*shard, "%d/%d", &i, &n)
	var tasks []*task
	b, err := os.ReadFile(filepath.Join(*work, "tasks-"+*stage+".json"))
	if err != nil {
		die("%v", err)
	}
	if err := json.Unmarshal(b, &tasks); err != nil {
		die("%v", err)
	}
	var out []*task
	for ti, t := range tasks {
		if ti%n != i {
			continue
		}
		if t.Probe != nil {
			a, s1, m1 := generate(t.Inputs, t.Paths, nil, t.Flags, "p")
			f2 := t.Flags
			f2.Set(t.Flip, !f2.Get(t.Flip))
			c, s2, m2 := generate(t.Inputs, t.Paths, nil, f2, "p")
			t.Probe.Same = s1 == s2 && normalise(a) == normalise(c)
			if !t.Probe.Same {
				t.Probe.Msg = fmt.Sprintf("%s/%s %s %s", s1, s2, m1, m2)
				t.Probe.Delta = lineDelta(normalise(a), normalise(c))
				// is the generator's output for this schema stable at all? (if not - a matter of C25 - the
				// effect of a flag cannot be measured)
				for k := 0; k < 10; k++ {
					if a2, _, _ := generate(t.Inputs, t.Paths, nil, t.Flags, "p"); a2 != a {
						t.Probe.Msg, t.Probe.Delta = "nondeterministic", ""
						break
					}
				}
			}
			out = append(out, t)
			continue
		}
		c := t.Case
		code, st, msg := generate(c.Inputs, c.Paths, c.Exclude, c.Flags, c.Pkg)
		c.GenStatus, c.GenMsg = st, msg
		if st == "ok" {
			c.Hash = hashOf(code)
			c.Lines = strings.Count(code, "\n")
			d := pkgDir(c.Pkg)
			if err := os.MkdirAll(d, 0o755); err != nil {
				die("%v", err)
			}
			if err := os.WriteFile(filepath.Join(d, c.Pkg+".go"), []byte(code), 0o644); err != nil {
				die("%v", err)
			}
			if err := os.WriteFile(filepath.Join(d, "reg.go"), []byte(regGo(c.Pkg)), 0o644); err != nil {
				die("%v", err)
			}
		}
		out = append(out, t)
	}
	ob, _ := json.Marshal(out)
	if err := os.WriteFile(filepath.Join(*work, fmt.Sprintf("result-%s-%d.json", *stage, i)), ob, 0o644); err != nil {
		die("%v", err)
	}
}

// corpusPlan lists the repository's own YANG (read from the scratch copy, i.e. the tree under test) and the
// harness schemas.
func corpusPlan(m *mf.Manifest) []*mf.Case {
	helpers := fam.Flags{OrderedMaps: true, PopulateDefaults: true, Getters: true, Append: true, Rename: true, Delete: true, LeafGetters: true, Presence: true}
	cfgs := func(oc bool) []fam.Flags {
		u1, u2 := helpers, helpers
		u1.SimpleUnions = true
		out := []fam.Flags{u1, u2}
		if oc {
			c1, c2, c3 := u1, u2, u1
			c1.Compress, c1.IgnoreShadow = true, true
			c2.Compress, c2.ShortenEnum = true, true
			c3.Compress, c3.PreferOpState = true, true
			out = append(out, c1, c2, c3)
		}
		return out
	}
	type ent struct {
		id     string
		inputs []string
		paths  []string
		oc     bool
		excl   []string
	}
	var ents []ent
	addDir := func(dir string, paths []string, ocByName bool, skip func(string) bool) {
		fs, _ := filepath.Glob(filepath.Join(dir, "*.yang"))
		sort.Strings(fs)
		for _, f := range fs {
			base := filepath.Base(f)
			if skip != nil && skip(base) {
				continue
			}
			rel, _ := filepath.Rel(*scratch, f)
			if strings.HasPrefix(rel, "..") {
				rel = "schemas/" + base
			}
			ents = append(ents, ent{id: "corpus:" + rel, inputs: []string{f}, paths: paths, oc: !ocByName || strings.HasPrefix(base, "openconfig-")})
		}
	}
	tm := filepath.Join(*scratch, "testdata", "modules")
	addDir(tm, []string{tm}, true, func(b string) bool {
		return b == "openconfig-extensions.yang" || b == "openconfig-codegen-extensions.yang"
	})
	for _, d := range []string{"integration_tests/uncompressed/yang", "integration_tests/schemaops/yang", "demo/uncompressed/yang"} {
		dd := filepath.Join(*scratch, d)
		addDir(dd, []string{dd}, true, nil)
	}
	gs := filepath.Join(*scratch, "demo", "getting_started", "yang")
	ents = append(ents, ent{id: "corpus:demo/getting_started", inputs: []string{filepath.Join(gs, "openconfig-interfaces.yang"), filepath.Join(gs, "openconfig-if-ip.yang")}, paths: []string{gs}, oc: true, excl: []string{"ietf-interfaces"}})
	pg := filepath.Join(*scratch, "demo", "protobuf_getting_started", "yang")
	ents = append(ents, ent{id: "corpus:demo/protobuf_getting_started", inputs: []string{filepath.Join(pg, "rib", "openconfig-rib-bgp.yang")}, paths: []string{pg}}) // the demo only generates protobuf, uncompressed
	if *verif != "" {
		vs := filepath.Join(*verif, "schemas")
		ents = append(ents, ent{id: "corpus:schemas/vt", inputs: []string{filepath.Join(vs, "vt.yang"), filepath.Join(vs, "vt-aug.yang")}, paths: []string{vs}})
		ents = append(ents, ent{id: "corpus:schemas/voc", inputs: []string{filepath.Join(vs, "voc.yang")}, paths: []string{vs}, oc: true})
		ents = append(ents, ent{id: "corpus:schemas/vk", inputs: []string{filepath.Join(vs, "vk.yang")}, paths: []string{vs}})
	}
	var out []*mf.Case
	for _, e := range ents {
		m.Schemas[e.id] = &fam.Schema{ID: e.id, Skel: "corpus"}
		for i, f := range cfgs(e.oc) {
			out = append(out, &mf.Case{Case: fam.Case{ID: fmt.Sprintf("%s#%d", e.id, i), Kind: "corpus", SchemaID: e.id, Flags: f}, Inputs: e.inputs, Paths: e.paths, Exclude: e.excl})
		}
	}
	return out
}

func gen() {
	if *work == "" || *scratch == "" {
		die("gen needs -work and -scratch")
	}
	m := &mf.Manifest{Tier: *tier, Repo: *scratch, Schemas: map[string]*fam.Schema{}, Notes: map[string]interface{}{}}
	var plan *fam.Plan
	var tasks []*task
	switch {
	case *only != "":
		// replay of one recorded case
		b, err := os.ReadFile(*only)
		if err != nil {
			die("%v", err)
		}
		var doc struct {
			Case struct {
				Case    fam.Case    `json:"case"`
				Schema  *fam.Schema `json:"schema"`
				Inputs  []string    `json:"corpus_inputs"`
				Paths   []string    `json:"corpus_paths"`
				Exclude []string    `json:"exclude_modules"`
			} `json:"case"`
		}
		if err := json.Unmarshal(b, &doc); err != nil {
			die("replay file: %v", err)
		}
		c := doc.Case
		if c.Schema == nil {
			die("replay file has no schema")
		}
		m.Schemas[c.Schema.ID] = c.Schema
		mc := &mf.Case{Case: c.Case}
		abs := func(p string) string {
			if filepath.IsAbs(p) {
				return p
			}
			return filepath.Join(*scratch, p)
		}
		for _, p := range c.Inputs {
			mc.Inputs = append(mc.Inputs, abs(p))
		}
		for _, p := range c.Paths {
			mc.Paths = append(mc.Paths, abs(p))
		}
		mc.Exclude = c.Exclude
		m.Cases = append(m.Cases, mc)
	case *stage == "a":
		plan = fam.Singles(*tier == "thorough")
	case *stage == "b":
		prev, err := mf.Load(manifestPath("a"))
		if err != nil {
			die("stage b needs the manifest of stage a: %v", err)
		}
		// atoms that fail alone in the configuration family used for pairs: an undocumented generator error or a
		// compile error in any configuration, or a failure (documented refusals included) in every configuration
		bad := map[string]bool{}
		total, failed := map[string]int{}, map[string]int{}
		for _, c := range prev.Cases {
			s := prev.Schemas[c.SchemaID]
			if c.Kind != "family" || s == nil || len(s.Atoms) != 1 {
				continue
			}
			if (s.Skel == "O") != c.Flags.Compress {
				continue
			}
			k := s.Skel + "/" + s.Atoms[0]
			total[k]++
			switch {
			case c.GenStatus != "ok":
				failed[k]++
				if c.GenStatus != "error" || mf.DocumentedError(c.GenMsg) == "" {
					bad[k] = true
				}
			case c.Build.Status == "fail":
				failed[k]++
				bad[k] = true
			}
		}
		for k, n := range total {
			if failed[k] == n {
				bad[k] = true
			}
		}
		// representation flags that changed the output of an atom alone although its syntax did not suggest it
		featOf := map[string]string{"generate_simple_unions": "union", "generate_ordered_maps": "ordered", "shorten_enum_leaf_names": "enum"}
		learned := map[string][]string{}
		for _, p := range prev.Probes {
			s := prev.Schemas[p.SchemaID]
			if p.Relevant && s != nil && len(s.Atoms) == 1 {
				k := s.Skel + "/" + s.Atoms[0]
				dup := false
				for _, x := range learned[k] {
					dup = dup || x == featOf[p.Flag]
				}
				if !dup {
					learned[k] = append(learned[k], featOf[p.Flag])
				}
			}
		}
		var skipped int
		plan, skipped = fam.Pairs(func(sk, a string) bool { return bad[sk+"/"+a] }, func(sk, a string) []string { return learned[sk+"/"+a] })
		m.Notes["flag_relevance_learned_from_probes"] = learned
		m.Notes["pairs_skipped_because_an_atom_fails_alone"] = skipped
		m.Notes["atoms_failing_alone"] = fam.SortedKeys(bad)
	}
	if plan != nil {
		for id, s := range plan.Schemas {
			m.Schemas[id] = s
		}
		for _, c := range plan.Cases {
			m.Cases = append(m.Cases, &mf.Case{Case: c})
		}
	}
	if *stage == "a" && *only == "" {
		m.Cases = append(m.Cases, corpusPlan(m)...)
	}
	if *filter != "" {
		re, err := regexp.Compile(*filter)
		if err != nil {
			die("bad -filter: %v", err)
		}
		var keep []*mf.Case
		for _, c := range m.Cases {
			if re.MatchString(c.SchemaID) {
				keep = append(keep, c)
			}
		}
		m.Capped = append(m.Capped, fmt.Sprintf("filter %q: %d of %d cases of stage %s kept", *filter, len(keep), len(m.Cases), *stage))
		m.Cases = keep
	}
	// write the YANG of family schemas; assign package names
	ydir := map[string]string{}
	ids := make([]string, 0, len(m.Schemas))
	for id := range m.Schemas {
		ids = append(ids, id)
	}
	sort.Strings(ids)
	for n, id := range ids {
		s := m.Schemas[id]
		if len(s.Files) == 0 {
			continue
		}
		d := filepath.Join(*work, "yang", fmt.Sprintf("%s%05d", *stage, n))
		os.MkdirAll(d, 0o755)
		for _, f := range s.Files {
			if err := os.WriteFile(filepath.Join(d, f.Name), []byte(f.Text), 0o644); err != nil {
				die("%v", err)
			}
		}
		ydir[id] = d
	}
	for i, c := range m.Cases {
		c.Stage = *stage
		c.Pkg = fmt.Sprintf("gm%s%05d", *stage, i)
		if d, ok := ydir[c.SchemaID]; ok {
			c.Paths = []string{d}
			for _, f := range m.Schemas[c.SchemaID].Files {
				if f.Generate {
					c.Inputs = append(c.Inputs, filepath.Join(d, f.Name))
				}
			}
		}
		tasks = append(tasks, &task{Case: c})
	}
	// probes of the flag-relevance reduction: single-atom schemas, first configuration
	if *stage == "a" && *only == "" {
		seen := map[string]bool{}
		for _, c := range m.Cases {
			s := m.Schemas[c.SchemaID]
			if c.Kind != "family" || seen[s.ID] || s.Unsupported != "" {
				continue
			}
			seen[s.ID] = true
			base := fam.PairFlags(s)[0]
			for idx, feat := range map[int]string{1: "union", 2: "ordered", 3: "enum"} {
				if s.HasFeature(feat) || (idx == 3 && !base.Compress) {
					continue
				}
				tasks = append(tasks, &task{Probe: &mf.Probe{SchemaID: s.ID, Flag: fam.FlagNames[idx]}, Inputs: c.Inputs, Paths: c.Paths, Flags: base, Flip: idx})
			}
		}
		// the map above is iterated in random order: fix the order of the probe tasks
		sort.SliceStable(tasks, func(i, j int) bool {
			a, b := tasks[i], tasks[j]
			if (a.Probe == nil) != (b.Probe == nil) {
				return a.Probe == nil
			}
			if a.Probe == nil {
				return false
			}
			if a.Probe.SchemaID != b.Probe.SchemaID {
				return a.Probe.SchemaID < b.Probe.SchemaID
			}
			return a.Probe.Flag < b.Probe.Flag
		})
	}
	tb, _ := json.Marshal(tasks)
	if err := os.WriteFile(filepath.Join(*work, "tasks-"+*stage+".json"), tb, 0o644); err != nil {
		die("%v", err)
	}
	os.MkdirAll(filepath.Join(*scratch, "zzverif", "gmc"), 0o755)
	n := *jobs
	if n > len(tasks) {
		n = len(tasks)
	}
	if n < 1 {
		n = 1
	}
	var wg sync.WaitGroup
	errs := make([]error, n)
	outs := make([][]byte, n)
	for i := 0; i < n; i++ {
		wg.Add(1)
		go func(i int) {
			defer wg.Done()
			c := exec.Command(os.Args[0], "gen", "-work", *work, "-scratch", *scratch, "-stage", *stage, "-shard", fmt.Sprintf("%d/%d", i, n))
			outs[i], errs[i] = c.CombinedOutput()
		}(i)
	}
	wg.Wait()
	for i, e := range errs {
		if e != nil {
			die("generation worker %d failed: %v\n%s", i, e, outs[i])
		}
	}
	// merge
	byPkg := map[string]*mf.Case{}
	for _, c := range m.Cases {
		byPkg[c.Pkg] = c
	}
	for i := 0; i < n; i++ {
		b, err := os.ReadFile(filepath.Join(*work, fmt.Sprintf("result-%s-%d.json", *stage, i)))
		if err != nil {
			die("%v", err)
		}
		var res []*task
		if err := json.Unmarshal(b, &res); err != nil {
			die("%v", err)
		}
		for _, t := range res {
			if t.Probe != nil {
				m.Probes = append(m.Probes, *t.Probe)
				continue
			}
			*byPkg[t.Case.Pkg] = *t.Case
		}
	}
	sort.Slice(m.Probes, func(i, j int) bool {
		if m.Probes[i].SchemaID != m.Probes[j].SchemaID {
			return m.Probes[i].SchemaID < m.Probes[j].SchemaID
		}
		return m.Probes[i].Flag < m.Probes[j].Flag
	})
	// verdict of the probes: generate_simple_unions always switches a schema-independent preamble (the Union*
	// typedefs), so for it "irrelevant" means: the lines that differ are exactly those that differ for the bare skeleton
	skelDelta := map[string]string{}
	for _, p := range m.Probes {
		if strings.HasSuffix(p.SchemaID, ":skeleton") {
			skelDelta[p.SchemaID[:1]+"|"+p.Flag] = p.Delta
		}
	}
	for i := range m.Probes {
		p := &m.Probes[i]
		switch {
		case p.Msg == "nondeterministic", p.Same:
		case p.Flag == "generate_simple_unions" && p.Delta != "" && p.Delta == skelDelta[p.SchemaID[:1]+"|"+p.Flag]:
		default:
			p.Relevant = true
		}
	}
	// de-duplicate byte-identical outputs (same schema only: the embedded schema differs otherwise)
	first := map[string]string{}
	dups := 0
	for _, c := range m.Cases {
		if c.GenStatus != "ok" {
			continue
		}
		k := c.SchemaID + "|" + c.Hash
		if p, ok := first[k]; ok {
			c.DupOf = p
			os.RemoveAll(pkgDir(c.Pkg))
			dups++
			continue
		}
		first[k] = c.Pkg
	}
	m.Notes["duplicate_outputs_"+*stage] = dups
	// cross-check in-process generation against the generator binary
	if *genbin != "" {
		crossCheck(m)
	}
	if err := m.Save(manifestPath(*stage)); err != nil {
		die("%v", err)
	}
	ok, bad := 0, 0
	for _, c := range m.Cases {
		if c.GenStatus == "ok" {
			ok++
		} else {
			bad++
		}
	}
	fmt.Printf("genmc gen: stage=%s cases=%d generated=%d generator-errors=%d duplicate-outputs=%d probes=%d\n", *stage, len(m.Cases), ok, bad, dups, len(m.Probes))
}

// crossCheck runs the real generator binary (flag parsing included) on the corpus, the bare skeletons and every
// 25th family case and compares its output with the in-process generation.
func crossCheck(m *mf.Manifest) {
	var sel []*mf.Case
	for i, c := range m.Cases {
		s := m.Schemas[c.SchemaID]
		if c.Kind == "corpus" || (s != nil && len(s.Atoms) == 0) || i%25 == 0 {
			sel = append(sel, c)
		}
	}
	sem := make(chan struct{}, *jobs)
	var wg sync.WaitGroup
	for _, c := range sel {
		wg.Add(1)
		sem <- struct{}{}
		go func(c *mf.Case) {
			defer wg.Done()
			defer func() { <-sem }()
			tmp := filepath.Join(*work, "cross-"+c.Pkg+".go")
			defer os.Remove(tmp)
			args := append(c.Flags.Args(), "-path="+strings.Join(c.Paths, ","), "-output_file="+tmp, "-package_name="+c.Pkg)
			if len(c.Exclude) > 0 {
				args = append(args, "-exclude_modules="+strings.Join(c.Exclude, ","))
			}
			args = append(args, c.Inputs...)
			out, err := exec.Command(*genbin, args...).CombinedOutput()
			if err != nil {
				if c.GenStatus != "ok" {
					c.Cross = "same"
				} else {
					c.Cross = "binary-error:" + tail(string(out), 300)
				}
				return
			}
			b, _ := os.ReadFile(tmp)
			if c.GenStatus != "ok" {
				c.Cross = "differs: binary succeeded, library " + c.GenStatus
				return
			}
			own, _ := os.ReadFile(filepath.Join(pkgDir(c.CodePkg()), c.CodePkg()+".go"))
			a, bb := normalise(string(own)), normalise(string(b))
			if c.DupOf != "" {
				a = strings.ReplaceAll(a, c.DupOf, c.Pkg)
			}
			switch {
			case a == bb:
				c.Cross = "same"
			default:
				// is the generator deterministic on this input at all? (if not, that is C25's matter)
				c.Cross = "differs"
				if out2, err := exec.Command(*genbin, args...).CombinedOutput(); err == nil {
					_ = out2
					b2, _ := os.ReadFile(tmp)
					if normalise(string(b2)) != bb {
						c.Cross = "nondeterministic(generator binary)"
					}
				}
				if c.Cross == "differs" {
					for k := 0; k < 6; k++ {
						if again, st, _ := generate(c.Inputs, c.Paths, c.Exclude, c.Flags, c.Pkg); st == "ok" && normalise(again) != a {
							c.Cross = "nondeterministic(generator library)"
							break
						}
					}
				}
			}
		}(c)
	}
	wg.Wait()
}

func tail(s string, n int) string {
	s = strings.TrimSpace(s)
	if len(s) > n {
		return "..." + s[len(s)-n:]
	}
	return s
}

// ---- build / vet -------------------------------------------------------------------------------------------

var hdr = regexp.MustCompile(`^# \[?(github\.com/openconfig/ygot/zzverif/gmc/(gm[ab][0-9]+))`)

// runGo runs a go command over the packages and returns the output lines attributed to each package.
func runGo(sub string, pkgs []string) (map[string]string, string) {
	args := []string{sub, "-trimpath"}
	for _, p := range pkgs {
		args = append(args, "./zzverif/gmc/"+p)
	}
	c := exec.Command("go", args...)
	c.Dir = *scratch
	var buf bytes.Buffer
	c.Stdout, c.Stderr = &buf, &buf
	c.Run()
	per := map[string]string{}
	cur := ""
	other := ""
	for _, l := range strings.Split(buf.String(), "\n") {
		if mm := hdr.FindStringSubmatch(l); mm != nil {
			cur = mm[2]
			continue
		}
		if strings.HasPrefix(l, "# ") {
			cur = ""
		}
		if strings.TrimSpace(l) == "" {
			continue
		}
		if cur == "" {
			// lines such as "zzverif/gmc/gma00012/x.go:1:2: ..." carry the package in the path
			if i := strings.Index(l, "zzverif/gmc/gm"); i >= 0 {
				rest := l[i+len("zzverif/gmc/"):]
				if j := strings.IndexAny(rest, "/ :"); j > 0 {
					per[rest[:j]] += l + "\n"
					continue
				}
			}
			other += l + "\n"
			continue
		}
		per[cur] += l + "\n"
	}
	return per, other
}

func build() {
	m, err := mf.Load(manifestPath(*stage))
	if err != nil {
		die("%v", err)
	}
	var uniq []*mf.Case
	byPkg := map[string]*mf.Case{}
	for _, c := range m.Cases {
		byPkg[c.Pkg] = c
		if c.GenStatus == "ok" && c.DupOf == "" {
			uniq = append(uniq, c)
		}
	}
	m.VetRun = *doVet
	const batch = 320
	expired := func() bool { return *until > 0 && time.Now().Unix() > *until }
	var unattributed string
	t0 := time.Now()
	for lo := 0; lo < len(uniq); lo += batch {
		hi := lo + batch
		if hi > len(uniq) {
			hi = len(uniq)
		}
		if expired() {
			for _, c := range uniq[lo:] {
				c.Build.Status, c.Vet.Status = "skipped", "skipped"
			}
			m.Capped = append(m.Capped, fmt.Sprintf("deadline: %d of %d packages of stage %s not compiled", len(uniq)-lo, len(uniq), *stage))
			break
		}
		var names []string
		for _, c := range uniq[lo:hi] {
			names = append(names, c.Pkg)
		}
		per, other := runGo("build", names)
		unattributed += other
		var okNames []string
		for _, c := range uniq[lo:hi] {
			if msg, bad := per[c.Pkg]; bad {
				c.Build = mf.Result{Status: "fail", Msg: tail(msg, 2000)}
				c.Vet.Status = "skipped"
			} else {
				c.Build.Status = "ok"
				okNames = append(okNames, c.Pkg)
			}
		}
		if *doVet && len(okNames) > 0 {
			per, other := runGo("vet", okNames)
			unattributed += other
			for _, n := range okNames {
				if msg, bad := per[n]; bad {
					byPkg[n].Vet = mf.Result{Status: "fail", Msg: tail(msg, 2000)}
				} else {
					byPkg[n].Vet.Status = "ok"
				}
			}
		} else {
			for _, n := range okNames {
				byPkg[n].Vet.Status = "skipped"
			}
		}
		fmt.Printf("genmc build: stage=%s packages %d..%d of %d done (%.0fs)\n", *stage, lo, hi, len(uniq), time.Since(t0).Seconds())
	}
	if strings.TrimSpace(unattributed) != "" {
		// output of the toolchain that names no generated package: an infrastructure problem, not a verdict
		die("go build/vet output that cannot be attributed to a generated package:\n%s", tail(unattributed, 3000))
	}
	// propagate to duplicates
	for _, c := range m.Cases {
		if c.DupOf != "" {
			c.Build, c.Vet = byPkg[c.DupOf].Build, byPkg[c.DupOf].Vet
		}
	}
	if err := m.Save(manifestPath(*stage)); err != nil {
		die("%v", err)
	}
	nb, nv := 0, 0
	for _, c := range uniq {
		if c.Build.Status == "fail" {
			nb++
		}
		if c.Vet.Status == "fail" {
			nv++
		}
	}
	fmt.Printf("genmc build: stage=%s unique-packages=%d build-failures=%d vet-failures=%d\n", *stage, len(uniq), nb, nv)
}

// ---- imports of the reflection binary ----------------------------------------------------------------------

func imports() {
	var pk []string
	all := &mf.Manifest{Schemas: map[string]*fam.Schema{}, Notes: map[string]interface{}{}}
	for _, st := range []string{"a", "b"} {
		m, err := mf.Load(manifestPath(st))
		if err != nil {
			if st == "b" {
				continue
			}
			die("%v", err)
		}
		all.Tier, all.Repo = m.Tier, m.Repo
		all.VetRun = m.VetRun
		for k, v := range m.Schemas {
			all.Schemas[k] = v
		}
		for k, v := range m.Notes {
			all.Notes[k] = v
		}
		all.Cases = append(all.Cases, m.Cases...)
		all.Probes = append(all.Probes, m.Probes...)
		all.Capped = append(all.Capped, m.Capped...)
		for _, c := range m.Cases {
			if c.GenStatus == "ok" && c.DupOf == "" && c.Build.Status == "ok" {
				pk = append(pk, c.Pkg)
			}
		}
	}
	sort.Strings(pk)
	all.Compiled = pk
	all.ShardOf = map[string]int{}
	all.Shards = 1
	for i, p := range pk {
		all.ShardOf[p] = i / *shardSz
		all.Shards = i / *shardSz + 1
	}
	if err := all.Save(filepath.Join(*work, "manifest.json")); err != nil {
		die("%v", err)
	}
	if *shardIx < 0 {
		fmt.Printf("%d\n", all.Shards)
		return
	}
	var b strings.Builder
	b.WriteString("package main\n\nimport (\n")
	n := 0
	for _, p := range pk {
		if all.ShardOf[p] == *shardIx {
			fmt.Fprintf(&b, "\t_ \"github.com/openconfig/ygot/zzverif/gmc/%s\"\n", p)
			n++
		}
	}
	b.WriteString(")\n")
	dst := filepath.Join(*scratch, "zzverif", "genmc", "cmd", "gmcrun", "imports_gen.go")
	if err := os.WriteFile(dst, []byte(b.String()), 0o644); err != nil {
		die("%v", err)
	}
	fmt.Printf("genmc imports: shard %d of %d: %d packages\n", *shardIx, all.Shards, n)
}
