// Command gmcrun is the reflection binary of the genmc engine: it links every generated package that compiled
// (imports_gen.go is written by "genmc imports"), evaluates property C26 or C27 on every case of the manifest
// and reports through the shared reporter (evidence file, VIOLATION / KNOWN-FINDING lines, exit code).
package main

import (
	"encoding/json"
	"flag"
	"fmt"
	"os"
	"time"

	"github.com/openconfig/ygot/zzverif/core"
	"github.com/openconfig/ygot/zzverif/genmc/chk"
	"github.com/openconfig/ygot/zzverif/genmc/mf"
)

func main() {
	prop := flag.String("prop", "", "C26|C27")
	tier := flag.String("tier", "quick", "quick|thorough")
	seed := flag.Int("seed", 0, "seed (recorded only; the enumeration is fixed)")
	verif := flag.String("verif", "/verif", "verif dir (known_findings.txt, default output)")
	out := flag.String("out", "", "directory for evidence/ and replays/ (default: verif dir)")
	man := flag.String("manifest", "", "manifest written by genmc")
	shard := flag.Int("shard", -1, "evaluate only the cases of this shard and write -partial (no report)")
	partial := flag.String("partial", "", "file the partial result of -shard is written to")
	t0 := flag.Int64("t0", 0, "unix time at which the pipeline started (for the measured wall time)")
	report := flag.Bool("report", false, "merge the partial results given as arguments and report")
	flag.Parse()
	if *prop != "C26" && *prop != "C27" {
		fmt.Fprintln(os.Stderr, "ERROR gmcrun: -prop must be C26 or C27")
		os.Exit(2)
	}
	m, err := mf.Load(*man)
	if err != nil {
		fmt.Fprintln(os.Stderr, "ERROR gmcrun:", err)
		os.Exit(2)
	}
	if *shard >= 0 {
		p := chk.Evaluate(*prop, m, *shard)
		b, err := json.Marshal(p)
		if err == nil {
			err = os.WriteFile(*partial, b, 0o644)
		}
		if err != nil {
			fmt.Fprintln(os.Stderr, "ERROR gmcrun:", err)
			os.Exit(2)
		}
		return
	}
	c := &core.Ctx{ID: *prop, Tier: *tier, Seed: *seed, VerifDir: *verif, RepoDir: m.Repo, R: core.NewReporter(*prop, *tier, *seed, *verif)}
	c.R.OutDir = *out
	if *t0 > 0 {
		c.R.SetStart(time.Unix(*t0, 0))
	}
	if *report {
		var parts []*chk.Partial
		for _, f := range flag.Args() {
			b, err := os.ReadFile(f)
			p := &chk.Partial{}
			if err == nil {
				err = json.Unmarshal(b, p)
			}
			if err != nil {
				fmt.Fprintln(os.Stderr, "ERROR gmcrun:", err)
				os.Exit(2)
			}
			parts = append(parts, p)
		}
		chk.Report(*prop, m, parts, c)
	} else {
		chk.Run(*prop, m, c)
	}
	os.Exit(c.R.Finish(c.Level, c.Rule, nil))
}
