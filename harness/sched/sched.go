// Package sched is a cooperative scheduler with depth-first exploration of all interleavings of
// a few goroutines at their synchronisation points (iterative preemption bounding). Exactly one
// controlled goroutine runs at a time; every hooked operation calls Yield before it executes.
package sched

import (
	"fmt"
)

// Thread is one controlled goroutine.
type Thread struct {
	ID      int
	body    func()
	resume  chan struct{}
	done    bool
	blocked func() bool // non-nil while waiting for a resource: enabled iff it returns false
	where   string
	panicV  interface{}
}

// Point is one scheduling decision of an execution.
type Point struct {
	Enabled []int  // thread ids in canonical order: running thread first if enabled, then ascending
	Chosen  int    // index into Enabled
	Running int    // id of the thread that was running before the decision (-1: none)
	RunningEnabled bool
	Where   string // where the chosen thread is about to continue
}

// Execution is the record of one complete run.
type Execution struct {
	Points   []Point
	Deadlock bool
	Panics   []string
}

// Choices returns the chosen indices.
func (x *Execution) Choices() []int {
	out := make([]int, len(x.Points))
	for i, p := range x.Points {
		out[i] = p.Chosen
	}
	return out
}

// Schedule renders the sequence of chosen thread ids.
func (x *Execution) Schedule() []int {
	out := make([]int, len(x.Points))
	for i, p := range x.Points {
		out[i] = p.Enabled[p.Chosen]
	}
	return out
}

// Sched controls one execution.
type Sched struct {
	threads []*Thread
	yield   chan *Thread
	cur     *Thread
	AtPoint func() // invariant hook, evaluated at every scheduling point (no thread running)
}

var active *Sched

// Active reports whether the calling goroutine runs under a scheduler.
func Active() bool { return active != nil && active.cur != nil }

// Current returns the id of the running controlled thread (-1 if none).
func Current() int {
	if active == nil || active.cur == nil {
		return -1
	}
	return active.cur.ID
}

// Yield is a scheduling point of the running thread.
func Yield(where string) {
	s := active
	if s == nil || s.cur == nil {
		return
	}
	t := s.cur
	t.where = where
	s.yield <- t
	<-t.resume
}

// Block parks the running thread until cond() is false (evaluated by the scheduler); where names the resource.
func Block(where string, cond func() bool) {
	s := active
	if s == nil || s.cur == nil {
		return
	}
	t := s.cur
	t.where = where
	t.blocked = cond
	s.yield <- t
	<-t.resume
	t.blocked = nil
}

// ErrDiverged is raised when a replayed prefix does not fit the execution.
type ErrDiverged struct{ Msg string }

func (e ErrDiverged) Error() string { return "schedule diverged: " + e.Msg }

// Run executes bodies under the scheduler following prefix (choice indices), then default choices
// (index 0 = keep running the current thread if enabled, else the lowest id).
func Run(bodies []func(), prefix []int, atPoint func()) (*Execution, error) {
	s := &Sched{yield: make(chan *Thread), AtPoint: atPoint}
	for i, b := range bodies {
		s.threads = append(s.threads, &Thread{ID: i, body: b, resume: make(chan struct{}), where: "start"})
	}
	active = s
	defer func() { active = nil }()
	for _, t := range s.threads {
		t := t
		go func() {
			<-t.resume
			defer func() {
				if r := recover(); r != nil {
					t.panicV = r
				}
				t.done = true
				t.where = "end"
				s.yield <- t
			}()
			t.body()
		}()
	}
	x := &Execution{}
	running := -1
	for {
		// enabled threads in canonical order
		var enabled []int
		runEn := false
		for _, t := range s.threads {
			if t.done || (t.blocked != nil && t.blocked()) {
				continue
			}
			if t.ID == running {
				runEn = true
				continue
			}
			enabled = append(enabled, t.ID)
		}
		if runEn {
			enabled = append([]int{running}, enabled...)
		}
		if len(enabled) == 0 {
			all := true
			for _, t := range s.threads {
				if !t.done {
					all = false
				}
			}
			if !all {
				x.Deadlock = true
			}
			break
		}
		if s.AtPoint != nil {
			s.AtPoint()
		}
		choice := 0
		if i := len(x.Points); i < len(prefix) {
			choice = prefix[i]
			if choice < 0 || choice >= len(enabled) {
				return x, ErrDiverged{fmt.Sprintf("point %d: choice %d of %d enabled", i, choice, len(enabled))}
			}
		}
		t := s.threads[enabled[choice]]
		x.Points = append(x.Points, Point{Enabled: enabled, Chosen: choice, Running: running, RunningEnabled: runEn, Where: t.where})
		s.cur = t
		running = t.ID
		t.resume <- struct{}{}
		y := <-s.yield // the thread yields, blocks or finishes
		s.cur = nil
		if y.panicV != nil {
			x.Panics = append(x.Panics, fmt.Sprintf("thread %d: %v", y.ID, y.panicV))
			y.panicV = nil
		}
	}
	if len(prefix) > len(x.Points) {
		return x, ErrDiverged{fmt.Sprintf("prefix has %d choices, execution only %d points", len(prefix), len(x.Points))}
	}
	return x, nil
}

// Explorer enumerates all executions with at most Bound preemptions (Bound < 0: unbounded).
type Explorer struct {
	Bodies     func() []func() // fresh thread bodies (fresh per execution)
	AtPoint    func()
	Check      func(x *Execution) // evaluated after every complete execution
	Bound      int
	Executions int64
	MaxPoints  int
	Stop       func() bool
	Capped     bool
	Err        error
}

func preemptionsBefore(x *Execution, i int) int {
	n := 0
	for j := 0; j < i; j++ {
		p := x.Points[j]
		if p.RunningEnabled && p.Chosen != 0 {
			n++
		}
	}
	return n
}

// Explore runs the depth-first search.
func (e *Explorer) Explore() { e.explore(nil) }

func (e *Explorer) explore(prefix []int) {
	if e.Err != nil || e.Capped {
		return
	}
	if e.Stop != nil && e.Stop() {
		e.Capped = true
		return
	}
	x, err := Run(e.Bodies(), prefix, e.AtPoint)
	if err != nil {
		e.Err = err
		return
	}
	e.Executions++
	if len(x.Points) > e.MaxPoints {
		e.MaxPoints = len(x.Points)
	}
	e.Check(x)
	for i := len(prefix); i < len(x.Points); i++ {
		p := x.Points[i]
		cost := preemptionsBefore(x, i)
		if p.RunningEnabled {
			cost++ // switching away from a runnable thread is a preemption
		}
		if e.Bound >= 0 && cost > e.Bound {
			continue
		}
		for alt := 1; alt < len(p.Enabled); alt++ {
			np := append(append([]int{}, x.Choices()[:i]...), alt)
			e.explore(np)
		}
	}
}
