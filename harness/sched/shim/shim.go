// Package shim stands in for package sync in the files of ygot that the C21 check compiles with
// their `"sync"` import rewritten: every lock operation becomes a scheduling point of the
// cooperative scheduler. Outside a controlled execution the types behave like their sync originals.
package shim

import (
	"sync"

	"github.com/openconfig/ygot/zzverif/sched"
)

// RWMutex mirrors sync.RWMutex.
type RWMutex struct {
	real    sync.RWMutex
	writer  bool
	readers int
}

// Mutex mirrors sync.Mutex.
type Mutex struct{ rw RWMutex }

// Lock acquires the write lock.
func (m *RWMutex) Lock() {
	if !sched.Active() {
		m.real.Lock()
		return
	}
	sched.Yield("Lock")
	if m.writer || m.readers > 0 {
		sched.Block("Lock(wait)", func() bool { return m.writer || m.readers > 0 })
	}
	m.writer = true
}

// Unlock releases the write lock.
func (m *RWMutex) Unlock() {
	if !sched.Active() {
		m.real.Unlock()
		return
	}
	sched.Yield("Unlock")
	if !m.writer {
		panic("shim: Unlock of unlocked RWMutex")
	}
	m.writer = false
}

// RLock acquires a read lock.
func (m *RWMutex) RLock() {
	if !sched.Active() {
		m.real.RLock()
		return
	}
	sched.Yield("RLock")
	if m.writer {
		sched.Block("RLock(wait)", func() bool { return m.writer })
	}
	m.readers++
}

// RUnlock releases a read lock.
func (m *RWMutex) RUnlock() {
	if !sched.Active() {
		m.real.RUnlock()
		return
	}
	sched.Yield("RUnlock")
	if m.readers <= 0 {
		panic("shim: RUnlock of unlocked RWMutex")
	}
	m.readers--
}

// Lock acquires the mutex.
func (m *Mutex) Lock() { m.rw.Lock() }

// Unlock releases the mutex.
func (m *Mutex) Unlock() { m.rw.Unlock() }

// Once mirrors sync.Once (a scheduling point before the check).
type Once struct {
	done bool
	m    Mutex
}

// Do runs f once.
func (o *Once) Do(f func()) {
	o.m.Lock()
	defer o.m.Unlock()
	if !o.done {
		o.done = true
		f()
	}
}

// WaitGroup is the real one (not used by ygot's library code today).
type WaitGroup = sync.WaitGroup
