// Command libdriver runs the ygot generator LIBRARIES (gogen / protogen over ygen) with option
// combinations that the generator binaries do not expose as flags (underscore-free enumeration
// names, protobuf nested messages ...), so that the C25 map-iteration-order seam also reaches the
// code paths only library users can take. One process = one generation; output goes to -outdir.
package main

import (
	"flag"
	"fmt"
	"os"
	"path/filepath"
	"sort"
	"strings"

	"github.com/openconfig/ygot/genutil"
	"github.com/openconfig/ygot/gogen"
	"github.com/openconfig/ygot/protogen"
	"github.com/openconfig/ygot/ygen"
)

func main() {
	path := flag.String("path", "", "comma separated include paths")
	kind := flag.String("kind", "go", "go|proto")
	compress := flag.Bool("compress", false, "compress paths")
	underscores := flag.Bool("underscores", false, "EnumerationsUseUnderscores")
	shorten := flag.Bool("shorten", false, "ShortenEnumLeafNames")
	defmod := flag.Bool("defmod", false, "UseDefiningModuleForTypedefEnumNames")
	dedup := flag.Bool("skipdedup", false, "SkipEnumDeduplication")
	nested := flag.Bool("nested", false, "protogen NestedMessages")
	simple := flag.Bool("simpleunions", true, "gogen GenerateSimpleUnions")
	outdir := flag.String("outdir", "out", "output directory")
	flag.Parse()
	cb := genutil.Uncompressed
	if *compress {
		cb = genutil.PreferIntendedConfig
	}
	iro := ygen.IROptions{TransformationOptions: ygen.TransformationOpts{
		CompressBehaviour: cb, GenerateFakeRoot: true, FakeRootName: "device",
		EnumerationsUseUnderscores: *underscores, ShortenEnumLeafNames: *shorten,
		UseDefiningModuleForTypedefEnumNames: *defmod, SkipEnumDeduplication: *dedup,
	}}
	var inc []string
	if *path != "" {
		inc = strings.Split(*path, ",")
	}
	os.MkdirAll(*outdir, 0o755)
	switch *kind {
	case "go":
		cg := gogen.New("libdriver", iro, gogen.GoOpts{PackageName: "pkg", GenerateJSONSchema: true, GenerateSimpleUnions: *simple,
			YgotImportPath: "github.com/openconfig/ygot/ygot", YtypesImportPath: "github.com/openconfig/ygot/ytypes", GoyangImportPath: "github.com/openconfig/goyang/pkg/yang"})
		code, errs := cg.Generate(flag.Args(), inc)
		if errs != nil {
			fmt.Fprintln(os.Stderr, "ERROR", errs)
			os.Exit(3)
		}
		var b strings.Builder
		b.WriteString(code.OneOffHeader)
		for _, s := range code.Structs {
			b.WriteString(s.String())
		}
		for _, e := range code.Enums {
			b.WriteString(e)
		}
		b.WriteString(code.EnumMap)
		b.WriteString(code.EnumTypeMap)
		b.WriteString(code.JSONSchemaCode)
		os.WriteFile(filepath.Join(*outdir, "structs.go"), []byte(b.String()), 0o644)
	case "proto":
		cg := protogen.New("libdriver", iro, protogen.ProtoOpts{PackageName: "vp", BaseImportPath: "example.com/p", NestedMessages: *nested, AnnotateSchemaPaths: true, AnnotateEnumNames: true})
		code, errs := cg.Generate(flag.Args(), inc)
		if errs != nil {
			fmt.Fprintln(os.Stderr, "ERROR", errs)
			os.Exit(3)
		}
		names := make([]string, 0, len(code.Packages))
		for n := range code.Packages {
			names = append(names, n)
		}
		sort.Strings(names)
		for _, n := range names {
			p := code.Packages[n]
			var b strings.Builder
			b.WriteString(p.Header)
			for _, m := range p.Messages {
				b.WriteString(m)
			}
			for _, e := range p.Enums {
				b.WriteString(e)
			}
			os.WriteFile(filepath.Join(*outdir, strings.ReplaceAll(n, ".", "_")+".proto"), []byte(b.String()), 0o644)
		}
	}
}
