// Package seam is the map-iteration-order seam of property C25 ("code generation is deterministic").
//
// It is only ever linked into *instrumented copies* of the generator packages that scripts/check_c25.sh
// derives at check time (see harness/c25/instr): every `range X` of those packages is rewritten to
//
//	range seam.Probe(id, X)   identity; records that site id ranged over a map, and over a map with >= 2 entries
//	range seam.Order(id, X)   an iter.Seq2 that yields the entries of map X in an order chosen by the explorer
//
// The explorer (harness/c25/explorer) selects orders through the environment:
//
//	C25_ORDER       comma separated "<site id>=<asc|desc|rot>" items; "*=<mode>" sets the default (asc)
//	C25_PROBE_FILE  file to which observations are appended, one line each:
//	                  "N <id> <kind>"      site ranged over a non-map value
//	                  "M <id> <keytype>"   site ranged over a map (any size)
//	                  "E <id> <len> <keytype>" site ranged over a map with >= 2 entries (first time)
//	                  "G <id> <len> <keytype>" site ranged over a map with >= 3 entries (first time; with
//	                                        exactly 2 entries "rot" and "desc" are the same order)
//
// The package imports the standard library only, so it can be imported from any instrumented package
// (including goyang's) without creating an import cycle.
package seam

import (
	"fmt"
	"iter"
	"os"
	"reflect"
	"sort"
	"strconv"
	"strings"
	"sync"
	"sync/atomic"
)

// MaxSites bounds the site ids; the instrumenter refuses to emit larger ids.
const MaxSites = 1 << 15

const (
	stUnknown uint32 = iota
	stNotMap         // ranged over something that is not a map: nothing to control
	stMap            // a map, but never with >= 2 entries so far
	stMulti          // a map with exactly 2 entries was seen (recorded)
	stMany           // a map with >= 3 entries was seen (recorded): nothing more to learn
)

// Order modes.
const (
	Asc  uint8 = iota // keys ascending by printed form (the baseline)
	Desc              // keys descending
	Rot               // ascending order rotated left by one
)

var (
	state     [MaxSites]atomic.Uint32
	mode      [MaxSites]uint8
	defMode   uint8
	probeFile *os.File
	mu        sync.Mutex
)

func parseMode(s string) (uint8, bool) {
	switch s {
	case "asc":
		return Asc, true
	case "desc":
		return Desc, true
	case "rot":
		return Rot, true
	}
	return 0, false
}

func init() {
	if f := os.Getenv("C25_PROBE_FILE"); f != "" {
		fh, err := os.OpenFile(f, os.O_WRONLY|os.O_CREATE|os.O_APPEND, 0o644)
		if err != nil {
			fmt.Fprintf(os.Stderr, "c25seam: cannot open probe file: %v\n", err)
			os.Exit(97)
		}
		probeFile = fh
	}
	spec := os.Getenv("C25_ORDER")
	type item struct {
		id int
		m  uint8
	}
	var items []item
	for _, it := range strings.Split(spec, ",") {
		it = strings.TrimSpace(it)
		if it == "" {
			continue
		}
		kv := strings.SplitN(it, "=", 2)
		m, ok := uint8(0), false
		if len(kv) == 2 {
			m, ok = parseMode(kv[1])
		}
		if !ok {
			fmt.Fprintf(os.Stderr, "c25seam: bad C25_ORDER item %q\n", it)
			os.Exit(97)
		}
		if kv[0] == "*" {
			defMode = m
			continue
		}
		id, err := strconv.Atoi(kv[0])
		if err != nil || id < 0 || id >= MaxSites {
			fmt.Fprintf(os.Stderr, "c25seam: bad C25_ORDER site %q\n", it)
			os.Exit(97)
		}
		items = append(items, item{id, m})
	}
	for i := range mode {
		mode[i] = defMode
	}
	for _, it := range items {
		mode[it.id] = it.m
	}
}

func record(line string) {
	mu.Lock()
	recordLocked(line)
	mu.Unlock()
}

func recordLocked(line string) {
	if probeFile != nil {
		probeFile.WriteString(line + "\n")
	}
}

// Probe is the identity on x. It records, once per site, whether the site ranged over a map and whether
// that map had at least two entries (only then can the iteration order matter).
func Probe[T any](id int, x T) T {
	if s := state[id].Load(); s == stNotMap || s == stMany {
		return x
	}
	probeSlow(id, any(x))
	return x
}

func probeSlow(id int, x any) {
	v := reflect.ValueOf(x)
	if !v.IsValid() || v.Kind() != reflect.Map {
		if state[id].CompareAndSwap(stUnknown, stNotMap) {
			k := "invalid"
			if v.IsValid() {
				k = v.Kind().String()
			}
			record("N " + strconv.Itoa(id) + " " + k)
		}
		return
	}
	note(id, v.Len(), v.Type().Key())
}

func note(id, n int, key reflect.Type) {
	s := state[id].Load()
	if s == stMany || (s == stMulti && n < 3) || (s == stMap && n < 2) {
		return
	}
	mu.Lock()
	defer mu.Unlock()
	s = state[id].Load()
	if s < stMap {
		state[id].Store(stMap)
		s = stMap
		recordLocked("M " + strconv.Itoa(id) + " " + key.String())
	}
	if n >= 2 && s < stMulti {
		state[id].Store(stMulti)
		s = stMulti
		recordLocked("E " + strconv.Itoa(id) + " " + strconv.Itoa(n) + " " + key.String())
	}
	if n >= 3 && s < stMany {
		state[id].Store(stMany)
		recordLocked("G " + strconv.Itoa(id) + " " + strconv.Itoa(n) + " " + key.String())
	}
}

// ProbeKeys is the identity on the result of a reflect.Value.MapKeys call; it records the site like Probe.
func ProbeKeys(id int, keys []reflect.Value) []reflect.Value {
	if state[id].Load() != stMany {
		note(id, len(keys), reflectKeysType)
	}
	return keys
}

// OrderKeys puts the result of a reflect.Value.MapKeys call into the order selected for site id.
func OrderKeys(id int, keys []reflect.Value) []reflect.Value {
	n := len(keys)
	if state[id].Load() != stMany {
		note(id, n, reflectKeysType)
	}
	if n < 2 {
		return keys
	}
	strs := make([]string, n)
	for i, k := range keys {
		strs[i] = fmt.Sprintf("%v", k)
	}
	sort.Stable(&byStr[reflect.Value]{keys, strs})
	permute(keys, mode[id])
	return keys
}

var reflectKeysType = reflect.TypeOf(reflect.Value{})

func permute[K any](keys []K, m uint8) {
	switch m {
	case Desc:
		for i, j := 0, len(keys)-1; i < j; i, j = i+1, j-1 {
			keys[i], keys[j] = keys[j], keys[i]
		}
	case Rot:
		first := keys[0]
		copy(keys, keys[1:])
		keys[len(keys)-1] = first
	}
}

// Order yields the entries of m in the order selected for site id: keys sorted by their printed form
// (ties keep Go's own order), then permuted by the site's mode. The key set is a snapshot taken when the loop
// starts; an entry deleted by the loop body before it is reached is skipped and the value is read when
// the entry is yielded, as for a native range over a map. Entries added during the loop are not yielded
// (a native range may or may not produce them).
func Order[M ~map[K]V, K comparable, V any](id int, m M) iter.Seq2[K, V] {
	return func(yield func(K, V) bool) {
		n := len(m)
		if state[id].Load() != stMany {
			note(id, n, reflect.TypeOf(m).Key())
		}
		if n == 0 {
			return
		}
		keys := make([]K, 0, n)
		for k := range m {
			keys = append(keys, k)
		}
		if n >= 2 {
			sortKeys(keys)
			permute(keys, mode[id])
		}
		for _, k := range keys {
			v, ok := m[k]
			if !ok {
				continue
			}
			if !yield(k, v) {
				return
			}
		}
	}
}

func sortKeys[K comparable](keys []K) {
	switch ks := any(keys).(type) {
	case []string:
		sort.Strings(ks)
		return
	case []int:
		sort.Ints(ks)
		return
	}
	strs := make([]string, len(keys))
	for i, k := range keys {
		strs[i] = printKey(reflect.ValueOf(&keys[i]).Elem(), k)
	}
	sort.Stable(&byStr[K]{keys, strs})
}

// printKey renders a key for sorting. Pointer-to-struct keys are rendered through a `Path() string` method
// or a "Name" field when they have one (yang.Entry, yang.Module, ...), which is stable across processes;
// any other pointer prints as its address, so the baseline order of such a site is only fixed within one
// process (the explorer reports how many executed sites have pointer or interface keys).
func printKey(v reflect.Value, k any) string {
	for v.Kind() == reflect.Interface && !v.IsNil() {
		v = v.Elem()
	}
	if v.Kind() == reflect.Pointer && !v.IsNil() && v.Elem().Kind() == reflect.Struct {
		if m := v.MethodByName("Path"); m.IsValid() {
			if f, ok := m.Interface().(func() string); ok { // e.g. (*yang.Entry).Path: read-only
				return "&" + v.Elem().Type().String() + ":" + f()
			}
		}
		if f := v.Elem().FieldByName("Name"); f.IsValid() && f.Kind() == reflect.String {
			return "&" + v.Elem().Type().String() + ":" + f.String()
		}
	}
	return fmt.Sprintf("%v", k)
}

type byStr[K any] struct {
	keys []K
	strs []string
}

func (b *byStr[K]) Len() int           { return len(b.keys) }
func (b *byStr[K]) Less(i, j int) bool { return b.strs[i] < b.strs[j] }
func (b *byStr[K]) Swap(i, j int) {
	b.keys[i], b.keys[j] = b.keys[j], b.keys[i]
	b.strs[i], b.strs[j] = b.strs[j], b.strs[i]
}
