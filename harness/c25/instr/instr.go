// Package instr derives the instrumented copies of the generator packages for property C25.
//
// It parses the CURRENT non-test source files of the selected packages (so an edit to the repository is
// never masked), finds every `range X` statement, and splices calls of the seam package around the
// operand X *textually* (the bytes outside the splice, and therefore all line numbers, are unchanged):
//
//	for k, v := range X            ->  for k, v := range c25seam.Probe(17, X)
//	for k, v := range X            ->  for k, v := range c25seam.Order(17, X)     (selected map sites)
//	v.MapKeys()                    ->  c25seam.ProbeKeys(18, v.MapKeys()) / c25seam.OrderKeys(18, v.MapKeys())
//	package p                      ->  package p; import c25seam "github.com/openconfig/ygot/zzverif/c25/seam"
//
// The packages are also type-checked (go/types with the compiler's export data, obtained from
// `go list -export`), which gives the STATIC set of range statements whose operand is a map; that set
// is used for reporting only (which map-range sites the corpus never reaches) and as a cross-check of
// the runtime probe. Standard library only.
package instr

import (
	"bytes"
	"encoding/json"
	"fmt"
	"go/ast"
	"go/importer"
	"go/parser"
	"go/token"
	"go/types"
	"io"
	"os"
	"os/exec"
	"path/filepath"
	"sort"
	"strings"
)

// SeamImportPath is the import path of the seam package inside the ygot module (overlay).
const SeamImportPath = "github.com/openconfig/ygot/zzverif/c25/seam"

// MaxSites mirrors seam.MaxSites.
const MaxSites = 1 << 15

// Pkg is one package selected for instrumentation.
type Pkg struct {
	ImportPath string
	Dir        string
	GoFiles    []string
	Label      string // short label used in site names: "ygen", "goyang/pkg/yang"
	// OldLang is set when the package's module declares a language version below go1.23 (goyang: go 1.14); the
	// derived copies of its files then start with a `//go:build go1.23` line, which raises the language version of
	// that file so that it may call the generic, iterator-returning seam functions.
	OldLang bool
}

// Site is one `range` statement.
type Site struct {
	ID      int    `json:"id"`
	Pkg     string `json:"pkg"`
	File    string `json:"-"`    // absolute path of the real source file
	Rel     string `json:"file"` // label/file.go
	Line    int    `json:"line"`
	Col     int    `json:"col"`
	oldLang bool
	Start   int    `json:"-"` // byte offsets of the operand
	End     int    `json:"-"`
	Expr    string `json:"expr"`
	Func    string `json:"func"`
	Type    string `json:"type"`
	IsMap   bool   `json:"is_map"`
	KeyType string `json:"key_type,omitempty"`
	// KeyByAddress: the key type is a pointer, interface or channel, so the seam may have to order keys by address
	// (it first tries a Path() method and a Name field); the baseline order is then fixed only within a process.
	KeyByAddress bool `json:"key_by_address,omitempty"`
	TypeParam    bool `json:"type_param,omitempty"`
	Literal      bool `json:"literal,omitempty"` // operand is a basic literal (range 10): left alone
	// Kind is "range" (operand of a range statement) or "mapkeys" (a reflect.Value.MapKeys() call, whose
	// result slice is in map iteration order; wrapped by seam.ProbeKeys / seam.OrderKeys).
	Kind string `json:"kind"`
	// Ord distinguishes sites with the same file, function and operand text (1, 2, ... in source order).
	Ord int `json:"ord"`
}

// Pos renders file:line:col.
func (s *Site) Pos() string { return fmt.Sprintf("%s:%d:%d", s.Rel, s.Line, s.Col) }

// Name is the position-independent part of a site's identity (used in violation signatures).
func (s *Site) Name() string {
	n := fmt.Sprintf("%s:%s:range %s", s.Rel, s.Func, s.Expr)
	if s.Kind == "mapkeys" {
		n = fmt.Sprintf("%s:%s:%s", s.Rel, s.Func, s.Expr)
	}
	if s.Ord > 1 {
		n += fmt.Sprintf("#%d", s.Ord)
	}
	return n
}

// Scan is the result of loading the packages.
type Scan struct {
	Pkgs  []*Pkg
	Sites []*Site
	// Other lists static occurrences of constructs whose result may depend on something the seam does not
	// control (reflect map iteration, maps.Keys, goroutines, select, clock, environment, randomness).
	Other []string
	src   map[string][]byte
}

type listPkg struct {
	ImportPath string
	Dir        string
	GoFiles    []string
	CgoFiles   []string
	Export     string
	Standard   bool
	Error      *struct{ Err string }
	Module     *struct{ Path, GoVersion string }
}

// Load lists the dependency closure of targets (relative to dir repo), selects the packages for which
// sel returns a label, parses and type-checks them and collects their range sites. Site ids are assigned
// in the order (import path, file name, offset).
func Load(goBin, repo string, targets []string, sel func(importPath string) (string, bool)) (*Scan, error) {
	args := append([]string{"list", "-deps", "-export", "-json=ImportPath,Dir,GoFiles,CgoFiles,Export,Standard,Error,Module"}, targets...)
	cmd := exec.Command(goBin, args...)
	cmd.Dir = repo
	var stderr bytes.Buffer
	cmd.Stderr = &stderr
	out, err := cmd.Output()
	if err != nil {
		return nil, fmt.Errorf("go list failed: %v: %s", err, stderr.String())
	}
	exports := map[string]string{}
	var pkgs []*Pkg
	dec := json.NewDecoder(bytes.NewReader(out))
	for {
		var lp listPkg
		if err := dec.Decode(&lp); err == io.EOF {
			break
		} else if err != nil {
			return nil, fmt.Errorf("go list output: %v", err)
		}
		if lp.Error != nil {
			return nil, fmt.Errorf("go list: package %s: %s", lp.ImportPath, lp.Error.Err)
		}
		if lp.Export != "" {
			exports[lp.ImportPath] = lp.Export
		}
		if lp.Standard {
			continue
		}
		if label, ok := sel(lp.ImportPath); ok {
			if len(lp.CgoFiles) > 0 {
				return nil, fmt.Errorf("package %s uses cgo; not supported", lp.ImportPath)
			}
			pkgs = append(pkgs, &Pkg{ImportPath: lp.ImportPath, Dir: lp.Dir, GoFiles: lp.GoFiles, Label: label,
				OldLang: lp.Module != nil && langBelow(lp.Module.GoVersion, 1, 23)})
		}
	}
	sort.Slice(pkgs, func(i, j int) bool { return pkgs[i].ImportPath < pkgs[j].ImportPath })
	sc := &Scan{Pkgs: pkgs, src: map[string][]byte{}}
	fset := token.NewFileSet()
	imp := importer.ForCompiler(fset, "gc", func(path string) (io.ReadCloser, error) {
		f, ok := exports[path]
		if !ok {
			return nil, fmt.Errorf("no export data for %q", path)
		}
		return os.Open(f)
	})
	for _, p := range pkgs {
		if err := sc.loadPkg(fset, imp, p); err != nil {
			return nil, err
		}
	}
	if len(sc.Sites) >= MaxSites {
		return nil, fmt.Errorf("%d range sites exceed the seam's table (%d)", len(sc.Sites), MaxSites)
	}
	seen := map[string]int{}
	for i, s := range sc.Sites {
		s.ID = i
		k := s.Rel + "|" + s.Func + "|" + s.Kind + "|" + s.Expr
		seen[k]++
		s.Ord = seen[k]
	}
	return sc, nil
}

// langBelow reports whether go.mod version v ("1.14", "1.23.4", "" = unknown/old) is below major.minor.
func langBelow(v string, major, minor int) bool {
	var a, b int
	if n, _ := fmt.Sscanf(v, "%d.%d", &a, &b); n < 2 {
		return true
	}
	return a < major || (a == major && b < minor)
}

type unsafeImporter struct{ types.Importer }

func (u unsafeImporter) Import(path string) (*types.Package, error) {
	if path == "unsafe" {
		return types.Unsafe, nil
	}
	return u.Importer.Import(path)
}

func (sc *Scan) loadPkg(fset *token.FileSet, imp types.Importer, p *Pkg) error {
	names := append([]string(nil), p.GoFiles...)
	sort.Strings(names)
	var files []*ast.File
	for _, n := range names {
		path := filepath.Join(p.Dir, n)
		b, err := os.ReadFile(path)
		if err != nil {
			return err
		}
		sc.src[path] = b
		f, err := parser.ParseFile(fset, path, b, parser.SkipObjectResolution)
		if err != nil {
			return fmt.Errorf("parse %s: %v", path, err)
		}
		files = append(files, f)
	}
	info := &types.Info{Types: map[ast.Expr]types.TypeAndValue{}, Uses: map[*ast.Ident]types.Object{}, Selections: map[*ast.SelectorExpr]*types.Selection{}}
	var terrs []string
	conf := types.Config{Importer: unsafeImporter{imp}, Error: func(err error) { terrs = append(terrs, err.Error()) }}
	conf.Check(p.ImportPath, fset, files, info)
	if len(terrs) > 0 {
		if len(terrs) > 5 {
			terrs = terrs[:5]
		}
		return fmt.Errorf("type-check of %s failed: %s", p.ImportPath, strings.Join(terrs, "; "))
	}
	for i, f := range files {
		path := filepath.Join(p.Dir, names[i])
		src := sc.src[path]
		rel := p.Label + "/" + names[i]
		var fn string
		var visit func(n ast.Node) bool
		visit = func(n ast.Node) bool {
			switch x := n.(type) {
			case *ast.FuncDecl:
				old := fn
				fn = x.Name.Name
				if x.Recv != nil && len(x.Recv.List) == 1 {
					fn = recvName(x.Recv.List[0].Type) + "." + fn
				}
				if x.Body != nil {
					ast.Inspect(x.Body, visit)
				}
				fn = old
				return false
			case *ast.RangeStmt:
				pos := fset.Position(x.X.Pos())
				s := &Site{Pkg: p.ImportPath, File: path, Rel: rel, Line: pos.Line, Col: pos.Column,
					Start: pos.Offset, End: fset.Position(x.X.End()).Offset, Func: fn, Kind: "range", oldLang: p.OldLang}
				s.Expr = oneLine(string(src[s.Start:s.End]), 60)
				if _, ok := x.X.(*ast.BasicLit); ok {
					s.Literal = true
				}
				if tv, ok := info.Types[x.X]; ok && tv.Type != nil {
					s.Type = oneLine(types.TypeString(tv.Type, func(q *types.Package) string { return q.Name() }), 80)
					u := tv.Type.Underlying()
					if _, isTP := types.Unalias(tv.Type).(*types.TypeParam); isTP {
						s.TypeParam = true
					}
					if m, ok := u.(*types.Map); ok {
						s.IsMap = true
						s.KeyType = types.TypeString(m.Key(), func(q *types.Package) string { return q.Name() })
						switch m.Key().Underlying().(type) {
						case *types.Pointer, *types.Interface, *types.Chan:
							s.KeyByAddress = true
						}
					}
				}
				sc.Sites = append(sc.Sites, s)
			case *ast.GoStmt:
				sc.Other = append(sc.Other, fmt.Sprintf("%s:%d: go statement", rel, fset.Position(x.Pos()).Line))
			case *ast.SelectStmt:
				sc.Other = append(sc.Other, fmt.Sprintf("%s:%d: select statement", rel, fset.Position(x.Pos()).Line))
			case *ast.CallExpr:
				if what := suspiciousCall(info, x); what == "mapkeys" {
					pos := fset.Position(x.Pos())
					s := &Site{Pkg: p.ImportPath, File: path, Rel: rel, Line: pos.Line, Col: pos.Column, Start: pos.Offset,
						End: fset.Position(x.End()).Offset, Func: fn, Kind: "mapkeys", oldLang: p.OldLang, IsMap: true, KeyType: "reflect.Value", Type: "[]reflect.Value"}
					s.Expr = oneLine(string(src[s.Start:s.End]), 60)
					sc.Sites = append(sc.Sites, s)
				} else if what != "" {
					sc.Other = append(sc.Other, fmt.Sprintf("%s:%d: %s", rel, fset.Position(x.Pos()).Line, what))
				}
			}
			return true
		}
		ast.Inspect(f, visit)
	}
	return nil
}

// suspiciousCall names calls whose result is not a function of the generator's inputs or that iterate a
// map outside a range statement.
func suspiciousCall(info *types.Info, c *ast.CallExpr) string {
	var id *ast.Ident
	switch f := c.Fun.(type) {
	case *ast.SelectorExpr:
		id = f.Sel
	case *ast.Ident:
		id = f
	case *ast.IndexExpr:
		if s, ok := f.X.(*ast.SelectorExpr); ok {
			id = s.Sel
		}
	}
	if id == nil {
		return ""
	}
	fn, ok := info.Uses[id].(*types.Func)
	if !ok || fn.Pkg() == nil {
		return ""
	}
	full := fn.FullName()
	switch fn.Pkg().Path() {
	case "maps", "golang.org/x/exp/maps":
		switch fn.Name() {
		case "Keys", "Values", "All":
			return "call of " + full + " (map iteration outside a range statement)"
		}
	case "reflect":
		switch fn.Name() {
		case "MapKeys":
			if len(c.Args) == 0 {
				return "mapkeys" // becomes a seam site
			}
		case "MapRange":
			return "call of " + full + " (reflective map iteration, not controlled by the seam)"
		}
	case "math/rand", "math/rand/v2", "crypto/rand":
		return "call of " + full
	case "time":
		if fn.Name() == "Now" || fn.Name() == "Since" {
			return "call of " + full
		}
	case "os":
		switch fn.Name() {
		case "Getenv", "LookupEnv", "Environ", "Getwd", "Hostname", "Getpid", "Executable":
			return "call of " + full
		}
	}
	return ""
}

func recvName(e ast.Expr) string {
	switch x := e.(type) {
	case *ast.StarExpr:
		return recvName(x.X)
	case *ast.Ident:
		return x.Name
	case *ast.IndexExpr:
		return recvName(x.X)
	case *ast.IndexListExpr:
		return recvName(x.X)
	}
	return "?"
}

func oneLine(s string, n int) string {
	s = strings.Join(strings.Fields(s), " ")
	if len(s) > n {
		s = s[:n] + "..."
	}
	return s
}

// Rewrite writes instrumented copies of the source files into outDir and returns the overlay entries
// (real path -> derived copy). Sites in order are wrapped with seam.Order; when probeRest is set every
// other (non-literal) site is wrapped with seam.Probe. Files without a wrapped site are not copied.
func (sc *Scan) Rewrite(outDir string, order map[int]bool, probeRest bool) (map[string]string, error) {
	byFile := map[string][]*Site{}
	for _, s := range sc.Sites {
		if s.Literal {
			continue
		}
		if order[s.ID] || probeRest {
			byFile[s.File] = append(byFile[s.File], s)
		}
	}
	overlay := map[string]string{}
	for file, sites := range byFile {
		src := sc.src[file]
		type ins struct {
			off  int
			text string
			seq  int
		}
		var inss []ins
		for _, s := range sites {
			fn := "Probe"
			if order[s.ID] {
				fn = "Order"
			}
			if s.Kind == "mapkeys" {
				fn += "Keys"
			}
			inss = append(inss, ins{s.Start, fmt.Sprintf("c25seam.%s(%d, ", fn, s.ID), 0}, ins{s.End, ")", 1})
		}
		// the import goes on the line of the package clause
		fset := token.NewFileSet()
		f, err := parser.ParseFile(fset, file, src, parser.PackageClauseOnly)
		if err != nil {
			return nil, err
		}
		inss = append(inss, ins{fset.Position(f.Name.End()).Offset, fmt.Sprintf("; import c25seam %q", SeamImportPath), 0})
		if sites[0].oldLang {
			if bytes.Contains(src[:fset.Position(f.Package).Offset], []byte("//go:build")) {
				return nil, fmt.Errorf("%s already has a build constraint; cannot raise its language version", file)
			}
			inss = append(inss, ins{0, "//go:build go1.23\n\n", 0})
		}
		// apply from the end; at equal offsets a closing parenthesis (seq 1) must come before an opening text
		sort.SliceStable(inss, func(i, j int) bool {
			if inss[i].off != inss[j].off {
				return inss[i].off > inss[j].off
			}
			return inss[i].seq < inss[j].seq
		})
		out := append([]byte(nil), src...)
		for _, in := range inss {
			out = append(out[:in.off], append([]byte(in.text), out[in.off:]...)...)
		}
		// the derived copy must still parse
		if _, err := parser.ParseFile(token.NewFileSet(), file, out, 0); err != nil {
			return nil, fmt.Errorf("instrumented copy of %s does not parse: %v", file, err)
		}
		rel := sites[0].Rel
		dst := filepath.Join(outDir, filepath.FromSlash(rel))
		if err := os.MkdirAll(filepath.Dir(dst), 0o755); err != nil {
			return nil, err
		}
		if err := os.WriteFile(dst, out, 0o644); err != nil {
			return nil, err
		}
		overlay[file] = dst
	}
	return overlay, nil
}
