// Command explorer is the check of property C25 ("code generation is deterministic").
//
// The nondeterministic environment answer it controls is Go's map iteration order inside the generator.
// It (1) derives instrumented copies of the generator's packages from the CURRENT repository files
// (package instr), (2) builds the real generator mains (./generator, ./proto_generator) three times through
// `go build -overlay` - uninstrumented, probe-instrumented, order-instrumented - and (3) runs them as
// separate processes over a corpus of command lines:
//
//	real x2        two independent plain processes (sampling evidence) and the reference output O_real
//	probe          every `range X` wrapped by seam.Probe (identity): which sites range over a map with >= 2
//	               entries; output must equal O_real
//	order/baseline every map site wrapped by seam.Order, all ascending -> O_0, must equal O_real
//	order/site,d   for EVERY executed site s and d in {desc, rot}: only s deviates -> must equal O_0
//	order/all,d    every site deviates (d in {desc, rot}) -> must equal O_0
//
// The order binary wraps all statically known map sites (a superset of the executed ones, found by the
// type checker), so the three builds run in parallel and no rebuild is needed once the executed set is known.
// Sites that first show up with >= 2 entries under a deviation are explored in a further round.
package main

import (
	"bufio"
	"bytes"
	"crypto/sha256"
	"encoding/hex"
	"encoding/json"
	"flag"
	"fmt"
	"os"
	"os/exec"
	"path/filepath"
	"regexp"
	"runtime"
	"sort"
	"strconv"
	"strings"
	"sync"
	"sync/atomic"
	"time"

	"github.com/openconfig/ygot/zzverif/c25/instr"
	"github.com/openconfig/ygot/zzverif/core"
)

const propID = "C25"

var deviations = []string{"desc", "rot"}

type env struct {
	goBin, repo, verif, work string
	jobs                     int
	thorough                 bool
	goyang                   bool
	runSeq                   atomic.Int64
	execs                    atomic.Int64
	sc                       *instr.Scan
	siteByID                 map[int]*instr.Site
}

func infra(format string, a ...interface{}) {
	fmt.Fprintf(os.Stderr, "ERROR "+format+"\n", a...)
	os.Exit(2)
}

type event struct {
	Kind string // N M E
	ID   int
	Len  int
	Type string
}

// Result is the observable outcome of one generator process.
type Result struct {
	Exit   int
	Files  map[string]string // output file (relative) -> sha256
	Digest string            // over exit status and all files
	Stderr string
	Events []event
	Dir    string
	Err    error
	Wall   time.Duration
}

func (e *env) selPkg(ip string) (string, bool) {
	const y = "github.com/openconfig/ygot/"
	const g = "github.com/openconfig/goyang/"
	if strings.HasPrefix(ip, y) && !strings.Contains(ip, "/zzverif/") {
		return strings.TrimPrefix(ip, y), true
	}
	if e.goyang && strings.HasPrefix(ip, g) {
		return "goyang/" + strings.TrimPrefix(ip, g), true
	}
	return "", false
}

// build compiles ./generator and ./proto_generator with the given file replacements into dir.
func (e *env) build(tag string, replace map[string]string) (string, error) {
	dir := filepath.Join(e.work, "bin-"+tag)
	if err := os.MkdirAll(dir, 0o755); err != nil {
		return "", err
	}
	ov := map[string]string{}
	for k, v := range replace {
		ov[k] = v
	}
	// the library driver (options the generator binaries have no flag for) is a virtual main package
	ov[filepath.Join(e.repo, "zzverif", "c25", "libdriver", "main.go")] = filepath.Join(e.verif, "harness", "c25", "libdriver", "main.go")
	if len(replace) > 0 {
		seamDir := filepath.Join(e.verif, "harness", "c25", "seam")
		ents, err := os.ReadDir(seamDir)
		if err != nil {
			return "", err
		}
		for _, en := range ents {
			if strings.HasSuffix(en.Name(), ".go") && !strings.HasSuffix(en.Name(), "_test.go") {
				ov[filepath.Join(e.repo, "zzverif", "c25", "seam", en.Name())] = filepath.Join(seamDir, en.Name())
			}
		}
	}
	args := []string{"build"}
	if len(ov) > 0 {
		b, _ := json.MarshalIndent(map[string]interface{}{"Replace": ov}, "", " ")
		ovf := filepath.Join(e.work, "overlay-"+tag+".json")
		if err := os.WriteFile(ovf, b, 0o644); err != nil {
			return "", err
		}
		args = append(args, "-overlay", ovf)
	}
	args = append(args, "-o", dir+string(os.PathSeparator), "./generator", "./proto_generator", "./zzverif/c25/libdriver")
	cmd := exec.Command(e.goBin, args...)
	cmd.Dir = e.repo
	// goindex=0: the go command otherwise reads the imports of module-cache packages (goyang) from its module
	// index and does not see the seam import that the overlay adds to them.
	cmd.Env = append(os.Environ(), "GODEBUG=goindex=0")
	out, err := cmd.CombinedOutput()
	if err != nil {
		return "", fmt.Errorf("go build (%s) failed: %v\n%s", tag, err, tail(string(out), 3000))
	}
	for _, b := range []string{"generator", "proto_generator", "libdriver"} {
		if _, err := os.Stat(filepath.Join(dir, b)); err != nil {
			return "", fmt.Errorf("go build (%s) did not produce %s", tag, b)
		}
	}
	return dir, nil
}

func tail(s string, n int) string {
	if len(s) > n {
		return "..." + s[len(s)-n:]
	}
	return s
}

// run executes one generator process for cfg in a fresh directory.
func (e *env) run(binDir string, cfg *Config, order string) *Result {
	n := e.runSeq.Add(1)
	dir := filepath.Join(e.work, "runs", strconv.FormatInt(n, 10))
	res := &Result{Dir: dir, Files: map[string]string{}}
	if err := os.MkdirAll(filepath.Join(dir, "out"), 0o755); err != nil {
		res.Err = err
		return res
	}
	args := append(append([]string{}, cfg.Args...), cfg.Files...)
	cmd := exec.Command(filepath.Join(binDir, cfg.Bin), args...)
	cmd.Args[0] = cfg.Bin
	cmd.Dir = dir
	probe := filepath.Join(dir, "probe.txt")
	cmd.Env = []string{"PATH=/usr/bin:/bin", "GOMAXPROCS=2", "GOGC=400", "HOME=" + dir, "TMPDIR=" + dir, "C25_PROBE_FILE=" + probe, "C25_ORDER=" + order}
	var stderr, stdout bytes.Buffer
	cmd.Stderr = &stderr
	cmd.Stdout = &stdout
	t0 := time.Now()
	err := cmd.Run()
	res.Wall = time.Since(t0)
	e.execs.Add(1)
	if err != nil {
		if ee, ok := err.(*exec.ExitError); ok {
			res.Exit = ee.ExitCode()
		} else {
			res.Err = err
			return res
		}
	}
	res.Stderr = tail(stderr.String(), 1500)
	if res.Exit == 97 { // the seam's own failure exit
		res.Err = fmt.Errorf("seam failure: %s", res.Stderr)
		return res
	}
	h := sha256.New()
	fmt.Fprintf(h, "exit=%d\n", res.Exit)
	if stdout.Len() > 0 {
		s := sha256.Sum256(stdout.Bytes())
		res.Files["<stdout>"] = hex.EncodeToString(s[:])
	}
	outDir := filepath.Join(dir, "out")
	filepath.Walk(outDir, func(p string, fi os.FileInfo, err error) error {
		if err != nil || fi.IsDir() {
			return nil
		}
		b, rerr := os.ReadFile(p)
		if rerr != nil {
			res.Err = rerr
			return nil
		}
		s := sha256.Sum256(b)
		rel, _ := filepath.Rel(outDir, p)
		res.Files[filepath.ToSlash(rel)] = hex.EncodeToString(s[:])
		return nil
	})
	names := make([]string, 0, len(res.Files))
	for k := range res.Files {
		names = append(names, k)
	}
	sort.Strings(names)
	for _, k := range names {
		fmt.Fprintf(h, "%s %s\n", k, res.Files[k])
	}
	res.Digest = hex.EncodeToString(h.Sum(nil))
	if fh, err := os.Open(probe); err == nil {
		sc := bufio.NewScanner(fh)
		for sc.Scan() {
			fs := strings.Fields(sc.Text())
			if len(fs) < 2 {
				continue
			}
			id, _ := strconv.Atoi(fs[1])
			ev := event{Kind: fs[0], ID: id}
			switch fs[0] {
			case "E", "G":
				if len(fs) >= 4 {
					ev.Len, _ = strconv.Atoi(fs[2])
					ev.Type = strings.Join(fs[3:], " ")
				}
			default:
				ev.Type = strings.Join(fs[2:], " ")
			}
			res.Events = append(res.Events, ev)
		}
		fh.Close()
	}
	return res
}

func (r *Result) discard() {
	if r != nil && r.Dir != "" {
		os.RemoveAll(r.Dir)
	}
}

var hexBytesLine = regexp.MustCompile(`^\s*(0x[0-9a-f]{2},\s*)+$`)

// stripSchemaBytes drops the lines of a byte-slice literal (the gzipped JSON schema embedded by -include_schema).
func stripSchemaBytes(b []byte) string {
	var sb strings.Builder
	for _, l := range strings.Split(string(b), "\n") {
		if !hexBytesLine.MatchString(l) {
			sb.WriteString(l)
			sb.WriteByte('\n')
		}
	}
	return sb.String()
}

// describeDiff names the first output file that differs between ref and got and its first differing line, and
// classifies the difference: exit-status | file-set | embedded-schema-bytes-only (the outputs are identical
// apart from the bytes of the embedded compressed schema) | generated-code.
func describeDiff(ref, got *Result) (string, string) {
	if ref.Exit != got.Exit {
		return fmt.Sprintf("exit status %d vs %d (stderr: %s)", ref.Exit, got.Exit, oneLine(got.Stderr, 300)), "exit-status"
	}
	names := map[string]bool{}
	for k := range ref.Files {
		names[k] = true
	}
	for k := range got.Files {
		names[k] = true
	}
	var ns []string
	for k := range names {
		ns = append(ns, k)
	}
	sort.Strings(ns)
	ndiff := 0
	first := ""
	class := "embedded-schema-bytes-only"
	for _, k := range ns {
		if ref.Files[k] != got.Files[k] {
			ndiff++
			if first == "" {
				first = k
			}
			if ref.Files[k] == "" || got.Files[k] == "" {
				class = "file-set"
				continue
			}
			a, err1 := os.ReadFile(filepath.Join(ref.Dir, "out", k))
			b, err2 := os.ReadFile(filepath.Join(got.Dir, "out", k))
			if class != "file-set" && (err1 != nil || err2 != nil || stripSchemaBytes(a) != stripSchemaBytes(b)) {
				class = "generated-code"
			}
		}
	}
	if first == "" {
		return "no difference", "none"
	}
	d := fmt.Sprintf("%d of %d output files differ (%s); first: %s", ndiff, len(ns), class, first)
	if ref.Files[first] == "" {
		return d + " (missing in the reference run)", class
	}
	if got.Files[first] == "" {
		return d + " (missing in this run)", class
	}
	a, err1 := os.ReadFile(filepath.Join(ref.Dir, "out", first))
	b, err2 := os.ReadFile(filepath.Join(got.Dir, "out", first))
	if err1 != nil || err2 != nil {
		return d, class
	}
	la, lb := strings.Split(string(a), "\n"), strings.Split(string(b), "\n")
	for i := 0; i < len(la) || i < len(lb); i++ {
		var x, y string
		if i < len(la) {
			x = la[i]
		}
		if i < len(lb) {
			y = lb[i]
		}
		if x != y {
			return fmt.Sprintf("%s line %d: reference %q, this run %q", d, i+1, oneLine(x, 160), oneLine(y, 160)), class
		}
	}
	return d, class
}

func oneLine(s string, n int) string {
	s = strings.Join(strings.Fields(s), " ")
	if len(s) > n {
		s = s[:n] + "..."
	}
	return s
}

// parallel runs fn(i) for i in [0,n) on e.jobs workers.
func (e *env) parallel(n int, fn func(i int)) {
	var wg sync.WaitGroup
	var next atomic.Int64
	for w := 0; w < e.jobs; w++ {
		wg.Add(1)
		go func() {
			defer wg.Done()
			for {
				i := int(next.Add(1) - 1)
				if i >= n {
					return
				}
				fn(i)
			}
		}()
	}
	wg.Wait()
}

// replayCase is what a violation's replay file holds.
type replayCase struct {
	Clause string      `json:"clause"` // site | all-sites | conformance | processes
	Config *Config     `json:"config"`
	Site   *instr.Site `json:"site,omitempty"`
	Dev    string      `json:"deviation,omitempty"`
	Order  string      `json:"c25_order,omitempty"`
	Diff   string      `json:"difference"`
	How    string      `json:"how_to_replay"`
}

type job struct {
	cfg   int
	label string // baseline | all:<dev> | site
	site  int
	dev   string
	order string
	res   *Result
	diff  string
	class string
}

func main() {
	tier := flag.String("tier", "quick", "quick|thorough")
	seed := flag.Int("seed", 0, "seed (only rotates the order in which the generator executions are started)")
	verif := flag.String("verif", "/verif", "harness directory")
	repo := flag.String("repo", "/repo", "repository directory")
	out := flag.String("out", "", "directory for evidence/ and replays/ (default: the harness directory)")
	work := flag.String("work", "", "scratch directory (required)")
	goBin := flag.String("go", "go", "go command")
	jobs := flag.Int("jobs", runtime.NumCPU(), "parallel generator processes")
	only := flag.String("only", "", "debug: regexp selecting configurations by name")
	goyang := flag.String("goyang", "auto", "instrument goyang too: auto (thorough tier) | on | off")
	list := flag.Bool("list", false, "print the configurations and exit")
	trial := flag.Bool("trial", false, "debug: run the uninstrumented generator once per configuration and report failures")
	replay := flag.String("replay", "", "replay file")
	budget := flag.Duration("budget", 0, "internal deadline for launching generator executions (0: 10m quick, 40m thorough); a run that hits it is labelled non-exhaustive")
	flag.Parse()
	if *work == "" {
		infra("-work is required")
	}
	e := &env{goBin: *goBin, repo: *repo, verif: *verif, work: *work, jobs: *jobs, thorough: *tier == "thorough"}
	e.goyang = *goyang == "on" || (*goyang == "auto" && e.thorough)
	if e.jobs < 1 {
		e.jobs = 1
	}
	os.MkdirAll(filepath.Join(e.work, "runs"), 0o755)

	if *replay != "" {
		os.Exit(e.replayFile(*replay))
	}

	cfgs := corpus(e.verif, e.repo, e.thorough)
	if *only != "" {
		re := regexp.MustCompile(*only)
		var sel []*Config
		for _, c := range cfgs {
			if re.MatchString(c.Name) {
				sel = append(sel, c)
			}
		}
		cfgs = sel
	}
	if *list {
		for _, c := range cfgs {
			fmt.Println(c.Name, c.Bin, strings.Join(c.Args, " "), strings.Join(c.Files, " "))
		}
		return
	}
	if len(cfgs) == 0 {
		infra("no configurations selected")
	}
	R := core.NewReporter(propID, *tier, *seed, e.verif)
	R.OutDir = *out
	t0 := time.Now()
	if *budget == 0 {
		*budget = 10 * time.Minute
		if e.thorough {
			*budget = 40 * time.Minute
		}
	}
	deadline := t0.Add(*budget)
	rot := *seed
	if rot < 0 {
		rot = -rot
	}
	phase := func(name string) {
		fmt.Fprintf(os.Stderr, "[c25 %6.1fs] %s\n", time.Since(t0).Seconds(), name)
	}

	// ---- static scan + builds -------------------------------------------------------------------------------
	phase("scan and type-check the generator packages")
	if err := e.load(); err != nil {
		infra("%v", err)
	}
	sc := e.sc
	nMapStatic := 0
	for _, s := range sc.Sites {
		if s.IsMap {
			nMapStatic++
		}
	}
	phase(fmt.Sprintf("%d packages, %d range / MapKeys sites, %d over maps (static); building the real, probe and order binaries", len(sc.Pkgs), len(sc.Sites), nMapStatic))
	// The order binary wraps EVERY statically known map site with seam.Order (a superset of the executed sites, so
	// that no rebuild is needed when the executed set is known) and every other range with seam.Probe.
	orderSet := map[int]bool{}
	for _, s := range sc.Sites {
		if s.IsMap && !s.TypeParam && !s.Literal {
			orderSet[s.ID] = true
		}
	}
	var realDir, probeDir, orderDir string
	var notOrderable []string
	var berr [3]error
	var wg sync.WaitGroup
	wg.Add(3)
	go func() { defer wg.Done(); realDir, berr[0] = e.build("real", nil) }()
	go func() {
		defer wg.Done()
		if *trial {
			return
		}
		ov, err := sc.Rewrite(filepath.Join(e.work, "src-probe"), nil, true)
		if err != nil {
			berr[1] = err
			return
		}
		probeDir, berr[1] = e.build("probe", ov)
	}()
	go func() {
		defer wg.Done()
		if *trial {
			return
		}
		for attempt := 1; ; attempt++ {
			ov, err := sc.Rewrite(filepath.Join(e.work, fmt.Sprintf("src-order-%d", attempt)), orderSet, true)
			if err != nil {
				berr[2] = err
				return
			}
			orderDir, err = e.build(fmt.Sprintf("order-%d", attempt), ov)
			if err == nil {
				return
			}
			// a site the generic seam.Order cannot wrap (exotic map type): leave it to seam.Probe and retry
			dropped := 0
			for _, m := range regexp.MustCompile(`([\w./-]+\.go):(\d+):\d+`).FindAllStringSubmatch(err.Error(), -1) {
				line, _ := strconv.Atoi(m[2])
				for _, st := range sc.Sites {
					if orderSet[st.ID] && st.Line == line && strings.HasSuffix(st.File, m[1]) {
						delete(orderSet, st.ID)
						notOrderable = append(notOrderable, st.Pos()+" "+st.Func)
						dropped++
					}
				}
			}
			if dropped == 0 || attempt >= 3 {
				berr[2] = err
				return
			}
		}
	}()
	wg.Wait()
	for _, err := range berr {
		if err != nil {
			infra("%v", err)
		}
	}

	if *trial {
		res := make([]*Result, len(cfgs))
		e.parallel(len(cfgs), func(i int) { res[i] = e.run(realDir, cfgs[i], "") })
		for i, r := range res {
			st := "ok"
			if r.Err != nil || r.Exit != 0 {
				st = fmt.Sprintf("FAIL exit=%d err=%v stderr=%s", r.Exit, r.Err, oneLine(r.Stderr, 400))
			}
			fmt.Printf("%-45s files=%d %s\n", cfgs[i].Name, len(r.Files), st)
		}
		return
	}

	// ---- phase A: real x2, probe, all-ascending baseline ------------------------------------------------------
	phase(fmt.Sprintf("phase A: %d configurations x (2 real processes + probe + all-ascending baseline)", len(cfgs)))
	real1 := make([]*Result, len(cfgs))
	real2 := make([]*Result, len(cfgs))
	probe := make([]*Result, len(cfgs))
	baseline := make([]*Result, len(cfgs))
	e.parallel(4*len(cfgs), func(i int) {
		c := i / 4
		switch i % 4 {
		case 0:
			real1[c] = e.run(realDir, cfgs[c], "")
		case 1:
			real2[c] = e.run(realDir, cfgs[c], "")
		case 2:
			probe[c] = e.run(probeDir, cfgs[c], "")
		case 3:
			baseline[c] = e.run(orderDir, cfgs[c], "*=asc")
		}
	})
	executed := make([]map[int]int, len(cfgs)) // per config: site -> 2 (only maps of exactly 2 entries seen) | 3 (a map of >= 3 entries seen)
	execUnion := map[int]bool{}
	mapSeen := map[int]bool{}
	nonMapSeen := map[int]bool{}
	procPairs, procDiffer := 0, 0
	stateKeys := map[string]bool{}
	probeDiff := make([]string, len(cfgs))
	baseDiff := make([]string, len(cfgs))
	orderDependent := make([]bool, len(cfgs)) // some deviation changed the configuration's output
	absorb := func(c int, evs []event) (added []int) {
		for _, ev := range evs {
			switch ev.Kind {
			case "E", "G":
				old, ok := executed[c][ev.ID]
				if !ok {
					added = append(added, ev.ID)
				}
				if ev.Kind == "G" {
					executed[c][ev.ID] = 3
				} else if old == 0 {
					executed[c][ev.ID] = 2
				}
				execUnion[ev.ID] = true
				mapSeen[ev.ID] = true
			case "M":
				mapSeen[ev.ID] = true
			case "N":
				nonMapSeen[ev.ID] = true
			}
		}
		return added
	}
	for c, cfg := range cfgs {
		for _, r := range []*Result{real1[c], real2[c], probe[c], baseline[c]} {
			if r.Err != nil {
				infra("cannot run %s for %s: %v", cfg.Bin, cfg.Name, r.Err)
			}
		}
		if real1[c].Exit != 0 || len(real1[c].Files) == 0 {
			infra("the generator fails on corpus configuration %s (exit %d, %d files): %s", cfg.Name, real1[c].Exit, len(real1[c].Files), oneLine(real1[c].Stderr, 600))
		}
		R.Add("transitions", 4)
		R.Add("evaluations", 3)
		R.Add("traces_validated_against_impl", 3)
		procPairs++
		if real1[c].Digest != real2[c].Digest {
			procDiffer++
			d, cl := describeDiff(real1[c], real2[c])
			R.Outcome("independent-processes-differ")
			R.Violation("independent-processes-differ:"+cfg.Kind+":"+cl, fmt.Sprintf("config %s: two plain processes of the uninstrumented %s disagree: %s", cfg.Name, cfg.Bin, d),
				replayCase{Clause: "processes", Config: cfg, Diff: d, How: "scripts/replay_c25.sh <this file> (runs the real generator twice more; the outcome is a sample)"})
		} else {
			R.Outcome("independent-processes-agree")
		}
		stateKeys[fmt.Sprintf("%d|baseline", c)] = true
		R.NonTrivial(cfg.Name + "|baseline")
		// conformance of the instrumented builds is judged after phase B (only where the output turned out not to
		// depend on map order; otherwise the real generator has no single reference output)
		if probe[c].Digest != real1[c].Digest {
			probeDiff[c], _ = describeDiff(real1[c], probe[c])
		}
		if baseline[c].Digest != real1[c].Digest {
			baseDiff[c], _ = describeDiff(real1[c], baseline[c])
		}
		executed[c] = map[int]int{}
		absorb(c, probe[c].Events)
		absorb(c, baseline[c].Events)
		real2[c].discard()
		probe[c].discard()
	}
	// cross-check of the runtime probe against the static types
	for id := range mapSeen {
		if s := e.siteByID[id]; s == nil || (!s.IsMap && !s.TypeParam) {
			infra("probe saw a map at site %d (%v) which the type checker does not classify as a map range", id, s)
		}
	}
	uncontrolled := map[int]bool{} // executed with >= 2 entries but not wrapped by seam.Order

	// ---- phase B: deviation runs, to a fixpoint of the executed-site set -------------------------------------
	type pair struct{ c, s int }
	explored := map[pair]bool{}
	firstSeenUnderDeviation := map[int]bool{}
	replayBins := map[string]string{"real": realDir, "order": orderDir}
	rounds := 0
	rotSameAsDesc := 0
	for round := 1; ; round++ {
		var js []*job
		pending := 0
		for c := range cfgs {
			if round == 1 {
				for _, d := range deviations {
					js = append(js, &job{cfg: c, label: "all:" + d, site: -1, dev: d, order: "*=" + d})
				}
			}
			var ss []int
			for s := range executed[c] {
				if !explored[pair{c, s}] {
					ss = append(ss, s)
				}
			}
			sort.Ints(ss)
			for _, s := range ss {
				explored[pair{c, s}] = true
				if !orderSet[s] {
					uncontrolled[s] = true
					continue
				}
				pending++
				for _, d := range deviations {
					if d == "rot" && executed[c][s] == 2 {
						// every map this site iterated had <= 2 entries: rotate-by-1 is the same order as descending
						rotSameAsDesc++
						continue
					}
					js = append(js, &job{cfg: c, label: "site", site: s, dev: d, order: fmt.Sprintf("%d=%s", s, d)})
				}
			}
		}
		if len(js) == 0 {
			break
		}
		if round > 4 {
			R.Capped("executed-site set still growing after 4 rounds")
			break
		}
		rounds = round
		phase(fmt.Sprintf("phase B round %d: %d executed map sites (union), %d (configuration, site) pairs, %d generator executions", round, len(execUnion), pending, len(js)))
		var doneRuns atomic.Int64
		// start order: longest configurations first (measured in phase A) so that the tail is short; the seed
		// only rotates this order. The evaluation order below is fixed.
		start := make([]int, len(js))
		for i := range start {
			start[i] = i
		}
		sort.SliceStable(start, func(a, b int) bool { return real1[js[start[a]].cfg].Wall > real1[js[start[b]].cfg].Wall })
		e.parallel(len(js), func(i int) {
			if n := doneRuns.Add(1); n%1000 == 0 {
				phase(fmt.Sprintf("  ... %d / %d", n, len(js)))
			}
			j := js[start[(i+rot)%len(js)]]
			if time.Now().After(deadline) {
				return // not executed: the run is labelled non-exhaustive below
			}
			j.res = e.run(orderDir, cfgs[j.cfg], j.order)
			if j.res.Err == nil && j.res.Digest != baseline[j.cfg].Digest {
				j.diff, j.class = describeDiff(baseline[j.cfg], j.res)
			}
			j.res.discard()
		})
		// evaluation, in the fixed order of js
		for _, j := range js {
			cfg := cfgs[j.cfg]
			if j.res == nil {
				R.Capped("deadline: not every (configuration, site, deviation) run was executed")
				R.Add("runs_skipped_by_deadline", 1)
				continue
			}
			if j.res.Err != nil {
				infra("cannot run the order-instrumented %s for %s: %v", cfg.Bin, cfg.Name, j.res.Err)
			}
			R.Add("transitions", 1)
			R.Add("evaluations", 1)
			R.Add("traces_validated_against_impl", 1)
			stateKeys[fmt.Sprintf("%d|%s|%d|%s", j.cfg, j.label, j.site, j.dev)] = true
			for _, id := range absorb(j.cfg, j.res.Events) {
				firstSeenUnderDeviation[id] = true
			}
			if j.diff != "" {
				orderDependent[j.cfg] = true
			}
			switch j.label {
			case "site":
				s := e.siteByID[j.site]
				R.NonTrivial(fmt.Sprintf("%s|%s|%s", cfg.Name, s.Pos(), j.dev))
				if j.diff != "" {
					R.Outcome("site-deviation-changes-output")
					R.Violation("output-depends-on-map-order:"+s.Name(),
						fmt.Sprintf("config %s: iterating the map at %s (%s, key type %s, %s entries) in %s order changes the generated output: %s", cfg.Name, s.Pos(), s.Name(), s.KeyType, map[int]string{2: "2", 3: ">=3"}[executed[j.cfg][j.site]], j.dev, j.diff),
						replayCase{Clause: "site", Config: cfg, Site: s, Dev: j.dev, Order: j.order, Diff: j.diff, How: "scripts/replay_c25.sh <this file>"})
				} else {
					R.Outcome("site-deviation-identical")
				}
			default: // all:<dev>
				if len(executed[j.cfg]) > 0 {
					R.NonTrivial(fmt.Sprintf("%s|all|%s", cfg.Name, j.dev))
				}
				if j.diff != "" {
					R.Outcome("all-sites-deviation-changes-output")
					R.Violation("output-depends-on-map-order:all-sites:"+cfg.Kind+":"+j.class,
						fmt.Sprintf("config %s: iterating every map site in %s order changes the generated output: %s", cfg.Name, j.dev, j.diff),
						replayCase{Clause: "all-sites", Config: cfg, Dev: j.dev, Order: j.order, Diff: j.diff, How: "scripts/replay_c25.sh <this file>"})
				} else {
					R.Outcome("all-sites-deviation-identical")
				}
			}
		}
	}
	// ---- conformance of the instrumented builds ------------------------------------------------------------------
	for c, cfg := range cfgs {
		switch {
		case real1[c].Digest != real2[c].Digest:
			R.Outcome("conformance-not-judged:real-generator-unstable")
		case orderDependent[c]:
			R.Outcome("conformance-not-judged:output-depends-on-map-order")
		default:
			if probeDiff[c] != "" {
				R.Outcome("probe-build-differs-from-real")
				R.Violation("instrumented-build-differs-from-real:probe:"+cfg.Kind, fmt.Sprintf("config %s: the probe-instrumented generator's output differs from the real generator's although no map-order deviation changes the output: %s", cfg.Name, probeDiff[c]),
					replayCase{Clause: "conformance", Config: cfg, Diff: probeDiff[c], How: "scripts/replay_c25.sh <this file>"})
			} else {
				R.Outcome("probe-build-equals-real")
			}
			if baseDiff[c] != "" {
				R.Outcome("baseline-differs-from-real")
				R.Violation("instrumented-build-differs-from-real:order:"+cfg.Kind, fmt.Sprintf("config %s: the order-instrumented generator with every site ascending differs from the real generator although no map-order deviation changes the output: %s", cfg.Name, baseDiff[c]),
					replayCase{Clause: "conformance", Config: cfg, Order: "*=asc", Diff: baseDiff[c], How: "scripts/replay_c25.sh <this file>"})
			} else {
				R.Outcome("baseline-equals-real")
			}
		}
	}
	if len(uncontrolled) > 0 {
		var l []string
		for id := range uncontrolled {
			l = append(l, e.siteByID[id].Pos())
		}
		sort.Strings(l)
		R.Note("executed_map_sites_not_controlled", l)
		R.Capped("some executed map sites could not be wrapped by seam.Order")
	}
	R.Note("map_sites_not_orderable", notOrderable)

	// ---- coverage notes -----------------------------------------------------------------------------------------
	var never, neverMulti, neverLib []string
	for _, s := range sc.Sites {
		if !s.IsMap {
			continue
		}
		if !execUnion[s.ID] {
			switch {
			case mapSeen[s.ID]:
				neverMulti = append(neverMulti, s.Pos()+" "+s.Func)
			case isGeneratorPkg(s.Rel):
				never = append(never, s.Pos()+" "+s.Func)
			default:
				neverLib = append(neverLib, s.Pos()+" "+s.Func)
			}
		}
	}
	var execList []string
	ptrKeyed := 0
	for id := range execUnion {
		s := e.siteByID[id]
		execList = append(execList, fmt.Sprintf("%s %s key=%s", s.Pos(), s.Func, s.KeyType))
		if s.KeyByAddress {
			ptrKeyed++
		}
	}
	sort.Strings(execList)
	perPkg := map[string][3]int{}
	for _, s := range sc.Sites {
		l := strings.TrimSuffix(s.Rel, "/"+filepath.Base(s.Rel))
		v := perPkg[l]
		v[0]++
		if s.IsMap {
			v[1]++
		}
		if execUnion[s.ID] {
			v[2]++
		}
		perPkg[l] = v
	}
	pk := map[string]string{}
	for k, v := range perPkg {
		pk[k] = fmt.Sprintf("range=%d map=%d executed>=2=%d", v[0], v[1], v[2])
	}
	perCfg := map[string]int{}
	for c, cfg := range cfgs {
		perCfg[cfg.Name] = len(executed[c])
	}
	var fsud []string
	for id := range firstSeenUnderDeviation {
		fsud = append(fsud, e.siteByID[id].Pos())
	}
	sort.Strings(fsud)
	R.Note("instrumented_packages", pk)
	R.Note("static_range_sites", len(sc.Sites))
	R.Note("static_map_range_sites", nMapStatic)
	R.Note("executed_map_sites_ge2", len(execUnion))
	R.Note("executed_map_sites_ge2_list", execList)
	R.Note("executed_sites_with_pointer_or_interface_keys", ptrKeyed)
	R.Note("map_sites_reached_only_with_lt2_entries", neverMulti)
	R.Note("map_sites_never_reached_generator_packages", never)
	R.Note("map_sites_never_reached_runtime_library_packages", neverLib)
	R.Note("site_deviations_skipped_rot_same_as_desc", rotSameAsDesc)
	R.Note("sites_first_seen_under_a_deviation", fsud)
	R.Add("states", int64(len(stateKeys)))
	R.Note("rounds", rounds)
	R.Note("configurations", len(cfgs))
	R.Note("executed_sites_per_configuration", perCfg)
	R.Note("goyang_instrumented", e.goyang)
	R.Note("independent_process_pairs_compared", procPairs)
	R.Note("independent_process_pairs_differing", procDiffer)
	R.Note("generator_processes_executed", e.execs.Load())
	R.Note("uncontrolled_sources_static_scan", sc.Other)
	for i, cfg := range cfgs {
		if i%7 == 0 || len(cfgs) < 7 {
			var ss []string
			for s, n := range executed[i] {
				ss = append(ss, fmt.Sprintf("%s(%s entries)", e.siteByID[s].Pos(), map[int]string{2: "2", 3: ">=3"}[n]))
			}
			sort.Strings(ss)
			if len(ss) > 6 {
				ss = append(ss[:6], fmt.Sprintf("... %d more", len(ss)-6))
			}
			R.Sample(map[string]interface{}{"config": cfg.Name, "cmd": cfg.Bin + " " + strings.Join(cfg.Args, " "), "output_files": len(real1[i].Files), "baseline_digest": real1[i].Digest[:16], "deviated_sites": ss, "deviations": deviations})
		}
	}
	R.Assume("the seam controls map iteration at `range` statements of the instrumented packages only; map iteration through reflect/maps helpers, goroutine scheduling, clock and environment reads are listed by a static scan (coverage.uncontrolled_sources_static_scan) and are not controlled")
	R.Assume("deviations are per static site (all dynamic executions of the site deviate together) and one site at a time, plus all sites together; combinations of 2..n-1 sites are not enumerated")
	R.Assume("the instrumented build behaves like the real one apart from map order: checked on every configuration (baseline with all sites ascending == output of the uninstrumented generator)")
	if !e.goyang {
		R.Assume("quick tier: goyang (YANG parser) is not instrumented; its map iteration stays Go's random order")
	}
	rule := "configurations = corpus schemas x generator flag sets (real ./generator and ./proto_generator mains, separate processes); for each configuration: all-sites-ascending baseline, every map `range` site that the configuration executes with >= 2 entries x {descending, rotate-by-1} with only that site deviated, and all sites deviated x {descending, rotate-by-1}; every output file must be byte-identical to the baseline and the baseline to the uninstrumented generator; non-trivial = (configuration, site, deviation) whose site iterated a map with >= 2 entries in that configuration"
	replayFn := func(raw []byte) (bool, string) {
		var rc replayCase
		if err := json.Unmarshal(raw, &rc); err != nil {
			return false, err.Error()
		}
		return e.replayCase(&rc, replayBins)
	}
	code := R.Finish("model_checking", rule, replayFn)
	phase("done")
	os.Exit(code)
}

// isGeneratorPkg separates the code-generation packages from the runtime libraries (ygot, ytypes, ...) that
// are linked into the generator binaries and instrumented as well.
func isGeneratorPkg(rel string) bool {
	for _, p := range []string{"ygen/", "gogen/", "protogen/", "ypathgen/", "genutil/", "util/", "generator/", "proto_generator/", "internal/igenutil/", "goyang/"} {
		if strings.HasPrefix(rel, p) {
			return true
		}
	}
	return false
}

func (e *env) load() error {
	sc, err := instr.Load(e.goBin, e.repo, []string{"./generator", "./proto_generator"}, e.selPkg)
	if err != nil {
		return err
	}
	if len(sc.Pkgs) < 5 || len(sc.Sites) == 0 {
		return fmt.Errorf("implausible scan: %d packages, %d range sites", len(sc.Pkgs), len(sc.Sites))
	}
	e.sc = sc
	e.siteByID = map[int]*instr.Site{}
	for _, s := range sc.Sites {
		e.siteByID[s.ID] = s
	}
	return nil
}

// findSite maps a recorded site onto the current scan (ids are not stable across edits; positions are checked).
func (e *env) findSite(rs *instr.Site) *instr.Site {
	var byName *instr.Site
	for _, s := range e.sc.Sites {
		if s.Rel == rs.Rel && s.Line == rs.Line && s.Col == rs.Col && s.Expr == rs.Expr {
			return s
		}
		if s.Rel == rs.Rel && s.Func == rs.Func && s.Expr == rs.Expr && s.Ord == rs.Ord && byName == nil {
			byName = s
		}
	}
	return byName
}

// replayCase re-executes one recorded case with the given binaries (no explorer involved).
func (e *env) replayCase(rc *replayCase, bins map[string]string) (bool, string) {
	switch rc.Clause {
	case "processes":
		a, b := e.run(bins["real"], rc.Config, ""), e.run(bins["real"], rc.Config, "")
		defer a.discard()
		defer b.discard()
		if a.Err != nil || b.Err != nil {
			return false, fmt.Sprintf("cannot run: %v %v", a.Err, b.Err)
		}
		d, _ := describeDiff(a, b)
		return a.Digest != b.Digest, d
	case "conformance":
		a, b := e.run(bins["real"], rc.Config, ""), e.run(bins["order"], rc.Config, "*=asc")
		defer a.discard()
		defer b.discard()
		if a.Err != nil || b.Err != nil {
			return false, fmt.Sprintf("cannot run: %v %v", a.Err, b.Err)
		}
		d, _ := describeDiff(a, b)
		return a.Digest != b.Digest, d
	case "site", "all-sites":
		order := "*=" + rc.Dev
		if rc.Clause == "site" {
			s := e.findSite(rc.Site)
			if s == nil {
				return false, "the recorded site no longer exists in the repository"
			}
			order = fmt.Sprintf("%d=%s", s.ID, rc.Dev)
		}
		a, b := e.run(bins["order"], rc.Config, "*=asc"), e.run(bins["order"], rc.Config, order)
		defer a.discard()
		defer b.discard()
		if a.Err != nil || b.Err != nil {
			return false, fmt.Sprintf("cannot run: %v %v", a.Err, b.Err)
		}
		d, _ := describeDiff(a, b)
		return a.Digest != b.Digest, d
	}
	return false, "unknown clause " + rc.Clause
}

// replayFile rebuilds what the recorded case needs from the current repository and re-executes it.
func (e *env) replayFile(path string) int {
	b, err := os.ReadFile(path)
	if err != nil {
		infra("%v", err)
	}
	var doc struct {
		Property string          `json:"property"`
		Case     json.RawMessage `json:"case"`
	}
	if err := json.Unmarshal(b, &doc); err != nil {
		infra("%v", err)
	}
	var rc replayCase
	if err := json.Unmarshal(doc.Case, &rc); err != nil || rc.Config == nil {
		infra("bad replay case: %v", err)
	}
	// goyang is instrumented when the recorded site lies in it
	if rc.Site != nil && strings.HasPrefix(rc.Site.Rel, "goyang/") {
		e.goyang = true
	}
	if err := e.load(); err != nil {
		infra("%v", err)
	}
	bins := map[string]string{}
	if rc.Clause == "processes" || rc.Clause == "conformance" {
		if bins["real"], err = e.build("real", nil); err != nil {
			infra("%v", err)
		}
	}
	if rc.Clause != "processes" {
		if rc.Clause == "site" && e.findSite(rc.Site) == nil {
			fmt.Println("replay: the recorded site no longer exists in the repository; no violation")
			return 0
		}
		// as in the check: every statically known map site is wrapped, only the recorded one deviates
		set := map[int]bool{}
		for _, st := range e.sc.Sites {
			if st.IsMap && !st.TypeParam && !st.Literal {
				set[st.ID] = true
			}
		}
		ov, err := e.sc.Rewrite(filepath.Join(e.work, "src-order"), set, false)
		if err != nil {
			infra("%v", err)
		}
		if bins["order"], err = e.build("order", ov); err != nil {
			infra("%v", err)
		}
	}
	v1, d1 := e.replayCase(&rc, bins)
	v2, _ := e.replayCase(&rc, bins)
	if v1 || v2 {
		fmt.Printf("VIOLATION property=%s replay=%s detail=%s\n", propID, path, oneLine(d1, 600))
		return 1
	}
	fmt.Println("replay: no violation")
	return 0
}
