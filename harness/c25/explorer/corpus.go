package main

import (
	"path/filepath"
	"strings"
)

// Config is one generator command line: binary, flags and YANG files. Output paths are relative to
// the run directory (every run gets its own), so the command line is byte-identical across runs.
type Config struct {
	Name  string   `json:"name"`
	Bin   string   `json:"bin"`  // generator | proto_generator
	Kind  string   `json:"kind"` // gostructs | pathstructs | gostructs+pathstructs | proto
	Args  []string `json:"args"`
	Files []string `json:"files"`
	Quick bool     `json:"-"`
}

type schemaSet struct {
	name       string
	files      []string // absolute
	paths      []string // include paths
	openconfig bool     // OpenConfig-style: compress_paths / path structs apply
	quick      bool
	proto      bool     // also used for proto generation
	rich       bool     // gets the full set of flag combinations (others: one or two)
	extra      []string // flags this schema needs
	quickBasic bool     // quick tier: only the basic flag sets
	skip       []string // substrings of flag-set names that do not apply to this schema (the generator rejects them)
}

type flagSet struct {
	name     string
	bin      string
	kind     string
	compress bool
	flags    []string
	basic    bool // used for the non-rich schemas as well
	quick    bool
	quickAll bool // quick tier: also for the schemas that otherwise get the basic flag sets only
}

const commonGoFlags = "-generate_fakeroot -fakeroot_name=device -generate_ordered_maps -yangpresence -generate_append -generate_rename -generate_delete -generate_getters -generate_populate_defaults -include_schema"
const enumNameFlags = "-typedef_enum_with_defmod -shorten_enum_leaf_names -enum_suffix_for_simple_union_enums -trim_enum_openconfig_prefix"

func f(s ...string) []string {
	var out []string
	for _, x := range s {
		out = append(out, strings.Fields(x)...)
	}
	return out
}

func flagSets() []flagSet {
	return []flagSet{
		// ---- Go structs -----------------------------------------------------------------------------------
		{name: "go-U-simple-all", bin: "generator", kind: "gostructs", basic: true, quick: true,
			flags: f("-output_file=out/structs.go -package_name=pkg -generate_simple_unions", commonGoFlags)},
		{name: "go-U-wrapper-min", bin: "generator", kind: "gostructs", quick: true,
			flags: f("-output_file=out/structs.go -package_name=pkg")},
		{name: "go-U-split4", bin: "generator", kind: "gostructs", quick: true,
			flags: f("-output_dir=out -structs_split_files_count=4 -package_name=pkg -generate_simple_unions -generate_fakeroot -generate_ordered_maps=false -generate_leaf_getters -generate_leaf_setters -annotations -include_model_data -include_descriptions -skip_enum_deduplication")},
		{name: "go-C-simple-all", bin: "generator", kind: "gostructs", compress: true, basic: true, quick: true,
			flags: f("-output_file=out/structs.go -package_name=pkg -compress_paths -generate_simple_unions", commonGoFlags, enumNameFlags)},
		{name: "go-C-wrapper-opstate", bin: "generator", kind: "gostructs", compress: true, quick: true,
			flags: f("-output_file=out/structs.go -package_name=pkg -compress_paths -prefer_operational_state -ignore_shadow_schema_paths -generate_fakeroot -annotations -generate_leaf_getters -generate_leaf_setters -include_model_data -include_descriptions -generate_getters -generate_populate_defaults")},
		{name: "go-C-exclstate-split3", bin: "generator", kind: "gostructs", compress: true,
			flags: f("-output_dir=out -structs_split_files_count=3 -package_name=pkg -compress_paths -exclude_state -generate_fakeroot -skip_enum_deduplication -generate_simple_unions -include_schema=false")},
		// ---- path structs (compressed schemas only) ---------------------------------------------------------
		{name: "path-single", bin: "generator", kind: "pathstructs", compress: true, basic: true, quick: true,
			flags: f("-generate_structs=false -generate_path_structs -compress_paths -generate_fakeroot -fakeroot_name=device -package_name=pkg -schema_struct_path=example.com/oc -path_structs_output_file=out/paths.go")},
		{name: "path-split3-builder", bin: "generator", kind: "pathstructs", compress: true,
			flags: f("-generate_structs=false -generate_path_structs -compress_paths -generate_fakeroot -fakeroot_name=device -package_name=pkg -schema_struct_path=example.com/oc -output_dir=out -path_structs_split_files_count=3 -list_builder_key_threshold=2 -simplify_wildcard_paths -prefer_operational_state", enumNameFlags)},
		{name: "path-bymodule+structs", bin: "generator", kind: "gostructs+pathstructs", compress: true, quick: true, quickAll: true,
			flags: f("-generate_path_structs -compress_paths -generate_fakeroot -fakeroot_name=device -package_name=pkg -generate_simple_unions -output_dir=out -structs_split_files_count=2 -path_structs_output_file=out/root_path.go -split_pathstructs_by_module -base_import_path=example.com/gen -path_structs_split_files_count=2 -trim_path_package_prefix=openconfig- -generate_wildcard_paths=false")},
		// ---- protobuf ---------------------------------------------------------------------------------------
		{name: "proto-U", bin: "proto_generator", kind: "proto", basic: true, quick: true,
			flags: f("-output_dir=out -package_name=vp -base_import_path=example.com/p -generate_fakeroot")},
		{name: "proto-C-hier", bin: "proto_generator", kind: "proto", compress: true, basic: true, quick: true,
			flags: f("-output_dir=out -package_name=vp -base_import_path=example.com/p -compress_paths -generate_fakeroot -package_hierarchy -go_package_base=example.com/go")},
		{name: "proto-U-hier-exclstate", bin: "proto_generator", kind: "proto",
			flags: f("-output_dir=out -package_name=vp -package_hierarchy -exclude_state -skip_enum_deduplication -add_schemapaths=false -add_enumnames=false -enum_package_name=en")},
		{name: "proto-C-opstate", bin: "proto_generator", kind: "proto", compress: true,
			flags: f("-output_dir=out -package_name=vp -compress_paths -prefer_operational_state -generate_fakeroot -fakeroot_name=root")},
	}
}

func schemaSets(verif, repo string) []schemaSet {
	vs := func(n ...string) []string {
		var out []string
		for _, x := range n {
			out = append(out, filepath.Join(verif, "schemas", x))
		}
		return out
	}
	rp := func(dir string, n ...string) []string {
		var out []string
		for _, x := range n {
			out = append(out, filepath.Join(repo, dir, x))
		}
		return out
	}
	vsch := []string{filepath.Join(verif, "schemas")}
	tm := "testdata/modules"
	tmp := []string{filepath.Join(repo, tm)}
	pt := "protogen/testdata/proto"
	ptp := []string{filepath.Join(repo, pt), filepath.Join(repo, tm)}
	gs := "demo/getting_started/yang"
	return []schemaSet{
		// the harness corpus
		{name: "vt", files: vs("vt.yang", "vt-aug.yang"), paths: vsch, quick: true, proto: true, rich: true},
		{name: "voc", files: vs("voc.yang"), paths: vsch, openconfig: true, quick: true, proto: true, rich: true},
		{name: "vk", files: vs("vk.yang"), paths: vsch, proto: true},
		{name: "ven", files: vs("ven.yang", "openconfig-vex.yang"), paths: vsch, openconfig: true, quick: true, quickBasic: true, proto: true, rich: true, skip: []string{"opstate", "path-split3-builder"}},
		// the repository's test modules
		{name: "rm-enum", files: rp(tm, "enum-module.yang", "enum-union.yang", "enum-list-uncompressed.yang"), paths: tmp},
		{name: "rm-enumc", files: rp(tm, "openconfig-list-enum-key.yang", "openconfig-enumcamelcase.yang", "enum-module.yang", "enum-union.yang"), paths: tmp, openconfig: true},
		{name: "rm-simple", files: rp(tm, "openconfig-simple.yang", "openconfig-withlist.yang"), paths: tmp, openconfig: true, quick: true, quickBasic: true, proto: true, rich: true},
		{name: "rm-aug", files: rp(tm, "openconfig-simple-target.yang", "openconfig-simple-augment.yang", "openconfig-simple-grouping.yang"), paths: tmp, openconfig: true, proto: true},
		{name: "rm-aug2", files: rp(tm, "openconfig-simple.yang", "openconfig-simple-augment2.yang"), paths: tmp, openconfig: true},
		{name: "rm-import", files: rp(tm, "openconfig-import.yang", "openconfig-fakeroot.yang", "openconfig-versioned-mod.yang"), paths: tmp, openconfig: true},
		{name: "rm-complex", files: rp(tm, "openconfig-unione.yang", "openconfig-camelcase.yang", "openconfig-config-false.yang", "openconfig-leaflist-default.yang"), paths: tmp, openconfig: true, rich: true, skip: []string{"proto"}},
		{name: "rm-lists", files: rp(tm, "openconfig-multikey-list-name-conflict.yang", "exclude-state-ro-list.yang"), paths: tmp, openconfig: true},
		{name: "rm-misc", files: rp(tm, "choice-case-example.yang", "presence-container-example.yang", "root-entities.yang", "enum-duplication.yang", "enum-types.yang", "enum-union-with-enum-defaults.yang"), paths: tmp, proto: true},
		// protogen's test modules
		{name: "pt-a", files: rp(pt, "proto-test-a.yang", "proto-test-b.yang", "proto-test-c.yang", "proto-test-d.yang"), paths: ptp, quick: true, proto: true, rich: true, openconfig: true, skip: []string{"path-", "go-C", "go-U-split", "go-U-wrapper"}},
		{name: "pt-e", files: rp(pt, "proto-test-e.yang", "proto-test-f.yang"), paths: ptp, proto: true, skip: []string{"go-"}},
		{name: "pt-g", files: rp(pt, "proto-test-g.yang", "proto-enums.yang", "proto-enums-addid.yang"), paths: ptp, proto: true, skip: []string{"go-"}},
		{name: "pt-n", files: rp(pt, "nested-messages.yang", "proto-union-list-key.yang"), paths: ptp, proto: true, openconfig: true, skip: []string{"go-", "path-"}},
		{name: "pt-x", files: rp(pt, "cross-ref-src.yang", "cross-ref-target.yang", "fakeroot-multimod-one.yang", "fakeroot-multimod-two.yang"), paths: ptp, proto: true, skip: []string{"go-"}},
		// integration tests and demos
		{name: "it-schemaops-c", files: rp("integration_tests/schemaops/yang", "ctestschema.yang", "ctestschema-rootmod.yang"), paths: []string{filepath.Join(repo, "integration_tests/schemaops/yang")}, openconfig: true, proto: true},
		{name: "it-schemaops-u", files: rp("integration_tests/schemaops/yang", "utestschema.yang"), paths: []string{filepath.Join(repo, "integration_tests/schemaops/yang")}},
		{name: "it-uncompressed", files: rp("integration_tests/uncompressed/yang", "uncompressed.yang"), paths: []string{filepath.Join(repo, "integration_tests/uncompressed/yang")}, proto: true, openconfig: true},
		{name: "demo-uncompressed", files: rp("demo/uncompressed/yang", "example.yang"), paths: []string{filepath.Join(repo, "demo/uncompressed/yang")}},
		{name: "demo-interfaces", files: rp(gs, "openconfig-interfaces.yang", "openconfig-if-ip.yang", "openconfig-if-ethernet.yang", "openconfig-if-aggregate.yang", "openconfig-vlan.yang"), paths: []string{filepath.Join(repo, gs)}, extra: []string{"-exclude_modules=ietf-interfaces"}, openconfig: true, proto: true, rich: true},
		{name: "demo-rib", files: rp("demo/protobuf_getting_started/yang/rib", "openconfig-rib-bgp.yang"), paths: []string{filepath.Join(repo, "demo/protobuf_getting_started/yang")}, extra: []string{"-exclude_modules=ietf-interfaces"}, proto: true},
	}
}

// libConfigs drives the generator LIBRARIES with option combinations that have no generator flag
// (underscore-free enumeration names reach the later rounds of ygen's enum-name clash resolution;
// protobuf nested messages), through harness/c25/libdriver.
func libConfigs(verif string) []*Config {
	sch := filepath.Join(verif, "schemas")
	clash := []string{filepath.Join(sch, "venclash-a.yang"), filepath.Join(sch, "venclash-b.yang")}
	ven := []string{filepath.Join(sch, "ven.yang"), filepath.Join(sch, "openconfig-vex.yang")}
	voc := []string{filepath.Join(sch, "voc.yang")}
	mk := func(name, kind string, files []string, quick bool, flags ...string) *Config {
		args := append([]string{"-path=" + sch, "-outdir=out"}, flags...)
		k := "gostructs"
		if kind == "proto" {
			k = "proto"
		}
		return &Config{Name: name, Bin: "libdriver", Kind: k, Args: append(args, "-kind="+kind), Files: files, Quick: quick}
	}
	return []*Config{
		mk("lib/clash/go-C-shorten", "go", clash, true, "-compress", "-shorten"),
		mk("lib/clash/go-C-shorten-defmod", "go", clash, true, "-compress", "-shorten", "-defmod"),
		mk("lib/clash/go-C-shorten-underscores", "go", clash, false, "-compress", "-shorten", "-underscores"),
		mk("lib/clash/go-U", "go", clash, false),
		mk("lib/clash/proto-C-nested", "proto", clash, true, "-compress", "-nested", "-shorten"),
		mk("lib/ven/proto-U-nested", "proto", ven, false, "-nested"),
		mk("lib/voc/proto-C-nested", "proto", voc, true, "-compress", "-nested"),
		mk("lib/voc/go-C-skipdedup", "go", voc, false, "-compress", "-skipdedup", "-shorten"),
	}
}

// corpus builds the configuration list: schemas x flag sets, restricted to the combinations that apply.
func corpus(verif, repo string, thorough bool) []*Config {
	var out []*Config
	for _, c := range libConfigs(verif) {
		if c.Quick || thorough {
			out = append(out, c)
		}
	}
	for _, s := range schemaSets(verif, repo) {
		for _, fs := range flagSets() {
			if fs.compress && !s.openconfig {
				continue
			}
			if fs.kind == "proto" && !s.proto {
				continue
			}
			if !s.rich && !fs.basic {
				continue
			}
			skipped := false
			for _, sk := range s.skip {
				if strings.Contains(fs.name, sk) {
					skipped = true
				}
			}
			if skipped {
				continue
			}
			quick := s.quick && fs.quick && (fs.basic || fs.quickAll || !s.quickBasic)
			if !quick && !thorough {
				continue
			}
			args := append([]string{"-logtostderr", "-path=" + strings.Join(s.paths, ",")}, fs.flags...)
			args = append(args, s.extra...)
			out = append(out, &Config{Name: s.name + "/" + fs.name, Bin: fs.bin, Kind: fs.kind, Args: args, Files: s.files, Quick: quick})
		}
	}
	return out
}
