package core

import (
	"reflect"
	"sort"
)

// Auxiliary corpus packages: generated and registered exactly like the main corpus packages
// (same reg.go, same *Pkg with all its methods), but kept in a registry of their own so that
// Packages() - and with it the state spaces of the tree properties - is unchanged. Used for the
// enum / identity naming corpus of C17 (schemas ven, venx-*, repo testdata enum modules under the
// enum-naming generator flags).

var auxPkgs = map[string]*Pkg{}

// RegisterAux is called from the generated reg.go of an auxiliary corpus package.
func RegisterAux(p *Pkg) { auxPkgs[p.Name] = p }

// AuxPackages returns the auxiliary packages sorted by name, optionally filtered by schema name.
func AuxPackages(schemaNames ...string) []*Pkg {
	var out []*Pkg
	for _, p := range auxPkgs {
		if len(schemaNames) == 0 {
			out = append(out, p)
			continue
		}
		for _, s := range schemaNames {
			if p.SchemaName == s {
				out = append(out, p)
			}
		}
	}
	sort.Slice(out, func(i, j int) bool { return out[i].Name < out[j].Name })
	return out
}

// AnyPkgByName looks a package up in the main and then in the auxiliary registry.
func AnyPkgByName(n string) *Pkg {
	if p := pkgs[n]; p != nil {
		return p
	}
	return auxPkgs[n]
}

// EnumTypes returns the generated enumeration Go types of the package, sorted by name.
func (p *Pkg) EnumTypes() []reflect.Type {
	p.Schema()
	return p.enumTypes
}

// GenOutcome records how generating (and, for shapes suspected to break it, compiling) one
// auxiliary corpus package went: Stage is "ok", "generator" (the generator rejected the schema
// with an error) or "compile" (the generator produced Go code that does not compile).
type GenOutcome struct {
	Pkg, Schema, Config, Stage, Detail string
}

var genOutcomes []GenOutcome

// RegisterGenOutcome is called from the generated package venfail.
func RegisterGenOutcome(o GenOutcome) { genOutcomes = append(genOutcomes, o) }

// GenOutcomes returns the recorded outcomes sorted by package name.
func GenOutcomes() []GenOutcome {
	out := append([]GenOutcome{}, genOutcomes...)
	sort.Slice(out, func(i, j int) bool { return out[i].Pkg < out[j].Pkg })
	return out
}
