package core

// refjson: the independent RFC 7951 renderer of DESIGN.md section 4.4.
//
//	Model (reference data tree) + schema facts  ->  RFC 7951 JSON document
//
// Written from RFC 7951 (section 4 names and namespaces, 5.1-5.4 nodes, 6 types) and RFC 7950
// section 9 (lexical forms); it never calls ygot and never reads ygot's struct tags or embedded
// schema. The schema facts (node kind, the module a node belongs to, ordered-by, leaf types, the
// module that defines each identity) come from the goyang entry tree that the harness compiles
// itself from the YANG sources (RefLoadSchema); the data comes from the Model (observer).
//
// Encodings (RFC 7951 section 6):
//
//	int8..int32, uint8..uint32   JSON number
//	int64, uint64                JSON string, decimal digits          (marked RefInt)
//	decimal64                    JSON string, digits[.digits], no exponent (marked RefDec)
//	string                       JSON string
//	binary                       base64 (RFC 4648 section 4) string
//	boolean                      true / false
//	empty                        [null]
//	enumeration                  the assigned name
//	identityref                  name, or module:name when identity prefixes are requested
//	union                        the encoding of the first member type the value belongs to
//	leaf-list                    array of the above
//	container                    object;   list   array of objects;   presence container   object, possibly {}
//
// Member names (RFC 7951 section 4): a member is written "module:name" exactly when the module
// of the node differs from the module of its parent node; top-level members always carry it.
//
// RefInt, RefDec and RefList are marker types: they marshal as a plain string / array, so a
// document can be handed to json.Marshal to obtain a payload (C13, C31, C22), while RefJSONCompare
// (C19) knows which strings must be numerals and which arrays are lists.

import (
	"bytes"
	"encoding/hex"
	"encoding/json"
	"fmt"
	"math/big"
	"path/filepath"
	"regexp"
	"sort"
	"strconv"
	"strings"
	"sync"

	"github.com/openconfig/goyang/pkg/yang"
)

// ---------------------------------------------------------------------------------------------
// schema facts

// RefNode is one data node (container, list, leaf, leaf-list) of the reference schema; choice
// and case nodes are flattened away (they are not data nodes).
type RefNode struct {
	Name     string
	Module   string // module the node belongs to (RFC 7950 7.21 / goyang Entry.Namespace)
	Kind     string // container | list | leaf | leaf-list
	Presence bool
	UserOrd  bool     // ordered-by user
	Keys     []string // list keys in schema order
	Config   bool
	Type     *RefType // leaf / leaf-list
	Children map[string]*RefNode
	Parent   *RefNode
}

// RefSchema is the data tree schema of one corpus schema (all modules handed to the generator).
type RefSchema struct {
	Root    *RefNode // the fake root: Module "", children = top-level data nodes of every module
	Modules []string
}

// SchemaFiles lists the YANG files the generator is given for a corpus schema name.
func SchemaFiles(schemaName string) []string {
	switch schemaName {
	case "vt":
		return []string{"vt.yang", "vt-aug.yang"}
	case "vtrev": // the second revision of module vt (package vtrs)
		return []string{"rev/vt.yang", "rev/vt-aug.yang"}
	case "voc":
		return []string{"voc.yang"}
	}
	return []string{schemaName + ".yang"}
}

var (
	refSchemaMu    sync.Mutex
	refSchemaCache = map[string]*RefSchema{}
	refSchemaErr   = map[string]error{}
)

// RefSchemaFor returns the (cached) reference schema for a corpus schema name.
func RefSchemaFor(verifDir, schemaName string) (*RefSchema, error) {
	refSchemaMu.Lock()
	defer refSchemaMu.Unlock()
	k := verifDir + "|" + schemaName
	if s, ok := refSchemaCache[k]; ok {
		return s, refSchemaErr[k]
	}
	s, err := RefLoadSchema(filepath.Join(verifDir, "schemas"), SchemaFiles(schemaName))
	refSchemaCache[k], refSchemaErr[k] = s, err
	return s, err
}

// RefLoadSchema parses the YANG files with goyang and builds the reference data tree schema.
func RefLoadSchema(schemaDir string, files []string) (*RefSchema, error) {
	ms := yang.NewModules()
	ms.AddPath(schemaDir)
	for _, f := range files {
		if err := ms.Read(filepath.Join(schemaDir, f)); err != nil {
			return nil, err
		}
	}
	if errs := ms.Process(); len(errs) > 0 {
		return nil, fmt.Errorf("goyang: %v", errs)
	}
	nsToMod := map[string]string{}
	var names []string
	for _, m := range ms.Modules {
		if m.Namespace != nil {
			if prev, ok := nsToMod[m.Namespace.Name]; ok && prev != m.Name {
				return nil, fmt.Errorf("namespace %q used by modules %s and %s", m.Namespace.Name, prev, m.Name)
			}
			if _, ok := nsToMod[m.Namespace.Name]; !ok {
				names = append(names, m.Name)
			}
			nsToMod[m.Namespace.Name] = m.Name
		}
	}
	sort.Strings(names)
	// first convert every module (this applies the augments of all of them), then read the trees
	roots := map[string]*yang.Entry{}
	for _, n := range names {
		e := yang.ToEntry(ms.Modules[n])
		if errs := e.GetErrors(); len(errs) > 0 {
			return nil, fmt.Errorf("goyang: %v", errs)
		}
		roots[n] = e
	}
	s := &RefSchema{Root: &RefNode{Kind: "container", Config: true, Children: map[string]*RefNode{}}, Modules: names}
	for _, n := range names {
		if err := refAddChildren(s.Root, roots[n], nsToMod); err != nil {
			return nil, err
		}
	}
	return s, nil
}

func refAddChildren(parent *RefNode, e *yang.Entry, nsToMod map[string]string) error {
	for _, name := range SortedKeys(e.Dir) {
		c := e.Dir[name]
		if c.IsChoice() || c.IsCase() {
			if err := refAddChildren(parent, c, nsToMod); err != nil {
				return err
			}
			continue
		}
		var kind string
		switch {
		case c.IsList():
			kind = "list"
		case c.IsLeafList():
			kind = "leaf-list"
		case c.IsLeaf():
			kind = "leaf"
		case c.IsContainer():
			kind = "container"
		default:
			continue // rpc, notification, ...
		}
		ns := c.Namespace()
		if ns == nil || nsToMod[ns.Name] == "" {
			return fmt.Errorf("node %s: cannot resolve namespace to a module", c.Path())
		}
		n := &RefNode{Name: name, Module: nsToMod[ns.Name], Kind: kind, Config: !c.ReadOnly(), Parent: parent, Children: map[string]*RefNode{}}
		if _, dup := parent.Children[name]; dup {
			return fmt.Errorf("node %s defined twice below %s", name, parent.Name)
		}
		switch kind {
		case "container":
			if cn, ok := c.Node.(*yang.Container); ok && cn.Presence != nil {
				n.Presence = true
			}
		case "list":
			n.Keys = strings.Fields(c.Key)
			n.UserOrd = c.ListAttr != nil && c.ListAttr.OrderedByUser
		case "leaf", "leaf-list":
			t, err := refTypeOf(c, c.Type, n.Module)
			if err != nil {
				return fmt.Errorf("leaf %s: %v", c.Path(), err)
			}
			n.Type = t
			n.UserOrd = c.ListAttr != nil && c.ListAttr.OrderedByUser
		}
		parent.Children[name] = n
		if kind == "container" || kind == "list" {
			if err := refAddChildren(n, c, nsToMod); err != nil {
				return err
			}
		}
	}
	return nil
}

// Find resolves a data-tree path (names only) from the root.
func (s *RefSchema) Find(names ...string) *RefNode {
	cur := s.Root
	for _, n := range names {
		if cur = cur.Children[n]; cur == nil {
			return nil
		}
	}
	return cur
}

// FindPath resolves a model path.
func (s *RefSchema) FindPath(p Path) *RefNode {
	cur := s.Root
	for _, e := range p {
		if cur = cur.Children[e.Name]; cur == nil {
			return nil
		}
	}
	return cur
}

// ---------------------------------------------------------------------------------------------
// marker types

// RefInt is an int64 / uint64 value in a reference document (JSON string of decimal digits).
type RefInt string

// RefDec is a decimal64 value in a reference document (JSON string, no exponent).
type RefDec string

// RefList is a YANG list in a reference document: an array of entry objects.
type RefList struct {
	Entries []interface{}
	UserOrd bool
}

// MarshalJSON renders the list as a plain array.
func (l RefList) MarshalJSON() ([]byte, error) {
	if l.Entries == nil {
		return []byte("[]"), nil
	}
	return json.Marshal(l.Entries)
}

// RefLeafList is a leaf-list in a reference document.
type RefLeafList []interface{}

// ---------------------------------------------------------------------------------------------
// rendering

// RefJSONOpts selects the naming rules.
type RefJSONOpts struct {
	ModulePrefixes    bool              // RFC 7951 section 4 member names
	IdentityPrefixes  bool              // identityref values as module:identity
	Rewrite           map[string]string // module A is to be taken as module B (ygot RewriteModuleNames) for node names
	RewriteIdentities bool              // apply Rewrite to the module of identityref values too
}

func (o RefJSONOpts) mod(m string) string {
	if r, ok := o.Rewrite[m]; ok && r != "" {
		return r
	}
	return m
}

type rjNode struct {
	schema  *RefNode
	members map[string]*rjNode
	entries map[string]*rjNode // list: key string -> entry object
	order   []string
	elems   []*rjNode // unkeyed list
	ordered bool      // list: the model supplied the entry order
	leaf    Value
}

func newRJ(s *RefNode) *rjNode { return &rjNode{schema: s, members: map[string]*rjNode{}} }

func (n *rjNode) member(name string) (*rjNode, error) {
	cs := n.schema.Children[name]
	if cs == nil {
		return nil, fmt.Errorf("refjson: no data node %q below %q in the reference schema", name, n.schema.Name)
	}
	m := n.members[name]
	if m == nil {
		m = newRJ(cs)
		if cs.Kind == "list" {
			m.entries = map[string]*rjNode{}
		}
		n.members[name] = m
	}
	return m, nil
}

// walk descends along p creating objects / list entries. With stopAtList the last element names the
// list node itself (no keys).
func (n *rjNode) walk(p Path, stopAtList bool) (*rjNode, error) {
	cur := n
	for i, e := range p {
		m, err := cur.member(e.Name)
		if err != nil {
			return nil, err
		}
		switch m.schema.Kind {
		case "list":
			if stopAtList && i == len(p)-1 {
				return m, nil
			}
			if len(e.Keys) == 0 {
				return nil, fmt.Errorf("refjson: path %s passes list %s without keys", p, e.Name)
			}
			ks := e.KeyString()
			ent := m.entries[ks]
			if ent == nil {
				ent = newRJ(m.schema)
				m.entries[ks] = ent
				m.order = append(m.order, ks)
			}
			cur = ent
		case "container":
			if len(e.Keys) > 0 {
				return nil, fmt.Errorf("refjson: keys on container %s in %s", e.Name, p)
			}
			cur = m
		default:
			if i != len(p)-1 {
				return nil, fmt.Errorf("refjson: leaf %s in the middle of %s", e.Name, p)
			}
			return m, nil
		}
	}
	return cur, nil
}

// fill loads a model into the builder tree rooted at n.
func (n *rjNode) fill(m *Model) error {
	if len(m.Bad) > 0 {
		return fmt.Errorf("refjson: model has inconsistency facts: %v", m.Bad)
	}
	for _, k := range SortedKeys(m.Presence) {
		c, err := n.walk(m.Paths[k], false)
		if err != nil {
			return err
		}
		if c.schema.Kind != "container" || !c.schema.Presence {
			return fmt.Errorf("refjson: %s is not a presence container in the reference schema", k)
		}
	}
	for _, k := range SortedKeys(m.Entries) {
		if _, err := n.walk(m.Paths[k], false); err != nil {
			return err
		}
	}
	for _, k := range SortedKeys(m.Leaves) {
		l, err := n.walk(m.Paths[k], false)
		if err != nil {
			return err
		}
		if l.schema.Kind != "leaf" && l.schema.Kind != "leaf-list" {
			return fmt.Errorf("refjson: %s is a %s in the reference schema, the model holds a leaf value", k, l.schema.Kind)
		}
		l.leaf = m.Leaves[k]
	}
	for _, k := range SortedKeys(m.Unkeyed) {
		l, err := n.walk(m.Paths[k], true)
		if err != nil {
			return err
		}
		if l.schema.Kind != "list" || len(l.schema.Keys) != 0 {
			return fmt.Errorf("refjson: %s is not an unkeyed list in the reference schema", k)
		}
		for _, canon := range m.Unkeyed[k] {
			sub, err := ParseCanonModel(canon)
			if err != nil {
				return err
			}
			el := newRJ(l.schema)
			if err := el.fill(sub); err != nil {
				return err
			}
			l.elems = append(l.elems, el)
		}
	}
	// entry order: the model's order for ordered-by-user lists, sorted by key otherwise
	for _, k := range SortedKeys(m.Order) {
		l, err := n.walk(m.Paths[k], true)
		if err != nil {
			return err
		}
		if l.schema.Kind != "list" {
			return fmt.Errorf("refjson: order recorded for non-list %s", k)
		}
		want := m.Order[k]
		if len(want) != len(l.entries) {
			return fmt.Errorf("refjson: order of %s names %d entries, the model holds %d", k, len(want), len(l.entries))
		}
		for _, ks := range want {
			if l.entries[ks] == nil {
				return fmt.Errorf("refjson: order of %s names unknown entry %s", k, ks)
			}
		}
		if !l.schema.UserOrd {
			return fmt.Errorf("refjson: order recorded for %s, which is not ordered-by user in the reference schema", k)
		}
		l.order = append([]string(nil), want...)
		l.ordered = true
	}
	return nil
}

func (n *rjNode) sortSystemLists() {
	if n.entries != nil && !n.ordered {
		sort.Strings(n.order)
	}
	for _, m := range n.members {
		m.sortSystemLists()
	}
	for _, e := range n.entries {
		e.sortSystemLists()
	}
	for _, e := range n.elems {
		e.sortSystemLists()
	}
}

// object renders a container / list entry / the root. mod is the module of the node that the
// object stands for (after rewriting); "" for the root.
func (n *rjNode) object(mod string, o RefJSONOpts) (map[string]interface{}, error) {
	out := map[string]interface{}{}
	for _, name := range SortedKeys(n.members) {
		m := n.members[name]
		cm := o.mod(m.schema.Module)
		jn := name
		if o.ModulePrefixes && cm != mod {
			jn = cm + ":" + name
		}
		var v interface{}
		var err error
		switch m.schema.Kind {
		case "container":
			if len(m.members) == 0 && !m.schema.Presence {
				continue // a non-presence container without content does not exist
			}
			v, err = m.object(cm, o)
		case "list":
			l := RefList{UserOrd: m.schema.UserOrd, Entries: []interface{}{}}
			if m.schema.UserOrd && len(m.order) > 1 && !m.ordered {
				return nil, fmt.Errorf("refjson: ordered-by-user list %s without recorded order", name)
			}
			for _, ks := range m.order {
				eo, e := m.entries[ks].object(cm, o)
				if e != nil {
					return nil, e
				}
				l.Entries = append(l.Entries, eo)
			}
			for _, el := range m.elems {
				eo, e := el.object(cm, o)
				if e != nil {
					return nil, e
				}
				l.Entries = append(l.Entries, eo)
			}
			if len(l.Entries) == 0 {
				continue
			}
			v = l
		default:
			if m.leaf == NoValue {
				continue
			}
			v, err = RefJSONValue(m.leaf, m.schema, o)
		}
		if err != nil {
			return nil, err
		}
		if _, dup := out[jn]; dup {
			return nil, fmt.Errorf("refjson: duplicate member %s", jn)
		}
		out[jn] = v
	}
	return out, nil
}

// RefJSON renders the model as an RFC 7951 document (the content of the data tree root).
func (s *RefSchema) RefJSON(m *Model, o RefJSONOpts) (map[string]interface{}, error) {
	root := newRJ(s.Root)
	if err := root.fill(m); err != nil {
		return nil, err
	}
	root.sortSystemLists()
	return root.object("", o)
}

// RefJSONBytes is RefJSON marshalled (marker types become plain strings / arrays).
func (s *RefSchema) RefJSONBytes(m *Model, o RefJSONOpts) ([]byte, error) {
	d, err := s.RefJSON(m, o)
	if err != nil {
		return nil, err
	}
	return json.Marshal(d)
}

var refValueTag = map[string]string{"int8": "i8", "int16": "i16", "int32": "i32", "int64": "i64",
	"uint8": "u8", "uint16": "u16", "uint32": "u32", "uint64": "u64", "decimal64": "dec", "string": "str",
	"binary": "bin", "boolean": "bool", "empty": "empty", "enumeration": "enum", "identityref": "enum"}

// RefJSONValue encodes the value of leaf / leaf-list node n.
func RefJSONValue(v Value, n *RefNode, o RefJSONOpts) (interface{}, error) {
	if n.Type == nil {
		return nil, fmt.Errorf("refjson: node %s has no type", n.Name)
	}
	if n.Kind == "leaf-list" {
		if !v.IsLL() {
			return nil, fmt.Errorf("refjson: leaf-list %s holds scalar %q", n.Name, v)
		}
		out := RefLeafList{}
		for _, e := range v.Elems() {
			x, err := refJSONScalarTyped(e, n.Type, o)
			if err != nil {
				return nil, fmt.Errorf("leaf-list %s: %v", n.Name, err)
			}
			out = append(out, x)
		}
		return out, nil
	}
	if v.IsLL() {
		return nil, fmt.Errorf("refjson: leaf %s holds leaf-list value %q", n.Name, v)
	}
	x, err := refJSONScalarTyped(v, n.Type, o)
	if err != nil {
		return nil, fmt.Errorf("leaf %s: %v", n.Name, err)
	}
	return x, nil
}

func refJSONScalarTyped(v Value, t *RefType, o RefJSONOpts) (interface{}, error) {
	if t.Kind == "union" {
		for _, mt := range t.Members {
			if x, err := refJSONScalarTyped(v, mt, o); err == nil {
				return x, nil
			}
		}
		return nil, fmt.Errorf("refjson: value %q belongs to no member of %s", v, t.Shape())
	}
	if refValueTag[t.Kind] != v.Kind() || strings.HasPrefix(string(v), "enum#") {
		return nil, fmt.Errorf("refjson: value %q is not of type %s", v, t.Kind)
	}
	pl := v.Payload()
	switch t.Kind {
	case "int8", "int16", "int32", "uint8", "uint16", "uint32":
		if !refPlainIntRE.MatchString(pl) {
			return nil, fmt.Errorf("refjson: bad integer %q", v)
		}
		return json.Number(pl), nil
	case "int64", "uint64":
		if !refPlainIntRE.MatchString(pl) {
			return nil, fmt.Errorf("refjson: bad integer %q", v)
		}
		return RefInt(pl), nil
	case "decimal64":
		if !refDecLexRE.MatchString(pl) {
			return nil, fmt.Errorf("refjson: decimal value %q not in plain form", v)
		}
		return RefDec(pl), nil
	case "string":
		return pl, nil
	case "binary":
		b, err := hex.DecodeString(pl)
		if err != nil {
			return nil, err
		}
		return rjBase64Encode(b), nil
	case "boolean":
		return pl == "true", nil
	case "empty":
		return []interface{}{nil}, nil
	case "enumeration":
		for _, n := range t.Names {
			if n.Name == pl {
				return pl, nil
			}
		}
		return nil, fmt.Errorf("refjson: %q is not a member of the enumeration", pl)
	case "identityref":
		for _, n := range t.Names {
			if n.Name == pl {
				if !o.IdentityPrefixes {
					return pl, nil
				}
				mod := n.Module
				if o.RewriteIdentities {
					mod = o.mod(mod)
				}
				return mod + ":" + pl, nil
			}
		}
		return nil, fmt.Errorf("refjson: %q is not derived from the identityref's base", pl)
	}
	return nil, fmt.Errorf("refjson: type %s not covered", t.Kind)
}

const rjB64 = "ABCDEFGHIJKLMNOPQRSTUVWXYZabcdefghijklmnopqrstuvwxyz0123456789+/"

// rjBase64Encode is RFC 4648 section 4 written out (not encoding/base64, which ygot uses).
func rjBase64Encode(b []byte) string {
	var sb strings.Builder
	for i := 0; i < len(b); i += 3 {
		var n uint32
		k := 0
		for j := 0; j < 3; j++ {
			n <<= 8
			if i+j < len(b) {
				n |= uint32(b[i+j])
				k++
			}
		}
		sb.WriteByte(rjB64[n>>18&63])
		sb.WriteByte(rjB64[n>>12&63])
		if k > 1 {
			sb.WriteByte(rjB64[n>>6&63])
		} else {
			sb.WriteByte('=')
		}
		if k > 2 {
			sb.WriteByte(rjB64[n&63])
		} else {
			sb.WriteByte('=')
		}
	}
	return sb.String()
}

// ---------------------------------------------------------------------------------------------
// parsing the canonical text of a sub-model (elements of unkeyed lists are kept as text in Model)

// ParsePathString parses the harness's own path encoding (Path.String) from the front of s and
// returns the path and the rest.
func ParsePathString(s string) (Path, string, error) {
	var p Path
	if strings.HasPrefix(s, "/ ") || s == "/" {
		return p, s[1:], nil
	}
	for strings.HasPrefix(s, "/") {
		s = s[1:]
		i := strings.IndexAny(s, "/[ ")
		if i < 0 {
			i = len(s)
		}
		e := PElem{Name: s[:i]}
		s = s[i:]
		for strings.HasPrefix(s, "[") {
			j := strings.Index(s, "=")
			if j < 0 {
				return nil, "", fmt.Errorf("bad path key in %q", s)
			}
			kn := s[1:j]
			q, err := strconv.QuotedPrefix(s[j+1:])
			if err != nil {
				return nil, "", fmt.Errorf("bad path key value in %q", s)
			}
			u, _ := strconv.Unquote(q)
			s = s[j+1+len(q):]
			if !strings.HasPrefix(s, "]") {
				return nil, "", fmt.Errorf("bad path key end in %q", s)
			}
			s = s[1:]
			e.Keys = append(e.Keys, KV{kn, Value(u)})
		}
		p = append(p, e)
	}
	return p, s, nil
}

// ParseCanonModel rebuilds a Model from Model.Canon() text (leaves, entries, order, presence).
func ParseCanonModel(canon string) (*Model, error) {
	m := NewModel()
	for _, line := range strings.Split(canon, "\n") {
		if line == "" {
			continue
		}
		if len(line) < 3 || line[1] != ' ' {
			return nil, fmt.Errorf("refjson: cannot parse model line %q", line)
		}
		p, rest, err := ParsePathString(line[2:])
		if err != nil {
			return nil, err
		}
		switch line[0] {
		case 'L':
			if !strings.HasPrefix(rest, " = ") {
				return nil, fmt.Errorf("refjson: cannot parse model line %q", line)
			}
			m.SetLeaf(p, Value(rest[3:]))
		case 'E':
			m.Entries[m.reg(p)] = true
		case 'P':
			m.Presence[m.reg(p)] = true
		case 'O':
			if !strings.HasPrefix(rest, " = ") {
				return nil, fmt.Errorf("refjson: cannot parse model line %q", line)
			}
			// key strings contain no blanks outside quotes only if values have none: split on "] [" safely
			var ks []string
			r := rest[3:]
			for r != "" {
				_, after, err := ParsePathString("/x" + r)
				if err != nil {
					return nil, err
				}
				ks = append(ks, r[:len(r)-len(after)])
				r = strings.TrimPrefix(after, " ")
			}
			m.Order[m.reg(p)] = ks
		default:
			return nil, fmt.Errorf("refjson: model line kind %q not supported inside unkeyed list elements", line[:1])
		}
	}
	return m, nil
}

// ---------------------------------------------------------------------------------------------
// comparison of a produced document with the reference document

var (
	// RFC 7950 9.3.1: optional sign, decimal digits, optionally a period and decimal digits.
	refDecLexRE = regexp.MustCompile(`^[+-]?[0-9]+(\.[0-9]+)?$`)
	// RFC 7950 9.2.1: optional sign, decimal digits (hex / octal only in default statements).
	refIntLexRE = regexp.MustCompile(`^[+-]?[0-9]+$`)
)

// RefDiff is one difference between a produced document and the reference.
type RefDiff struct {
	Clause string // short, stable name of the violated clause
	Where  string // member path inside the document
	Detail string
}

func (d *RefDiff) String() string { return d.Clause + " at " + d.Where + ": " + d.Detail }

// ParseJSONDoc parses JSON text keeping numbers as json.Number.
func ParseJSONDoc(b []byte) (interface{}, error) {
	dec := json.NewDecoder(bytes.NewReader(b))
	dec.UseNumber()
	var v interface{}
	if err := dec.Decode(&v); err != nil {
		return nil, err
	}
	if dec.More() {
		return nil, fmt.Errorf("trailing data after JSON value")
	}
	return v, nil
}

// RefJSONCompare compares a parsed JSON value (ParseJSONDoc) with a reference value (RefJSON).
// Object member order and the entry order of system-ordered lists are not significant; the
// order of ordered-by-user lists and of leaf-lists is. Strings are compared exactly, numbers by
// their literal text, except that an int64 / uint64 / decimal64 value may use any spelling RFC
// 7950 section 9 allows (the statement asks for the lexical form, not the canonical form); the
// second result counts such non-canonical but legal spellings.
func RefJSONCompare(want, got interface{}) (*RefDiff, int) {
	lenient := 0
	d := refCompare(want, got, "", &lenient)
	return d, lenient
}

func jsonKind(v interface{}) string {
	switch v.(type) {
	case nil:
		return "null"
	case bool:
		return "boolean"
	case json.Number:
		return "number"
	case string:
		return "string"
	case []interface{}:
		return "array"
	case map[string]interface{}:
		return "object"
	}
	return fmt.Sprintf("%T", v)
}

func short(v interface{}) string {
	b, _ := json.Marshal(v)
	if len(b) > 120 {
		return string(b[:120]) + "..."
	}
	return string(b)
}

func refCompare(want, got interface{}, where string, lenient *int) *RefDiff {
	if where == "" {
		where = "/"
	}
	switch w := want.(type) {
	case map[string]interface{}:
		g, ok := got.(map[string]interface{})
		if !ok {
			return &RefDiff{"kind", where, fmt.Sprintf("want object, got %s %s", jsonKind(got), short(got))}
		}
		for _, k := range SortedKeys(w) {
			gv, ok := g[k]
			if !ok {
				// say more when the member exists under another (un)prefixed name
				bare := k[strings.Index(k, ":")+1:]
				for gk := range g {
					if gk[strings.Index(gk, ":")+1:] == bare {
						return &RefDiff{"member-name", where, fmt.Sprintf("want member %q, got %q", k, gk)}
					}
				}
				return &RefDiff{"member-missing", where, fmt.Sprintf("member %q (= %s) is missing", k, short(w[k]))}
			}
			if d := refCompare(w[k], gv, strings.TrimSuffix(where, "/")+"/"+k, lenient); d != nil {
				return d
			}
		}
		for _, k := range SortedKeys(g) {
			if _, ok := w[k]; !ok {
				return &RefDiff{"member-unexpected", where, fmt.Sprintf("unexpected member %q = %s", k, short(g[k]))}
			}
		}
		return nil
	case RefList:
		g, ok := got.([]interface{})
		if !ok {
			return &RefDiff{"kind", where, fmt.Sprintf("want array of list entries, got %s %s", jsonKind(got), short(got))}
		}
		if len(g) != len(w.Entries) {
			return &RefDiff{"list-length", where, fmt.Sprintf("want %d entries, got %d: %s", len(w.Entries), len(g), short(got))}
		}
		if w.UserOrd {
			for i := range w.Entries {
				if d := refCompare(w.Entries[i], g[i], fmt.Sprintf("%s[%d]", where, i), lenient); d != nil {
					// distinguish "same entries, other order" from a content difference
					if refMatchUnordered(w.Entries, g, new(int)) == nil {
						return &RefDiff{"user-order", where, fmt.Sprintf("entries of the ordered-by-user list are in another order: want %s got %s", short(w.Entries), short(got))}
					}
					return d
				}
			}
			return nil
		}
		return refMatchUnordered(w.Entries, g, lenient)
	case RefLeafList:
		g, ok := got.([]interface{})
		if !ok {
			return &RefDiff{"kind", where, fmt.Sprintf("want array (leaf-list), got %s %s", jsonKind(got), short(got))}
		}
		if len(g) != len(w) {
			return &RefDiff{"leaflist-length", where, fmt.Sprintf("want %d elements, got %s", len(w), short(got))}
		}
		for i := range w {
			if d := refCompare(w[i], g[i], fmt.Sprintf("%s[%d]", where, i), lenient); d != nil {
				return d
			}
		}
		return nil
	case []interface{}: // [null]
		g, ok := got.([]interface{})
		if !ok || len(g) != len(w) {
			return &RefDiff{"empty-encoding", where, fmt.Sprintf("want %s, got %s", short(w), short(got))}
		}
		for i := range w {
			if w[i] != nil || g[i] != nil {
				return &RefDiff{"empty-encoding", where, fmt.Sprintf("want %s, got %s", short(w), short(got))}
			}
		}
		return nil
	case RefInt:
		g, ok := got.(string)
		if !ok {
			return &RefDiff{"int64-not-string", where, fmt.Sprintf("64-bit integer must be a JSON string, got %s %s (want %q)", jsonKind(got), short(got), string(w))}
		}
		if g == string(w) {
			return nil
		}
		if !refIntLexRE.MatchString(g) {
			return &RefDiff{"int64-lexical", where, fmt.Sprintf("%q is not in the RFC 7950 9.2.1 lexical form (want %q)", g, string(w))}
		}
		a, _ := new(big.Int).SetString(strings.TrimPrefix(g, "+"), 10)
		b, _ := new(big.Int).SetString(string(w), 10)
		if a == nil || b == nil || a.Cmp(b) != 0 {
			return &RefDiff{"int64-value", where, fmt.Sprintf("got %q, want %q", g, string(w))}
		}
		*lenient++
		return nil
	case RefDec:
		g, ok := got.(string)
		if !ok {
			return &RefDiff{"decimal64-not-string", where, fmt.Sprintf("decimal64 must be a JSON string, got %s %s (want %q)", jsonKind(got), short(got), string(w))}
		}
		if g == string(w) {
			return nil
		}
		if !refDecLexRE.MatchString(g) {
			return &RefDiff{"decimal64-lexical", where, fmt.Sprintf("%q is not in the RFC 7950 9.3.1 lexical form (digits, optional fraction, no exponent); want %q", g, string(w))}
		}
		a, ok1 := refRat(g)
		b, ok2 := refRat(string(w))
		if !ok1 || !ok2 || a.Cmp(b) != 0 {
			return &RefDiff{"decimal64-value", where, fmt.Sprintf("got %q, want %q", g, string(w))}
		}
		*lenient++
		return nil
	case json.Number:
		g, ok := got.(json.Number)
		if !ok {
			return &RefDiff{"int32-not-number", where, fmt.Sprintf("8/16/32-bit integer must be a JSON number, got %s %s (want %s)", jsonKind(got), short(got), w)}
		}
		if g.String() != w.String() {
			return &RefDiff{"int32-literal", where, fmt.Sprintf("got number %s, want %s", g, w)}
		}
		return nil
	case string:
		g, ok := got.(string)
		if !ok {
			return &RefDiff{"string-kind", where, fmt.Sprintf("want string %q, got %s %s", w, jsonKind(got), short(got))}
		}
		if g != w {
			if g[strings.LastIndex(g, ":")+1:] == w[strings.LastIndex(w, ":")+1:] && (strings.Contains(g, ":") || strings.Contains(w, ":")) {
				return &RefDiff{"name-prefix", where, fmt.Sprintf("got %q, want %q", g, w)}
			}
			return &RefDiff{"string-value", where, fmt.Sprintf("got %q, want %q", g, w)}
		}
		return nil
	case bool:
		g, ok := got.(bool)
		if !ok || g != w {
			return &RefDiff{"boolean", where, fmt.Sprintf("want %v, got %s", w, short(got))}
		}
		return nil
	}
	return &RefDiff{"reference", where, fmt.Sprintf("unexpected reference value %T", want)}
}

// refMatchUnordered pairs every wanted entry with a distinct equal produced entry.
func refMatchUnordered(want, got []interface{}, lenient *int) *RefDiff {
	used := make([]bool, len(got))
	var firstBad interface{}
	for _, w := range want {
		found := false
		for j, g := range got {
			if used[j] {
				continue
			}
			n := 0
			if refCompare(w, g, "", &n) == nil {
				used[j], found = true, true
				*lenient += n
				break
			}
		}
		if !found && firstBad == nil {
			firstBad = w
		}
	}
	if firstBad == nil {
		return nil
	}
	// report the difference against the first unused produced entry
	for j, g := range got {
		if !used[j] {
			n := 0
			if d := refCompare(firstBad, g, "[entry]", &n); d != nil {
				return d
			}
		}
	}
	return &RefDiff{"list-entry", "", "list entries differ: want " + short(firstBad)}
}
