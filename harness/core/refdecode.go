package core

// refdecode: the independent reference decoder of property C18 (DESIGN.md section 4.4).
//
// RefDecodeJSON / RefDecodeTV map (leaf type, input) to the SET of outcomes a decoder may
// show: "reject", "store nothing" (Unset) or "store value v". The function is written from
// RFC 7951 section 6 (JSON encoding of YANG types), RFC 7950 section 9 (lexical forms and value
// spaces), RFC 4648 section 4 (base64) and the gNMI specification section 2.2.3/2.3 (TypedValue),
// and never calls ygot. It is three-valued on purpose:
//
//	must-reject  {reject}      inputs the statement of C18 lists (non-integral / out-of-range
//	                           numbers for integer leaves, wrong JSON kind, malformed
//	                           int64/uint64/decimal64 strings, invalid base64, empty not [null],
//	                           unknown enumeration / identity names) and values outside the
//	                           value space (NaN, Inf)
//	well-formed  {v}           the RFC encoding of a value of the type
//	lenient      {reject, v}   inputs that denote a value but are not the RFC form ("+5",
//	                           "1e5", JSON numbers for 64-bit types, ...): either answer is fine,
//	                           but if the decoder accepts it must store exactly v.
//
// Restrictions (range, length, pattern, max-elements) are NOT part of the judgement: ygot checks
// them in Validate (properties C06/C07), not while decoding.

import (
	"encoding/hex"
	"encoding/json"
	"fmt"
	"math"
	"math/big"
	"path/filepath"
	"regexp"
	"sort"
	"strconv"
	"strings"

	gpb "github.com/openconfig/gnmi/proto/gnmi"
	"github.com/openconfig/goyang/pkg/yang"
)

// RefName is one enum / identity member: the name and the module that defines it.
type RefName struct{ Name, Module string }

// RefType describes a YANG leaf type for the reference decoder.
type RefType struct {
	Kind       string // int8..uint64 decimal64 string binary boolean empty enumeration identityref union
	FracDigits int
	Names      []RefName // enumeration / identityref members
	OwnModule  string    // module the leaf is defined in
	Members    []*RefType
	Restricted bool // carries range / length / pattern (not judged; only counted)
}

// RefLeaf is one leaf or leaf-list of the reference schema.
type RefLeaf struct {
	Name, Module string
	List         bool
	Type         *RefType
}

// Shape names the type for signatures: "uint8", "union{int64,string,enumeration}", "uint8[]".
func (l *RefLeaf) Shape() string {
	if l.List {
		return l.Type.Shape() + "[]"
	}
	return l.Type.Shape()
}

// Shape names the type.
func (t *RefType) Shape() string {
	if t.Kind == "union" {
		var ms []string
		for _, m := range t.Members {
			ms = append(ms, m.Shape())
		}
		return "union{" + strings.Join(ms, ",") + "}"
	}
	return t.Kind
}

// RefAllowed is the set of outcomes the reference allows for one input.
type RefAllowed struct {
	Reject bool    // returning an error is allowed
	Unset  bool    // accepting and storing nothing is allowed
	Values []Value // accepting and storing one of these is allowed
	Clause string  // why: the statement clause demanding rejection, "ok", or "lenient:<reason>"
}

// MustReject reports whether rejection is the only allowed outcome.
func (a RefAllowed) MustReject() bool { return a.Reject && !a.Unset && len(a.Values) == 0 }

// Class is must-reject | well-formed | lenient.
func (a RefAllowed) Class() string {
	switch {
	case a.MustReject():
		return "must-reject"
	case !a.Reject:
		return "well-formed"
	}
	return "lenient"
}

// Has reports whether storing v is allowed.
func (a RefAllowed) Has(v Value) bool {
	for _, x := range a.Values {
		if x == v {
			return true
		}
	}
	return false
}

func (a RefAllowed) String() string {
	var s []string
	if a.Reject {
		s = append(s, "reject")
	}
	if a.Unset {
		s = append(s, "store-nothing")
	}
	for _, v := range a.Values {
		s = append(s, "store "+string(v))
	}
	return "{" + strings.Join(s, " | ") + "} (" + a.Clause + ")"
}

func refReject(clause string) RefAllowed { return RefAllowed{Reject: true, Clause: clause} }
func refExact(v Value) RefAllowed        { return RefAllowed{Values: []Value{v}, Clause: "ok"} }
func refLenient(why string, v Value) RefAllowed {
	return RefAllowed{Reject: true, Values: []Value{v}, Clause: "lenient:" + why}
}
func refLenientUnset(why string) RefAllowed {
	return RefAllowed{Reject: true, Unset: true, Clause: "lenient:" + why}
}

// ---------------------------------------------------------------------------------------------
// reference schema, compiled by the harness itself from the YANG sources with goyang

// RefLoadLeaves parses the YANG files and returns the leaves and leaf-lists that are direct
// children of /<module>:<container>, sorted by name.
func RefLoadLeaves(schemaDir string, files []string, module, container string) ([]*RefLeaf, error) {
	ms := yang.NewModules()
	ms.AddPath(schemaDir)
	for _, f := range files {
		if err := ms.Read(filepath.Join(schemaDir, f)); err != nil {
			return nil, err
		}
	}
	if errs := ms.Process(); len(errs) > 0 {
		return nil, fmt.Errorf("goyang: %v", errs)
	}
	m := ms.Modules[module]
	if m == nil {
		return nil, fmt.Errorf("module %s not found", module)
	}
	root := yang.ToEntry(m)
	if errs := root.GetErrors(); len(errs) > 0 {
		return nil, fmt.Errorf("goyang: %v", errs)
	}
	top := root.Dir[container]
	if top == nil {
		return nil, fmt.Errorf("container %s not found", container)
	}
	var out []*RefLeaf
	for _, name := range SortedKeys(top.Dir) {
		e := top.Dir[name]
		if e.Kind != yang.LeafEntry || e.Type == nil {
			continue
		}
		t, err := refTypeOf(e, e.Type, module)
		if err != nil {
			return nil, fmt.Errorf("leaf %s: %v", name, err)
		}
		out = append(out, &RefLeaf{Name: name, Module: module, List: e.ListAttr != nil, Type: t})
	}
	return out, nil
}

var refKindNames = map[yang.TypeKind]string{
	yang.Yint8: "int8", yang.Yint16: "int16", yang.Yint32: "int32", yang.Yint64: "int64",
	yang.Yuint8: "uint8", yang.Yuint16: "uint16", yang.Yuint32: "uint32", yang.Yuint64: "uint64",
	yang.Ydecimal64: "decimal64", yang.Ystring: "string", yang.Ybinary: "binary", yang.Ybool: "boolean",
	yang.Yempty: "empty", yang.Yenum: "enumeration", yang.Yidentityref: "identityref", yang.Yunion: "union",
}

func refTypeOf(e *yang.Entry, yt *yang.YangType, leafModule string) (*RefType, error) {
	if yt.Kind == yang.Yleafref {
		target := e.Find(yt.Path)
		if target == nil || target.Type == nil {
			return nil, fmt.Errorf("leafref %q does not resolve", yt.Path)
		}
		return refTypeOf(target, target.Type, leafModule)
	}
	k, ok := refKindNames[yt.Kind]
	if !ok {
		return nil, fmt.Errorf("type kind %v not covered by the reference decoder", yt.Kind)
	}
	t := &RefType{Kind: k, OwnModule: leafModule, FracDigits: yt.FractionDigits}
	t.Restricted = len(yt.Pattern) > 0 || len(yt.Length) > 0 && k != "union" || refRangeRestricted(yt)
	switch yt.Kind {
	case yang.Yenum:
		for _, n := range yt.Enum.Names() {
			t.Names = append(t.Names, RefName{Name: n})
		}
	case yang.Yidentityref:
		if yt.IdentityBase == nil {
			return nil, fmt.Errorf("identityref without base")
		}
		for _, id := range yt.IdentityBase.Values {
			mod := ""
			if r := yang.RootNode(id); r != nil {
				mod = r.Name
			}
			t.Names = append(t.Names, RefName{Name: id.Name, Module: mod})
		}
		sort.Slice(t.Names, func(i, j int) bool { return t.Names[i].Name < t.Names[j].Name })
	case yang.Yunion:
		for _, mt := range yt.Type {
			m, err := refTypeOf(e, mt, leafModule)
			if err != nil {
				return nil, err
			}
			t.Members = append(t.Members, m)
		}
	}
	return t, nil
}

// refRangeRestricted: a numeric type whose range is narrower than the base type's.
func refRangeRestricted(yt *yang.YangType) bool {
	if len(yt.Range) == 0 {
		return false
	}
	switch yt.Kind {
	case yang.Yint8, yang.Yint16, yang.Yint32, yang.Yint64, yang.Yuint8, yang.Yuint16, yang.Yuint32, yang.Yuint64:
		lo, hi := refIntRange(refKindNames[yt.Kind])
		return !(len(yt.Range) == 1 && yt.Range[0].Min.String() == lo.String() && yt.Range[0].Max.String() == hi.String())
	}
	return false
}

// ---------------------------------------------------------------------------------------------
// numbers

func refIntBits(kind string) (bits int, signed bool, ok bool) {
	switch kind {
	case "int8", "int16", "int32", "int64":
		n, _ := strconv.Atoi(kind[3:])
		return n, true, true
	case "uint8", "uint16", "uint32", "uint64":
		n, _ := strconv.Atoi(kind[4:])
		return n, false, true
	}
	return 0, false, false
}

func refIntRange(kind string) (lo, hi *big.Int) {
	bits, signed, _ := refIntBits(kind)
	one := big.NewInt(1)
	if signed {
		hi = new(big.Int).Sub(new(big.Int).Lsh(one, uint(bits-1)), one)
		lo = new(big.Int).Neg(new(big.Int).Lsh(one, uint(bits-1)))
		return
	}
	return big.NewInt(0), new(big.Int).Sub(new(big.Int).Lsh(one, uint(bits)), one)
}

func refIntValue(kind string, n *big.Int) Value {
	bits, signed, _ := refIntBits(kind)
	if signed {
		return Value(fmt.Sprintf("i%d:%s", bits, n.String()))
	}
	return Value(fmt.Sprintf("u%d:%s", bits, n.String()))
}

var (
	refNumberRE    = regexp.MustCompile(`^[+-]?([0-9]+(\.[0-9]*)?|\.[0-9]+)([eE][+-]?[0-9]{1,4})?$`)
	refCanonIntRE  = regexp.MustCompile(`^(0|-?[1-9][0-9]*)$`)
	refCanonDecRE  = regexp.MustCompile(`^(0|-?[1-9][0-9]*|-0)(\.[0-9]+)?$`)
	refPlainIntRE  = regexp.MustCompile(`^-?(0|[1-9][0-9]*)$`)
	refSignedIntRE = regexp.MustCompile(`^[+-]?[0-9]+$`)
)

// refRat reads a decimal numeral (optional sign, digits, optional fraction, optional exponent) as
// an exact rational. ok=false for anything else (NaN, Inf, hex, spaces, empty, ...).
func refRat(s string) (*big.Rat, bool) {
	if !refNumberRE.MatchString(s) {
		return nil, false
	}
	mant, exp := s, ""
	if i := strings.IndexAny(s, "eE"); i >= 0 {
		mant, exp = s[:i], s[i+1:]
	}
	sign := ""
	if mant[0] == '+' || mant[0] == '-' {
		sign, mant = mant[:1], mant[1:]
	}
	ip, fp := mant, ""
	if i := strings.Index(mant, "."); i >= 0 {
		ip, fp = mant[:i], mant[i+1:]
	}
	digits := strings.TrimLeft(ip+fp, "0")
	if digits == "" {
		digits = "0"
	}
	n, _ := new(big.Int).SetString(digits, 10)
	if sign == "-" {
		n.Neg(n)
	}
	e := -len(fp)
	if exp != "" {
		x, _ := strconv.Atoi(strings.TrimPrefix(exp, "+"))
		e += x
	}
	r := new(big.Rat).SetInt(n)
	p := new(big.Int).Exp(big.NewInt(10), big.NewInt(int64(abs(e))), nil)
	if e >= 0 {
		r.Mul(r, new(big.Rat).SetInt(p))
	} else {
		r.Quo(r, new(big.Rat).SetInt(p))
	}
	return r, true
}

func abs(i int) int {
	if i < 0 {
		return -i
	}
	return i
}

// refFloatRat is the exact rational value of a finite float64.
func refFloatRat(f float64) (*big.Rat, bool) {
	if math.IsNaN(f) || math.IsInf(f, 0) {
		return nil, false
	}
	return new(big.Rat).SetFloat64(f), true
}

// refDecValue: the canonical stored form of a decimal64 value held in a float64 (ygot's Go type):
// the float64 nearest to the rational.
func refDecValue(r *big.Rat) (Value, bool) {
	f, _ := r.Float64()
	if math.IsInf(f, 0) {
		return NoValue, false
	}
	if f == 0 {
		f = 0 // -0 and +0 are the same decimal64 value
	}
	return Value("dec:" + decStr(f)), true
}

// refInDecSpace: r is a member of the decimal64 value space with fd fraction digits
// (RFC 7950 9.3.4): r * 10^fd is an integer in [-2^63, 2^63-1].
func refInDecSpace(r *big.Rat, fd int) bool {
	if fd < 1 || fd > 18 {
		return false
	}
	s := new(big.Rat).Mul(r, new(big.Rat).SetInt(new(big.Int).Exp(big.NewInt(10), big.NewInt(int64(fd)), nil)))
	if !s.IsInt() {
		return false
	}
	lo, hi := refIntRange("int64")
	return s.Num().Cmp(lo) >= 0 && s.Num().Cmp(hi) <= 0
}

// refIntFromRat classifies a rational against an integer type: clause "" when it is a member.
func refIntFromRat(kind string, r *big.Rat) (Value, string) {
	if !r.IsInt() {
		return NoValue, "non-integral"
	}
	lo, hi := refIntRange(kind)
	if r.Num().Cmp(lo) < 0 || r.Num().Cmp(hi) > 0 {
		return NoValue, "out-of-range"
	}
	return refIntValue(kind, r.Num()), ""
}

// ---------------------------------------------------------------------------------------------
// base64 (RFC 4648 section 4), written out so that the reference does not share a decoder with ygot

const refB64 = "ABCDEFGHIJKLMNOPQRSTUVWXYZabcdefghijklmnopqrstuvwxyz0123456789+/"

// refBase64 decodes s. strict: canonical RFC 4648 (alphabet only, length multiple of 4, padding
// only at the end, unused trailing bits zero). ok && !strict: decodable when line breaks are
// ignored and/or the unused trailing bits are not zero (RFC 4648 3.3/3.5 leave both to the decoder).
func refBase64(s string) (out []byte, strict, ok bool) {
	strict = true
	if strings.ContainsAny(s, "\r\n") {
		strict = false
		s = strings.NewReplacer("\r", "", "\n", "").Replace(s)
	}
	if len(s)%4 != 0 {
		return nil, false, false
	}
	pad := 0
	for pad < 2 && pad < len(s) && s[len(s)-1-pad] == '=' {
		pad++
	}
	body := s[:len(s)-pad]
	var acc uint32
	nbits := 0
	for i := 0; i < len(body); i++ {
		x := strings.IndexByte(refB64, body[i])
		if x < 0 {
			return nil, false, false
		}
		acc = acc<<6 | uint32(x)
		nbits += 6
		if nbits >= 8 {
			nbits -= 8
			out = append(out, byte(acc>>uint(nbits)))
			acc &= 1<<uint(nbits) - 1
		}
	}
	// with padding p the last quantum carries 3-p bytes: leftover bits must be 0 (p=0), 2 (p=1: 18 bits = 2 bytes + 2), 4 (p=2: 12 bits = 1 byte + 4)
	if want := map[int]int{0: 0, 1: 2, 2: 4}[pad]; nbits != want {
		return nil, false, false
	}
	if acc != 0 {
		strict = false
	}
	if out == nil {
		out = []byte{}
	}
	return out, strict, true
}

// ---------------------------------------------------------------------------------------------
// names

// refName resolves an enumeration / identityref lexical value.
func refName(t *RefType, s string) RefAllowed {
	prefix, name := "", s
	if i := strings.Index(s, ":"); i >= 0 {
		prefix, name = s[:i], s[i+1:]
	}
	var hit *RefName
	for i := range t.Names {
		if t.Names[i].Name == name {
			hit = &t.Names[i]
		}
	}
	if hit == nil {
		return refReject("unknown-name")
	}
	v := Value("enum:" + hit.Name)
	if t.Kind == "enumeration" {
		switch prefix {
		case "":
			return refExact(v) // RFC 7951 6.4: one of the names assigned by "enum" statements
		case t.OwnModule:
			return refLenient("enum-name-with-own-module-prefix", v)
		}
		return refReject("unknown-name(foreign-module-prefix)")
	}
	// identityref, RFC 7951 6.8: [module ":"] name; the prefix is mandatory when the identity is
	// defined in another module than the leaf.
	switch prefix {
	case hit.Module:
		return refExact(v)
	case "":
		if hit.Module == t.OwnModule {
			return refExact(v)
		}
		return refLenient("identity-of-other-module-without-prefix", v)
	}
	return refReject("unknown-name(foreign-module-prefix)")
}

// ---------------------------------------------------------------------------------------------
// JSON

// RefParseJSON parses one JSON text keeping number literals (json.Number).
func RefParseJSON(raw string) (interface{}, error) {
	if !json.Valid([]byte(raw)) {
		return nil, fmt.Errorf("not a JSON text")
	}
	d := json.NewDecoder(strings.NewReader(raw))
	d.UseNumber()
	var v interface{}
	if err := d.Decode(&v); err != nil {
		return nil, err
	}
	return v, nil
}

// RefDecodeJSON: allowed outcomes for the JSON text raw given as the value of leaf l.
func RefDecodeJSON(l *RefLeaf, raw string) RefAllowed {
	v, err := RefParseJSON(raw)
	if err != nil {
		return refReject("malformed-json")
	}
	return refDecodeJSONValue(l, v)
}

func refDecodeJSONValue(l *RefLeaf, v interface{}) RefAllowed {
	if !l.List {
		return refScalarJSON(l.Type, v)
	}
	if v == nil {
		return refLenientUnset("null-stores-nothing")
	}
	arr, ok := v.([]interface{})
	if !ok {
		return refReject("wrong-kind")
	}
	els := make([]RefAllowed, len(arr))
	for i, e := range arr {
		els[i] = refScalarJSON(l.Type, e)
	}
	return refCombineList(els)
}

// refCombineList: a leaf-list input is rejected when any element must be; otherwise every
// combination of the elements' allowed values (elements that may be skipped: with and without).
func refCombineList(els []RefAllowed) RefAllowed {
	out := RefAllowed{Clause: "ok"}
	seqs := [][]Value{nil}
	for _, a := range els {
		if a.MustReject() {
			return refReject(a.Clause)
		}
		if a.Reject {
			out.Reject = true
			out.Clause = a.Clause
		}
		var next [][]Value
		for _, s := range seqs {
			if a.Unset {
				next = append(next, s)
			}
			for _, v := range a.Values {
				next = append(next, append(append([]Value{}, s...), v))
			}
		}
		seqs = next
	}
	if len(els) == 0 {
		// an empty array / empty leaflist_val denotes a leaf-list without entries = no data
		return refLenientUnset("empty-leaf-list")
	}
	for _, s := range seqs {
		if len(s) == 0 {
			out.Unset = true
		} else {
			out.Values = append(out.Values, LL(s...))
		}
	}
	return out
}

// refUnion merges the members' answers: RFC 7951 6.10 / RFC 7950 9.12 — the value is valid if it
// is valid for any member; which member a lexically ambiguous value resolves to is not judged
// (DESIGN.md section 6), so every member's reading is allowed.
func refUnion(ms []RefAllowed) RefAllowed {
	out := RefAllowed{Reject: true}
	for _, a := range ms {
		if !a.Reject {
			out.Reject = false
		}
		if a.Unset {
			out.Unset = true
		}
		for _, v := range a.Values {
			if !out.Has(v) {
				out.Values = append(out.Values, v)
			}
		}
	}
	switch {
	case out.MustReject():
		// name the most specific reason: a member that failed for a reason other than its kind
		for i, a := range ms {
			if i == 0 {
				out.Clause = a.Clause
			}
			if a.Clause != "wrong-kind" && a.Clause != "wrong-alternative" {
				out.Clause = a.Clause
				break
			}
		}
	case !out.Reject:
		out.Clause = "ok"
	default:
		out.Clause = "lenient:union"
		for _, a := range ms {
			if strings.HasPrefix(a.Clause, "lenient:") {
				out.Clause = a.Clause
				break
			}
		}
	}
	return out
}

// refScalarJSON: RFC 7951 section 6, one scalar type against one parsed JSON value.
func refScalarJSON(t *RefType, v interface{}) RefAllowed {
	if t.Kind == "union" {
		var ms []RefAllowed
		for _, m := range t.Members {
			ms = append(ms, refScalarJSON(m, v))
		}
		return refUnion(ms)
	}
	if v == nil {
		// JSON null is not the encoding of any value; a decoder that treats it as "no value given"
		// and stores nothing shows the value the input denotes (none). Not judged further.
		return refLenientUnset("null-stores-nothing")
	}
	if t.Kind == "empty" {
		// RFC 7951 6.9: [null]
		if a, ok := v.([]interface{}); ok && len(a) == 1 && a[0] == nil {
			return refExact("empty")
		}
		return refReject("empty-not-[null]")
	}
	switch x := v.(type) {
	case bool:
		if t.Kind == "boolean" {
			return refExact(Value("bool:" + strconv.FormatBool(x)))
		}
		return refReject("wrong-kind")
	case json.Number:
		return refNumberJSON(t, string(x))
	case string:
		return refStringJSON(t, x)
	}
	return refReject("wrong-kind") // array, object
}

func refNumberJSON(t *RefType, lit string) RefAllowed {
	r, ok := refRat(lit)
	if !ok {
		return refReject("malformed-json")
	}
	switch t.Kind {
	case "int8", "int16", "int32", "uint8", "uint16", "uint32":
		// RFC 7951 6.1: a JSON number
		v, clause := refIntFromRat(t.Kind, r)
		if clause != "" {
			return refReject(clause)
		}
		if refPlainIntRE.MatchString(lit) && lit != "-0" {
			return refExact(v)
		}
		return refLenient("integral-number-in-fraction-or-exponent-notation", v)
	case "int64", "uint64":
		// RFC 7951 6.1: a JSON string. A JSON number that is an in-range integer still denotes the value.
		v, clause := refIntFromRat(t.Kind, r)
		if clause != "" {
			return refReject(clause)
		}
		return refLenient("json-number-for-64-bit-type", v)
	case "decimal64":
		v, ok := refDecValue(r)
		if !ok {
			return refReject("out-of-range")
		}
		return refLenient("json-number-for-64-bit-type", v)
	}
	return refReject("wrong-kind")
}

func refStringJSON(t *RefType, s string) RefAllowed {
	switch t.Kind {
	case "string":
		return refExact(Value("str:" + s))
	case "int64", "uint64":
		// RFC 7950 9.2.1: optional sign and decimal digits; canonical form without "+" and leading zeros
		if refSignedIntRE.MatchString(s) {
			n, _ := new(big.Int).SetString(strings.TrimPrefix(s, "+"), 10)
			v, clause := refIntFromRat(t.Kind, new(big.Rat).SetInt(n))
			if clause != "" {
				return refReject(clause)
			}
			if refCanonIntRE.MatchString(s) {
				return refExact(v)
			}
			return refLenient("non-canonical-integer-string", v)
		}
		if r, ok := refRat(s); ok {
			// "1e5", "1.0": not a YANG integer lexical form, but a numeral with an integral value
			if v, clause := refIntFromRat(t.Kind, r); clause == "" {
				return refLenient("integer-string-in-fraction-or-exponent-notation", v)
			}
		}
		return refReject("malformed-" + t.Kind)
	case "decimal64":
		// RFC 7950 9.3.1: optional sign, digits, optionally "." and digits
		r, ok := refRat(s)
		if !ok {
			return refReject("malformed-decimal64")
		}
		v, ok := refDecValue(r)
		if !ok {
			return refReject("malformed-decimal64")
		}
		if refCanonDecRE.MatchString(s) && refInDecSpace(r, t.FracDigits) {
			return refExact(v)
		}
		return refLenient("non-canonical-or-out-of-space-decimal-string", v)
	case "binary":
		b, strict, ok := refBase64(s)
		if !ok {
			return refReject("invalid-base64")
		}
		if !strict {
			return refLenient("non-canonical-base64", Value("bin:"+hex.EncodeToString(b)))
		}
		return refExact(Value("bin:" + hex.EncodeToString(b)))
	case "enumeration", "identityref":
		return refName(t, s)
	}
	return refReject("wrong-kind") // boolean, intN<=32 given as a string
}

// ---------------------------------------------------------------------------------------------
// gNMI TypedValue (gNMI specification 2.2.3: node values; 2.3: structured data types)

// RefDecodeTV: allowed outcomes for TypedValue tv given as the value of leaf l.
func RefDecodeTV(l *RefLeaf, tv *gpb.TypedValue) RefAllowed {
	if tv == nil {
		return refLenientUnset("nil-message-denotes-nothing")
	}
	switch x := tv.GetValue().(type) {
	case nil:
		return refLenientUnset("no-value-set-denotes-nothing")
	case *gpb.TypedValue_JsonIetfVal:
		if len(x.JsonIetfVal) == 0 {
			return refLenientUnset("empty-json-denotes-nothing")
		}
		return RefDecodeJSON(l, string(x.JsonIetfVal))
	case *gpb.TypedValue_JsonVal:
		// non-IETF JSON: same denotation, no agreed lexical rules -> never demanded to be accepted
		if len(x.JsonVal) == 0 {
			return refLenientUnset("empty-json-denotes-nothing")
		}
		a := RefDecodeJSON(l, string(x.JsonVal))
		if !a.Reject {
			a.Reject = true
			a.Clause = "lenient:json_val-encoding"
		}
		return a
	case *gpb.TypedValue_AnyVal, *gpb.TypedValue_ProtoBytes:
		return refLenientUnset("opaque-payload-denotes-no-leaf-value")
	}
	if !l.List {
		return refScalarTV(l.Type, tv)
	}
	ll, ok := tv.GetValue().(*gpb.TypedValue_LeaflistVal)
	if !ok {
		return refReject("wrong-alternative")
	}
	var els []RefAllowed
	for _, e := range ll.LeaflistVal.GetElement() {
		if e == nil || e.GetValue() == nil {
			els = append(els, refLenientUnset("nil-element"))
			continue
		}
		switch e.GetValue().(type) {
		case *gpb.TypedValue_JsonIetfVal, *gpb.TypedValue_JsonVal, *gpb.TypedValue_AnyVal, *gpb.TypedValue_ProtoBytes:
			els = append(els, refReject("wrong-alternative"))
			continue
		}
		els = append(els, refScalarTV(l.Type, e))
	}
	return refCombineList(els)
}

func refScalarTV(t *RefType, tv *gpb.TypedValue) RefAllowed {
	if t.Kind == "union" {
		var ms []RefAllowed
		for _, m := range t.Members {
			ms = append(ms, refScalarTV(m, tv))
		}
		return refUnion(ms)
	}
	// the exact number carried by a numeric alternative
	var num *big.Rat
	numeric, native := false, false
	bits, signed, isInt := refIntBits(t.Kind)
	_ = bits
	switch x := tv.GetValue().(type) {
	case *gpb.TypedValue_IntVal:
		num, numeric, native = new(big.Rat).SetInt64(x.IntVal), true, isInt && signed
	case *gpb.TypedValue_UintVal:
		num, numeric, native = new(big.Rat).SetInt(new(big.Int).SetUint64(x.UintVal)), true, isInt && !signed
	case *gpb.TypedValue_DoubleVal:
		numeric, native = true, t.Kind == "decimal64"
		num, _ = refFloatRat(x.DoubleVal)
	case *gpb.TypedValue_FloatVal:
		numeric, native = true, t.Kind == "decimal64"
		num, _ = refFloatRat(float64(x.FloatVal))
	case *gpb.TypedValue_DecimalVal:
		numeric, native = true, t.Kind == "decimal64"
		// a nil Decimal64 is the empty message on the wire: digits 0, precision 0
		d, p := x.DecimalVal.GetDigits(), x.DecimalVal.GetPrecision()
		if p <= 400 {
			num = new(big.Rat).SetFrac(big.NewInt(d), new(big.Int).Exp(big.NewInt(10), big.NewInt(int64(p)), nil))
		}
		if x.DecimalVal == nil {
			native = false
		}
	case *gpb.TypedValue_LeaflistVal:
		return refReject("wrong-alternative")
	}
	text, isText, isAscii := "", false, false
	switch x := tv.GetValue().(type) {
	case *gpb.TypedValue_StringVal:
		text, isText = x.StringVal, true
	case *gpb.TypedValue_AsciiVal:
		text, isText, isAscii = x.AsciiVal, true, true
	}

	switch t.Kind {
	case "int8", "int16", "int32", "int64", "uint8", "uint16", "uint32", "uint64":
		if numeric {
			if num == nil {
				return refReject("outside-value-space") // NaN / Inf
			}
			v, clause := refIntFromRat(t.Kind, num)
			if clause != "" {
				return refReject(clause)
			}
			if native {
				return refExact(v)
			}
			return refLenient("other-numeric-alternative-with-member-value", v)
		}
		if isText {
			if refCanonIntRE.MatchString(text) {
				n, _ := new(big.Int).SetString(text, 10)
				if v, clause := refIntFromRat(t.Kind, new(big.Rat).SetInt(n)); clause == "" {
					return refLenient("numeral-in-text-alternative", v)
				}
			}
		}
		return refReject("wrong-alternative")
	case "decimal64":
		if numeric {
			if num == nil {
				return refReject("outside-value-space")
			}
			v, ok := refDecValue(num)
			if !ok {
				return refReject("outside-value-space")
			}
			if native && refInDecSpace(num, t.FracDigits) {
				return refExact(v)
			}
			return refLenient("number-outside-decimal64-space-or-other-alternative", v)
		}
		if isText {
			if r, ok := refRat(text); ok && refCanonDecRE.MatchString(text) {
				if v, ok := refDecValue(r); ok {
					return refLenient("numeral-in-text-alternative", v)
				}
			}
		}
		return refReject("wrong-alternative")
	case "string":
		if isText {
			if isAscii {
				return refLenient("ascii-alternative", Value("str:"+text))
			}
			return refExact(Value("str:" + text))
		}
		return refReject("wrong-alternative")
	case "boolean":
		if b, ok := tv.GetValue().(*gpb.TypedValue_BoolVal); ok {
			return refExact(Value("bool:" + strconv.FormatBool(b.BoolVal)))
		}
		if isText && (text == "true" || text == "false") {
			return refLenient("boolean-in-text-alternative", Value("bool:"+text))
		}
		return refReject("wrong-alternative")
	case "binary":
		if b, ok := tv.GetValue().(*gpb.TypedValue_BytesVal); ok {
			v := Value("bin:" + hex.EncodeToString(b.BytesVal))
			if b.BytesVal == nil {
				// nil and empty bytes are the same message on the wire
				return refLenient("nil-bytes", v)
			}
			return refExact(v)
		}
		if isText {
			if b, strict, ok := refBase64(text); ok && strict {
				return refLenient("base64-in-text-alternative", Value("bin:"+hex.EncodeToString(b)))
			}
		}
		return refReject("wrong-alternative")
	case "empty":
		// gNMI does not define the encoding of "empty"; ygot emits bool_val:true.
		if b, ok := tv.GetValue().(*gpb.TypedValue_BoolVal); ok {
			if b.BoolVal {
				return refLenient("bool-true-for-empty", "empty")
			}
			return refLenientUnset("bool-false-for-empty")
		}
		return refReject("wrong-alternative")
	case "enumeration", "identityref":
		if isText && !isAscii {
			return refName(t, text)
		}
		if isText {
			a := refName(t, text)
			if !a.Reject {
				a.Reject, a.Clause = true, "lenient:ascii-alternative"
			}
			return a
		}
		return refReject("wrong-alternative")
	}
	return refReject("wrong-alternative")
}
