package core

// refpathset: reference denotation of a gNMI path as a set of concrete data paths over a small
// finite universe (property C09). Deliberately naive: the set is materialised as a bitset over an
// explicit list of every concrete path, membership is decided element by element, and the
// relation between two paths is read off the two bitsets by set algebra. Nothing here looks at
// how util.ComparePaths is written.
//
// Universe: every path of length 0..MaxLen whose elements are concrete elements; a concrete
// element is a name together with one value (from Values) for every key that the name has
// (ListKeys[name]; names without an entry are containers and have no key).
//
// Denotation of a (query) path p = { c in universe : len(c) >= len(p) and for every i < len(p)
// the element p[i] admits c[i] }  -- "a path covers its subtree". Element p[i] admits c[i] when
// the names are equal (or p[i] is named "*") and every key of p[i] that is not "*" has exactly
// that value in c[i]; keys that p[i] does not mention, and keys given as "*", are wildcards.
// The origin is part of the denotation: "" stands for "openconfig" (gNMI mixed-schema
// specification), any other origin names a different tree.

import (
	"sort"
	"strings"
)

// PSElem is one element of an abstract (possibly wildcarded) path.
type PSElem struct {
	Name string            `json:"name"`
	Keys map[string]string `json:"keys,omitempty"`
}

// PSPath is an abstract path.
type PSPath struct {
	Origin string   `json:"origin,omitempty"`
	Target string   `json:"target,omitempty"`
	Elems  []PSElem `json:"elems"`
}

// String renders the path for messages (keys sorted).
func (p PSPath) String() string {
	var b strings.Builder
	if p.Origin != "" {
		b.WriteString(p.Origin + ":")
	}
	if len(p.Elems) == 0 {
		b.WriteString("/")
	}
	for _, e := range p.Elems {
		b.WriteString("/" + e.Name)
		ks := make([]string, 0, len(e.Keys))
		for k := range e.Keys {
			ks = append(ks, k)
		}
		sort.Strings(ks)
		for _, k := range ks {
			b.WriteString("[" + k + "=" + e.Keys[k] + "]")
		}
	}
	return b.String()
}

type psConcreteElem struct {
	name string
	keys map[string]string
}

// PSUniverse is the finite universe of concrete paths.
type PSUniverse struct {
	MaxLen   int
	celems   []psConcreteElem
	concrete [][]int // every concrete path as indices into celems, shortest first
}

// NewPSUniverse builds the universe. names are the element names in a fixed order, listKeys the key
// names of the names that are lists, values the values every key ranges over.
func NewPSUniverse(names []string, listKeys map[string][]string, values []string, maxLen int) *PSUniverse {
	u := &PSUniverse{MaxLen: maxLen}
	for _, n := range names {
		ks := listKeys[n]
		if len(ks) == 0 {
			u.celems = append(u.celems, psConcreteElem{name: n})
			continue
		}
		// all assignments of values to the keys
		idx := make([]int, len(ks))
		for {
			m := map[string]string{}
			for i, k := range ks {
				m[k] = values[idx[i]]
			}
			u.celems = append(u.celems, psConcreteElem{name: n, keys: m})
			i := len(ks) - 1
			for ; i >= 0; i-- {
				idx[i]++
				if idx[i] < len(values) {
					break
				}
				idx[i] = 0
			}
			if i < 0 {
				break
			}
		}
	}
	level := [][]int{{}}
	u.concrete = append(u.concrete, []int{})
	for l := 1; l <= maxLen; l++ {
		var nxt [][]int
		for _, p := range level {
			for e := range u.celems {
				q := append(append(make([]int, 0, len(p)+1), p...), e)
				nxt = append(nxt, q)
			}
		}
		u.concrete = append(u.concrete, nxt...)
		level = nxt
	}
	return u
}

// Size is the number of concrete paths in the universe.
func (u *PSUniverse) Size() int { return len(u.concrete) }

func psAdmits(e PSElem, c psConcreteElem) bool {
	if e.Name != "*" && e.Name != c.name {
		return false
	}
	for k, v := range e.Keys {
		if v == "*" {
			continue
		}
		if cv, ok := c.keys[k]; !ok || cv != v {
			return false
		}
	}
	return true
}

// PSSet is the denotation of one path.
type PSSet struct {
	Origin string // normalised origin
	Bits   []uint64
}

// PSNormOrigin maps the unset origin to "openconfig".
func PSNormOrigin(o string) string {
	if o == "" {
		return "openconfig"
	}
	return o
}

// Denote computes the set of concrete paths of the universe that p denotes.
func (u *PSUniverse) Denote(p PSPath) PSSet {
	s := PSSet{Origin: PSNormOrigin(p.Origin), Bits: make([]uint64, (len(u.concrete)+63)/64)}
	for ci, c := range u.concrete {
		if len(c) < len(p.Elems) {
			continue
		}
		ok := true
		for i, e := range p.Elems {
			if !psAdmits(e, u.celems[c[i]]) {
				ok = false
				break
			}
		}
		if ok {
			s.Bits[ci/64] |= 1 << uint(ci%64)
		}
	}
	return s
}

// PSRel is the relation between two sets.
type PSRel int

// Relations; the numbering is the harness's own (not util.CompareRelation's).
const (
	PSEqual PSRel = iota
	PSSubset
	PSSuperset
	PSDisjoint
	PSPartial
)

func (r PSRel) String() string {
	switch r {
	case PSEqual:
		return "Equal"
	case PSSubset:
		return "Subset"
	case PSSuperset:
		return "Superset"
	case PSDisjoint:
		return "Disjoint"
	case PSPartial:
		return "PartialIntersect"
	}
	return "?"
}

// Swap is the relation seen from the other argument.
func (r PSRel) Swap() PSRel {
	switch r {
	case PSSubset:
		return PSSuperset
	case PSSuperset:
		return PSSubset
	}
	return r
}

// PSBitsRelation is the relation between two bitsets over the same universe.
func PSBitsRelation(a, b []uint64) PSRel {
	var both, onlyA, onlyB bool
	for i := range a {
		x, y := a[i], b[i]
		if x&y != 0 {
			both = true
		}
		if x&^y != 0 {
			onlyA = true
		}
		if y&^x != 0 {
			onlyB = true
		}
		if both && onlyA && onlyB {
			return PSPartial
		}
	}
	switch {
	case !onlyA && !onlyB:
		return PSEqual
	case !both:
		return PSDisjoint
	case !onlyA:
		return PSSubset // a is strictly inside b
	case !onlyB:
		return PSSuperset
	}
	return PSPartial
}

// PSRelation is the relation of set a to set b (Subset: a is strictly contained in b).
func PSRelation(a, b PSSet) PSRel {
	if a.Origin != b.Origin {
		// different trees. (Every path denotes at least one concrete path of its tree, so the
		// degenerate empty-set cases do not arise; they are handled for completeness.)
		ea, eb := psEmpty(a.Bits), psEmpty(b.Bits)
		switch {
		case ea && eb:
			return PSEqual
		case ea:
			return PSSubset
		case eb:
			return PSSuperset
		}
		return PSDisjoint
	}
	return PSBitsRelation(a.Bits, b.Bits)
}

func psEmpty(b []uint64) bool {
	for _, w := range b {
		if w != 0 {
			return false
		}
	}
	return true
}
