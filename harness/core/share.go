package core

import (
	"fmt"
	"reflect"
)

// ShareLeafPointers rewrites the tree so that all scalar leaves (*string, *uint32, ... fields) of
// the same Go type that hold equal values point to ONE variable (and equal leaf-lists share one slice), as in user code that fills several
// entries from a template (b.Value = a.Value). The observed Model is unchanged; what changes is that
// a write THROUGH a leaf pointer (instead of storing a new pointer) becomes visible in other leaves.
// Returns the number of leaf fields that now share a variable with an earlier one.
func ShareLeafPointers(root interface{}) int {
	pool := map[string]reflect.Value{}
	n := 0
	var walk func(v reflect.Value)
	walk = func(v reflect.Value) {
		switch v.Kind() {
		case reflect.Ptr:
			if v.IsNil() {
				return
			}
			if v.Elem().Kind() == reflect.Struct {
				if om := v.MethodByName("Values"); om.IsValid() && om.Type().NumIn() == 0 && om.Type().NumOut() == 1 {
					vals := om.Call(nil)[0] // ordered map
					for i := 0; i < vals.Len(); i++ {
						walk(vals.Index(i))
					}
					return
				}
				s := v.Elem()
				for i := 0; i < s.NumField(); i++ {
					f := s.Field(i)
					if !f.CanSet() {
						continue
					}
					if f.Kind() == reflect.Slice && f.Len() > 0 && f.Type().Elem().Kind() != reflect.Ptr && f.Type().Name() == "" {
						// a leaf-list: equal leaf-lists of one type share ONE slice (same backing array)
						k := fmt.Sprintf("%s|%v", f.Type(), f.Interface())
						if q, ok := pool[k]; ok {
							f.Set(q)
							n++
						} else {
							pool[k] = f
						}
						continue
					}
					if f.Kind() == reflect.Ptr && !f.IsNil() && f.Elem().Kind() != reflect.Struct {
						k := fmt.Sprintf("%s|%v", f.Type(), f.Elem().Interface())
						if q, ok := pool[k]; ok {
							f.Set(q)
							n++
						} else {
							pool[k] = f
						}
						continue
					}
					walk(f)
				}
			}
		case reflect.Map:
			for _, k := range v.MapKeys() {
				walk(v.MapIndex(k))
			}
		case reflect.Slice:
			for i := 0; i < v.Len(); i++ {
				if v.Index(i).Kind() == reflect.Ptr {
					walk(v.Index(i))
				}
			}
		}
	}
	walk(reflect.ValueOf(root))
	return n
}
