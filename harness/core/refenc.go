package core

import (
	"encoding/base64"
	"encoding/hex"
	"encoding/json"
	"strconv"
	"strings"

	gpb "github.com/openconfig/gnmi/proto/gnmi"
)

// RefTypedValue is the reference scalar gNMI encoding of a canonical value.
func RefTypedValue(v Value) *gpb.TypedValue {
	if v.IsLL() {
		arr := &gpb.ScalarArray{}
		for _, e := range v.Elems() {
			arr.Element = append(arr.Element, RefTypedValue(e))
		}
		return &gpb.TypedValue{Value: &gpb.TypedValue_LeaflistVal{LeaflistVal: arr}}
	}
	pl := v.Payload()
	switch v.Kind() {
	case "str", "enum":
		return &gpb.TypedValue{Value: &gpb.TypedValue_StringVal{StringVal: pl}}
	case "bool":
		return &gpb.TypedValue{Value: &gpb.TypedValue_BoolVal{BoolVal: pl == "true"}}
	case "empty":
		return &gpb.TypedValue{Value: &gpb.TypedValue_BoolVal{BoolVal: true}}
	case "bin":
		b, _ := hex.DecodeString(pl)
		if b == nil {
			b = []byte{}
		}
		return &gpb.TypedValue{Value: &gpb.TypedValue_BytesVal{BytesVal: b}}
	case "dec":
		f, _ := strconv.ParseFloat(pl, 64)
		return &gpb.TypedValue{Value: &gpb.TypedValue_DoubleVal{DoubleVal: f}}
	}
	if strings.HasPrefix(v.Kind(), "i") {
		n, _ := strconv.ParseInt(pl, 10, 64)
		return &gpb.TypedValue{Value: &gpb.TypedValue_IntVal{IntVal: n}}
	}
	n, _ := strconv.ParseUint(pl, 10, 64)
	return &gpb.TypedValue{Value: &gpb.TypedValue_UintVal{UintVal: n}}
}

// RefJSONScalar is the reference RFC 7951 encoding of a canonical scalar / leaf-list value:
// numbers for <=32-bit integers, decimal strings for 64-bit integers and decimal64, base64 for
// binary, [null] for empty, names for enumerations (identityrefs optionally module-prefixed by
// the caller).
func RefJSONScalar(v Value) interface{} {
	if v.IsLL() {
		out := []interface{}{}
		for _, e := range v.Elems() {
			out = append(out, RefJSONScalar(e))
		}
		return out
	}
	pl := v.Payload()
	switch v.Kind() {
	case "str", "enum", "dec", "i64", "u64":
		return pl
	case "bool":
		return pl == "true"
	case "empty":
		return []interface{}{nil}
	case "bin":
		b, _ := hex.DecodeString(pl)
		return base64.StdEncoding.EncodeToString(b)
	}
	return json.Number(pl)
}

// RefJSONIETF wraps RefJSONScalar into a json_ietf_val TypedValue.
func RefJSONIETF(v Value) *gpb.TypedValue {
	b, _ := json.Marshal(RefJSONScalar(v))
	return &gpb.TypedValue{Value: &gpb.TypedValue_JsonIetfVal{JsonIetfVal: b}}
}
