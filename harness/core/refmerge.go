package core

import (
	"fmt"
	"sort"
	"strings"
)

// Reference merge of two data-tree Models (property C05). Deliberately boring: a flat walk over
// the path-indexed maps of the Model, no recursion over Go structs, no reflection, nothing shared
// with ygot's copyStruct family.
//
//   leaf            set in both with different values              -> conflict "leaf"
//                   (with overwrite: no conflict, b's value is taken)
//   leaf-list       set in both: equal -> kept; no common member -> a's members then b's;
//                   same multiset in another order -> "leaflist-permuted" (not decided by the
//                   property: "equal" may or may not look at the order of a system-ordered list);
//                   otherwise -> conflict "leaflist-overlap"
//   unkeyed list    as leaf-list, element = canonical form of the element's subtree
//                   ("unkeyed-permuted", "unkeyed-overlap")
//   ordered list    keys of b disjoint from a's -> a's keys then b's; keys of b a subsequence of
//                   a's keys (same relative order) -> a's order; otherwise conflict "ordered-reorder"
//                   (same keys, other order), "ordered-partial-firstnew" / "ordered-partial" (b brings
//                   new keys next to shared ones; first key of b new / already in a).
//                   Direction as documented on ygot's orderedMapKeysMergeable: src (= b) must be the
//                   subset, dst (= a) the superset.
//   everything else (keyed list entries, presence containers, leaves set on one side) -> union.

// MergeConflict is one reason for the reference merge to fail.
type MergeConflict struct {
	Kind   string // leaf | leaflist-overlap | leaflist-permuted | unkeyed-overlap | unkeyed-permuted | ordered-reorder | ordered-partial-firstnew | ordered-partial
	Path   string
	Detail string
}

// MergeResult is the outcome of the reference merge.
type MergeResult struct {
	Model       *Model          // the union (meaningful only when there is no conflict)
	Conflicts   []MergeConflict // sorted by (Kind, Path)
	Concat      map[string]bool // leaf-list / unkeyed-list paths whose result is a concatenation of both sides
	OrderDep    map[string]bool // ordered-list paths whose result order depends on the argument order (both non-empty, disjoint)
	Overwritten []string        // leaf paths set in both with different values where b's value was taken (overwrite)
	Shared      int             // number of leaves / leaf-lists / unkeyed lists / ordered lists set on both sides
}

// Ambiguous reports whether some conflict lies in the region the property does not decide.
func (r *MergeResult) Ambiguous() bool {
	for _, c := range r.Conflicts {
		if strings.HasSuffix(c.Kind, "-permuted") {
			return true
		}
	}
	return false
}

// HasKind reports whether a conflict of the given kind exists.
func (r *MergeResult) HasKind(kind string) bool {
	for _, c := range r.Conflicts {
		if c.Kind == kind {
			return true
		}
	}
	return false
}

// NonLeafConflicts counts the conflicts that are not plain leaf conflicts.
func (r *MergeResult) NonLeafConflicts() int {
	n := 0
	for _, c := range r.Conflicts {
		if c.Kind != "leaf" {
			n++
		}
	}
	return n
}

func sameMultiset(a, b []string) bool {
	if len(a) != len(b) {
		return false
	}
	x, y := SortedStrings(a), SortedStrings(b)
	for i := range x {
		if x[i] != y[i] {
			return false
		}
	}
	return true
}

func sameSeq(a, b []string) bool {
	if len(a) != len(b) {
		return false
	}
	for i := range a {
		if a[i] != b[i] {
			return false
		}
	}
	return true
}

func anyCommon(a, b []string) bool {
	in := map[string]bool{}
	for _, x := range a {
		in[x] = true
	}
	for _, y := range b {
		if in[y] {
			return true
		}
	}
	return false
}

func isSubset(sub, set []string) bool {
	in := map[string]bool{}
	for _, x := range set {
		in[x] = true
	}
	for _, y := range sub {
		if !in[y] {
			return false
		}
	}
	return true
}

// isSubsequence reports whether sub occurs in seq in the same relative order (not necessarily adjacent).
func isSubsequence(sub, seq []string) bool {
	i := 0
	for _, s := range seq {
		if i < len(sub) && sub[i] == s {
			i++
		}
	}
	return i == len(sub)
}

// mergeCollection merges two system-ordered collections given as element strings.
// kind "" = merged; concat tells whether the result is a concatenation.
func mergeCollection(a, b []string) (out []string, concat bool, kind string) {
	switch {
	case sameSeq(a, b):
		return a, false, ""
	case sameMultiset(a, b):
		return a, false, "permuted"
	case anyCommon(a, b):
		return a, false, "overlap"
	}
	return append(append([]string(nil), a...), b...), true, ""
}

func valueStrings(v Value) []string {
	es := v.Elems()
	out := make([]string, len(es))
	for i, e := range es {
		out[i] = string(e)
	}
	return out
}

func stringsValue(s []string) Value {
	vs := make([]Value, len(s))
	for i, e := range s {
		vs[i] = Value(e)
	}
	return LL(vs...)
}

// RefMerge computes the reference merge of a and b (b merged onto a). overwrite models
// MergeOverwriteExistingFields: leaf conflicts are resolved in favour of b.
func RefMerge(a, b *Model, overwrite bool) *MergeResult {
	r := &MergeResult{Model: a.Clone(), Concat: map[string]bool{}, OrderDep: map[string]bool{}}
	m := r.Model
	for k, p := range b.Paths {
		if _, ok := m.Paths[k]; !ok {
			m.Paths[k] = p
		}
	}
	conflict := func(kind, path, detail string) {
		r.Conflicts = append(r.Conflicts, MergeConflict{kind, path, detail})
	}
	for _, k := range SortedKeys(b.Leaves) {
		bv := b.Leaves[k]
		av, inA := a.Leaves[k]
		if !inA {
			m.Leaves[k] = bv
			continue
		}
		r.Shared++
		if av == bv {
			continue
		}
		if av.IsLL() && bv.IsLL() {
			out, concat, kind := mergeCollection(valueStrings(av), valueStrings(bv))
			if kind != "" {
				conflict("leaflist-"+kind, k, fmt.Sprintf("a=%s b=%s", av, bv))
				continue
			}
			m.Leaves[k] = stringsValue(out)
			if concat {
				r.Concat[k] = true
			}
			continue
		}
		if overwrite {
			m.Leaves[k] = bv
			r.Overwritten = append(r.Overwritten, k)
			continue
		}
		conflict("leaf", k, fmt.Sprintf("a=%s b=%s", av, bv))
	}
	for k := range b.Entries {
		m.Entries[k] = true
	}
	for k := range b.Presence {
		m.Presence[k] = true
	}
	for _, k := range SortedKeys(b.Unkeyed) {
		be := b.Unkeyed[k]
		ae, inA := a.Unkeyed[k]
		if !inA || len(ae) == 0 {
			m.Unkeyed[k] = append([]string(nil), be...)
			continue
		}
		if len(be) == 0 {
			continue
		}
		r.Shared++
		out, concat, kind := mergeCollection(ae, be)
		if kind != "" {
			conflict("unkeyed-"+kind, k, fmt.Sprintf("a has %d elements, b has %d", len(ae), len(be)))
			continue
		}
		m.Unkeyed[k] = out
		if concat {
			r.Concat[k] = true
		}
	}
	for _, k := range SortedKeys(b.Order) {
		bo := b.Order[k]
		ao := a.Order[k]
		if len(bo) == 0 {
			continue
		}
		if len(ao) == 0 {
			m.Order[k] = append([]string(nil), bo...)
			continue
		}
		r.Shared++
		switch {
		case !anyCommon(ao, bo):
			m.Order[k] = append(append([]string(nil), ao...), bo...)
			r.OrderDep[k] = true
		case isSubsequence(bo, ao):
			// a's order stands
		default:
			// three sub-regions, told apart so that a failure in one is never minimised into another:
			// all keys of b are in a but in another order / b brings new keys and its FIRST key is new /
			// b brings new keys and its first key is already in a
			kind := "ordered-partial"
			switch {
			case isSubset(bo, ao):
				kind = "ordered-reorder"
			case !anyCommon(ao, bo[:1]):
				kind = "ordered-partial-firstnew"
			}
			conflict(kind, k, fmt.Sprintf("a=%v b=%v", ao, bo))
		}
	}
	sort.Slice(r.Conflicts, func(i, j int) bool {
		if r.Conflicts[i].Kind != r.Conflicts[j].Kind {
			return r.Conflicts[i].Kind < r.Conflicts[j].Kind
		}
		return r.Conflicts[i].Path < r.Conflicts[j].Path
	})
	sort.Strings(r.Overwritten)
	return r
}

// MergedCanon renders a model like Canon, except that the collections (leaf-lists, unkeyed lists)
// at paths selected by asMultiset are rendered as sorted multisets and the order of the
// ordered lists selected by dropOrder is left out (their entries are still listed).
func MergedCanon(m *Model, asMultiset, dropOrder func(path string) bool) string {
	var lines []string
	for k, v := range m.Leaves {
		if v.IsLL() && asMultiset != nil && asMultiset(k) {
			v = stringsValue(SortedStrings(valueStrings(v)))
		}
		lines = append(lines, "L "+k+" = "+string(v))
	}
	for k := range m.Entries {
		lines = append(lines, "E "+k)
	}
	for k, v := range m.Order {
		if len(v) > 0 && !(dropOrder != nil && dropOrder(k)) {
			lines = append(lines, "O "+k+" = "+strings.Join(v, " "))
		}
	}
	for k := range m.Presence {
		lines = append(lines, "P "+k)
	}
	for k, v := range m.Unkeyed {
		if asMultiset != nil && asMultiset(k) {
			v = SortedStrings(v)
		}
		for i, e := range v {
			lines = append(lines, fmt.Sprintf("U %s #%d {%s}", k, i, strings.ReplaceAll(e, "\n", "; ")))
		}
	}
	for _, b := range m.Bad {
		lines = append(lines, "B "+b)
	}
	sort.Strings(lines)
	return strings.Join(lines, "\n")
}
