package core

import (
	"sort"
	"sync"
	"sync/atomic"
)

// seqmc: explicit-state breadth-first search over *API call histories* of generated helper code
// (DESIGN.md section 4.5). A system offers a finite alphabet of calls (methods x a small key
// domain) and a set of initial configurations. Real objects cannot be cloned trustworthily, so
// every successor is obtained by replaying the whole history on a FRESH real object; the system
// evaluates its oracle (reference model vs. implementation) after every step of the replay and
// returns the canonical state reached after each step. States are deduplicated by canonical
// state only.

// SeqViol is the first oracle violation met while executing a history.
type SeqViol struct {
	Step   int    // index of the offending call in the history (-1: the initial configuration)
	Sig    string // violation signature: "<oracle clause>:<shape of the system>:<kind of call>"
	Detail string
}

// SeqRun is the result of executing one history on a fresh real object.
type SeqRun struct {
	Canons  []string // canonical state after the initial configuration [0] and after every executed call [i+1]
	Classes []string // outcome class of every executed call (accepted / rejected / read ...)
	Viol    *SeqViol // nil when every step agreed with the reference; execution stops at the first violation
}

// SeqSystem is one system under exploration.
type SeqSystem interface {
	Name() string
	Inits() []string // names of the initial configurations
	Ops() []string   // the call alphabet, simplest first
	// Exec builds a fresh real object in configuration init, performs the calls in order and compares
	// implementation and reference model after every call.
	Exec(init int, ops []uint16) *SeqRun
}

// SeqState is a reached canonical state with the shortest history that produces it.
type SeqState struct {
	Init  int
	Hist  []uint16
	Canon string
	Depth int
}

// SeqFinding is a violating history.
type SeqFinding struct {
	Init int
	Hist []uint16
	Viol SeqViol
}

// SeqSpace is the explored space of one system.
type SeqSpace struct {
	Sys         SeqSystem
	Depth       int
	States      []SeqState
	Index       map[string]int // canon -> state index
	Transitions int64          // (state, call) pairs executed by the search
	Histories   int64          // histories executed on fresh real objects (search + full enumeration + caller's own)
	SelfLoops   int64          // transitions that stay in their source state (read-only and rejected calls)
	Merges      int64          // transitions that reach an already known different state
	Classes     map[string]int64
	Findings    []SeqFinding // first finding per signature, in deterministic order
	Complete    bool         // false when the deadline stopped the search
	FullLen     int          // length of the histories enumerated without deduplication (0: not run)
	FullCount   int64

	mu      sync.Mutex
	findIdx map[string]int
}

func (sp *SeqSpace) addFinding(f SeqFinding) {
	sp.mu.Lock()
	defer sp.mu.Unlock()
	if i, ok := sp.findIdx[f.Viol.Sig]; ok {
		// keep the shortest, then lexicographically smallest history: independent of scheduling
		if !lessHist(f, sp.Findings[i]) {
			return
		}
		sp.Findings[i] = f
		return
	}
	sp.findIdx[f.Viol.Sig] = len(sp.Findings)
	sp.Findings = append(sp.Findings, f)
}

func lessHist(a, b SeqFinding) bool {
	if len(a.Hist) != len(b.Hist) {
		return len(a.Hist) < len(b.Hist)
	}
	if a.Init != b.Init {
		return a.Init < b.Init
	}
	for i := range a.Hist {
		if a.Hist[i] != b.Hist[i] {
			return a.Hist[i] < b.Hist[i]
		}
	}
	return false
}

// HistNames renders a history as call names.
func (sp *SeqSpace) HistNames(h []uint16) []string {
	ops := sp.Sys.Ops()
	out := make([]string, len(h))
	for i, o := range h {
		out[i] = ops[o]
	}
	return out
}

// SeqExplore runs the breadth-first search to the given depth (number of calls).
func SeqExplore(sys SeqSystem, depth int, expired func() bool) *SeqSpace {
	sp := &SeqSpace{Sys: sys, Depth: depth, Index: map[string]int{}, Classes: map[string]int64{}, findIdx: map[string]int{}, Complete: true}
	nops := len(sys.Ops())
	for i := range sys.Inits() {
		run := sys.Exec(i, nil)
		sp.Histories++
		if run.Viol != nil {
			sp.addFinding(SeqFinding{Init: i, Viol: *run.Viol})
			continue
		}
		c := run.Canons[0]
		if _, ok := sp.Index[c]; !ok {
			sp.Index[c] = len(sp.States)
			sp.States = append(sp.States, SeqState{Init: i, Canon: c})
		}
	}
	lo, hi := 0, len(sp.States)
	type cand struct {
		hist  []uint16
		canon string
		class string
	}
	for lvl := 1; lvl <= depth && lo < hi; lvl++ {
		n := hi - lo
		res := make([][]cand, n)
		var stop int32
		ParallelFor(n, func(i int) {
			if atomic.LoadInt32(&stop) != 0 {
				return
			}
			if expired != nil && i%64 == 0 && expired() {
				atomic.StoreInt32(&stop, 1)
				return
			}
			st := sp.States[lo+i]
			out := make([]cand, 0, nops)
			for op := 0; op < nops; op++ {
				h := make([]uint16, len(st.Hist)+1)
				copy(h, st.Hist)
				h[len(st.Hist)] = uint16(op)
				run := sys.Exec(st.Init, h)
				atomic.AddInt64(&sp.Transitions, 1)
				atomic.AddInt64(&sp.Histories, 1)
				if run.Viol != nil {
					v := *run.Viol
					if v.Step < len(st.Hist) {
						// the prefix was executed without violation before: the outcome is not a function of the history
						v.Sig = "replay-diverged:" + v.Sig
					}
					sp.addFinding(SeqFinding{Init: st.Init, Hist: h, Viol: v})
					continue
				}
				if run.Canons[len(st.Hist)] != st.Canon {
					sp.addFinding(SeqFinding{Init: st.Init, Hist: h, Viol: SeqViol{Step: len(st.Hist) - 1, Sig: "replay-diverged:state:" + sys.Name(),
						Detail: "replaying the history of a state on a fresh object reached a different state: " + run.Canons[len(st.Hist)] + " instead of " + st.Canon}})
					continue
				}
				out = append(out, cand{h, run.Canons[len(h)], run.Classes[len(h)-1]})
			}
			res[i] = out
		})
		if atomic.LoadInt32(&stop) != 0 {
			sp.Complete = false
			break
		}
		for i, cs := range res { // deterministic merge: by source state, then by call index
			src := sp.States[lo+i].Canon
			for _, c := range cs {
				sp.Classes[c.class]++
				if c.canon == src {
					sp.SelfLoops++
					continue
				}
				if _, ok := sp.Index[c.canon]; ok {
					sp.Merges++
					continue
				}
				sp.Index[c.canon] = len(sp.States)
				sp.States = append(sp.States, SeqState{Init: sp.States[lo+i].Init, Hist: c.hist, Canon: c.canon, Depth: lvl})
			}
		}
		lo, hi = hi, len(sp.States)
	}
	sort.SliceStable(sp.Findings, func(i, j int) bool { return sp.Findings[i].Viol.Sig < sp.Findings[j].Viol.Sig })
	for i, f := range sp.Findings {
		sp.findIdx[f.Viol.Sig] = i
	}
	return sp
}

// FullHistories executes EVERY history of exactly n calls (all |ops|^n sequences from every initial
// configuration, no deduplication) with the oracle evaluated after every call: the complement of
// the deduplicated search for interleavings whose effect the canonical state might not capture
// (a rejected call followed by other calls, ...). Every state met must already be a state of the
// search (n <= Depth); otherwise the canonical state hides something and a finding is recorded.
func (sp *SeqSpace) FullHistories(n int, expired func() bool) {
	if n <= 0 {
		return
	}
	sys := sp.Sys
	nops := len(sys.Ops())
	per := 1
	for i := 0; i < n; i++ {
		per *= nops
	}
	total := per * len(sys.Inits())
	sp.FullLen = n
	var stop int32
	var done int64
	ParallelFor(total, func(idx int) {
		if atomic.LoadInt32(&stop) != 0 {
			return
		}
		if expired != nil && idx%4096 == 0 && expired() {
			atomic.StoreInt32(&stop, 1)
			return
		}
		init := idx / per
		x := idx % per
		h := make([]uint16, n)
		for i := n - 1; i >= 0; i-- {
			h[i] = uint16(x % nops)
			x /= nops
		}
		run := sys.Exec(init, h)
		atomic.AddInt64(&done, 1)
		if run.Viol != nil {
			sp.addFinding(SeqFinding{Init: init, Hist: h[:run.Viol.Step+1], Viol: *run.Viol})
			return
		}
		if n <= sp.Depth && sp.Complete {
			for i, c := range run.Canons {
				if _, ok := sp.Index[c]; !ok {
					sp.addFinding(SeqFinding{Init: init, Hist: h[:i], Viol: SeqViol{Step: i - 1, Sig: "state-outside-search:" + sys.Name(),
						Detail: "a history reached canonical state " + c + " that the deduplicated search did not find"}})
					return
				}
			}
		}
	})
	sp.FullCount = atomic.LoadInt64(&done)
	sp.Histories += sp.FullCount
	if atomic.LoadInt32(&stop) != 0 {
		sp.Complete = false
	}
	sort.SliceStable(sp.Findings, func(i, j int) bool { return sp.Findings[i].Viol.Sig < sp.Findings[j].Viol.Sig })
	for i, f := range sp.Findings {
		sp.findIdx[f.Viol.Sig] = i
	}
}
