package core

// Bulk variants of the Reporter calls for checks whose inner loop evaluates 10^7..10^9 cases:
// the per-case calls take a mutex each, these take it once per batch. Same semantics.

// OutcomeN counts n observations of an outcome class.
func (r *Reporter) OutcomeN(class string, n int64) {
	if n == 0 {
		return
	}
	r.mu.Lock()
	r.outcomes[class] += n
	r.mu.Unlock()
}

// ViolationN records n cases violating under one signature; the first case seen per signature is
// kept for replay (as with Violation).
func (r *Reporter) ViolationN(sig, detail string, cs interface{}, n int64) {
	if n <= 0 {
		return
	}
	r.mu.Lock()
	defer r.mu.Unlock()
	v := r.viols[sig]
	if v == nil {
		v = &violation{Sig: sig, Detail: detail, Case: cs}
		r.viols[sig] = v
	}
	v.Count += n
}
