package core

import (
	"crypto/sha256"
	"runtime"
	"sort"
	"sync"
	"sync/atomic"
)

// State is one reached tree, identified by the shortest atom sequence that produces it.
type State struct {
	Seq []uint16
	Key [16]byte
}

// Space is the explicit state space reached from the empty tree with at most K atoms.
type Space struct {
	P           *Pkg
	Atoms       []*Atom
	K           int
	States      []State
	LevelStart  []int // index of first state of each level
	Transitions int64 // builder executions (state x atom) during the search
	Conflicts   int64 // combinations rejected as not schema-conforming (two cases of a choice)
}

// ParallelFor runs fn(i) for i in [0,n) on all cores.
func ParallelFor(n int, fn func(i int)) {
	w := runtime.GOMAXPROCS(0)
	if w > n {
		w = n
	}
	if w <= 1 {
		for i := 0; i < n; i++ {
			fn(i)
		}
		return
	}
	var next int64
	var wg sync.WaitGroup
	for g := 0; g < w; g++ {
		wg.Add(1)
		go func() {
			defer wg.Done()
			for {
				i := int(atomic.AddInt64(&next, 1) - 1)
				if i >= n {
					return
				}
				fn(i)
			}
		}()
	}
	wg.Wait()
}

func keyOf(m *Model) [16]byte {
	h := sha256.Sum256([]byte(m.StateKey()))
	var k [16]byte
	copy(k[:], h[:16])
	return k
}

// Explore performs the breadth-first search: every state with <= k atoms, deduplicated by the
// observed Model. Each successor is built on a fresh real object by replaying the sequence.
func Explore(p *Pkg, atoms []*Atom, k int) *Space {
	sp := &Space{P: p, Atoms: atoms, K: k}
	empty, _ := p.Build(nil)
	seen := map[[16]byte]bool{}
	k0 := keyOf(p.Observe(empty))
	seen[k0] = true
	sp.States = []State{{Seq: nil, Key: k0}}
	sp.LevelStart = []int{0}
	levelLo, levelHi := 0, 1
	for lvl := 1; lvl <= k; lvl++ {
		type cand struct {
			seq []uint16
			key [16]byte
		}
		n := levelHi - levelLo
		res := make([][]cand, n)
		ParallelFor(n, func(i int) {
			st := sp.States[levelLo+i]
			base := make([]*Atom, len(st.Seq), len(st.Seq)+1)
			for j, id := range st.Seq {
				base[j] = atoms[id]
			}
			var out []cand
			for ai, a := range atoms {
				seq := append(base, a)
				atomic.AddInt64(&sp.Transitions, 1)
				t, err := p.Build(seq)
				if err != nil {
					if err == ErrConflict {
						atomic.AddInt64(&sp.Conflicts, 1)
						continue
					}
					panic("builder: " + err.Error())
				}
				ns := make([]uint16, len(st.Seq)+1)
				copy(ns, st.Seq)
				ns[len(st.Seq)] = uint16(ai)
				out = append(out, cand{ns, keyOf(p.Observe(t))})
			}
			res[i] = out
		})
		sp.LevelStart = append(sp.LevelStart, len(sp.States))
		for _, cs := range res { // deterministic merge order: by parent index, then atom index
			for _, c := range cs {
				if !seen[c.key] {
					seen[c.key] = true
					sp.States = append(sp.States, State{Seq: c.seq, Key: c.key})
				}
			}
		}
		levelLo, levelHi = levelHi, len(sp.States)
		if levelLo == levelHi {
			break
		}
	}
	return sp
}

// SeqAtoms returns the atoms of a state.
func (sp *Space) SeqAtoms(st State) []*Atom {
	out := make([]*Atom, len(st.Seq))
	for i, id := range st.Seq {
		out[i] = sp.Atoms[id]
	}
	return out
}

// Build builds a fresh instance of the state.
func (sp *Space) Build(st State) interface{} {
	t, err := sp.P.Build(sp.SeqAtoms(st))
	if err != nil {
		panic("rebuild: " + err.Error())
	}
	return t
}

// SeqNames renders a state as the list of atom names (for samples and replays).
func (sp *Space) SeqNames(st State) []string {
	var out []string
	for _, a := range sp.SeqAtoms(st) {
		out = append(out, a.Name)
	}
	return out
}

// AtomsByName resolves atom names (from a replay file) in package p.
func (p *Pkg) AtomsByName(names []string) ([]*Atom, bool) {
	idx := map[string]*Atom{}
	for _, a := range p.Atoms() {
		idx[a.Name] = a
	}
	for _, a := range p.ExposedAtoms() {
		idx[a.Name] = a
	}
	var out []*Atom
	for _, n := range names {
		a, ok := idx[n]
		if !ok {
			return nil, false
		}
		out = append(out, a)
	}
	return out, true
}

// FocusAtoms returns the focused sub-alphabet (one atom family per field).
func FocusAtoms(atoms []*Atom) []*Atom {
	var out []*Atom
	for _, a := range atoms {
		if a.Focus {
			out = append(out, a)
		}
	}
	return out
}

// SortedStrings returns a sorted copy.
func SortedStrings(s []string) []string {
	o := append([]string(nil), s...)
	sort.Strings(o)
	return o
}
