package core

// protoparse-mini: an independent parser and descriptor-level validator for the proto3 subset that
// ygot's protogen emits (DESIGN.md 4.4). It is part of the trusted base of property C28 and is written
// from the protobuf language specification and the behaviour of protoc's parser/descriptor builder, not
// from protogen's templates:
//
//   - lexer: identifiers, integer / float literals, string literals with escapes (no line crossing),
//     // and /* */ comments, single-character symbols;
//   - parser: syntax, package, import, file options, message (nested messages, enums, fields with label,
//     type, name, number, [options]; oneof), enum (values with optional negative numbers and options),
//     extend blocks (needed to read the real yext.proto), reserved / extensions / map / group / service
//     are rejected as "outside the subset";
//   - statement dispatch follows protoc: inside a message a statement that STARTS with the token
//     message / enum / oneof / option / extend / reserved / extensions is that statement, whatever follows
//     (so a field whose type is spelt "message.Foo" is a syntax error exactly as for protoc);
//   - ValidateProtoSet: what protoc's descriptor builder enforces for a set of proto3 files compiled
//     together: one symbol per full name (fields, oneofs, nested types, enum values live in the scope that
//     encloses them), field numbers 1..2^29-1 outside 19000-19999 and distinct per message, distinct default
//     JSON names, enums non-empty / first value 0 / int32 numbers / distinct numbers / distinct names after
//     prefix stripping, relative type-name resolution (innermost scope first), imports present for every
//     foreign symbol, imports resolvable and not repeated, custom options resolvable to an imported
//     extension of the right options message with a value of the right kind.

import (
	"fmt"
	"sort"
	"strconv"
	"strings"
)

// ---------------------------------------------------------------------------------------------
// AST

// ProtoOption is one option: file level, field level or enum-value level.
type ProtoOption struct {
	Name     string // "go_package" or "(yext.schemapath)"
	Value    string // decoded string value, or the identifier / number text
	IsString bool
	Line     int
}

// ProtoField is a message field (also a member of a oneof: Oneof != "") or an extension field.
type ProtoField struct {
	Name    string
	Type    string
	Label   string // "", "repeated", "optional", "required"
	Oneof   string
	Number  int64
	Options []ProtoOption
	Line    int
}

// ProtoEnumValue is one value of an enum.
type ProtoEnumValue struct {
	Name    string
	Number  int64
	Options []ProtoOption
	Line    int
}

// ProtoEnum is an enum definition.
type ProtoEnum struct {
	Name    string
	Values  []*ProtoEnumValue
	Options []ProtoOption
	Line    int
}

// ProtoMessage is a message definition. Fields holds plain fields and oneof members in source order.
type ProtoMessage struct {
	Name     string
	Fields   []*ProtoField
	Oneofs   []string
	Messages []*ProtoMessage
	Enums    []*ProtoEnum
	Options  []ProtoOption
	Line     int
}

// ProtoExtend is an extend block.
type ProtoExtend struct {
	Extendee string
	Fields   []*ProtoField
	Line     int
}

// ProtoFile is a parsed .proto file. Path is the import path of the file (set by the caller).
type ProtoFile struct {
	Path     string
	Syntax   string
	Package  string
	Imports  []string
	Options  []ProtoOption
	Messages []*ProtoMessage
	Enums    []*ProtoEnum
	Extends  []*ProtoExtend
}

// ---------------------------------------------------------------------------------------------
// lexer

type ptokKind int

const (
	ptEOF ptokKind = iota
	ptIdent
	ptInt
	ptFloat
	ptString
	ptSym
)

type ptok struct {
	kind ptokKind
	text string // identifier, number text, decoded string, symbol
	line int
}

func isPLetter(c byte) bool { return c == '_' || (c >= 'a' && c <= 'z') || (c >= 'A' && c <= 'Z') }
func isPDigit(c byte) bool  { return c >= '0' && c <= '9' }
func isPHex(c byte) bool {
	return isPDigit(c) || (c >= 'a' && c <= 'f') || (c >= 'A' && c <= 'F')
}

func protoLex(src string) ([]ptok, error) {
	var toks []ptok
	line := 1
	i := 0
	n := len(src)
	for i < n {
		c := src[i]
		switch {
		case c == '\n':
			line++
			i++
		case c == ' ' || c == '\t' || c == '\r' || c == '\f' || c == '\v':
			i++
		case c == '/' && i+1 < n && src[i+1] == '/':
			for i < n && src[i] != '\n' {
				i++
			}
		case c == '/' && i+1 < n && src[i+1] == '*':
			j := strings.Index(src[i+2:], "*/")
			if j < 0 {
				return nil, fmt.Errorf("line %d: unterminated block comment", line)
			}
			line += strings.Count(src[i:i+2+j+2], "\n")
			i += 2 + j + 2
		case isPLetter(c):
			j := i
			for j < n && (isPLetter(src[j]) || isPDigit(src[j])) {
				j++
			}
			toks = append(toks, ptok{ptIdent, src[i:j], line})
			i = j
		case isPDigit(c):
			j := i
			kind := ptInt
			if c == '0' && j+1 < n && (src[j+1] == 'x' || src[j+1] == 'X') {
				j += 2
				k := j
				for j < n && isPHex(src[j]) {
					j++
				}
				if j == k {
					return nil, fmt.Errorf("line %d: \"0x\" must be followed by hex digits", line)
				}
			} else {
				for j < n && isPDigit(src[j]) {
					j++
				}
				if j < n && src[j] == '.' {
					kind = ptFloat
					j++
					for j < n && isPDigit(src[j]) {
						j++
					}
				}
				if j < n && (src[j] == 'e' || src[j] == 'E') {
					kind = ptFloat
					j++
					if j < n && (src[j] == '+' || src[j] == '-') {
						j++
					}
					k := j
					for j < n && isPDigit(src[j]) {
						j++
					}
					if j == k {
						return nil, fmt.Errorf("line %d: \"e\" must be followed by exponent", line)
					}
				}
			}
			if j < n && isPLetter(src[j]) {
				return nil, fmt.Errorf("line %d: need space between number and identifier", line)
			}
			toks = append(toks, ptok{kind, src[i:j], line})
			i = j
		case c == '"' || c == '\'':
			s, j, err := protoLexString(src, i, line)
			if err != nil {
				return nil, err
			}
			toks = append(toks, ptok{ptString, s, line})
			i = j
		case c < 0x20 || c >= 0x7f:
			return nil, fmt.Errorf("line %d: invalid character 0x%02x outside a string or comment", line, c)
		default:
			toks = append(toks, ptok{ptSym, string(c), line})
			i++
		}
	}
	toks = append(toks, ptok{ptEOF, "", line})
	return toks, nil
}

// protoLexString decodes the string literal starting at src[i] (a quote). Returns the value and the index after it.
func protoLexString(src string, i, line int) (string, int, error) {
	q := src[i]
	var b strings.Builder
	j := i + 1
	for {
		if j >= len(src) {
			return "", 0, fmt.Errorf("line %d: unterminated string literal", line)
		}
		c := src[j]
		switch {
		case c == q:
			return b.String(), j + 1, nil
		case c == '\n':
			return "", 0, fmt.Errorf("line %d: string literals cannot cross line boundaries", line)
		case c == 0:
			return "", 0, fmt.Errorf("line %d: NUL in string literal", line)
		case c == '\\':
			j++
			if j >= len(src) {
				return "", 0, fmt.Errorf("line %d: unterminated string literal", line)
			}
			e := src[j]
			switch e {
			case 'a':
				b.WriteByte(7)
			case 'b':
				b.WriteByte(8)
			case 'f':
				b.WriteByte(12)
			case 'n':
				b.WriteByte('\n')
			case 'r':
				b.WriteByte('\r')
			case 't':
				b.WriteByte('\t')
			case 'v':
				b.WriteByte(11)
			case '\\', '?', '\'', '"':
				b.WriteByte(e)
			case 'x', 'X':
				k := j + 1
				v := 0
				for k < len(src) && k < j+3 && isPHex(src[k]) {
					d, _ := strconv.ParseUint(src[k:k+1], 16, 8)
					v = v*16 + int(d)
					k++
				}
				if k == j+1 {
					return "", 0, fmt.Errorf("line %d: expected hex digits for escape sequence", line)
				}
				b.WriteByte(byte(v))
				j = k - 1
			case '0', '1', '2', '3', '4', '5', '6', '7':
				k := j
				v := 0
				for k < len(src) && k < j+3 && src[k] >= '0' && src[k] <= '7' {
					v = v*8 + int(src[k]-'0')
					k++
				}
				b.WriteByte(byte(v))
				j = k - 1
			case 'u', 'U':
				nd := 4
				if e == 'U' {
					nd = 8
				}
				if j+nd >= len(src) {
					return "", 0, fmt.Errorf("line %d: truncated unicode escape", line)
				}
				v, err := strconv.ParseUint(src[j+1:j+1+nd], 16, 32)
				if err != nil || v > 0x10ffff {
					return "", 0, fmt.Errorf("line %d: invalid unicode escape", line)
				}
				b.WriteRune(rune(v))
				j += nd
			default:
				return "", 0, fmt.Errorf("line %d: invalid escape sequence \\%c in string literal", line, e)
			}
			j++
		default:
			b.WriteByte(c)
			j++
		}
	}
}

// ---------------------------------------------------------------------------------------------
// parser

type protoParser struct {
	toks []ptok
	pos  int
}

func (p *protoParser) peek() ptok { return p.toks[p.pos] }
func (p *protoParser) next() ptok {
	t := p.toks[p.pos]
	if t.kind != ptEOF {
		p.pos++
	}
	return t
}
func (p *protoParser) atIdent(s string) bool {
	t := p.peek()
	return t.kind == ptIdent && t.text == s
}
func (p *protoParser) atSym(s string) bool {
	t := p.peek()
	return t.kind == ptSym && t.text == s
}
func (p *protoParser) tryIdent(s string) bool {
	if p.atIdent(s) {
		p.pos++
		return true
	}
	return false
}
func (p *protoParser) trySym(s string) bool {
	if p.atSym(s) {
		p.pos++
		return true
	}
	return false
}
func (p *protoParser) errf(t ptok, f string, a ...interface{}) error {
	got := t.text
	if t.kind == ptEOF {
		got = "<end of file>"
	} else if t.kind == ptString {
		got = strconv.Quote(t.text)
	}
	return fmt.Errorf("line %d: %s (at %s)", t.line, fmt.Sprintf(f, a...), got)
}
func (p *protoParser) expectSym(s string) error {
	if p.trySym(s) {
		return nil
	}
	return p.errf(p.peek(), "expected %q", s)
}
func (p *protoParser) ident(what string) (string, error) {
	t := p.peek()
	if t.kind != ptIdent {
		return "", p.errf(t, "expected %s", what)
	}
	p.pos++
	return t.text, nil
}

// fullIdent parses ident { "." ident }.
func (p *protoParser) fullIdent(what string) (string, error) {
	s, err := p.ident(what)
	if err != nil {
		return "", err
	}
	for p.atSym(".") {
		p.pos++
		t, err := p.ident("identifier after '.'")
		if err != nil {
			return "", err
		}
		s += "." + t
	}
	return s, nil
}

func parsePInt(t ptok) (uint64, error) {
	s := t.text
	var v uint64
	var err error
	switch {
	case strings.HasPrefix(s, "0x") || strings.HasPrefix(s, "0X"):
		v, err = strconv.ParseUint(s[2:], 16, 64)
	case len(s) > 1 && s[0] == '0':
		v, err = strconv.ParseUint(s[1:], 8, 64)
	default:
		v, err = strconv.ParseUint(s, 10, 64)
	}
	if err != nil {
		return 0, fmt.Errorf("line %d: integer %s out of range or malformed", t.line, s)
	}
	return v, nil
}

// ParseProto parses one proto3 source file of the subset described at the top of this file.
func ParseProto(src string) (*ProtoFile, error) {
	toks, err := protoLex(src)
	if err != nil {
		return nil, err
	}
	p := &protoParser{toks: toks}
	f := &ProtoFile{}
	first := true
	seenPkg := false
	for {
		t := p.peek()
		if t.kind == ptEOF {
			break
		}
		switch {
		case p.trySym(";"):
		case first && p.atIdent("syntax"):
			p.pos++
			if err := p.expectSym("="); err != nil {
				return nil, err
			}
			st := p.next()
			if st.kind != ptString {
				return nil, p.errf(st, "expected syntax identifier string")
			}
			f.Syntax = st.text
			if err := p.expectSym(";"); err != nil {
				return nil, err
			}
		case p.atIdent("syntax"):
			return nil, p.errf(t, "syntax statement must be the first statement")
		case p.atIdent("package"):
			p.pos++
			if seenPkg {
				return nil, p.errf(t, "multiple package definitions")
			}
			seenPkg = true
			n, err := p.fullIdent("package name")
			if err != nil {
				return nil, err
			}
			f.Package = n
			if err := p.expectSym(";"); err != nil {
				return nil, err
			}
		case p.atIdent("import"):
			p.pos++
			if p.atIdent("public") || p.atIdent("weak") {
				return nil, p.errf(p.peek(), "import modifiers are outside the subset")
			}
			st := p.next()
			if st.kind != ptString {
				return nil, p.errf(st, "expected a string naming the file to import")
			}
			f.Imports = append(f.Imports, st.text)
			if err := p.expectSym(";"); err != nil {
				return nil, err
			}
		case p.atIdent("option"):
			p.pos++
			o, err := p.optionBody()
			if err != nil {
				return nil, err
			}
			f.Options = append(f.Options, o)
			if err := p.expectSym(";"); err != nil {
				return nil, err
			}
		case p.atIdent("message"):
			m, err := p.message()
			if err != nil {
				return nil, err
			}
			f.Messages = append(f.Messages, m)
		case p.atIdent("enum"):
			e, err := p.enum()
			if err != nil {
				return nil, err
			}
			f.Enums = append(f.Enums, e)
		case p.atIdent("extend"):
			x, err := p.extend()
			if err != nil {
				return nil, err
			}
			f.Extends = append(f.Extends, x)
		case p.atIdent("service"):
			return nil, p.errf(t, "service definitions are outside the subset")
		default:
			return nil, p.errf(t, "expected top-level statement (e.g. \"message\")")
		}
		first = false
	}
	if f.Syntax == "" {
		return nil, fmt.Errorf("no syntax statement: the file would be read as proto2")
	}
	if f.Syntax != "proto3" {
		return nil, fmt.Errorf("syntax is %q, want proto3", f.Syntax)
	}
	return f, nil
}

// optionBody parses   name = constant   where name is ident or "(" fullIdent ")" followed by optional .ident parts.
func (p *protoParser) optionBody() (ProtoOption, error) {
	o := ProtoOption{Line: p.peek().line}
	var name string
	for {
		if p.trySym("(") {
			lead := ""
			if p.trySym(".") {
				lead = "."
			}
			n, err := p.fullIdent("extension name")
			if err != nil {
				return o, err
			}
			if err := p.expectSym(")"); err != nil {
				return o, err
			}
			name += "(" + lead + n + ")"
		} else {
			n, err := p.ident("option name")
			if err != nil {
				return o, err
			}
			name += n
		}
		if p.trySym(".") {
			name += "."
			continue
		}
		break
	}
	o.Name = name
	if err := p.expectSym("="); err != nil {
		return o, err
	}
	t := p.peek()
	switch {
	case t.kind == ptString:
		// adjacent string literals are concatenated
		for p.peek().kind == ptString {
			o.Value += p.next().text
		}
		o.IsString = true
	case t.kind == ptIdent:
		p.pos++
		o.Value = t.text
	case t.kind == ptInt || t.kind == ptFloat:
		p.pos++
		o.Value = t.text
	case t.kind == ptSym && (t.text == "-" || t.text == "+"):
		p.pos++
		u := p.next()
		if u.kind != ptInt && u.kind != ptFloat && !(u.kind == ptIdent && (u.text == "inf" || u.text == "nan")) {
			return o, p.errf(u, "expected number after sign")
		}
		o.Value = t.text + u.text
	case t.kind == ptSym && t.text == "{":
		return o, p.errf(t, "aggregate option values are outside the subset")
	default:
		return o, p.errf(t, "expected option value")
	}
	return o, nil
}

// fieldOptions parses an optional [ opt, opt ] list.
func (p *protoParser) fieldOptions() ([]ProtoOption, error) {
	if !p.trySym("[") {
		return nil, nil
	}
	var out []ProtoOption
	for {
		o, err := p.optionBody()
		if err != nil {
			return nil, err
		}
		out = append(out, o)
		if p.trySym(",") {
			continue
		}
		if err := p.expectSym("]"); err != nil {
			return nil, err
		}
		return out, nil
	}
}

func (p *protoParser) message() (*ProtoMessage, error) {
	t := p.next() // "message"
	m := &ProtoMessage{Line: t.line}
	n, err := p.ident("message name")
	if err != nil {
		return nil, err
	}
	m.Name = n
	if err := p.expectSym("{"); err != nil {
		return nil, err
	}
	for {
		t := p.peek()
		switch {
		case t.kind == ptEOF:
			return nil, p.errf(t, "reached end of input in message definition (missing '}')")
		case p.trySym("}"):
			return m, nil
		case p.trySym(";"):
		case p.atIdent("message"):
			c, err := p.message()
			if err != nil {
				return nil, err
			}
			m.Messages = append(m.Messages, c)
		case p.atIdent("enum"):
			e, err := p.enum()
			if err != nil {
				return nil, err
			}
			m.Enums = append(m.Enums, e)
		case p.atIdent("option"):
			p.pos++
			o, err := p.optionBody()
			if err != nil {
				return nil, err
			}
			m.Options = append(m.Options, o)
			if err := p.expectSym(";"); err != nil {
				return nil, err
			}
		case p.atIdent("oneof"):
			p.pos++
			on, err := p.ident("oneof name")
			if err != nil {
				return nil, err
			}
			if err := p.expectSym("{"); err != nil {
				return nil, err
			}
			m.Oneofs = append(m.Oneofs, on)
			members := 0
			for !p.trySym("}") {
				u := p.peek()
				if u.kind == ptEOF {
					return nil, p.errf(u, "reached end of input in oneof definition (missing '}')")
				}
				if p.atIdent("option") {
					return nil, p.errf(u, "oneof options are outside the subset")
				}
				if p.atIdent("required") || p.atIdent("optional") || p.atIdent("repeated") {
					return nil, p.errf(u, "fields in oneofs must not have labels")
				}
				f, err := p.field(false)
				if err != nil {
					return nil, err
				}
				f.Oneof = on
				m.Fields = append(m.Fields, f)
				members++
			}
			if members == 0 {
				return nil, p.errf(t, "oneof %s must have at least one field", on)
			}
		case p.atIdent("extend") || p.atIdent("extensions") || p.atIdent("reserved"):
			return nil, p.errf(t, "%s statements inside messages are outside the subset", t.text)
		default:
			f, err := p.field(true)
			if err != nil {
				return nil, err
			}
			m.Fields = append(m.Fields, f)
		}
	}
}

var protoScalarTypes = map[string]bool{
	"double": true, "float": true, "int32": true, "int64": true, "uint32": true, "uint64": true,
	"sint32": true, "sint64": true, "fixed32": true, "fixed64": true, "sfixed32": true, "sfixed64": true,
	"bool": true, "string": true, "bytes": true,
}

// field parses [label] type name = number [options] ;
func (p *protoParser) field(allowLabel bool) (*ProtoField, error) {
	f := &ProtoField{Line: p.peek().line}
	if allowLabel {
		for _, l := range []string{"repeated", "optional", "required"} {
			if p.atIdent(l) {
				// protoc takes the token as a label whenever it is one of the three label words
				p.pos++
				f.Label = l
				break
			}
		}
	}
	t := p.peek()
	switch {
	case t.kind == ptIdent && t.text == "group":
		return nil, p.errf(t, "groups are outside the subset")
	case t.kind == ptIdent && t.text == "map" && p.toks[p.pos+1].kind == ptSym && p.toks[p.pos+1].text == "<":
		return nil, p.errf(t, "map fields are outside the subset")
	case t.kind == ptSym && t.text == ".":
		p.pos++
		n, err := p.fullIdent("type name")
		if err != nil {
			return nil, err
		}
		f.Type = "." + n
	case t.kind == ptIdent && protoScalarTypes[t.text]:
		// protoc: a built-in type name is the whole type ("string.Foo x = 1" is a syntax error)
		p.pos++
		f.Type = t.text
	case t.kind == ptIdent:
		n, err := p.fullIdent("type name")
		if err != nil {
			return nil, err
		}
		f.Type = n
	default:
		return nil, p.errf(t, "expected type name")
	}
	n, err := p.ident("field name")
	if err != nil {
		return nil, err
	}
	f.Name = n
	if err := p.expectSym("="); err != nil {
		return nil, p.errf(p.peek(), "missing field number")
	}
	nt := p.next()
	if nt.kind != ptInt {
		return nil, p.errf(nt, "expected field number")
	}
	v, err := parsePInt(nt)
	if err != nil {
		return nil, err
	}
	if v > 1<<31-1 {
		return nil, p.errf(nt, "field number out of int32 range")
	}
	f.Number = int64(v)
	if f.Options, err = p.fieldOptions(); err != nil {
		return nil, err
	}
	if err := p.expectSym(";"); err != nil {
		return nil, err
	}
	return f, nil
}

func (p *protoParser) enum() (*ProtoEnum, error) {
	t := p.next() // "enum"
	e := &ProtoEnum{Line: t.line}
	n, err := p.ident("enum name")
	if err != nil {
		return nil, err
	}
	e.Name = n
	if err := p.expectSym("{"); err != nil {
		return nil, err
	}
	for {
		t := p.peek()
		switch {
		case t.kind == ptEOF:
			return nil, p.errf(t, "reached end of input in enum definition (missing '}')")
		case p.trySym("}"):
			return e, nil
		case p.trySym(";"):
		case p.atIdent("option"):
			p.pos++
			o, err := p.optionBody()
			if err != nil {
				return nil, err
			}
			e.Options = append(e.Options, o)
			if err := p.expectSym(";"); err != nil {
				return nil, err
			}
		case p.atIdent("reserved"):
			return nil, p.errf(t, "reserved statements are outside the subset")
		default:
			v := &ProtoEnumValue{Line: t.line}
			if v.Name, err = p.ident("enum constant name"); err != nil {
				return nil, err
			}
			if err := p.expectSym("="); err != nil {
				return nil, p.errf(p.peek(), "missing numeric value for enum constant")
			}
			neg := p.trySym("-")
			nt := p.next()
			if nt.kind != ptInt {
				return nil, p.errf(nt, "expected integer enum value")
			}
			u, err := parsePInt(nt)
			if err != nil {
				return nil, err
			}
			if u > 1<<62 {
				return nil, p.errf(nt, "enum value out of range")
			}
			v.Number = int64(u)
			if neg {
				v.Number = -v.Number
			}
			if v.Options, err = p.fieldOptions(); err != nil {
				return nil, err
			}
			if err := p.expectSym(";"); err != nil {
				return nil, err
			}
			e.Values = append(e.Values, v)
		}
	}
}

func (p *protoParser) extend() (*ProtoExtend, error) {
	t := p.next() // "extend"
	x := &ProtoExtend{Line: t.line}
	if p.trySym(".") {
		x.Extendee = "."
	}
	n, err := p.fullIdent("extendee type")
	if err != nil {
		return nil, err
	}
	x.Extendee += n
	if err := p.expectSym("{"); err != nil {
		return nil, err
	}
	for !p.trySym("}") {
		if p.peek().kind == ptEOF {
			return nil, p.errf(p.peek(), "reached end of input in extend block")
		}
		if p.trySym(";") {
			continue
		}
		f, err := p.field(true)
		if err != nil {
			return nil, err
		}
		x.Fields = append(x.Fields, f)
	}
	return x, nil
}

// ---------------------------------------------------------------------------------------------
// helpers for checks that compare two generations

// ProtoFieldRef names a field by the full name of its message and its own name.
type ProtoFieldRef struct {
	Message string
	Field   string
}

// FieldNumbers returns message-full-name/field-name -> number for every field of the file.
func (f *ProtoFile) FieldNumbers() map[ProtoFieldRef]int64 {
	out := map[ProtoFieldRef]int64{}
	var walk func(prefix string, m *ProtoMessage)
	walk = func(prefix string, m *ProtoMessage) {
		full := joinProto(prefix, m.Name)
		for _, fd := range m.Fields {
			out[ProtoFieldRef{full, fd.Name}] = fd.Number
		}
		for _, c := range m.Messages {
			walk(full, c)
		}
	}
	for _, m := range f.Messages {
		walk(f.Package, m)
	}
	return out
}

// EnumNumbers returns enum-full-name/value-name -> number for every enum value of the file.
func (f *ProtoFile) EnumNumbers() map[ProtoFieldRef]int64 {
	out := map[ProtoFieldRef]int64{}
	add := func(prefix string, e *ProtoEnum) {
		full := joinProto(prefix, e.Name)
		for _, v := range e.Values {
			out[ProtoFieldRef{full, v.Name}] = v.Number
		}
	}
	var walk func(prefix string, m *ProtoMessage)
	walk = func(prefix string, m *ProtoMessage) {
		full := joinProto(prefix, m.Name)
		for _, e := range m.Enums {
			add(full, e)
		}
		for _, c := range m.Messages {
			walk(full, c)
		}
	}
	for _, e := range f.Enums {
		add(f.Package, e)
	}
	for _, m := range f.Messages {
		walk(f.Package, m)
	}
	return out
}

// Counts returns the numbers of messages, fields, enums and enum values in the file.
func (f *ProtoFile) Counts() (msgs, fields, enums, values int) {
	var walk func(m *ProtoMessage)
	walk = func(m *ProtoMessage) {
		msgs++
		fields += len(m.Fields)
		for _, e := range m.Enums {
			enums++
			values += len(e.Values)
		}
		for _, c := range m.Messages {
			walk(c)
		}
	}
	for _, m := range f.Messages {
		walk(m)
	}
	for _, e := range f.Enums {
		enums++
		values += len(e.Values)
	}
	return
}

func joinProto(a, b string) string {
	if a == "" {
		return b
	}
	return a + "." + b
}

// ---------------------------------------------------------------------------------------------
// descriptor-level validation of a set of files compiled together

// ProtoIssue is one well-formedness defect found by ValidateProtoSet.
type ProtoIssue struct {
	Clause string // stable short name of the rule that is broken
	File   string
	Where  string // full name of the message / enum / field concerned
	Detail string
}

func (i ProtoIssue) String() string {
	return fmt.Sprintf("%s: %s [%s] %s", i.Clause, i.Where, i.File, i.Detail)
}

type psym struct {
	kind string // package | message | enum | enumvalue | field | oneof | extension
	file *ProtoFile
	msg  *ProtoMessage // enclosing message for field/oneof
	enum *ProtoEnum    // enclosing enum for enumvalue
	fld  *ProtoField   // extension field
	ext  *ProtoExtend
}

// Proto field number limits (language guide "Assigning Field Numbers").
const (
	ProtoMaxFieldNumber     = 1<<29 - 1
	ProtoReservedFieldFirst = 19000
	ProtoReservedFieldLast  = 19999
)

// ProtoJSONName is protoc's default JSON name: underscores removed, the following letter upper-cased.
func ProtoJSONName(n string) string {
	var b strings.Builder
	up := false
	for i := 0; i < len(n); i++ {
		c := n[i]
		switch {
		case c == '_':
			up = true
		case up:
			if c >= 'a' && c <= 'z' {
				c -= 32
			}
			b.WriteByte(c)
			up = false
		default:
			b.WriteByte(c)
		}
	}
	return b.String()
}

// protoEnumStripped mirrors protoc's CheckEnumValueUniqueness: the enum-name prefix is removed from the value name
// (ignoring case and underscores) and the rest is converted to PascalCase.
func protoEnumStripped(enumName, value string) string {
	prefix := strings.ToLower(strings.ReplaceAll(enumName, "_", ""))
	rest := value
	i, j := 0, 0
	for i < len(value) && j < len(prefix) {
		if value[i] == '_' {
			i++
			continue
		}
		c := value[i]
		if c >= 'A' && c <= 'Z' {
			c += 32
		}
		if c != prefix[j] {
			break
		}
		i++
		j++
	}
	if j == len(prefix) {
		for i < len(value) && value[i] == '_' {
			i++
		}
		if i < len(value) {
			rest = value[i:]
		}
	}
	var b strings.Builder
	up := true
	for k := 0; k < len(rest); k++ {
		c := rest[k]
		if c == '_' {
			up = true
			continue
		}
		if up {
			if c >= 'a' && c <= 'z' {
				c -= 32
			}
			up = false
		} else if c >= 'A' && c <= 'Z' {
			c += 32
		}
		b.WriteByte(c)
	}
	return b.String()
}

// ValidateProtoSet checks the files (compiled together, as protoc would be given them) against the rules
// listed at the top of this file. externals are files that exist but are not themselves judged (ywrapper,
// yext, google/protobuf/*); every file must have Path set to its import path.
func ValidateProtoSet(files, externals []*ProtoFile) []ProtoIssue {
	var issues []ProtoIssue
	add := func(clause string, f *ProtoFile, where, detail string) {
		issues = append(issues, ProtoIssue{Clause: clause, File: f.Path, Where: where, Detail: detail})
	}
	syms := map[string]*psym{}
	byPath := map[string]*ProtoFile{}
	judged := map[*ProtoFile]bool{}

	define := func(full string, s *psym) {
		old := syms[full]
		if old == nil {
			syms[full] = s
			return
		}
		if old.kind == "package" && s.kind == "package" {
			return
		}
		if !judged[s.file] && !judged[old.file] {
			return
		}
		f := s.file
		switch {
		case old.kind == "field" && s.kind == "field" && old.msg == s.msg:
			add("dup-field-name", f, full, "two fields of the message have this name")
		case old.kind == "enumvalue" && s.kind == "enumvalue" && old.enum == s.enum:
			add("dup-enum-value-name", f, full, "two values of the enum have this name")
		case (old.kind == "field" || old.kind == "oneof") && (s.kind == "field" || s.kind == "oneof") && old.msg == s.msg:
			add("dup-field-name", f, full, fmt.Sprintf("a %s and a %s of the message have this name", old.kind, s.kind))
		default:
			add("symbol-conflict", f, full, fmt.Sprintf("defined as %s (%s) and as %s (%s)", old.kind, old.file.Path, s.kind, s.file.Path))
		}
		// keep a type in the table in preference to a non-type, so that the conflict (reported once, above) does not
		// come back as unresolved type names
		if (s.kind == "message" || s.kind == "enum") && !(old.kind == "message" || old.kind == "enum") {
			syms[full] = s
		}
	}

	var defMsg func(f *ProtoFile, prefix string, m *ProtoMessage)
	defEnum := func(f *ProtoFile, prefix string, e *ProtoEnum) {
		define(joinProto(prefix, e.Name), &psym{kind: "enum", file: f, enum: e})
		for _, v := range e.Values {
			// enum values are siblings of their type, not children of it
			define(joinProto(prefix, v.Name), &psym{kind: "enumvalue", file: f, enum: e})
		}
	}
	defMsg = func(f *ProtoFile, prefix string, m *ProtoMessage) {
		full := joinProto(prefix, m.Name)
		define(full, &psym{kind: "message", file: f, msg: m})
		for _, on := range m.Oneofs {
			define(joinProto(full, on), &psym{kind: "oneof", file: f, msg: m})
		}
		for _, fd := range m.Fields {
			define(joinProto(full, fd.Name), &psym{kind: "field", file: f, msg: m})
		}
		for _, e := range m.Enums {
			defEnum(f, full, e)
		}
		for _, c := range m.Messages {
			defMsg(f, full, c)
		}
	}
	defFile := func(f *ProtoFile) {
		if f.Package != "" {
			parts := strings.Split(f.Package, ".")
			for i := range parts {
				define(strings.Join(parts[:i+1], "."), &psym{kind: "package", file: f})
			}
		}
		for _, m := range f.Messages {
			defMsg(f, f.Package, m)
		}
		for _, e := range f.Enums {
			defEnum(f, f.Package, e)
		}
		for _, x := range f.Extends {
			for _, fd := range x.Fields {
				define(joinProto(f.Package, fd.Name), &psym{kind: "extension", file: f, fld: fd, ext: x})
			}
		}
	}
	for _, f := range files {
		judged[f] = true
	}
	for _, f := range externals {
		if byPath[f.Path] == nil {
			byPath[f.Path] = f
		}
		defFile(f)
	}
	for _, f := range files {
		if old := byPath[f.Path]; old != nil {
			add("file-path-conflict", f, f.Path, "two generated files have the same path")
		}
		byPath[f.Path] = f
		defFile(f)
	}

	// lookup mirrors protoc's DescriptorBuilder::LookupSymbolNoPlaceholder.
	isAggregate := func(s *psym) bool { return s.kind == "message" || s.kind == "enum" || s.kind == "package" }
	isType := func(s *psym) bool { return s.kind == "message" || s.kind == "enum" }
	lookup := func(name, relativeTo string, typesOnly bool) (*psym, string) {
		if strings.HasPrefix(name, ".") {
			return syms[name[1:]], name[1:]
		}
		first := name
		if i := strings.IndexByte(name, '.'); i >= 0 {
			first = name[:i]
		}
		scope := relativeTo
		for {
			i := strings.LastIndexByte(scope, '.')
			if i < 0 {
				return syms[name], name
			}
			scope = scope[:i]
			cand := scope + "." + first
			if s := syms[cand]; s != nil {
				if first != name {
					if isAggregate(s) {
						full := scope + "." + name
						return syms[full], full
					}
				} else {
					if !typesOnly || isType(s) {
						return s, cand
					}
				}
			}
		}
	}
	visible := func(f *ProtoFile, s *psym) bool {
		if s.file == f || s.kind == "package" {
			return true
		}
		for _, imp := range f.Imports {
			if byPath[imp] == s.file {
				return true
			}
		}
		return false
	}

	checkOptions := func(f *ProtoFile, scopeName, where string, opts []ProtoOption, target string) {
		for _, o := range opts {
			if !strings.HasPrefix(o.Name, "(") {
				continue // built-in option names are not judged
			}
			end := strings.IndexByte(o.Name, ')')
			if end < 0 || end != len(o.Name)-1 {
				continue // sub-field access of an extension: outside what protogen emits, not judged
			}
			ext := o.Name[1:end]
			s, full := lookup(ext, scopeName, false)
			switch {
			case s == nil:
				add("option-unresolved", f, where, fmt.Sprintf("option %s is not defined by this file or a file it imports", o.Name))
				continue
			case s.kind != "extension":
				add("option-unresolved", f, where, fmt.Sprintf("option %s resolves to %s, a %s", o.Name, full, s.kind))
				continue
			case !visible(f, s):
				add("option-not-imported", f, where, fmt.Sprintf("option %s is defined in %s, which the file does not import", o.Name, s.file.Path))
				continue
			}
			if !strings.HasSuffix(s.ext.Extendee, target) {
				add("option-wrong-target", f, where, fmt.Sprintf("option %s extends %s, used on %s", o.Name, s.ext.Extendee, target))
			}
			switch s.fld.Type {
			case "string", "bytes":
				if !o.IsString {
					add("option-value-type", f, where, fmt.Sprintf("option %s wants a string, got %s", o.Name, o.Value))
				}
			case "bool":
				if o.IsString || (o.Value != "true" && o.Value != "false") {
					add("option-value-type", f, where, fmt.Sprintf("option %s wants true/false, got %q", o.Name, o.Value))
				}
			}
		}
	}

	checkEnum := func(f *ProtoFile, prefix string, e *ProtoEnum) {
		full := joinProto(prefix, e.Name)
		if len(e.Values) == 0 {
			add("enum-empty", f, full, "enums must contain at least one value")
			return
		}
		if e.Values[0].Number != 0 {
			add("enum-first-nonzero", f, full, fmt.Sprintf("the first enum value must be zero in proto3, got %s = %d", e.Values[0].Name, e.Values[0].Number))
		}
		nums := map[int64]string{}
		stripped := map[string]*ProtoEnumValue{}
		for _, v := range e.Values {
			if v.Number < -(1<<31) || v.Number > 1<<31-1 {
				add("enum-number-out-of-range", f, full, fmt.Sprintf("%s = %d does not fit int32", v.Name, v.Number))
			}
			if o, ok := nums[v.Number]; ok && o != v.Name {
				add("dup-enum-number", f, full, fmt.Sprintf("%s and %s both use number %d", o, v.Name, v.Number))
			} else {
				nums[v.Number] = v.Name
			}
			st := protoEnumStripped(e.Name, v.Name)
			if o := stripped[st]; o != nil && o.Name != v.Name && o.Number != v.Number {
				add("enum-value-case-conflict", f, full, fmt.Sprintf("%s and %s are the same name (%s) once case and the enum-name prefix are ignored", o.Name, v.Name, st))
			} else if o == nil {
				stripped[st] = v
			}
			checkOptions(f, joinProto(prefix, v.Name), joinProto(full, v.Name), v.Options, "EnumValueOptions")
		}
	}

	var checkMsg func(f *ProtoFile, prefix string, m *ProtoMessage)
	checkMsg = func(f *ProtoFile, prefix string, m *ProtoMessage) {
		full := joinProto(prefix, m.Name)
		nums := map[int64]string{}
		json := map[string]string{}
		for _, fd := range m.Fields {
			where := joinProto(full, fd.Name)
			switch {
			case fd.Number == 0:
				add("field-number-zero", f, where, "field numbers must be positive integers")
			case fd.Number < 0 || fd.Number > ProtoMaxFieldNumber:
				add("field-number-out-of-range", f, where, fmt.Sprintf("field number %d is outside 1..%d", fd.Number, ProtoMaxFieldNumber))
			case fd.Number >= ProtoReservedFieldFirst && fd.Number <= ProtoReservedFieldLast:
				add("field-number-reserved", f, where, fmt.Sprintf("field number %d is in the range 19000-19999 reserved for the protobuf implementation", fd.Number))
			}
			if o, ok := nums[fd.Number]; ok {
				add("dup-field-number", f, where, fmt.Sprintf("field number %d has already been used by field %s", fd.Number, o))
			} else {
				nums[fd.Number] = fd.Name
			}
			jn := ProtoJSONName(fd.Name)
			if o, ok := json[jn]; ok && o != fd.Name {
				add("json-name-conflict", f, where, fmt.Sprintf("the default JSON name %q is also that of field %s", jn, o))
			} else if !ok {
				json[jn] = fd.Name
			}
			if fd.Label == "required" {
				add("label-required", f, where, "required fields are not allowed in proto3")
			}
			if !protoScalarTypes[fd.Type] {
				s, fullT := lookup(fd.Type, where, true)
				switch {
				case s == nil:
					add("type-unresolved", f, where, fmt.Sprintf("type %q is not defined (resolved from this scope to %q)", fd.Type, fullT))
				case !isType(s):
					add("type-unresolved", f, where, fmt.Sprintf("type %q resolves to %s, which is a %s", fd.Type, fullT, s.kind))
				case !visible(f, s):
					add("type-not-imported", f, where, fmt.Sprintf("type %q is defined in %s, which the file does not import", fd.Type, s.file.Path))
				}
			}
			checkOptions(f, where, where, fd.Options, "FieldOptions")
		}
		for _, e := range m.Enums {
			checkEnum(f, full, e)
		}
		for _, c := range m.Messages {
			checkMsg(f, full, c)
		}
	}

	for _, f := range files {
		seen := map[string]bool{}
		for _, imp := range f.Imports {
			if seen[imp] {
				add("import-duplicate", f, imp, "the import is listed twice")
			}
			seen[imp] = true
			if byPath[imp] == nil {
				add("import-unresolved", f, imp, "no generated or well-known file has this path")
			} else if byPath[imp] == f {
				add("import-self", f, imp, "the file imports itself")
			}
		}
		for _, m := range f.Messages {
			checkMsg(f, f.Package, m)
		}
		for _, e := range f.Enums {
			checkEnum(f, f.Package, e)
		}
	}
	sort.SliceStable(issues, func(i, j int) bool {
		if issues[i].Clause != issues[j].Clause {
			return issues[i].Clause < issues[j].Clause
		}
		if issues[i].File != issues[j].File {
			return issues[i].File < issues[j].File
		}
		return issues[i].Where < issues[j].Where
	})
	return issues
}
