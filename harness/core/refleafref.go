package core

// refleafref: the independent evaluator of the leafref XPath subset (DESIGN.md section 4.4) used
// by property C30. Written from RFC 7950 section 9.9 (leafref) and the XPath 1.0 semantics of the
// path-arg grammar of section 9.9.2:
//
//	path-arg        = absolute-path / relative-path
//	absolute-path   = 1*("/" (node-identifier *path-predicate))
//	relative-path   = 1*("../") descendant-path
//	path-predicate  = "[" key-name "=" "current()" 1*("/" "..") 1*("/" node-identifier) "]"
//
// A leafref leaf is satisfied iff its value equals the value of some node in the node set the path
// selects, evaluated with the leafref leaf as context node and as current(). The evaluator works on
// the reference Model only (paths and canonical values); it never calls ygot.

import (
	"fmt"
	"sort"
	"strings"

	"github.com/openconfig/goyang/pkg/yang"
)

// LeafrefPred is one key predicate: [Key = current()/Rel].
type LeafrefPred struct {
	Key string
	Rel []LeafrefStep
}

// LeafrefStep is one step of a leafref path: ".." or a child name with predicates.
type LeafrefStep struct {
	Up    bool
	Name  string
	Preds []LeafrefPred
}

func stripPrefix(s string) string {
	s = strings.TrimSpace(s)
	if i := strings.Index(s, ":"); i >= 0 {
		return s[i+1:]
	}
	return s
}

// splitOutside splits s at sep where not inside [...].
func splitOutside(s string, sep byte) []string {
	var out []string
	depth, start := 0, 0
	for i := 0; i < len(s); i++ {
		switch s[i] {
		case '[':
			depth++
		case ']':
			depth--
		default:
			if s[i] == sep && depth == 0 {
				out = append(out, s[start:i])
				start = i + 1
			}
		}
	}
	return append(out, s[start:])
}

func parseSteps(parts []string, allowPreds bool) ([]LeafrefStep, error) {
	var steps []LeafrefStep
	for _, part := range parts {
		part = strings.TrimSpace(part)
		if part == "" {
			return nil, fmt.Errorf("empty step")
		}
		if part == ".." {
			steps = append(steps, LeafrefStep{Up: true})
			continue
		}
		st := LeafrefStep{}
		name := part
		if i := strings.Index(part, "["); i >= 0 {
			name = part[:i]
			rest := part[i:]
			for rest != "" {
				if rest[0] != '[' {
					return nil, fmt.Errorf("junk after predicate in %q", part)
				}
				j := strings.Index(rest, "]")
				if j < 0 {
					return nil, fmt.Errorf("unterminated predicate in %q", part)
				}
				body := rest[1:j]
				rest = strings.TrimSpace(rest[j+1:])
				if !allowPreds {
					return nil, fmt.Errorf("predicate inside a predicate")
				}
				eq := strings.Index(body, "=")
				if eq < 0 {
					return nil, fmt.Errorf("predicate without '=' in %q", part)
				}
				rhs := strings.TrimSpace(body[eq+1:])
				rhs = strings.Join(strings.Fields(rhs), "")
				if !strings.HasPrefix(rhs, "current()/") {
					return nil, fmt.Errorf("predicate value %q is not a current()/ path", rhs)
				}
				rel, err := parseSteps(strings.Split(strings.TrimPrefix(rhs, "current()/"), "/"), false)
				if err != nil {
					return nil, err
				}
				st.Preds = append(st.Preds, LeafrefPred{Key: stripPrefix(body[:eq]), Rel: rel})
			}
		}
		st.Name = stripPrefix(name)
		steps = append(steps, st)
	}
	return steps, nil
}

// ParseLeafrefPath parses a leafref path argument.
func ParseLeafrefPath(expr string) (abs bool, steps []LeafrefStep, err error) {
	expr = strings.TrimSpace(expr)
	if expr == "" {
		return false, nil, fmt.Errorf("empty leafref path")
	}
	if strings.HasPrefix(expr, "/") {
		abs, expr = true, expr[1:]
	}
	steps, err = parseSteps(splitOutside(expr, '/'), true)
	return abs, steps, err
}

func samePath(a, b Path) bool {
	if len(a) != len(b) {
		return false
	}
	for i := range a {
		if a[i].Name != b[i].Name || len(a[i].Keys) != len(b[i].Keys) {
			return false
		}
		for j := range a[i].Keys {
			if a[i].Keys[j] != b[i].Keys[j] {
				return false
			}
		}
	}
	return true
}

// leafValues returns the values of the leaf / leaf-list instance at p (nil when it does not exist).
func leafValues(m *Model, p Path) []Value {
	v, ok := m.Leaves[p.String()]
	if !ok {
		return nil
	}
	if v.IsLL() {
		return v.Elems()
	}
	return []Value{v}
}

// evalSteps evaluates steps from the context nodes; cur is the current() node. It returns the
// selected nodes as paths (leaf instances are not checked for existence here).
func evalSteps(m *Model, entries []Path, ctx []Path, atRoot bool, steps []LeafrefStep, cur Path) ([]Path, error) {
	for _, st := range steps {
		var next []Path
		if st.Up {
			for _, c := range ctx {
				if len(c) == 0 {
					return nil, fmt.Errorf("'..' above the root")
				}
				next = append(next, c[:len(c)-1])
			}
			ctx = dedupPaths(next)
			continue
		}
		// the values each predicate compares the key with
		var predVals [][]Value
		for _, pr := range st.Preds {
			sel, err := evalSteps(m, entries, []Path{cur}, false, pr.Rel, cur)
			if err != nil {
				return nil, err
			}
			var vs []Value
			for _, sp := range sel {
				vs = append(vs, leafValues(m, sp)...)
			}
			predVals = append(predVals, vs)
		}
		for _, c := range ctx {
			// list entries named st.Name directly below c
			for _, e := range entries {
				if len(e) != len(c)+1 || e[len(c)].Name != st.Name || !samePath(e[:len(c)], c) {
					continue
				}
				ok := true
				for pi, pr := range st.Preds {
					// XPath: key = node-set is true iff some node of the set has the key's value
					kv := leafValues(m, e.Names(pr.Key))
					hit := false
					for _, k := range kv {
						for _, v := range predVals[pi] {
							if k == v {
								hit = true
							}
						}
					}
					if !hit {
						ok = false
					}
				}
				if ok {
					next = append(next, e)
				}
			}
			// a container, leaf or leaf-list named st.Name below c (a predicate never holds for them)
			if len(st.Preds) == 0 {
				next = append(next, c.Names(st.Name))
			}
		}
		ctx = dedupPaths(next)
	}
	return ctx, nil
}

func dedupPaths(ps []Path) []Path {
	seen := map[string]bool{}
	var out []Path
	for _, p := range ps {
		s := p.String()
		if !seen[s] {
			seen[s] = true
			out = append(out, p)
		}
	}
	return out
}

// LeafrefTargetValues returns the values of the node set the leafref path expr selects for the
// leafref leaf instance at leaf.
func LeafrefTargetValues(m *Model, leaf Path, expr string) ([]Value, error) {
	abs, steps, err := ParseLeafrefPath(expr)
	if err != nil {
		return nil, err
	}
	var entries []Path
	for k := range m.Entries {
		entries = append(entries, m.Paths[k])
	}
	sort.Slice(entries, func(i, j int) bool { return entries[i].String() < entries[j].String() })
	ctx := []Path{leaf}
	if abs {
		ctx = []Path{{}}
	}
	nodes, err := evalSteps(m, entries, ctx, abs, steps, leaf)
	if err != nil {
		return nil, err
	}
	var out []Value
	for _, n := range nodes {
		out = append(out, leafValues(m, n)...)
	}
	return out, nil
}

// Dangling is one leafref value without a matching target node.
type Dangling struct {
	Leaf     string // path of the leafref leaf instance
	Expr     string
	Val      Value
	LeafList bool    // the referencing node is a leaf-list
	Targets  []Value // what the path selected
}

// LeafrefFacts is the verdict of the reference for one tree.
type LeafrefFacts struct {
	Checked  int // leafref values evaluated
	Skipped  int // leafref leaves left out by the caller's skip function
	Dangling []Dangling
	Errs     []string // leafref leaves the reference could not evaluate
}

// EvalLeafrefs evaluates every leafref leaf and leaf-list instance of the model against schema s.
// skip (may be nil) names leafref leaves that are not to be judged.
func (s *RsSchema) EvalLeafrefs(m *Model, skip func(p Path, e *yang.Entry) bool) LeafrefFacts {
	var f LeafrefFacts
	for _, k := range SortedKeys(m.Leaves) {
		p := m.Paths[k]
		e := s.FindPath(p)
		if e == nil {
			f.Errs = append(f.Errs, "no schema node for "+k)
			continue
		}
		if e.Type == nil || e.Type.Kind != yang.Yleafref {
			continue
		}
		if skip != nil && skip(p, e) {
			f.Skipped++
			continue
		}
		targets, err := LeafrefTargetValues(m, p, e.Type.Path)
		if err != nil {
			f.Errs = append(f.Errs, k+": "+err.Error())
			continue
		}
		for _, v := range leafValues(m, p) {
			f.Checked++
			found := false
			for _, t := range targets {
				if t == v {
					found = true
				}
			}
			if !found {
				f.Dangling = append(f.Dangling, Dangling{Leaf: k, Expr: e.Type.Path, Val: v, LeafList: e.ListAttr != nil, Targets: targets})
			}
		}
	}
	return f
}
