package core

import (
	"fmt"
	"math/big"
	"reflect"
	"regexp"
	"strconv"
	"strings"
	"unicode/utf8"

	"github.com/openconfig/goyang/pkg/yang"
)

// Step is one move down the generated struct tree.
type Step struct {
	Field string  `json:"f"`
	Key   []Value `json:"k,omitempty"` // keyed / ordered list: key tuple in schema key order
	Elem  bool    `json:"e,omitempty"` // unkeyed list: append a new element and continue inside it
}

// Atom is one element of the operation alphabet for building trees: "make this node exist
// (with this value)".
type Atom struct {
	ID        int         `json:"id"`
	Steps     []Step      `json:"steps"`
	Val       Value       `json:"val,omitempty"`
	Kind      string      `json:"kind"` // leaf leaflist entry presence unkeyed
	Name      string      `json:"name"`
	Choice    string      `json:"choice,omitempty"` // "<choice>/<case>" when the leaf sits in a choice
	ChoiceKey string      `json:"-"`                // identifies the choice instance (owning struct steps + choice name)
	Case      string      `json:"-"`                // case name within ChoiceKey
	Nested    bool        `json:"nested,omitempty"`
	Focus     bool        `json:"focus,omitempty"`
	Config    bool        `json:"config"`        // schema node is config true
	Ord       bool        `json:"ord,omitempty"` // touches an ordered-by-user list (order sensitive)
	Path      Path        `json:"-"`             // data-tree path of the node the atom creates (first tag alternative)
	Entry     *yang.Entry `json:"-"`
}

// ---- schema navigation -------------------------------------------------------------------

// FindChild resolves a relative data-tree path below e, looking through choice/case nodes.
// It returns the entry and the "<choice>/<case>" it passed through, if any.
func FindChild(e *yang.Entry, names []string) (*yang.Entry, string) {
	choice := ""
	cur := e
	for _, n := range names {
		nxt, ch := findOne(cur, n, "")
		if nxt == nil {
			return nil, ""
		}
		if ch != "" {
			choice = ch
		}
		cur = nxt
	}
	return cur, choice
}

func findOne(e *yang.Entry, name, via string) (*yang.Entry, string) {
	if e == nil {
		return nil, ""
	}
	if c, ok := e.Dir[name]; ok && !c.IsChoice() && !c.IsCase() {
		return c, via
	}
	for _, cn := range sortedDir(e) {
		c := e.Dir[cn]
		if c.IsChoice() {
			for _, kn := range sortedDir(c) {
				k := c.Dir[kn]
				v := c.Name + "/" + kn
				if k.IsCase() {
					if r, ch := findOne(k, name, v); r != nil {
						return r, ch
					}
				} else if kn == name { // shorthand case
					return k, v
				}
			}
		}
	}
	return nil, ""
}

func sortedDir(e *yang.Entry) []string {
	out := make([]string, 0, len(e.Dir))
	for k := range e.Dir {
		out = append(out, k)
	}
	sortStrings(out)
	return out
}

func sortStrings(s []string) {
	for i := 1; i < len(s); i++ {
		for j := i; j > 0 && s[j] < s[j-1]; j-- {
			s[j], s[j-1] = s[j-1], s[j]
		}
	}
}

// ResolveLeafref follows leafref types to the target leaf's type (best effort, relative and absolute paths).
func ResolveLeafref(e *yang.Entry) *yang.YangType {
	seen := 0
	for e != nil && e.Type != nil && e.Type.Kind == yang.Yleafref && seen < 8 {
		seen++
		t := leafrefTarget(e)
		if t == nil {
			return nil
		}
		e = t
	}
	if e == nil {
		return nil
	}
	return e.Type
}

func leafrefTarget(e *yang.Entry) *yang.Entry {
	path := e.Type.Path
	cur := e
	if strings.HasPrefix(path, "/") {
		for cur.Parent != nil {
			cur = cur.Parent
		}
	}
	for _, part := range strings.Split(path, "/") {
		if part == "" {
			continue
		}
		if i := strings.Index(part, "["); i >= 0 {
			part = part[:i]
		}
		if part == ".." {
			cur = cur.Parent
			for cur != nil && (cur.IsChoice() || cur.IsCase()) {
				cur = cur.Parent
			}
		} else {
			if i := strings.Index(part, ":"); i >= 0 {
				part = part[i+1:]
			}
			nxt, _ := findOne(cur, part, "")
			if nxt == nil && cur.Parent == nil {
				// absolute path starting at a module-level node: the fake root holds them directly
				return nil
			}
			cur = nxt
		}
		if cur == nil {
			return nil
		}
	}
	return cur
}

// ---- numeric helpers ----------------------------------------------------------------------

// NumRat converts a yang.Number to an exact rational.
func NumRat(n yang.Number) *big.Rat {
	r := new(big.Rat).SetInt(new(big.Int).SetUint64(n.Value))
	if n.FractionDigits > 0 {
		d := new(big.Int).Exp(big.NewInt(10), big.NewInt(int64(n.FractionDigits)), nil)
		r.Quo(r, new(big.Rat).SetInt(d))
	}
	if n.Negative {
		r.Neg(r)
	}
	return r
}

// InRanges reports whether x lies in the union of the range parts (empty range = unrestricted).
func InRanges(rs yang.YangRange, x *big.Rat) bool {
	if len(rs) == 0 {
		return true
	}
	for _, r := range rs {
		if x.Cmp(NumRat(r.Min)) >= 0 && x.Cmp(NumRat(r.Max)) <= 0 {
			return true
		}
	}
	return false
}

// ValueRat returns the exact rational denoted by a numeric Value.
func ValueRat(v Value) (*big.Rat, bool) {
	r, ok := new(big.Rat).SetString(v.Payload())
	return r, ok
}

// ---- value domains ------------------------------------------------------------------------

func intDomain(bits int, signed bool, rng yang.YangRange) []Value {
	var cands []string
	if signed {
		min := new(big.Int).Neg(new(big.Int).Lsh(big.NewInt(1), uint(bits-1)))
		max := new(big.Int).Sub(new(big.Int).Lsh(big.NewInt(1), uint(bits-1)), big.NewInt(1))
		cands = []string{"1", "0", "-1", "-5", max.String(), min.String()}
	} else {
		max := new(big.Int).Sub(new(big.Int).Lsh(big.NewInt(1), uint(bits)), big.NewInt(1))
		cands = []string{"1", "0", "200", max.String()}
		if bits > 8 {
			cands = []string{"1", "0", "200", "1500", max.String()}
		}
	}
	for _, r := range rng {
		cands = append(cands, NumRat(r.Min).RatString(), NumRat(r.Max).RatString())
	}
	tag := fmt.Sprintf("u%d:", bits)
	if signed {
		tag = fmt.Sprintf("i%d:", bits)
	}
	var out []Value
	seen := map[string]bool{}
	for _, c := range cands {
		x, ok := new(big.Rat).SetString(c)
		if !ok || !x.IsInt() || seen[c] {
			continue
		}
		if !InRanges(rng, x) {
			continue
		}
		// must fit the Go type
		lo, hi := big.NewInt(0), new(big.Int).Sub(new(big.Int).Lsh(big.NewInt(1), uint(bits)), big.NewInt(1))
		if signed {
			lo = new(big.Int).Neg(new(big.Int).Lsh(big.NewInt(1), uint(bits-1)))
			hi = new(big.Int).Sub(new(big.Int).Lsh(big.NewInt(1), uint(bits-1)), big.NewInt(1))
		}
		if x.Num().Cmp(lo) < 0 || x.Num().Cmp(hi) > 0 {
			continue
		}
		seen[c] = true
		out = append(out, Value(tag+c))
	}
	return out
}

func decDomain(fd int, rng yang.YangRange) []Value {
	if fd <= 0 {
		fd = 1
	}
	cands := []string{"0", "-0.5", "1234567.891", "0." + strings.Repeat("0", fd-1) + "1", "123456789012.25", "1.5"}
	var out []Value
	for _, c := range cands {
		if i := strings.Index(c, "."); i >= 0 && len(c)-i-1 > fd {
			continue
		}
		x, _ := new(big.Rat).SetString(c)
		if !InRanges(rng, x) {
			continue
		}
		// must be within the decimal64 value space for fd and exactly the shortest float repr
		f, _ := strconv.ParseFloat(c, 64)
		if decStr(f) != c {
			continue
		}
		lim := new(big.Rat).SetFrac(new(big.Int).SetUint64(1<<63-1), new(big.Int).Exp(big.NewInt(10), big.NewInt(int64(fd)), nil))
		if new(big.Rat).Abs(x).Cmp(lim) > 0 {
			continue
		}
		out = append(out, Value("dec:"+c))
	}
	return out
}

var stringCands = []string{"a", "a/b]=\\[x", "ab c", "é✓", "abc", "x:y", ""}

// bigLeafList returns a leaf-list value of 20 distinct values in DESCENDING order for leaf-lists of
// unrestricted strings or integers (NoValue otherwise): the input for code paths that switch
// strategy above a size threshold (sorting, hashing, chunking) where the 1-2 element values never go.
func bigLeafList(e *yang.Entry, sample Value) Value {
	const n = 20
	if e == nil || e.Type == nil || (e.ListAttr != nil && e.ListAttr.MaxElements != 0 && e.ListAttr.MaxElements < n) {
		return NoValue
	}
	t := e.Type
	var vs []Value
	switch t.Kind {
	case yang.Ystring:
		if len(t.Length) != 0 || len(t.Pattern) != 0 || len(t.POSIXPattern) != 0 {
			return NoValue
		}
		for i := n; i >= 1; i-- {
			vs = append(vs, Value(fmt.Sprintf("str:m%02d", i)))
		}
	case yang.Yint8, yang.Yint16, yang.Yint32, yang.Yint64, yang.Yuint8, yang.Yuint16, yang.Yuint32, yang.Yuint64:
		pfx := string(sample)
		if i := strings.Index(pfx, ":"); i > 0 {
			pfx = pfx[:i+1]
		} else {
			return NoValue
		}
		for i := n; i >= 1; i-- {
			if !InRanges(t.Range, new(big.Rat).SetInt64(int64(i))) {
				return NoValue
			}
			vs = append(vs, Value(pfx+strconv.Itoa(i)))
		}
	default:
		return NoValue
	}
	return LL(vs...)
}

func lenOK(rng yang.YangRange, n int) bool {
	return InRanges(rng, new(big.Rat).SetInt64(int64(n)))
}

func stringDomain(t *yang.YangType) []Value {
	var out []Value
	for _, c := range stringCands {
		if t != nil {
			if !lenOK(t.Length, utf8.RuneCountInString(c)) {
				continue
			}
			ok := true
			for _, pat := range t.Pattern {
				re, err := regexp.Compile("^(?:" + pat + ")$")
				if err != nil || !re.MatchString(c) {
					ok = false
				}
			}
			for _, pat := range t.POSIXPattern {
				re, err := regexp.CompilePOSIX(pat)
				if err != nil || !re.MatchString(c) {
					ok = false
				}
			}
			if !ok {
				continue
			}
		}
		out = append(out, Value("str:"+c))
	}
	return out
}

func binDomain(t *yang.YangType) []Value {
	var out []Value
	for _, c := range []string{"ff0102", "", "00"} {
		if t != nil && !lenOK(t.Length, len(c)/2) {
			continue
		}
		out = append(out, Value("bin:"+c))
	}
	// a value of 1500 bytes for unrestricted binaries: above the block sizes of chunked encoders (a block of
	// 1024 bytes is not a multiple of 3) and above 1 KiB buffers
	if t == nil || len(t.Length) == 0 {
		out = append(out, BigBinary)
	}
	return out
}

// BigBinary is the 1500-byte member of the domain of unrestricted binary leaves.
var BigBinary = Value("bin:" + strings.Repeat("a7", 1500))

func (p *Pkg) enumDomain(t reflect.Type) []Value {
	var nums []int64
	for n := range p.EnumMap[t.Name()] {
		nums = append(nums, n)
	}
	for i := 1; i < len(nums); i++ {
		for j := i; j > 0 && nums[j] < nums[j-1]; j-- {
			nums[j], nums[j-1] = nums[j-1], nums[j]
		}
	}
	var out []Value
	for _, n := range nums {
		out = append(out, Value("enum:"+p.EnumMap[t.Name()][n].Name))
	}
	return out
}

func flattenUnion(t *yang.YangType) []*yang.YangType {
	var out []*yang.YangType
	for _, m := range t.Type {
		if m.Kind == yang.Yunion {
			out = append(out, flattenUnion(m)...)
		} else {
			out = append(out, m)
		}
	}
	return out
}

// unionDomain: one lexically unambiguous value per member type.
func (p *Pkg) unionDomain(t *yang.YangType) []Value {
	var out []Value
	hasString := false
	for _, m := range flattenUnion(t) {
		if m.Kind == yang.Ystring {
			hasString = true
		}
	}
	for _, m := range flattenUnion(t) {
		switch m.Kind {
		case yang.Yint8, yang.Yint16, yang.Yint32, yang.Yint64:
			bits := map[yang.TypeKind]int{yang.Yint8: 8, yang.Yint16: 16, yang.Yint32: 32, yang.Yint64: 64}[m.Kind]
			out = append(out, Value(fmt.Sprintf("i%d:-7", bits)), Value(fmt.Sprintf("i%d:0", bits)))
		case yang.Yuint8, yang.Yuint16, yang.Yuint32, yang.Yuint64:
			bits := map[yang.TypeKind]int{yang.Yuint8: 8, yang.Yuint16: 16, yang.Yuint32: 32, yang.Yuint64: 64}[m.Kind]
			out = append(out, Value(fmt.Sprintf("u%d:200", bits)), Value(fmt.Sprintf("u%d:0", bits)))
		case yang.Ystring:
			for _, c := range []string{"zq", "z q/]", ""} {
				if lenOK(m.Length, utf8.RuneCountInString(c)) {
					out = append(out, Value("str:"+c))
				}
			}
		case yang.Yenum:
			if m.Enum != nil {
				ns := m.Enum.Names()
				if len(ns) > 0 {
					out = append(out, Value("enum:"+ns[0]))
					if len(ns) > 1 {
						out = append(out, Value("enum:"+ns[len(ns)-1]))
					}
				}
			}
		case yang.Yidentityref:
			if m.IdentityBase != nil && len(m.IdentityBase.Values) > 0 {
				out = append(out, Value("enum:"+m.IdentityBase.Values[0].Name))
			}
		case yang.Ybinary:
			if !hasString { // base64 text would be a valid string too
				out = append(out, Value("bin:ff0102"))
			}
		case yang.Ybool:
			out = append(out, Value("bool:true"))
		case yang.Ydecimal64:
			out = append(out, Value("dec:-0.5"))
			if m.FractionDigits >= 6 {
				out = append(out, Value("dec:0.000001"), Value("dec:1234567.891"))
			}
		}
	}
	return out
}

// LeafDomain returns the value domain of a leaf field (element domain for leaf-lists).
func (p *Pkg) LeafDomain(ft reflect.Type, e *yang.Entry) []Value {
	var yt *yang.YangType
	if e != nil {
		yt = e.Type
		if yt != nil && yt.Kind == yang.Yleafref {
			yt = ResolveLeafref(e)
		}
	}
	t := ft
	if t.Kind() == reflect.Ptr {
		t = t.Elem()
	}
	var rng yang.YangRange
	if yt != nil {
		rng = yt.Range
	}
	switch t.Kind() {
	case reflect.Int8, reflect.Int16, reflect.Int32:
		return intDomain(t.Bits(), true, rng)
	case reflect.Int64:
		if IsEnumType(t) {
			return p.enumDomain(t)
		}
		return intDomain(64, true, rng)
	case reflect.Uint8, reflect.Uint16, reflect.Uint32, reflect.Uint64:
		return intDomain(t.Bits(), false, rng)
	case reflect.Float64:
		fd := 2
		if yt != nil && yt.FractionDigits > 0 {
			fd = yt.FractionDigits
		}
		return decDomain(fd, rng)
	case reflect.String:
		return stringDomain(yt)
	case reflect.Bool:
		if strings.HasSuffix(t.Name(), "YANGEmpty") {
			return []Value{"empty"}
		}
		return []Value{"bool:true", "bool:false"}
	case reflect.Slice:
		if IsBinaryType(t) {
			return binDomain(yt)
		}
	case reflect.Interface:
		if yt != nil && yt.Kind == yang.Yunion {
			return p.unionDomain(yt)
		}
	}
	return nil
}

// ---- atom derivation ----------------------------------------------------------------------

// Atoms returns the automatically derived atom alphabet of the package, simplest first.
func (p *Pkg) Atoms() []*Atom {
	p.atomsOnce.Do(func() {
		p.Schema()
		var scal, lls, ents, nest []*Atom
		p.derive(p.RootType, p.RootSchema(), nil, nil, 0, true, &scal, &lls, &ents, &nest)
		all := append(append(append(scal, lls...), ents...), nest...)
		for _, a := range all {
			// the deliberately exposed ordered list /top/olx (DESIGN.md section 7) is kept out of
			// the default alphabet; C02 drives it in a dedicated sub-check.
			exposed := false
			for _, s := range a.Steps {
				if s.Field == "Olx" {
					exposed = true
				}
			}
			if exposed {
				p.exposed = append(p.exposed, a)
			} else {
				p.atoms = append(p.atoms, a)
			}
		}
		for i, a := range p.atoms {
			a.ID = i
		}
	})
	return p.atoms
}

// ExposedAtoms returns the atoms of the deliberately exposed ordered list (not in Atoms()).
func (p *Pkg) ExposedAtoms() []*Atom {
	p.Atoms()
	return p.exposed
}

func stepsName(steps []Step) string {
	var b strings.Builder
	for _, s := range steps {
		b.WriteString("/" + s.Field)
		if s.Key != nil {
			b.WriteString("[")
			for i, k := range s.Key {
				if i > 0 {
					b.WriteString(",")
				}
				b.WriteString(string(k))
			}
			b.WriteString("]")
		}
		if s.Elem {
			b.WriteString("[+]")
		}
	}
	return b.String()
}

func cloneSteps(s []Step, extra ...Step) []Step {
	out := make([]Step, 0, len(s)+len(extra))
	out = append(out, s...)
	return append(out, extra...)
}

func isKeyField(f reflect.StructField, keyNames []string) bool {
	for _, a := range tagPaths(f) {
		if len(a) == 1 {
			for _, k := range keyNames {
				if a[0] == k {
					return true
				}
			}
		}
	}
	return false
}

func pick(dom []Value, idx ...int) []Value {
	var out []Value
	seen := map[Value]bool{}
	for _, i := range idx {
		if i < 0 {
			i = len(dom) + i
		}
		if i >= 0 && i < len(dom) && !seen[dom[i]] {
			seen[dom[i]] = true
			out = append(out, dom[i])
		}
	}
	return out
}

func (p *Pkg) derive(st reflect.Type, se *yang.Entry, steps []Step, prefix Path, depth int, cfg bool,
	scal, lls, ents, nest *[]*Atom) {
	p.deriveIn(st, se, steps, prefix, depth, cfg, "", "", scal, lls, ents, nest)
}

// deriveIn is derive with the "<choice>/<case>" inherited from an enclosing case (a container or
// list inside a case makes all of its content belong to that case).
func (p *Pkg) deriveIn(st reflect.Type, se *yang.Entry, steps []Step, prefix Path, depth int, cfg bool, inh, inhKey string,
	scal, lls, ents, nest *[]*Atom) {
	if st.Kind() == reflect.Ptr {
		st = st.Elem()
	}
	nested := depth > 0
	for i := 0; i < st.NumField(); i++ {
		f := st.Field(i)
		alts := tagPaths(f)
		if alts == nil {
			continue
		}
		ce, choice := FindChild(se, alts[0])
		choiceKey := inhKey
		if choice == "" {
			choice = inh
		} else {
			choiceKey = stepsName(steps) + "|" + choice[:strings.LastIndex(choice, "/")]
		}
		fcfg := cfg
		if ce != nil {
			fcfg = cfg && entryConfig(ce, se, alts[0])
		}
		fsteps := cloneSteps(steps, Step{Field: f.Name})
		fpath := prefix.Names(alts[0]...)
		mk := func(kind string, v Value, focus bool, st []Step, path Path) *Atom {
			a := &Atom{Steps: st, Val: v, Kind: kind, Choice: choice, Nested: nested, Focus: focus, Config: fcfg, Path: path, Entry: ce}
			if choice != "" {
				a.ChoiceKey, a.Case = choiceKey, choice[strings.LastIndex(choice, "/")+1:]
			}
			a.Name = stepsName(st)
			if v != NoValue {
				a.Name += "=" + string(v)
			}
			return a
		}
		switch KindOfField(f.Type) {
		case FLeaf:
			dom := p.LeafDomain(f.Type, ce)
			if nested {
				dom = pick(dom, 0, -1)
				if depth > 1 {
					dom = pick(dom, 0)
				}
			}
			for j, v := range dom {
				a := mk("leaf", v, j == 0, fsteps, fpath)
				if nested {
					*nest = append(*nest, a)
				} else {
					*scal = append(*scal, a)
				}
			}
		case FLeafList:
			ed := p.LeafDomain(f.Type.Elem(), ce)
			if len(ed) == 0 {
				continue
			}
			if len(ed) > 1 && ed[len(ed)-1] == BigBinary {
				ed = ed[:len(ed)-1] // leaf-lists keep short elements
			}
			e1, e2 := ed[0], ed[len(ed)-1]
			vals := []Value{LL(e1, e2)}
			if !nested {
				vals = []Value{LL(e1), LL(e1, e2), LL(e2, e1), LL()}
				if e1 == e2 {
					vals = []Value{LL(e1), LL()}
				}
			}
			if !nested {
				if big := bigLeafList(ce, e1); big != NoValue {
					vals = append(vals, big)
				}
			}
			for j, v := range vals {
				a := mk("leaflist", v, j == 1 || len(vals) == 1, fsteps, fpath)
				if nested {
					*nest = append(*nest, a)
				} else {
					*lls = append(*lls, a)
				}
			}
		case FContainer:
			if f.Tag.Get("yangPresence") == "true" {
				a := mk("presence", NoValue, true, fsteps, fpath)
				if nested {
					*nest = append(*nest, a)
				} else {
					*scal = append(*scal, a)
				}
			}
			p.deriveIn(f.Type, ce, fsteps, fpath, depth, fcfg, choice, choiceKey, scal, lls, ents, nest)
		case FKeyedList, FOrderedList:
			var et reflect.Type
			if f.Type.Kind() == reflect.Map {
				et = f.Type.Elem()
			} else {
				m, _ := f.Type.MethodByName("Values")
				et = m.Type.Out(0).Elem()
			}
			if depth >= 3 {
				continue
			}
			keyNames := p.ListKeyNames(et)
			ee := p.EntryFor(et)
			if !nested {
				// representation atom: an empty but non-nil map / ordered map
				a := mk("emptylist", NoValue, false, fsteps, fpath)
				a.Name += "={}"
				*ents = append(*ents, a)
			}
			// key domains from the entry's key leaf fields
			doms := make([][]Value, len(keyNames))
			for ki, kn := range keyNames {
				for j := 0; j < et.Elem().NumField(); j++ {
					kf := et.Elem().Field(j)
					if isKeyField(kf, []string{kn}) {
						ke, _ := FindChild(ee, tagPaths(kf)[len(tagPaths(kf))-1])
						for _, dv := range p.LeafDomain(kf.Type, ke) {
							if dv != "str:" { // gNMI path keys cannot be empty
								doms[ki] = append(doms[ki], dv)
							}
						}
					}
				}
			}
			ok := true
			for _, d := range doms {
				if len(d) == 0 {
					ok = false
				}
			}
			if !ok {
				continue
			}
			ntuples := 2
			if !nested && len(keyNames) == 1 && len(doms[0]) >= 3 {
				ntuples = 3
			}
			if !nested && len(keyNames) >= 2 {
				allStr := true
				for _, d := range doms {
					allStr = allStr && d[0].Kind() == "str"
				}
				if allStr {
					ntuples = 3 // the third tuple of an all-string multi-key list has an empty key, see below
				}
			}
			if depth >= 2 {
				ntuples = 1 // third list level: one entry below each second-level entry
			}
			idxs := []int{0, -1, 1}
			seen := map[string]bool{}
			nstr := 0
			for _, d := range doms {
				if d[0].Kind() == "str" {
					nstr++
				}
			}
			for ti := 0; ti < ntuples; ti++ {
				var tuple []Value
				if nstr >= 2 && nstr == len(doms) {
					// adversarial pair: the tuples differ but their space-joined renderings coincide
					switch ti {
					case 0:
						tuple = append(tuple, "str:a b", "str:c")
					case 1:
						tuple = append(tuple, "str:a", "str:b c")
					default:
						// a key that is the empty string (legal for a YANG string key, representable in a
						// structured gNMI path) next to an entry with the same first key: code that takes
						// "" for "key not given" confuses the two
						tuple = append(tuple, "str:a", "str:")
					}
					for len(tuple) < len(doms) {
						tuple = append(tuple, "str:z")
					}
					tuple = tuple[:len(doms)]
				}
				if tuple != nil {
					goto haveTuple
				}
				for ki := range keyNames {
					d := doms[ki]
					ix := idxs[(ti+ki)%3]
					if ti == 0 {
						ix = 0
					}
					if ix < 0 {
						ix = len(d) + ix
					}
					if ix >= len(d) {
						ix = len(d) - 1
					}
					tuple = append(tuple, d[ix])
				}
			haveTuple:
				ks := fmt.Sprint(tuple)
				if seen[ks] {
					continue
				}
				seen[ks] = true
				var kvs []KV
				for ki, kn := range keyNames {
					kvs = append(kvs, KV{kn, tuple[ki]})
				}
				sortKVs(kvs)
				esteps := cloneSteps(steps, Step{Field: f.Name, Key: tuple})
				epath := lastWithKeys(prefix, alts[0], kvs)
				a := mk("entry", NoValue, ti == 0, esteps, epath)
				a.Ord = KindOfField(f.Type) == FOrderedList
				*ents = append(*ents, a)
				if ti < 2 {
					p.deriveEntry(et, ee, esteps, epath, keyNames, depth+1, fcfg, a.Ord, scal, lls, ents, nest)
				}
			}
		case FUnkeyedList:
			if depth >= 1 {
				continue
			}
			et := f.Type.Elem()
			ee := p.EntryFor(et)
			for j := 0; j < et.Elem().NumField(); j++ {
				lf := et.Elem().Field(j)
				la := tagPaths(lf)
				if la == nil || KindOfField(lf.Type) != FLeaf {
					continue
				}
				le, _ := FindChild(ee, la[0])
				dom := pick(p.LeafDomain(lf.Type, le), 0)
				for _, v := range dom {
					st2 := cloneSteps(steps, Step{Field: f.Name, Elem: true}, Step{Field: lf.Name})
					a := mk("unkeyed", v, j == 0, st2, fpath)
					a.Name = stepsName(st2) + "=" + string(v)
					a.Ord = true
					*ents = append(*ents, a)
				}
			}
		}
	}
}

func sortKVs(k []KV) {
	for i := 1; i < len(k); i++ {
		for j := i; j > 0 && k[j].Name < k[j-1].Name; j-- {
			k[j], k[j-1] = k[j-1], k[j]
		}
	}
}

func (p *Pkg) deriveEntry(et reflect.Type, ee *yang.Entry, steps []Step, prefix Path, keyNames []string, depth int, cfg, ord bool,
	scal, lls, ents, nest *[]*Atom) {
	// derive atoms for the non-key content of a list entry
	var sub []*Atom
	var s2, l2, e2 []*Atom
	p.deriveFiltered(et, ee, steps, prefix, keyNames, depth, cfg, &s2, &l2, &e2, &sub)
	for _, a := range append(append(append(s2, l2...), e2...), sub...) {
		a.Nested = true
		if ord {
			a.Ord = true
		}
		*nest = append(*nest, a)
	}
}

func (p *Pkg) deriveFiltered(et reflect.Type, ee *yang.Entry, steps []Step, prefix Path, keyNames []string, depth int, cfg bool,
	scal, lls, ents, nest *[]*Atom) {
	// build a struct type view without key fields: easiest is to derive all and drop atoms on key fields
	var s, l, e, n []*Atom
	p.derive(et, ee, steps, prefix, depth, cfg, &s, &l, &e, &n)
	keep := func(in []*Atom, out *[]*Atom) {
		for _, a := range in {
			last := a.Steps[len(steps)]
			f, _ := et.Elem().FieldByName(last.Field)
			if len(a.Steps) == len(steps)+1 && isKeyField(f, keyNames) {
				continue
			}
			*out = append(*out, a)
		}
	}
	keep(s, scal)
	keep(l, lls)
	keep(e, ents)
	keep(n, nest)
}

// entryConfig computes the effective config flag of child ce reached from se via names.
func entryConfig(ce, se *yang.Entry, names []string) bool {
	// walk up from ce to se: any config false on the way makes it false
	for x := ce; x != nil && x != se; x = x.Parent {
		if x.Config == yang.TSFalse {
			return false
		}
	}
	return true
}

// ---- builder ------------------------------------------------------------------------------

// ErrConflict is returned when an atom sequence is not a schema-conforming combination
// (two cases of one choice).
var ErrConflict = fmt.Errorf("conflicting atoms")

// Build applies the atom sequence to a fresh root by direct reflection assignment.
func (p *Pkg) Build(seq []*Atom) (interface{}, error) {
	root := p.NewRoot()
	choices := map[string]string{}
	for _, a := range seq {
		if a.ChoiceKey != "" {
			if prev, ok := choices[a.ChoiceKey]; ok && prev != a.Case {
				return nil, ErrConflict
			}
			choices[a.ChoiceKey] = a.Case
		}
		if err := p.Apply(root, a); err != nil {
			return nil, err
		}
	}
	return root, nil
}

// SetKeyLeaves sets the key leaf fields of entry (pointer to struct) from the key tuple.
func (p *Pkg) SetKeyLeaves(entry reflect.Value, keyNames []string, tuple []Value) error {
	et := entry.Type().Elem()
	for ki, kn := range keyNames {
		done := false
		for j := 0; j < et.NumField(); j++ {
			if isKeyField(et.Field(j), []string{kn}) {
				gv, err := p.ToGo(tuple[ki], et.Field(j).Type, entry)
				if err != nil {
					return fmt.Errorf("key leaf %s: %v", kn, err)
				}
				entry.Elem().Field(j).Set(gv)
				done = true
			}
		}
		if !done {
			return fmt.Errorf("no key leaf field for %s in %s", kn, et)
		}
	}
	return nil
}

// MapKey builds the Go map key (scalar or key struct) of type kt for the tuple; entry is used as
// the owner of To_<Union> helpers.
func (p *Pkg) MapKey(kt reflect.Type, entry reflect.Value, keyNames []string, tuple []Value) (reflect.Value, error) {
	if kt.Kind() == reflect.Struct {
		if _, ok := kt.MethodByName("IsYANGGoKeyStruct"); ok {
			kv := reflect.New(kt).Elem()
			for j := 0; j < kt.NumField(); j++ {
				tp := tagPaths(kt.Field(j))
				name := tp[0][len(tp[0])-1]
				for ki, kn := range keyNames {
					if kn == name {
						gv, err := p.ToGo(tuple[ki], kt.Field(j).Type, entry)
						if err != nil {
							return reflect.Value{}, err
						}
						kv.Field(j).Set(gv)
					}
				}
			}
			return kv, nil
		}
	}
	return p.ToGo(tuple[0], kt, entry)
}

// Apply applies one atom in place.
func (p *Pkg) Apply(root interface{}, a *Atom) error {
	cur := reflect.ValueOf(root)
	for si, s := range a.Steps {
		f := cur.Elem().FieldByName(s.Field)
		if !f.IsValid() {
			return fmt.Errorf("no field %s in %s", s.Field, cur.Type())
		}
		last := si == len(a.Steps)-1
		switch KindOfField(f.Type()) {
		case FContainer:
			if f.IsNil() {
				f.Set(reflect.New(f.Type().Elem()))
			}
			cur = f
		case FKeyedList:
			if a.Kind == "emptylist" && last {
				if f.IsNil() {
					f.Set(reflect.MakeMap(f.Type()))
				}
				continue
			}
			et := f.Type().Elem()
			keyNames := p.ListKeyNames(et)
			entry := reflect.New(et.Elem())
			k, err := p.MapKey(f.Type().Key(), entry, keyNames, s.Key)
			if err != nil {
				return err
			}
			if f.IsNil() {
				f.Set(reflect.MakeMap(f.Type()))
			}
			ex := f.MapIndex(k)
			if !ex.IsValid() && (k.Kind() == reflect.Interface || k.Kind() == reflect.Ptr) {
				// wrapper-union keys are pointers: equal keys are different map keys, so look the
				// entry up by canonical value
				want := PElem{Keys: p.KeyKVs(k, keyNames)}.KeyString()
				for _, mk := range f.MapKeys() {
					if (PElem{Keys: p.KeyKVs(mk, keyNames)}).KeyString() == want {
						ex = f.MapIndex(mk)
						break
					}
				}
			}
			if ex.IsValid() {
				cur = ex
			} else {
				if err := p.SetKeyLeaves(entry, keyNames, s.Key); err != nil {
					return err
				}
				f.SetMapIndex(k, entry)
				cur = entry
			}
		case FOrderedList:
			if f.IsNil() {
				f.Set(reflect.New(f.Type().Elem()))
			}
			if a.Kind == "emptylist" && last {
				continue
			}
			gm := f.MethodByName("Get")
			et := gm.Type().Out(0)
			keyNames := p.ListKeyNames(et)
			entry := reflect.New(et.Elem())
			k, err := p.MapKey(gm.Type().In(0), entry, keyNames, s.Key)
			if err != nil {
				return err
			}
			if ex := gm.Call([]reflect.Value{k})[0]; !ex.IsNil() {
				cur = ex
			} else {
				if err := p.SetKeyLeaves(entry, keyNames, s.Key); err != nil {
					return err
				}
				out := f.MethodByName("Append").Call([]reflect.Value{entry})
				if !out[0].IsNil() {
					return fmt.Errorf("builder: generated Append failed: %v", out[0].Interface())
				}
				cur = entry
			}
		case FUnkeyedList:
			el := reflect.New(f.Type().Elem().Elem())
			f.Set(reflect.Append(f, el))
			cur = el
		default:
			if !last {
				return fmt.Errorf("leaf %s in the middle of atom %s", s.Field, a.Name)
			}
			gv, err := p.ToGo(a.Val, f.Type(), cur)
			if err != nil {
				return fmt.Errorf("atom %s: %v", a.Name, err)
			}
			if a.Kind == "leaflist" && gv.Len() == 0 {
				gv = reflect.MakeSlice(f.Type(), 0, 0) // empty, non-nil
			}
			f.Set(gv)
		}
	}
	return nil
}

// AtomBounds returns the data-tree path lengths at which the atom's steps end: only these
// prefixes of a.Path name a node of the generated struct tree (with path compression a step may
// span several path elements, e.g. "interfaces/interface" or "config/name").
func (p *Pkg) AtomBounds(a *Atom) []int {
	cur := p.RootType
	n := 0
	var out []int
	for _, s := range a.Steps {
		if cur.Kind() == reflect.Ptr {
			cur = cur.Elem()
		}
		f, ok := cur.FieldByName(s.Field)
		if !ok {
			break
		}
		alts := tagPaths(f)
		if alts == nil {
			break
		}
		n += len(alts[0])
		out = append(out, n)
		switch KindOfField(f.Type) {
		case FContainer:
			cur = f.Type
		case FKeyedList:
			cur = f.Type.Elem()
		case FOrderedList:
			m, _ := f.Type.MethodByName("Values")
			cur = m.Type.Out(0).Elem()
		case FUnkeyedList:
			cur = f.Type.Elem()
		default:
			return out
		}
	}
	return out
}
