package core

import (
	"bufio"
	"crypto/sha256"
	"encoding/hex"
	"encoding/json"
	"fmt"
	"hash/fnv"
	"os"
	"path/filepath"
	"regexp"
	"sort"
	"strings"
	"sync"
	"sync/atomic"
	"time"
)

// Ctx is handed to every property check.
type Ctx struct {
	ID       string
	Tier     string // quick | thorough
	Seed     int
	VerifDir string
	RepoDir  string
	R        *Reporter
	Deadline time.Time // zero: none. A check that reaches it stops with exhaustive=false.
	Level    string    // evidence level, set by the check
	Rule     string    // enumeration rule text, set by the check
}

// Thorough reports whether the thorough tier is selected.
func (c *Ctx) Thorough() bool { return c.Tier == "thorough" }

// Expired reports whether the internal deadline passed (the run is then labelled non-exhaustive).
func (c *Ctx) Expired() bool {
	if c.Deadline.IsZero() {
		return false
	}
	if time.Now().After(c.Deadline) {
		c.R.Capped("deadline")
		return true
	}
	return false
}

type violation struct {
	Sig    string
	Detail string
	Case   interface{}
	Count  int64
}

// Reporter collects counters, samples, violations and writes evidence.
type Reporter struct {
	ID, Tier string
	Seed     int
	verif    string
	OutDir   string // where evidence/ and replays/ are written (default: verif)
	start    time.Time

	mu        sync.Mutex
	viols     map[string]*violation
	counters  map[string]*int64
	samples   []interface{}
	nontriv   map[uint64]struct{}
	nontrivN  int64 // cases counted by NonTrivialN (distinct by construction)
	outcomes  map[string]int64
	capped    []string
	assume    []string
	notes     map[string]interface{}
	maxSample int
}

// NewReporter creates a reporter for property id.
func NewReporter(id, tier string, seed int, verif string) *Reporter {
	return &Reporter{ID: id, Tier: tier, Seed: seed, verif: verif, start: time.Now(),
		viols: map[string]*violation{}, counters: map[string]*int64{}, nontriv: map[uint64]struct{}{},
		outcomes: map[string]int64{}, notes: map[string]interface{}{}, maxSample: 6}
}

func (r *Reporter) out() string {
	if r.OutDir != "" {
		return r.OutDir
	}
	return r.verif
}

// Violation records a violation. sig identifies the *kind* of failure (oracle clause + schema
// node / call site + minimal cause); the first case per signature is kept as the replay.
func (r *Reporter) Violation(sig, detail string, cs interface{}) {
	r.mu.Lock()
	defer r.mu.Unlock()
	v := r.viols[sig]
	if v == nil {
		v = &violation{Sig: sig, Detail: detail, Case: cs}
		r.viols[sig] = v
	}
	v.Count++
}

// Counter returns a pointer to a named counter usable with atomic.AddInt64.
func (r *Reporter) Counter(name string) *int64 {
	r.mu.Lock()
	defer r.mu.Unlock()
	c := r.counters[name]
	if c == nil {
		c = new(int64)
		r.counters[name] = c
	}
	return c
}

// Add adds n to a named counter.
func (r *Reporter) Add(name string, n int64) { atomic.AddInt64(r.Counter(name), n) }

// Get reads a counter.
func (r *Reporter) Get(name string) int64 { return atomic.LoadInt64(r.Counter(name)) }

// Sample keeps up to maxSample written-out cases.
func (r *Reporter) Sample(v interface{}) {
	r.mu.Lock()
	defer r.mu.Unlock()
	if len(r.samples) < r.maxSample {
		r.samples = append(r.samples, v)
	}
}

// NonTrivial records a distinct non-trivial case by key (hashed).
func (r *Reporter) NonTrivial(key string) {
	h := fnv.New64a()
	h.Write([]byte(key))
	s := h.Sum64()
	r.mu.Lock()
	r.nontriv[s] = struct{}{}
	r.mu.Unlock()
}

// NonTrivialN counts n non-trivial cases that are distinct by construction (e.g. the schedules a
// depth-first search enumerates: no two executions have the same choice sequence).
func (r *Reporter) NonTrivialN(n int64) {
	r.mu.Lock()
	r.nontrivN += n
	r.mu.Unlock()
}

// Outcome counts a class of observed outcome (used to show exploration is not vacuous).
func (r *Reporter) Outcome(class string) {
	r.mu.Lock()
	r.outcomes[class]++
	r.mu.Unlock()
}

// Capped marks the run non-exhaustive.
func (r *Reporter) Capped(why string) {
	r.mu.Lock()
	defer r.mu.Unlock()
	for _, c := range r.capped {
		if c == why {
			return
		}
	}
	r.capped = append(r.capped, why)
}

// Assume records an assumption / trusted base item.
func (r *Reporter) Assume(s string) {
	r.mu.Lock()
	r.assume = append(r.assume, s)
	r.mu.Unlock()
}

// Note adds an extra key to coverage.
func (r *Reporter) Note(k string, v interface{}) {
	r.mu.Lock()
	r.notes[k] = v
	r.mu.Unlock()
}

type knownFinding struct {
	prop, sig, desc string
	re              *regexp.Regexp // set when the entry is written sigre=<anchored regexp>
}

func (k knownFinding) matches(prop, sig string) bool {
	if k.prop != prop {
		return false
	}
	if k.re != nil {
		return k.re.MatchString(sig)
	}
	return k.sig == sig
}

func loadKnown(verif string) []knownFinding {
	f, err := os.Open(filepath.Join(verif, "known_findings.txt"))
	if err != nil {
		return nil
	}
	defer f.Close()
	var out []knownFinding
	sc := bufio.NewScanner(f)
	sc.Buffer(make([]byte, 1<<20), 1<<20)
	for sc.Scan() {
		l := strings.TrimSpace(sc.Text())
		if !strings.HasPrefix(l, "known:") {
			continue
		}
		l = strings.TrimSpace(strings.TrimPrefix(l, "known:"))
		// known: property=<id> sig=<sig> :: description
		if !strings.HasPrefix(l, "property=") {
			continue
		}
		sp := strings.SplitN(l, " ", 2)
		if len(sp) != 2 {
			continue
		}
		k := knownFinding{prop: strings.TrimPrefix(sp[0], "property=")}
		rest := sp[1]
		if i := strings.Index(rest, " :: "); i >= 0 {
			k.desc = rest[i+4:]
			rest = rest[:i]
		}
		rest = strings.TrimSpace(rest)
		if strings.HasPrefix(rest, "sigre=") {
			k.sig = strings.TrimPrefix(rest, "sigre=")
			re, err := regexp.Compile("^(?:" + k.sig + ")$")
			if err != nil {
				fmt.Fprintf(os.Stderr, "ERROR bad sigre in known_findings.txt: %v\n", err)
				continue
			}
			k.re = re
		} else {
			k.sig = strings.TrimPrefix(rest, "sig=")
		}
		out = append(out, k)
	}
	return out
}

// Finish writes the evidence file, prints KNOWN-FINDING / VIOLATION lines and returns the exit code.
// level is the evidence level; mc selects the model_checking keys (states/transitions).
func (r *Reporter) Finish(level, rule string, replay func(raw []byte) (bool, string)) int {
	known := loadKnown(r.verif)
	type agg struct {
		sigs, cases int64
		first       string
	}
	perEntry := map[int]*agg{}
	isKnown := func(sig string, cases int64) bool {
		for i, k := range known {
			if k.matches(r.ID, sig) {
				a := perEntry[i]
				if a == nil {
					a = &agg{first: sig}
					perEntry[i] = a
				}
				a.sigs++
				a.cases += cases
				return true
			}
		}
		return false
	}
	var sigs []string
	for s := range r.viols {
		sigs = append(sigs, s)
	}
	sort.Strings(sigs)
	exit := 0
	nv := 0
	var knownSeen []string
	for _, s := range sigs {
		v := r.viols[s]
		if isKnown(s, v.Count) {
			knownSeen = append(knownSeen, s)
			continue
		}
		nv++
		h := sha256.Sum256([]byte(s))
		dir := filepath.Join(r.out(), "replays", r.ID)
		os.MkdirAll(dir, 0o755)
		path := filepath.Join(dir, hex.EncodeToString(h[:6])+".json")
		raw, _ := json.Marshal(v.Case)
		doc := map[string]interface{}{"property": r.ID, "signature": s, "detail": v.Detail, "count": v.Count, "case": json.RawMessage(raw)}
		b, _ := json.MarshalIndent(doc, "", " ")
		os.WriteFile(path, b, 0o644)
		status := ""
		if replay != nil {
			// determinism guard: the recorded case must fail identically twice, with no explorer involved.
			v1, d1 := replay(raw)
			v2, d2 := replay(raw)
			_, _ = d1, d2
			if !v1 || !v2 {
				// seen during exploration but not on both replays: the outcome depends on something the
				// case does not fix (Go map iteration order inside the implementation, or a harness defect).
				status = fmt.Sprintf(" replay-unstable(%v/%v)", v1, v2)
			}
		}
		if nv <= 25 {
			fmt.Printf("VIOLATION property=%s replay=%s sig=%s cases=%d%s detail=%s\n", r.ID, path, s, v.Count, status, trunc(v.Detail, 400))
		} else if nv == 26 {
			fmt.Printf("... further violation signatures are not printed; every one has a replay file under %s\n", dir)
		}
		exit = 1
	}
	for i, k := range known {
		if a := perEntry[i]; a != nil {
			fmt.Printf("KNOWN-FINDING: property=%s sig=%s (%d signatures, %d cases, first: %s) %s\n", r.ID, k.sig, a.sigs, a.cases, a.first, k.desc)
		}
	}
	// known findings that did not show up are reported (informational only).
	for _, k := range known {
		if k.prop != r.ID {
			continue
		}
		found := false
		for _, s := range knownSeen {
			if k.matches(r.ID, s) {
				found = true
			}
		}
		if !found {
			fmt.Printf("NOTE: known finding not observed in this run: property=%s sig=%s\n", r.ID, k.sig)
		}
	}
	r.writeEvidence(level, rule, nv, knownSeen)
	return exit
}

func trunc(s string, n int) string {
	s = strings.ReplaceAll(s, "\n", "\\n")
	if len(s) > n {
		return s[:n] + "..."
	}
	return s
}

func (r *Reporter) writeEvidence(level, rule string, nviol int, knownSeen []string) {
	cov := map[string]interface{}{}
	for k, v := range r.notes {
		cov[k] = v
	}
	cnt := map[string]int64{}
	for k, v := range r.counters {
		cnt[k] = atomic.LoadInt64(v)
	}
	cov["counters"] = cnt
	cov["evaluations"] = cnt["evaluations"]
	cov["distinct_nontrivial"] = int64(len(r.nontriv)) + r.nontrivN
	cov["rule"] = rule
	samples := r.samples
	if len(samples) == 0 {
		samples = []interface{}{"(no sample recorded)"}
	}
	cov["samples"] = samples
	cov["distinct_outcomes"] = r.outcomes
	cov["exhaustive"] = len(r.capped) == 0
	if len(r.capped) > 0 {
		cov["caps_hit"] = r.capped
	}
	if level == "model_checking" {
		cov["states"] = cnt["states"]
		cov["transitions"] = cnt["transitions"]
		cov["traces_validated_against_impl"] = cnt["traces_validated_against_impl"]
	}
	cov["known_findings_observed"] = knownSeen
	ev := map[string]interface{}{
		"property_id": r.ID, "tier": r.Tier, "seed": r.Seed, "level": level,
		"coverage": cov, "assumptions": r.assume, "wall_s": time.Since(r.start).Seconds(), "violations": nviol,
	}
	if r.assume == nil {
		ev["assumptions"] = []string{}
	}
	b, _ := json.MarshalIndent(ev, "", " ")
	os.MkdirAll(filepath.Join(r.out(), "evidence"), 0o755)
	if err := os.WriteFile(filepath.Join(r.out(), "evidence", r.ID+".json"), b, 0o644); err != nil {
		fmt.Fprintf(os.Stderr, "ERROR cannot write evidence: %v\n", err)
	}
	fmt.Printf("SUMMARY property=%s tier=%s evaluations=%d distinct_nontrivial=%d states=%d transitions=%d violations=%d known=%d exhaustive=%v wall=%.1fs\n",
		r.ID, r.Tier, cnt["evaluations"], int64(len(r.nontriv))+r.nontrivN, cnt["states"], cnt["transitions"], nviol, len(knownSeen), len(r.capped) == 0, time.Since(r.start).Seconds())
}
