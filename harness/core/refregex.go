package core

// refregex: an independent reference matcher for the regular-expression subset that YANG `pattern`
// statements (XSD regular expressions, RFC 7950 section 9.4.5) and openconfig `posix-pattern`
// extensions use. It shares no code with Go's regexp package: the pattern is parsed here into a small
// AST and matched by two separately written evaluators,
//
//   * Brzozowski derivatives (MatchDerivative; XSD modes only, no anchors), and
//   * a denotational "set of end positions" evaluator (Match; all modes, supports anchors and search),
//
// which the checks run against each other so that a slip in one of them is noticed.
//
// Supported subset: literal characters (any rune, multi-byte included), '.', character classes with
// ranges and negation ([ab], [a-c], [^a], [\d-]), the class escapes \d \D \w \W \s \S with their XSD
// meaning, the single-character escapes \n \r \t \\ \| \. \- \^ \$ \? \* \+ \{ \} \( \) \[ \],
// grouping, alternation (empty branches allowed), and the quantifiers ? * + {n} {n,} {n,m}.
// Everything else (\p{..}, \i \c, class subtraction, back references, (?...) groups, POSIX [:class:])
// yields ErrRxUnsupported, so a check can exclude the pattern instead of guessing.

import (
	"errors"
	"fmt"
	"unicode"
)

// RxMode selects how '^' and '$' are read and which matching semantics Match applies.
type RxMode int

const (
	// RxXSD: XSD whole-string semantics. One leading unescaped '^' and one trailing unescaped '$' are
	// the redundant anchors OpenConfig models write (and that ygot says it intends to honour); they are
	// dropped. Any other '^' or '$' is an ordinary character.
	RxXSD RxMode = iota
	// RxXSDLiteral: XSD proper. '^' and '$' are ordinary characters everywhere.
	RxXSDLiteral
	// RxPOSIX: POSIX ERE as used by posix-pattern. '^' and '$' outside brackets are assertions (start /
	// end of the whole value) and Match has *search* semantics (some substring matches).
	RxPOSIX
)

// ErrRxUnsupported is wrapped by every parse error that means "outside the supported subset".
var ErrRxUnsupported = errors.New("refregex: construct outside the supported subset")

type rxKind uint8

const (
	rxNone rxKind = iota // matches nothing
	rxEps                // matches the empty string
	rxSet                // one character of a set
	rxCat
	rxAlt
	rxStar
	rxBOL // start of value (POSIX mode only)
	rxEOL // end of value (POSIX mode only)
)

type rxItem struct {
	lo, hi rune // range (lo==hi for a single character) when esc == 0
	esc    byte // 'd','D','w','W','s','S' class escape, '.' for the XSD wildcard, 'A' for any character
}

type rxSetT struct {
	neg   bool
	items []rxItem
}

func xsdW(r rune) bool { // \w = all characters except punctuation, separators and "other"
	return !(unicode.IsPunct(r) || unicode.In(r, unicode.Z) || unicode.In(r, unicode.C))
}

func (it rxItem) has(r rune) bool {
	switch it.esc {
	case 0:
		return it.lo <= r && r <= it.hi
	case '.':
		return r != '\n' && r != '\r'
	case 'A':
		return true
	case 'd':
		return unicode.Is(unicode.Nd, r)
	case 'D':
		return !unicode.Is(unicode.Nd, r)
	case 's':
		return r == ' ' || r == '\t' || r == '\n' || r == '\r'
	case 'S':
		return !(r == ' ' || r == '\t' || r == '\n' || r == '\r')
	case 'w':
		return xsdW(r)
	case 'W':
		return !xsdW(r)
	}
	return false
}

func (s *rxSetT) has(r rune) bool {
	in := false
	for _, it := range s.items {
		if it.has(r) {
			in = true
			break
		}
	}
	return in != s.neg
}

type rx struct {
	kind rxKind
	set  *rxSetT
	a, b *rx
}

var (
	rxNoneN = &rx{kind: rxNone}
	rxEpsN  = &rx{kind: rxEps}
)

func mkCat(a, b *rx) *rx {
	switch {
	case a.kind == rxNone || b.kind == rxNone:
		return rxNoneN
	case a.kind == rxEps:
		return b
	case b.kind == rxEps:
		return a
	}
	return &rx{kind: rxCat, a: a, b: b}
}

func mkAlt(a, b *rx) *rx {
	switch {
	case a.kind == rxNone:
		return b
	case b.kind == rxNone:
		return a
	case a == b:
		return a
	}
	return &rx{kind: rxAlt, a: a, b: b}
}

func mkStar(a *rx) *rx {
	switch a.kind {
	case rxNone, rxEps:
		return rxEpsN
	case rxStar:
		return a
	}
	return &rx{kind: rxStar, a: a}
}

// RxProg is a parsed pattern.
type RxProg struct {
	Src    string
	Mode   RxMode
	root   *rx
	topAlt bool
}

// TopAlt reports whether the pattern (after removal of redundant anchors in RxXSD mode) is an
// alternation at its top level, e.g. "a|b" but not "(a|b)".
func (p *RxProg) TopAlt() bool { return p.topAlt }

type rxParser struct {
	src  []rune
	pos  int
	mode RxMode
}

func unsupported(format string, a ...interface{}) error {
	return fmt.Errorf("%w: %s", ErrRxUnsupported, fmt.Sprintf(format, a...))
}

// ParseRx parses pattern in the given mode.
func ParseRx(pattern string, mode RxMode) (*RxProg, error) {
	src := []rune(pattern)
	if mode == RxXSD {
		if len(src) > 0 && src[0] == '^' {
			src = src[1:]
		}
		if n := len(src); n > 0 && src[n-1] == '$' {
			bs := 0
			for i := n - 2; i >= 0 && src[i] == '\\'; i-- {
				bs++
			}
			if bs%2 == 0 {
				src = src[:n-1]
			}
		}
	}
	p := &rxParser{src: src, mode: mode}
	root, nbranch, err := p.regExp()
	if err != nil {
		return nil, err
	}
	if p.pos != len(p.src) {
		return nil, unsupported("unexpected %q at offset %d of %q", string(p.src[p.pos]), p.pos, pattern)
	}
	return &RxProg{Src: pattern, Mode: mode, root: root, topAlt: nbranch > 1}, nil
}

func (p *rxParser) eof() bool  { return p.pos >= len(p.src) }
func (p *rxParser) peek() rune { return p.src[p.pos] }

// regExp ::= branch ( '|' branch )*
func (p *rxParser) regExp() (*rx, int, error) {
	var out *rx
	n := 0
	for {
		b, err := p.branch()
		if err != nil {
			return nil, 0, err
		}
		n++
		if out == nil {
			out = b
		} else {
			out = &rx{kind: rxAlt, a: out, b: b}
		}
		if p.eof() || p.peek() != '|' {
			return out, n, nil
		}
		p.pos++
	}
}

// branch ::= piece*
func (p *rxParser) branch() (*rx, error) {
	out := rxEpsN
	for !p.eof() && p.peek() != '|' && p.peek() != ')' {
		pc, err := p.piece()
		if err != nil {
			return nil, err
		}
		if out == rxEpsN {
			out = pc
		} else {
			out = &rx{kind: rxCat, a: out, b: pc}
		}
	}
	return out, nil
}

const rxMaxRepeat = 50

// piece ::= atom quantifier?
func (p *rxParser) piece() (*rx, error) {
	a, err := p.atom()
	if err != nil {
		return nil, err
	}
	if p.eof() {
		return a, nil
	}
	var out *rx
	switch p.peek() {
	case '?':
		p.pos++
		out = &rx{kind: rxAlt, a: a, b: rxEpsN}
	case '*':
		p.pos++
		out = &rx{kind: rxStar, a: a}
	case '+':
		p.pos++
		out = &rx{kind: rxCat, a: a, b: &rx{kind: rxStar, a: a}}
	case '{':
		p.pos++
		lo, ok := p.number()
		if !ok {
			return nil, unsupported("bad quantity in {}")
		}
		hi, open := lo, false
		if !p.eof() && p.peek() == ',' {
			p.pos++
			if !p.eof() && p.peek() == '}' {
				open = true
			} else if hi, ok = p.number(); !ok {
				return nil, unsupported("bad quantity in {}")
			}
		}
		if p.eof() || p.peek() != '}' {
			return nil, unsupported("unterminated {}")
		}
		p.pos++
		if lo > rxMaxRepeat || hi > rxMaxRepeat || (!open && hi < lo) {
			return nil, unsupported("quantity out of the supported bounds")
		}
		out = rxEpsN
		for i := 0; i < lo; i++ {
			out = catRaw(out, a)
		}
		if open {
			out = catRaw(out, &rx{kind: rxStar, a: a})
		} else {
			for i := lo; i < hi; i++ {
				out = catRaw(out, &rx{kind: rxAlt, a: a, b: rxEpsN})
			}
		}
	default:
		return a, nil
	}
	if !p.eof() {
		switch p.peek() {
		case '?', '*', '+', '{':
			return nil, unsupported("quantifier applied to a quantified piece")
		}
	}
	if a.kind == rxBOL || a.kind == rxEOL {
		return nil, unsupported("quantified anchor")
	}
	return out, nil
}

func catRaw(a, b *rx) *rx {
	if a == rxEpsN {
		return b
	}
	return &rx{kind: rxCat, a: a, b: b}
}

func (p *rxParser) number() (int, bool) {
	n, digits := 0, 0
	for !p.eof() && p.peek() >= '0' && p.peek() <= '9' && digits < 4 {
		n = n*10 + int(p.peek()-'0')
		p.pos++
		digits++
	}
	return n, digits > 0
}

func lit(r rune) *rx {
	return &rx{kind: rxSet, set: &rxSetT{items: []rxItem{{lo: r, hi: r}}}}
}

// atom ::= Char | charClass | '(' regExp ')'
func (p *rxParser) atom() (*rx, error) {
	c := p.peek()
	switch c {
	case '(':
		p.pos++
		if !p.eof() && p.peek() == '?' {
			return nil, unsupported("(?...) group")
		}
		r, _, err := p.regExp()
		if err != nil {
			return nil, err
		}
		if p.eof() || p.peek() != ')' {
			return nil, unsupported("missing )")
		}
		p.pos++
		return r, nil
	case '[':
		p.pos++
		return p.classExpr()
	case '.':
		p.pos++
		if p.mode == RxPOSIX { // POSIX: any character, newline included (no REG_NEWLINE)
			return &rx{kind: rxSet, set: &rxSetT{items: []rxItem{{esc: 'A'}}}}, nil
		}
		return &rx{kind: rxSet, set: &rxSetT{items: []rxItem{{esc: '.'}}}}, nil
	case '\\':
		p.pos++
		it, err := p.escape()
		if err != nil {
			return nil, err
		}
		return &rx{kind: rxSet, set: &rxSetT{items: []rxItem{it}}}, nil
	case '?', '*', '+', '{', '}', ']':
		return nil, unsupported("unexpected metacharacter %q at offset %d", string(c), p.pos)
	case '^':
		p.pos++
		if p.mode == RxPOSIX {
			return &rx{kind: rxBOL}, nil
		}
		return lit('^'), nil
	case '$':
		p.pos++
		if p.mode == RxPOSIX {
			return &rx{kind: rxEOL}, nil
		}
		return lit('$'), nil
	}
	p.pos++
	return lit(c), nil
}

// escape parses what follows a backslash.
func (p *rxParser) escape() (rxItem, error) {
	if p.eof() {
		return rxItem{}, unsupported("trailing backslash")
	}
	c := p.peek()
	p.pos++
	switch c {
	case 'n':
		return rxItem{lo: '\n', hi: '\n'}, nil
	case 'r':
		return rxItem{lo: '\r', hi: '\r'}, nil
	case 't':
		return rxItem{lo: '\t', hi: '\t'}, nil
	case '\\', '|', '.', '-', '^', '$', '?', '*', '+', '{', '}', '(', ')', '[', ']':
		return rxItem{lo: c, hi: c}, nil
	case 'd', 'D', 'w', 'W', 's', 'S':
		if p.mode == RxPOSIX {
			return rxItem{}, unsupported("\\%c is not POSIX", c)
		}
		return rxItem{esc: byte(c)}, nil
	}
	return rxItem{}, unsupported("escape \\%c", c)
}

// classExpr parses after '[' up to and including ']'.
func (p *rxParser) classExpr() (*rx, error) {
	set := &rxSetT{}
	if !p.eof() && p.peek() == '^' {
		set.neg = true
		p.pos++
	}
	first := true
	for {
		if p.eof() {
			return nil, unsupported("unterminated character class")
		}
		c := p.peek()
		if c == ']' {
			if first {
				return nil, unsupported("empty character class")
			}
			p.pos++
			break
		}
		var it rxItem
		switch c {
		case '[':
			return nil, unsupported("'[' inside a character class")
		case '\\':
			if p.mode == RxPOSIX {
				return nil, unsupported("backslash inside a bracket expression")
			}
			p.pos++
			var err error
			if it, err = p.escape(); err != nil {
				return nil, err
			}
		case '-':
			// a '-' is a literal only as the first or the last member of the class
			p.pos++
			if !first && (p.eof() || p.peek() != ']') {
				return nil, unsupported("'-' in the middle of a character class")
			}
			it = rxItem{lo: '-', hi: '-'}
		default:
			p.pos++
			it = rxItem{lo: c, hi: c}
		}
		first = false
		// range?
		if it.esc == 0 && p.pos+1 < len(p.src) && p.peek() == '-' && p.src[p.pos+1] != ']' {
			p.pos++
			hi := p.peek()
			if hi == '[' {
				return nil, unsupported("character class subtraction")
			}
			p.pos++
			if hi == '\\' {
				e, err := p.escape()
				if err != nil {
					return nil, err
				}
				if e.esc != 0 {
					return nil, unsupported("class escape as range end")
				}
				hi = e.lo
			}
			if hi < it.lo {
				return nil, unsupported("reversed range")
			}
			it.hi = hi
		}
		set.items = append(set.items, it)
	}
	return &rx{kind: rxSet, set: set}, nil
}

// ---------------------------------------------------------------------------------------------
// Evaluator 1: Brzozowski derivatives (whole-string, no anchors).

func nullable(r *rx) bool {
	switch r.kind {
	case rxEps, rxStar:
		return true
	case rxCat:
		return nullable(r.a) && nullable(r.b)
	case rxAlt:
		return nullable(r.a) || nullable(r.b)
	}
	return false
}

func deriv(r *rx, c rune) *rx {
	switch r.kind {
	case rxSet:
		if r.set.has(c) {
			return rxEpsN
		}
		return rxNoneN
	case rxCat:
		d := mkCat(deriv(r.a, c), r.b)
		if nullable(r.a) {
			return mkAlt(d, deriv(r.b, c))
		}
		return d
	case rxAlt:
		return mkAlt(deriv(r.a, c), deriv(r.b, c))
	case rxStar:
		return mkCat(deriv(r.a, c), mkStar(r.a))
	case rxBOL, rxEOL:
		panic("refregex: anchors are not supported by the derivative evaluator")
	}
	return rxNoneN // rxNone, rxEps
}

// RxState is a derivative of a pattern: the residual language after some prefix.
type RxState struct{ r *rx }

// Start returns the initial derivative state (XSD modes only).
func (p *RxProg) Start() RxState {
	if p.Mode == RxPOSIX {
		panic("refregex: derivative evaluator used in POSIX mode")
	}
	return RxState{p.root}
}

// Step returns the derivative with respect to c.
func (s RxState) Step(c rune) RxState { return RxState{deriv(s.r, c)} }

// Accepting reports whether the empty string is in the residual language.
func (s RxState) Accepting() bool { return nullable(s.r) }

// Dead reports whether the residual language is known to be empty.
func (s RxState) Dead() bool { return s.r.kind == rxNone }

// MatchDerivative reports whether the whole of s is in the language of p (XSD modes only).
func (p *RxProg) MatchDerivative(s string) bool {
	st := p.Start()
	for _, c := range s {
		st = st.Step(c)
		if st.Dead() {
			return false
		}
	}
	return st.Accepting()
}

// ---------------------------------------------------------------------------------------------
// Evaluator 2: end-position sets. ends(r, s, from) is the set of positions j such that r matches
// s[i:j] for some start position i in from. Positions are bits of a uint64 (values of up to 63 runes).

func ends(r *rx, s []rune, from uint64) uint64 {
	if from == 0 {
		return 0
	}
	switch r.kind {
	case rxEps:
		return from
	case rxSet:
		var out uint64
		for i, c := range s {
			if from&(1<<uint(i)) != 0 && r.set.has(c) {
				out |= 1 << uint(i+1)
			}
		}
		return out
	case rxCat:
		return ends(r.b, s, ends(r.a, s, from))
	case rxAlt:
		return ends(r.a, s, from) | ends(r.b, s, from)
	case rxStar:
		acc, frontier := from, from
		for frontier != 0 {
			nx := ends(r.a, s, frontier) &^ acc
			acc |= nx
			frontier = nx
		}
		return acc
	case rxBOL:
		return from & 1
	case rxEOL:
		return from & (1 << uint(len(s)))
	}
	return 0 // rxNone
}

// Match reports whether s is accepted: the whole of s in the XSD modes, some substring of s (with '^'
// and '$' asserting the start and end of s) in POSIX mode. Values longer than 63 runes panic.
func (p *RxProg) Match(s string) bool { return p.MatchRunes([]rune(s)) }

// MatchRunes is Match on a value given as runes.
func (p *RxProg) MatchRunes(rs []rune) bool {
	if len(rs) > 63 {
		panic("refregex: value longer than 63 runes")
	}
	if p.Mode == RxPOSIX {
		all := uint64(1)<<uint(len(rs)+1) - 1
		return ends(p.root, rs, all) != 0
	}
	return ends(p.root, rs, 1)&(1<<uint(len(rs))) != 0
}

// RxMatch parses and matches in one call.
func RxMatch(pattern string, mode RxMode, s string) (bool, error) {
	p, err := ParseRx(pattern, mode)
	if err != nil {
		return false, err
	}
	return p.Match(s), nil
}
