package core

import (
	"fmt"
	"reflect"
	"sort"
	"strconv"
	"strings"
)

// KV is one list key.
type KV struct {
	Name string
	Val  Value
}

// PElem is one data-tree path element; Keys sorted by name.
type PElem struct {
	Name string
	Keys []KV
}

// Path is a structured data-tree path.
type Path []PElem

// String is the harness's own injective encoding (deliberately not ygot.PathToString).
func (p Path) String() string {
	var b strings.Builder
	for _, e := range p {
		b.WriteByte('/')
		b.WriteString(e.Name)
		for _, k := range e.Keys {
			b.WriteByte('[')
			b.WriteString(k.Name)
			b.WriteByte('=')
			b.WriteString(strconv.Quote(string(k.Val)))
			b.WriteByte(']')
		}
	}
	if len(p) == 0 {
		return "/"
	}
	return b.String()
}

// KeyString renders only the key part of an element.
func (e PElem) KeyString() string {
	var b strings.Builder
	for _, k := range e.Keys {
		b.WriteString("[" + k.Name + "=" + strconv.Quote(string(k.Val)) + "]")
	}
	return b.String()
}

// Clone copies the path.
func (p Path) Clone() Path {
	out := make(Path, len(p))
	for i, e := range p {
		out[i] = PElem{Name: e.Name, Keys: append([]KV(nil), e.Keys...)}
	}
	return out
}

// Append returns p + elems (copying).
func (p Path) Append(es ...PElem) Path {
	out := make(Path, 0, len(p)+len(es))
	out = append(out, p...)
	return append(out, es...)
}

// Names appends plain (key-less) elements.
func (p Path) Names(names ...string) Path {
	out := make(Path, 0, len(p)+len(names))
	out = append(out, p...)
	for _, n := range names {
		out = append(out, PElem{Name: n})
	}
	return out
}

// Covers reports whether q lies at or below p, keys missing in p acting as wildcards.
func (p Path) Covers(q Path) bool {
	if len(p) > len(q) {
		return false
	}
	for i := range p {
		if p[i].Name != q[i].Name {
			return false
		}
		for _, k := range p[i].Keys {
			found := false
			for _, k2 := range q[i].Keys {
				if k2.Name == k.Name {
					found = k2.Val == k.Val
				}
			}
			if !found {
				return false
			}
		}
	}
	return true
}

// Model is the boring reference representation of a YANG data tree.
type Model struct {
	Leaves   map[string]Value       // leaf and leaf-list values by path
	Entries  map[string]bool        // keyed / ordered list entries
	Order    map[string][]string    // ordered-by-user list (path without keys) -> key strings in order
	Presence map[string]bool        // presence containers that exist
	Unkeyed  map[string][]string    // unkeyed list path -> canonical form of each element
	Bad      []string               // consistency facts that do not hold (map key != key leaf, nil entry ...)
	Extra    []string               // Go-representation facts that are not data (empty non-nil leaf-list): part of state identity only
	Paths    map[string]Path        // structured form of every path string above
	Structs  map[string]interface{} // container / list-entry path -> GoStruct pointer found there (not cloned)
}

// NewModel returns an empty model.
func NewModel() *Model {
	return &Model{Leaves: map[string]Value{}, Entries: map[string]bool{}, Order: map[string][]string{},
		Presence: map[string]bool{}, Unkeyed: map[string][]string{}, Paths: map[string]Path{}, Structs: map[string]interface{}{}}
}

// Clone deep-copies the model.
func (m *Model) Clone() *Model {
	n := NewModel()
	for k, v := range m.Leaves {
		n.Leaves[k] = v
	}
	for k, v := range m.Entries {
		n.Entries[k] = v
	}
	for k, v := range m.Order {
		n.Order[k] = append([]string(nil), v...)
	}
	for k, v := range m.Presence {
		n.Presence[k] = v
	}
	for k, v := range m.Unkeyed {
		n.Unkeyed[k] = append([]string(nil), v...)
	}
	n.Bad = append([]string(nil), m.Bad...)
	n.Extra = append([]string(nil), m.Extra...)
	for k, v := range m.Paths {
		n.Paths[k] = v
	}
	return n
}

func (m *Model) reg(p Path) string {
	s := p.String()
	if _, ok := m.Paths[s]; !ok {
		m.Paths[s] = p.Clone()
	}
	return s
}

// SetLeaf records a leaf value.
func (m *Model) SetLeaf(p Path, v Value) { m.Leaves[m.reg(p)] = v }

// Canon renders the model as sorted lines; equal models have equal Canon.
func (m *Model) Canon() string {
	var lines []string
	for k, v := range m.Leaves {
		lines = append(lines, "L "+k+" = "+string(v))
	}
	for k := range m.Entries {
		lines = append(lines, "E "+k)
	}
	for k, v := range m.Order {
		if len(v) > 0 {
			lines = append(lines, "O "+k+" = "+strings.Join(v, " "))
		}
	}
	for k := range m.Presence {
		lines = append(lines, "P "+k)
	}
	for k, v := range m.Unkeyed {
		for i, e := range v {
			lines = append(lines, fmt.Sprintf("U %s #%d {%s}", k, i, strings.ReplaceAll(e, "\n", "; ")))
		}
	}
	for _, b := range m.Bad {
		lines = append(lines, "B "+b)
	}
	sort.Strings(lines)
	return strings.Join(lines, "\n")
}

// StateKey identifies a state of the search: the data plus representation facts.
func (m *Model) StateKey() string {
	e := append([]string(nil), m.Extra...)
	sort.Strings(e)
	return m.Canon() + "\n#" + strings.Join(e, "\n#")
}

// LeafCanon renders only leaves and leaf-lists (+ ordered-list order if withOrder).
func (m *Model) LeafCanon(withOrder bool) string {
	var lines []string
	for k, v := range m.Leaves {
		lines = append(lines, "L "+k+" = "+string(v))
	}
	if withOrder {
		for k, v := range m.Order {
			if len(v) > 0 {
				lines = append(lines, "O "+k+" = "+strings.Join(v, " "))
			}
		}
	}
	sort.Strings(lines)
	return strings.Join(lines, "\n")
}

// DiffCanon lists lines only in a ("-") or only in b ("+"), for messages.
func DiffCanon(a, b string) string {
	as, bs := map[string]bool{}, map[string]bool{}
	for _, l := range strings.Split(a, "\n") {
		if l != "" {
			as[l] = true
		}
	}
	for _, l := range strings.Split(b, "\n") {
		if l != "" {
			bs[l] = true
		}
	}
	var out []string
	for l := range as {
		if !bs[l] {
			out = append(out, "- "+l)
		}
	}
	for l := range bs {
		if !as[l] {
			out = append(out, "+ "+l)
		}
	}
	sort.Strings(out)
	return strings.Join(out, " | ")
}

// Size is the number of populated nodes.
func (m *Model) Size() int {
	return len(m.Leaves) + len(m.Entries) + len(m.Presence) + len(m.Unkeyed)
}

func tagPaths(f reflect.StructField) [][]string {
	t, ok := f.Tag.Lookup("path")
	if !ok {
		return nil
	}
	var out [][]string
	for _, alt := range strings.Split(t, "|") {
		out = append(out, strings.Split(strings.Trim(alt, "/"), "/"))
	}
	return out
}

// TagPaths exposes the path alternatives of a struct field.
func TagPaths(f reflect.StructField) [][]string { return tagPaths(f) }

// IsOrderedMapType reports whether t (pointer type) is a generated ordered map.
func IsOrderedMapType(t reflect.Type) bool {
	if t.Kind() != reflect.Ptr || t.Elem().Kind() != reflect.Struct {
		return false
	}
	_, ok := t.MethodByName("IsYANGOrderedList")
	return ok
}

// FieldKind classifies a generated struct field by its Go type.
type FieldKind int

// Field kinds.
const (
	FLeaf FieldKind = iota
	FLeafList
	FContainer
	FKeyedList
	FOrderedList
	FUnkeyedList
)

// KindOfField classifies a field type.
func KindOfField(t reflect.Type) FieldKind {
	switch t.Kind() {
	case reflect.Ptr:
		if IsOrderedMapType(t) {
			return FOrderedList
		}
		if t.Elem().Kind() == reflect.Struct {
			if _, ok := t.MethodByName("IsYANGGoStruct"); ok {
				return FContainer
			}
		}
		return FLeaf
	case reflect.Map:
		return FKeyedList
	case reflect.Slice:
		if IsBinaryType(t) {
			return FLeaf
		}
		if t.Elem().Kind() == reflect.Ptr && t.Elem().Elem().Kind() == reflect.Struct {
			if _, ok := t.Elem().MethodByName("IsYANGGoStruct"); ok {
				return FUnkeyedList
			}
		}
		return FLeafList
	}
	return FLeaf
}

// KeyKVs converts a Go map key (scalar or generated key struct) into sorted KVs. keyNames are the
// schema's key leaf names (needed for single-key lists).
func (p *Pkg) KeyKVs(key reflect.Value, keyNames []string) []KV {
	if key.Kind() == reflect.Struct && key.Type().NumField() > 0 {
		if _, ok := key.Type().MethodByName("IsYANGGoKeyStruct"); ok {
			var out []KV
			for i := 0; i < key.NumField(); i++ {
				tp := tagPaths(key.Type().Field(i))
				name := key.Type().Field(i).Name
				if len(tp) > 0 {
					name = tp[0][len(tp[0])-1]
				}
				out = append(out, KV{name, p.FromGo(key.Field(i))})
			}
			sort.Slice(out, func(i, j int) bool { return out[i].Name < out[j].Name })
			return out
		}
	}
	n := "?"
	if len(keyNames) == 1 {
		n = keyNames[0]
	}
	return []KV{{n, p.FromGo(key)}}
}

// ListKeyNames returns the key leaf names of the list whose entries have struct type t.
func (p *Pkg) ListKeyNames(t reflect.Type) []string {
	e := p.EntryFor(t)
	if e == nil {
		return nil
	}
	return strings.Fields(e.Key)
}

// Observe walks a GoStruct with reflection only (struct tags, map keys, generated Keys()/Get of
// ordered maps) and returns its Model. It does not use any ygot tree-walking helper.
func (p *Pkg) Observe(root interface{}) *Model {
	p.Schema()
	m := NewModel()
	v := reflect.ValueOf(root)
	if v.Kind() == reflect.Ptr && !v.IsNil() {
		p.observeStruct(m, v.Elem(), nil)
	}
	sort.Strings(m.Bad)
	return m
}

// ObserveAny observes any GoStruct pointer (not only the root) as a model rooted at it.
func (p *Pkg) ObserveAny(s interface{}) *Model {
	p.Schema()
	m := NewModel()
	v := reflect.ValueOf(s)
	if v.Kind() == reflect.Ptr && !v.IsNil() && v.Elem().Kind() == reflect.Struct {
		p.observeStruct(m, v.Elem(), nil)
	}
	return m
}

func lastWithKeys(prefix Path, names []string, keys []KV) Path {
	out := prefix.Names(names...)
	out[len(out)-1].Keys = keys
	return out
}

func (p *Pkg) observeStruct(m *Model, sv reflect.Value, prefix Path) {
	st := sv.Type()
	for i := 0; i < st.NumField(); i++ {
		f := st.Field(i)
		alts := tagPaths(f)
		if alts == nil {
			continue
		}
		fv := sv.Field(i)
		switch KindOfField(f.Type) {
		case FContainer:
			if fv.IsNil() {
				continue
			}
			cp := prefix.Names(alts[0]...)
			if f.Tag.Get("yangPresence") == "true" {
				m.Presence[m.reg(cp)] = true
			}
			m.Structs[m.reg(cp)] = fv.Interface()
			p.observeStruct(m, fv.Elem(), cp)
		case FKeyedList:
			if fv.IsNil() {
				continue
			}
			if fv.Len() == 0 {
				m.Extra = append(m.Extra, "empty-map "+prefix.Names(alts[0]...).String())
			}
			keyNames := p.ListKeyNames(f.Type.Elem())
			keys := fv.MapKeys()
			type ent struct {
				kv []KV
				s  string
				v  reflect.Value
			}
			var ents []ent
			for _, k := range keys {
				kv := p.KeyKVs(k, keyNames)
				ents = append(ents, ent{kv, PElem{Keys: kv}.KeyString(), fv.MapIndex(k)})
			}
			sort.Slice(ents, func(i, j int) bool { return ents[i].s < ents[j].s })
			for i := 1; i < len(ents); i++ {
				if ents[i].s == ents[i-1].s {
					m.Bad = append(m.Bad, "duplicate-key "+lastWithKeys(prefix, alts[0], ents[i].kv).String())
				}
			}
			for _, e := range ents {
				ep := lastWithKeys(prefix, alts[0], e.kv)
				m.Entries[m.reg(ep)] = true
				if e.v.IsNil() {
					m.Bad = append(m.Bad, "nil-entry "+ep.String())
					continue
				}
				p.checkKeyLeaves(m, e.v.Elem(), e.kv, ep)
				m.Structs[ep.String()] = e.v.Interface()
				p.observeStruct(m, e.v.Elem(), ep)
			}
		case FOrderedList:
			if fv.IsNil() {
				continue
			}
			keysV := fv.MethodByName("Keys").Call(nil)[0]
			valsV := fv.MethodByName("Values").Call(nil)[0]
			if keysV.Len() == 0 {
				m.Extra = append(m.Extra, "empty-orderedmap "+prefix.Names(alts[0]...).String())
			}
			et := valsV.Type().Elem()
			keyNames := p.ListKeyNames(et)
			lp := prefix.Names(alts[0]...)
			var order []string
			if keysV.Len() != valsV.Len() {
				m.Bad = append(m.Bad, fmt.Sprintf("ordered-map keys/values length %d/%d at %s", keysV.Len(), valsV.Len(), lp))
			}
			for j := 0; j < keysV.Len() && j < valsV.Len(); j++ {
				kv := p.KeyKVs(keysV.Index(j), keyNames)
				ep := lastWithKeys(prefix, alts[0], kv)
				order = append(order, PElem{Keys: kv}.KeyString())
				m.Entries[m.reg(ep)] = true
				ev := valsV.Index(j)
				if ev.IsNil() {
					m.Bad = append(m.Bad, "nil-entry "+ep.String())
					continue
				}
				p.checkKeyLeaves(m, ev.Elem(), kv, ep)
				m.Structs[ep.String()] = ev.Interface()
				p.observeStruct(m, ev.Elem(), ep)
			}
			if len(order) > 0 {
				m.Order[m.reg(lp)] = order
			}
		case FUnkeyedList:
			if fv.Len() == 0 {
				continue
			}
			lp := prefix.Names(alts[0]...)
			var els []string
			for j := 0; j < fv.Len(); j++ {
				if fv.Index(j).IsNil() {
					els = append(els, "<nil>")
					continue
				}
				sub := NewModel()
				p.observeStruct(sub, fv.Index(j).Elem(), nil)
				els = append(els, sub.Canon())
			}
			m.Unkeyed[m.reg(lp)] = els
		default:
			val := p.FromGo(fv)
			if val == NoValue {
				if KindOfField(f.Type) == FLeafList && !fv.IsNil() {
					m.Extra = append(m.Extra, "empty-leaflist "+prefix.Names(alts[0]...).String())
				}
				continue
			}
			for _, a := range alts {
				m.SetLeaf(prefix.Names(a...), val)
			}
		}
	}
}

// checkKeyLeaves records a consistency fact when an entry's key leaves differ from its map key.
func (p *Pkg) checkKeyLeaves(m *Model, ev reflect.Value, kv []KV, ep Path) {
	et := ev.Type()
	for _, k := range kv {
		found := false
		for i := 0; i < et.NumField(); i++ {
			for _, a := range tagPaths(et.Field(i)) {
				if len(a) == 1 && a[0] == k.Name {
					found = true
					if got := p.FromGo(ev.Field(i)); got != k.Val {
						m.Bad = append(m.Bad, fmt.Sprintf("key-mismatch %s leaf %s=%q", ep, k.Name, got))
					}
				}
			}
		}
		if !found {
			m.Bad = append(m.Bad, fmt.Sprintf("no-key-leaf %s %s", ep, k.Name))
		}
	}
}
