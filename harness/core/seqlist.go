package core

import (
	"fmt"
	"reflect"
	"regexp"
	"strings"

	"github.com/openconfig/goyang/pkg/yang"
	"github.com/openconfig/ygot/ygot"
)

// ListSite describes one generated list field (keyed map or ordered map) reachable from the root
// through containers only, with everything needed to drive its generated helpers by reflection.
type ListSite struct {
	P          *Pkg
	Containers []string // field names from the root struct down to the parent struct of the list
	Field      string   // name of the list field in the parent struct (= <L> in New<L>, Append<L> ...)
	Ordered    bool
	Path       string         // data-tree path of the list (first tag alternative)
	EntryType  reflect.Type   // *Entry
	KeyType    reflect.Type   // map key type / key type of the ordered map (scalar or generated key struct)
	KeyNames   []string       // schema key leaf names, in key order
	KeyFields  []int          // index of each key leaf field in the entry struct
	CompTypes  []reflect.Type // Go type of each key component (argument types of New<L>/AppendNew)
	keyStructF []int          // for key structs: field index of each component
	CompKinds  []string       // str i64 u8 dec bool enum union ... per component
	Domain     [][]Value      // the key tuples of the small key domain
}

// Shape renders the list kind for signatures: ordered[str] keyed[u8,enum] ...
func (s *ListSite) Shape() string {
	k := "keyed"
	if s.Ordered {
		k = "ordered"
	}
	return k + "[" + strings.Join(s.CompKinds, ",") + "]"
}

// ID identifies the site inside its package.
func (s *ListSite) ID() string { return s.Path }

// KeyFieldIndex returns the index of the entry struct field that holds key leaf keyName (-1: none).
func KeyFieldIndex(et reflect.Type, keyName string) int {
	if et.Kind() == reflect.Ptr {
		et = et.Elem()
	}
	for j := 0; j < et.NumField(); j++ {
		if isKeyField(et.Field(j), []string{keyName}) {
			return j
		}
	}
	return -1
}

var plainString = regexp.MustCompile(`^[a-z]+$`)

// seqKeyDomain picks up to three values for a key component: plain values first, one per value
// kind (so that a union key gets one value per member type), then the remaining ones in order.
func (p *Pkg) seqKeyDomain(ft reflect.Type, ke *yang.Entry) []Value {
	dom := p.LeafDomain(ft, ke)
	t := ft
	if t.Kind() == reflect.Ptr {
		t = t.Elem()
	}
	if t.Kind() == reflect.String {
		var yt *yang.YangType
		if ke != nil {
			yt = ke.Type
			if yt != nil && yt.Kind == yang.Yleafref {
				yt = ResolveLeafref(ke)
			}
		}
		if yt == nil || (len(yt.Pattern) == 0 && len(yt.POSIXPattern) == 0 && len(yt.Length) == 0) {
			return []Value{"str:a", "str:b", "str:c"}
		}
	}
	var cand []Value
	for _, v := range dom {
		if v != "str:" {
			cand = append(cand, v)
		}
	}
	var out []Value
	used := map[Value]bool{}
	kinds := map[string]bool{}
	for _, v := range cand { // one per kind
		if len(out) < 3 && !kinds[v.Kind()] && (v.Kind() != "str" || plainString.MatchString(v.Payload())) {
			kinds[v.Kind()] = true
			used[v] = true
			out = append(out, v)
		}
	}
	for _, v := range cand {
		if len(out) < 3 && !used[v] {
			used[v] = true
			out = append(out, v)
		}
	}
	return out
}

func kindOfComp(t reflect.Type, first Value) string {
	switch {
	case t.Kind() == reflect.Interface:
		return "union"
	case IsEnumType(t):
		return "enum"
	}
	return first.Kind()
}

// ListSites discovers the keyed and ordered lists reachable from the root through containers.
func (p *Pkg) ListSites() []*ListSite {
	p.Schema()
	var out []*ListSite
	p.listSites(p.RootType, p.RootSchema(), nil, nil, &out)
	return out
}

func (p *Pkg) listSites(st reflect.Type, se *yang.Entry, conts []string, prefix Path, out *[]*ListSite) {
	if st.Kind() == reflect.Ptr {
		st = st.Elem()
	}
	for i := 0; i < st.NumField(); i++ {
		f := st.Field(i)
		alts := tagPaths(f)
		if alts == nil {
			continue
		}
		ce, _ := FindChild(se, alts[0])
		switch KindOfField(f.Type) {
		case FContainer:
			p.listSites(f.Type, ce, append(append([]string{}, conts...), f.Name), prefix.Names(alts[0]...), out)
		case FKeyedList, FOrderedList:
			s := &ListSite{P: p, Containers: append([]string{}, conts...), Field: f.Name, Path: prefix.Names(alts[0]...).String()}
			if f.Type.Kind() == reflect.Map {
				s.EntryType, s.KeyType = f.Type.Elem(), f.Type.Key()
			} else {
				s.Ordered = true
				gm, ok := f.Type.MethodByName("Get")
				if !ok {
					continue
				}
				s.EntryType, s.KeyType = gm.Type.Out(0), gm.Type.In(1)
			}
			s.KeyNames = p.ListKeyNames(s.EntryType)
			ee := p.EntryFor(s.EntryType)
			if len(s.KeyNames) == 0 || ee == nil {
				continue
			}
			isKS := false
			if s.KeyType.Kind() == reflect.Struct {
				_, isKS = s.KeyType.MethodByName("IsYANGGoKeyStruct")
			}
			ok := true
			var doms [][]Value
			for _, kn := range s.KeyNames {
				fi := KeyFieldIndex(s.EntryType, kn)
				if fi < 0 {
					ok = false
					break
				}
				kf := s.EntryType.Elem().Field(fi)
				s.KeyFields = append(s.KeyFields, fi)
				ct := s.KeyType
				if isKS {
					ct = nil
					for j := 0; j < s.KeyType.NumField(); j++ {
						tp := tagPaths(s.KeyType.Field(j))
						if len(tp) > 0 && tp[0][len(tp[0])-1] == kn {
							ct = s.KeyType.Field(j).Type
							s.keyStructF = append(s.keyStructF, j)
						}
					}
					if ct == nil {
						ok = false
						break
					}
				}
				s.CompTypes = append(s.CompTypes, ct)
				tps := tagPaths(kf)
				ke, _ := FindChild(ee, tps[len(tps)-1])
				d := p.seqKeyDomain(kf.Type, ke)
				if len(d) == 0 {
					ok = false
					break
				}
				doms = append(doms, d)
				s.CompKinds = append(s.CompKinds, kindOfComp(ct, d[0]))
			}
			if !ok {
				continue
			}
			if len(doms) == 1 {
				for _, v := range doms[0] {
					s.Domain = append(s.Domain, []Value{v})
				}
			} else {
				// three tuples that pairwise share a component: (0,0..) (0,1..) (1,0..)
				pickAt := func(d []Value, i int) Value {
					if i >= len(d) {
						i = len(d) - 1
					}
					return d[i]
				}
				for _, ix := range [][]int{{0, 0}, {0, 1}, {1, 0}} {
					var tup []Value
					for c := range doms {
						j := ix[0]
						if c%2 == 1 {
							j = ix[1]
						}
						tup = append(tup, pickAt(doms[c], j))
					}
					dup := false
					for _, t := range s.Domain {
						if fmt.Sprint(t) == fmt.Sprint(tup) {
							dup = true
						}
					}
					if !dup {
						s.Domain = append(s.Domain, tup)
					}
				}
			}
			*out = append(*out, s)
		}
	}
}

// Fresh builds a fresh root with the container chain down to the parent of the list and returns
// the root, the parent (pointer to struct) and the list field (settable).
func (s *ListSite) Fresh() (ygot.GoStruct, reflect.Value, reflect.Value) {
	root := s.P.NewRoot()
	cur := reflect.ValueOf(root)
	for _, c := range s.Containers {
		f := cur.Elem().FieldByName(c)
		f.Set(reflect.New(f.Type().Elem()))
		cur = f
	}
	return root, cur, cur.Elem().FieldByName(s.Field)
}

// KeySet holds the key objects of one execution: every key tuple of the domain is built exactly
// once, so that keys whose Go representation contains pointers (wrapper unions) keep their identity.
type KeySet struct {
	Comps [][]reflect.Value // [tuple][component], typed as CompTypes
	Keys  []reflect.Value   // [tuple] map key of type KeyType
}

// NewKeys builds the key objects of the domain.
func (s *ListSite) NewKeys() (*KeySet, error) {
	ks := &KeySet{}
	owner := reflect.New(s.EntryType.Elem())
	for _, tup := range s.Domain {
		var comps []reflect.Value
		for c, v := range tup {
			gv, err := s.P.ToGo(v, s.CompTypes[c], owner)
			if err != nil {
				return nil, fmt.Errorf("key component %s of %s: %v", v, s.Path, err)
			}
			comps = append(comps, gv)
		}
		ks.Comps = append(ks.Comps, comps)
		ks.Keys = append(ks.Keys, s.KeyOf(comps))
	}
	return ks, nil
}

// KeyOf assembles the map key from its components.
func (s *ListSite) KeyOf(comps []reflect.Value) reflect.Value {
	if s.keyStructF == nil {
		return comps[0]
	}
	kv := reflect.New(s.KeyType).Elem()
	for c, j := range s.keyStructF {
		kv.Field(j).Set(comps[c])
	}
	return kv
}

// KeyComps splits a map key into its components (in key order).
func (s *ListSite) KeyComps(k reflect.Value) []reflect.Value {
	if s.keyStructF == nil {
		return []reflect.Value{k}
	}
	out := make([]reflect.Value, len(s.keyStructF))
	for c, j := range s.keyStructF {
		out[c] = k.Field(j)
	}
	return out
}

// NewEntry builds a new list entry whose key leaves hold the given components; component c is left
// unset (nil pointer / nil union) when bit c of nilMask is set.
func (s *ListSite) NewEntry(comps []reflect.Value, nilMask int) reflect.Value {
	e := reflect.New(s.EntryType.Elem())
	for c, fi := range s.KeyFields {
		if nilMask&(1<<uint(c)) != 0 {
			continue
		}
		f := e.Elem().Field(fi)
		if f.Kind() == reflect.Ptr {
			pv := reflect.New(f.Type().Elem())
			pv.Elem().Set(comps[c])
			f.Set(pv)
		} else {
			f.Set(comps[c])
		}
	}
	return e
}

// CompNillable reports whether key component c can be left nil in an entry (pointer or interface
// typed key leaf); enumeration-typed key leaves have no nil value.
func (s *ListSite) CompNillable(c int) bool {
	k := s.EntryType.Elem().Field(s.KeyFields[c]).Type.Kind()
	return k == reflect.Ptr || k == reflect.Interface
}

// KeyEq compares two keys (or key components) with the semantics of Go's == (the relation the
// generated maps use): interfaces are unwrapped, pointers compare by identity, key structs field-wise.
func KeyEq(a, b reflect.Value) (eq bool) {
	defer func() {
		if recover() != nil {
			eq = false
		}
	}()
	return a.Equal(b)
}

// KeyIndex returns the index of key k in the key set (-1: not a key of the domain).
func (s *ListSite) KeyIndex(ks *KeySet, k reflect.Value) int {
	for i, d := range ks.Keys {
		if KeyEq(d, k) {
			return i
		}
	}
	return -1
}

// KeyCanon renders a key by value.
func (s *ListSite) KeyCanon(k reflect.Value) string {
	return PElem{Keys: s.P.KeyKVs(k, s.KeyNames)}.KeyString()
}

// EntryKeyMatches reports whether the key leaves of entry (pointer) equal key k component-wise; the
// second result renders the key leaves.
func (s *ListSite) EntryKeyMatches(entry, k reflect.Value) (bool, string) {
	comps := s.KeyComps(k)
	ok := true
	var parts []string
	for c, fi := range s.KeyFields {
		f := entry.Elem().Field(fi)
		parts = append(parts, s.KeyNames[c]+"="+string(s.P.FromGo(f)))
		if f.Kind() == reflect.Ptr {
			if f.IsNil() {
				ok = false
				continue
			}
			f = f.Elem()
		}
		if !KeyEq(f, comps[c]) {
			ok = false
		}
	}
	return ok, strings.Join(parts, ",")
}
