package core

import (
	"encoding/base64"
	"encoding/hex"
	"math/big"
	"reflect"
	"strconv"
	"strings"

	gpb "github.com/openconfig/gnmi/proto/gnmi"
)

// RefKeyString is the harness's own rendering of a key value in a gNMI path: decimal digits for
// integers, the shortest decimal for decimal64, names for enumerations / identities, true/false,
// the text itself for strings, base64 for binary.
func RefKeyString(v Value) string {
	switch v.Kind() {
	case "enum", "str", "bool", "dec":
		return v.Payload()
	case "bin":
		b, _ := hex.DecodeString(v.Payload())
		return base64.StdEncoding.EncodeToString(b)
	case "empty":
		return "true"
	}
	return v.Payload()
}

// GNMI converts a model path to a gNMI PathElem path using the reference key formatter.
func (p Path) GNMI() *gpb.Path {
	out := &gpb.Path{}
	for _, e := range p {
		pe := &gpb.PathElem{Name: e.Name}
		if len(e.Keys) > 0 {
			pe.Key = map[string]string{}
			for _, k := range e.Keys {
				pe.Key[k.Name] = RefKeyString(k.Val)
			}
		}
		out.Elem = append(out.Elem, pe)
	}
	return out
}

// KeyLeafPaths returns, for the list entry struct at entry path ep, the data-tree paths of its key
// leaves (all tag alternatives) with the key values taken from the path element.
func (p *Pkg) KeyLeafPaths(entry interface{}, ep Path) map[string]Value {
	out := map[string]Value{}
	t := reflect.TypeOf(entry)
	if t == nil || t.Kind() != reflect.Ptr {
		return out
	}
	keyNames := p.ListKeyNames(t)
	last := ep[len(ep)-1]
	for i := 0; i < t.Elem().NumField(); i++ {
		f := t.Elem().Field(i)
		for _, kn := range keyNames {
			if !isKeyField(f, []string{kn}) {
				continue
			}
			var val Value
			for _, kv := range last.Keys {
				if kv.Name == kn {
					val = kv.Val
				}
			}
			for _, a := range tagPaths(f) {
				out[ep.Names(a...).String()] = val
			}
		}
	}
	return out
}

// HasPrefixFold is a tiny helper for error classification.
func HasPrefixFold(s, p string) bool {
	return strings.HasPrefix(strings.ToLower(s), strings.ToLower(p))
}

// KeyMatches reports whether the gNMI key string s denotes the key value v (reference parser:
// decimal digits for integers, any float syntax for decimal64, names, true/false, base64).
func KeyMatches(v Value, s string) bool {
	switch v.Kind() {
	case "str", "enum", "bool":
		if v.Kind() == "enum" {
			if i := strings.LastIndex(s, ":"); i >= 0 && s[i+1:] == v.Payload() {
				return true
			}
		}
		return s == v.Payload()
	case "dec":
		a, ok1 := new(big.Rat).SetString(s)
		b, ok2 := new(big.Rat).SetString(v.Payload())
		if ok1 && ok2 {
			return a.Cmp(b) == 0
		}
		f1, e1 := strconv.ParseFloat(s, 64)
		f2, e2 := strconv.ParseFloat(v.Payload(), 64)
		return e1 == nil && e2 == nil && f1 == f2
	case "bin":
		b, _ := hex.DecodeString(v.Payload())
		return base64.StdEncoding.EncodeToString(b) == s
	case "empty":
		return s == "true"
	}
	// integers
	a, ok1 := new(big.Int).SetString(s, 10)
	b, ok2 := new(big.Int).SetString(v.Payload(), 10)
	return ok1 && ok2 && a.Cmp(b) == 0
}

// MatchesGNMI reports whether gNMI path g (prefix already joined) denotes model path p exactly.
func (p Path) MatchesGNMI(g []*gpb.PathElem) bool {
	if len(g) != len(p) {
		return false
	}
	return p.matchPrefix(g)
}

// CoveredByGNMI reports whether model path p lies at or below gNMI path g (missing keys = wildcard).
func (p Path) CoveredByGNMI(g []*gpb.PathElem) bool {
	if len(g) > len(p) {
		return false
	}
	return p[:len(g)].matchPrefixPartial(g)
}

func (p Path) matchPrefix(g []*gpb.PathElem) bool {
	for i, e := range g {
		if e.GetName() != p[i].Name || len(e.GetKey()) != len(p[i].Keys) {
			return false
		}
		for _, kv := range p[i].Keys {
			s, ok := e.GetKey()[kv.Name]
			if !ok || !KeyMatches(kv.Val, s) {
				return false
			}
		}
	}
	return true
}

func (p Path) matchPrefixPartial(g []*gpb.PathElem) bool {
	for i, e := range g {
		if e.GetName() != p[i].Name {
			return false
		}
		for k, s := range e.GetKey() {
			found := false
			for _, kv := range p[i].Keys {
				if kv.Name == k {
					found = KeyMatches(kv.Val, s)
				}
			}
			if !found {
				return false
			}
		}
	}
	return true
}

// JoinElems joins prefix and path elements.
func JoinElems(prefix, path *gpb.Path) []*gpb.PathElem {
	var out []*gpb.PathElem
	out = append(out, prefix.GetElem()...)
	return append(out, path.GetElem()...)
}

// TVMatches reports whether the TypedValue denotes the canonical value v (scalar encodings only).
func TVMatches(tv *gpb.TypedValue, v Value) bool {
	if tv == nil {
		return false
	}
	if v.IsLL() {
		ll, ok := tv.GetValue().(*gpb.TypedValue_LeaflistVal)
		if !ok {
			return false
		}
		es := v.Elems()
		if len(ll.LeaflistVal.GetElement()) != len(es) {
			return false
		}
		for i, e := range es {
			if !TVMatches(ll.LeaflistVal.Element[i], e) {
				return false
			}
		}
		return true
	}
	switch v.Kind() {
	case "str":
		x, ok := tv.GetValue().(*gpb.TypedValue_StringVal)
		return ok && x.StringVal == v.Payload()
	case "enum":
		x, ok := tv.GetValue().(*gpb.TypedValue_StringVal)
		if !ok {
			return false
		}
		s := x.StringVal
		if s == v.Payload() { // also names that contain a colon themselves ("ipv4:unicast")
			return true
		}
		if i := strings.Index(s, ":"); i >= 0 { // module prefix of an identityref
			s = s[i+1:]
		}
		return s == v.Payload()
	case "bool":
		x, ok := tv.GetValue().(*gpb.TypedValue_BoolVal)
		return ok && strconv.FormatBool(x.BoolVal) == v.Payload()
	case "empty":
		x, ok := tv.GetValue().(*gpb.TypedValue_BoolVal)
		return ok && x.BoolVal
	case "bin":
		x, ok := tv.GetValue().(*gpb.TypedValue_BytesVal)
		return ok && hex.EncodeToString(x.BytesVal) == v.Payload()
	case "dec":
		want, _ := strconv.ParseFloat(v.Payload(), 64)
		switch x := tv.GetValue().(type) {
		case *gpb.TypedValue_DoubleVal:
			return x.DoubleVal == want
		case *gpb.TypedValue_FloatVal:
			return float64(x.FloatVal) == want
		case *gpb.TypedValue_DecimalVal:
			r := new(big.Rat).SetFrac(big.NewInt(x.DecimalVal.GetDigits()), new(big.Int).Exp(big.NewInt(10), big.NewInt(int64(x.DecimalVal.GetPrecision())), nil))
			w, _ := new(big.Rat).SetString(v.Payload())
			return r.Cmp(w) == 0
		}
		return false
	}
	if strings.HasPrefix(v.Kind(), "i") {
		x, ok := tv.GetValue().(*gpb.TypedValue_IntVal)
		return ok && strconv.FormatInt(x.IntVal, 10) == v.Payload()
	}
	if strings.HasPrefix(v.Kind(), "u") {
		x, ok := tv.GetValue().(*gpb.TypedValue_UintVal)
		return ok && strconv.FormatUint(x.UintVal, 10) == v.Payload()
	}
	return false
}
