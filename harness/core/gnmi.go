package core

import (
	"encoding/base64"
	"encoding/hex"
	"reflect"
	"strings"

	gpb "github.com/openconfig/gnmi/proto/gnmi"
)

// RefKeyString is the harness's own rendering of a key value in a gNMI path: decimal digits for
// integers, the shortest decimal for decimal64, names for enumerations / identities, true/false,
// the text itself for strings, base64 for binary.
func RefKeyString(v Value) string {
	switch v.Kind() {
	case "enum", "str", "bool", "dec":
		return v.Payload()
	case "bin":
		b, _ := hex.DecodeString(v.Payload())
		return base64.StdEncoding.EncodeToString(b)
	case "empty":
		return "true"
	}
	return v.Payload()
}

// GNMI converts a model path to a gNMI PathElem path using the reference key formatter.
func (p Path) GNMI() *gpb.Path {
	out := &gpb.Path{}
	for _, e := range p {
		pe := &gpb.PathElem{Name: e.Name}
		if len(e.Keys) > 0 {
			pe.Key = map[string]string{}
			for _, k := range e.Keys {
				pe.Key[k.Name] = RefKeyString(k.Val)
			}
		}
		out.Elem = append(out.Elem, pe)
	}
	return out
}



// KeyLeafPaths returns, for the list entry struct at entry path ep, the data-tree paths of its key
// leaves (all tag alternatives) with the key values taken from the path element.
func (p *Pkg) KeyLeafPaths(entry interface{}, ep Path) map[string]Value {
	out := map[string]Value{}
	t := reflect.TypeOf(entry)
	if t == nil || t.Kind() != reflect.Ptr {
		return out
	}
	keyNames := p.ListKeyNames(t)
	last := ep[len(ep)-1]
	for i := 0; i < t.Elem().NumField(); i++ {
		f := t.Elem().Field(i)
		for _, kn := range keyNames {
			if !isKeyField(f, []string{kn}) {
				continue
			}
			var val Value
			for _, kv := range last.Keys {
				if kv.Name == kn {
					val = kv.Val
				}
			}
			for _, a := range tagPaths(f) {
				out[ep.Names(a...).String()] = val
			}
		}
	}
	return out
}

// HasPrefixFold is a tiny helper for error classification.
func HasPrefixFold(s, p string) bool { return strings.HasPrefix(strings.ToLower(s), strings.ToLower(p)) }
