package core

import (
	"sort"
)

// RefJSONTree is the reference RFC 7951 rendering of the part of a Model that lies below the
// node `under`, as the JSON object of that node (member names without module prefixes, which
// ygot's Unmarshal accepts): containers become objects, list entries become objects inside an
// array (keyed lists in the deterministic order of their entry paths, ordered-by-user lists in
// their Model order), leaves are encoded with RefJSONScalar. Presence containers and list entries
// that hold no leaf still appear (as "{}" / as an object holding only what the model has).
// omit, when non-nil, suppresses single leaves (used to leave the key leaves of the target entry
// out of a payload).
//
// It is written against the Model only: no ygot code is involved.
func RefJSONTree(m *Model, under Path, omit func(leaf string) bool) map[string]interface{} {
	root := map[string]interface{}{}
	index := map[string]map[string]interface{}{under.String(): root}
	var ensure func(abs Path) map[string]interface{}
	ensure = func(abs Path) map[string]interface{} {
		s := abs.String()
		if o, ok := index[s]; ok {
			return o
		}
		if len(abs) <= len(under) {
			return root
		}
		parent := ensure(abs[:len(abs)-1])
		e := abs[len(abs)-1]
		obj := map[string]interface{}{}
		if len(e.Keys) > 0 {
			arr, _ := parent[e.Name].([]interface{})
			parent[e.Name] = append(arr, obj)
		} else {
			parent[e.Name] = obj
		}
		index[s] = obj
		return obj
	}
	below := func(q Path) bool { return under.Covers(q) && len(q) > len(under) }

	// ordered-by-user lists first, in their own order
	for _, lp := range SortedKeys(m.Order) {
		for _, ks := range m.Order[lp] {
			for _, es := range SortedKeys(m.Entries) {
				ep := m.Paths[es]
				if len(ep) == 0 || !below(ep) {
					continue
				}
				l := ep.Clone()
				l[len(l)-1].Keys = nil
				if l.String() == lp && ep[len(ep)-1].KeyString() == ks {
					ensure(ep)
				}
			}
		}
	}
	// keyed list entries, outer before inner
	ents := SortedKeys(m.Entries)
	sort.SliceStable(ents, func(i, j int) bool { return len(m.Paths[ents[i]]) < len(m.Paths[ents[j]]) })
	for _, es := range ents {
		if ep := m.Paths[es]; below(ep) {
			ensure(ep)
		}
	}
	for _, ps := range SortedKeys(m.Presence) {
		if pp := m.Paths[ps]; below(pp) {
			ensure(pp)
		}
	}
	for _, ls := range SortedKeys(m.Leaves) {
		lp := m.Paths[ls]
		if !below(lp) || (omit != nil && omit(ls)) {
			continue
		}
		ensure(lp[:len(lp)-1])[lp[len(lp)-1].Name] = RefJSONScalar(m.Leaves[ls])
	}
	return root
}
