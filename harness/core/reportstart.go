package core

import "time"

// SetStart moves the start of the measured wall time back to t. It is used by pipelines whose earlier phases
// (code generation, go build, go vet) run in other processes before the reporting process starts (genmc).
func (r *Reporter) SetStart(t time.Time) {
	if !t.IsZero() && t.Before(r.start) {
		r.start = t
	}
}
