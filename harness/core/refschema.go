package core

// refschema: the reference schema of properties C30, C32 and C33 - the YANG sources of a corpus
// schema compiled by the harness itself with goyang (DESIGN.md section 4.4: schema facts come from
// the harness's own compile, not from the schema ygot embeds in the generated package). It answers
// three questions about a data-tree path: which schema node is it, is that node config true, and
// what is its YANG default value.

import (
	"encoding/base64"
	"encoding/hex"
	"fmt"
	"math/big"
	"path/filepath"
	"strings"
	"sync"
	"unicode/utf8"

	"github.com/openconfig/goyang/pkg/yang"
)

// RefSchemaFiles lists the YANG files of each corpus schema (imports are found through the path).
var RefSchemaFiles = map[string][]string{
	"vt":   {"vt.yang", "vt-aug.yang"},
	"voc":  {"voc.yang"},
	"vlr":  {"vlr.yang"},
	"vdef": {"vdef.yang", "vdef-un.yang"},
	"vk":   {"vk.yang"},
}

// RsSchema is the compiled reference schema: the top-level data nodes of all given modules (what
// the generated fake root holds).
type RsSchema struct {
	Name string
	Tops map[string]*yang.Entry
}

var (
	rsSchemaMu    sync.Mutex
	rsSchemaCache = map[string]*RsSchema{}
)

// LoadRefSchema compiles (once per process) the named corpus schema from schemaDir.
func LoadRefSchema(schemaDir, name string) (*RsSchema, error) {
	rsSchemaMu.Lock()
	defer rsSchemaMu.Unlock()
	if s, ok := rsSchemaCache[schemaDir+"|"+name]; ok {
		return s, nil
	}
	files, ok := RefSchemaFiles[name]
	if !ok {
		return nil, fmt.Errorf("no YANG files known for schema %q", name)
	}
	ms := yang.NewModules()
	ms.AddPath(schemaDir)
	for _, f := range files {
		if err := ms.Read(filepath.Join(schemaDir, f)); err != nil {
			return nil, err
		}
	}
	if errs := ms.Process(); len(errs) > 0 {
		return nil, fmt.Errorf("goyang: %v", errs)
	}
	s := &RsSchema{Name: name, Tops: map[string]*yang.Entry{}}
	for _, f := range files {
		m := ms.Modules[strings.TrimSuffix(f, ".yang")]
		if m == nil {
			return nil, fmt.Errorf("module of %s not found", f)
		}
		root := yang.ToEntry(m)
		if errs := root.GetErrors(); len(errs) > 0 {
			return nil, fmt.Errorf("goyang: %v", errs)
		}
		for n, e := range root.Dir {
			if e.Kind == yang.DirectoryEntry || e.Kind == yang.LeafEntry || e.IsChoice() {
				if e.RPC != nil {
					continue
				}
				s.Tops[n] = e
			}
		}
	}
	rsSchemaCache[schemaDir+"|"+name] = s
	return s, nil
}

// refChild finds the data-tree child `name` of e, looking through choice and case nodes.
func refChild(e *yang.Entry, name string) *yang.Entry {
	if e == nil {
		return nil
	}
	if c, ok := e.Dir[name]; ok && !c.IsChoice() && !c.IsCase() {
		return c
	}
	for _, cn := range SortedKeys(e.Dir) {
		c := e.Dir[cn]
		if c.IsChoice() || c.IsCase() {
			if r := refChild(c, name); r != nil {
				return r
			}
		}
	}
	return nil
}

// Find resolves a data-tree path (element names, no keys) to its schema node.
func (s *RsSchema) Find(names []string) *yang.Entry {
	if len(names) == 0 {
		return nil
	}
	cur := s.Tops[names[0]]
	for _, n := range names[1:] {
		cur = refChild(cur, n)
		if cur == nil {
			return nil
		}
	}
	return cur
}

// FindPath resolves a Model path.
func (s *RsSchema) FindPath(p Path) *yang.Entry {
	names := make([]string, len(p))
	for i, e := range p {
		names[i] = e.Name
	}
	return s.Find(names)
}

// RefDataParent returns the data-tree parent of e (skipping choice and case nodes); nil at the top.
func RefDataParent(e *yang.Entry) *yang.Entry {
	p := e.Parent
	for p != nil && (p.IsChoice() || p.IsCase()) {
		p = p.Parent
	}
	if p != nil && p.Parent == nil { // the module entry
		return nil
	}
	return p
}

// RsConfig is the harness's own computation of the effective config flag (RFC 7950 7.21.1): the
// nearest explicit config statement on the way up decides; without any, config is true.
func RsConfig(e *yang.Entry) bool {
	for x := e; x != nil; x = x.Parent {
		switch x.Config {
		case yang.TSFalse:
			return false
		case yang.TSTrue:
			return true
		}
	}
	return true
}

// RefDataLeaves calls fn for every leaf / leaf-list schema node with its data-tree path (names).
func (s *RsSchema) RefDataLeaves(fn func(names []string, e *yang.Entry)) {
	var walk func(e *yang.Entry, names []string)
	walk = func(e *yang.Entry, names []string) {
		if e.IsChoice() || e.IsCase() {
			for _, n := range SortedKeys(e.Dir) {
				walk(e.Dir[n], names)
			}
			return
		}
		names = append(append([]string{}, names...), e.Name)
		if e.Kind == yang.LeafEntry {
			fn(names, e)
			return
		}
		for _, n := range SortedKeys(e.Dir) {
			walk(e.Dir[n], names)
		}
	}
	for _, n := range SortedKeys(s.Tops) {
		walk(s.Tops[n], nil)
	}
}

// ---------------------------------------------------------------------------------------------
// defaults (C33)

// RefDefault is the YANG default of a leaf / leaf-list in canonical Value form.
type RefDefault struct {
	Has     bool
	Val     Value  // scalar Value, or LL(...) for a leaf-list
	Source  string // "leaf" (default statement on the node) | "typedef"
	Unknown string // non-empty: the reference cannot decide the value (not judged)
}

// RefDefaultOf computes the default of leaf / leaf-list e per RFC 7950 7.6.1 / 7.7.2: the node's
// own default statement(s); otherwise the default of its type (typedef chain) unless the leaf is
// mandatory / the leaf-list has min-elements > 0.
func (s *RsSchema) RefDefaultOf(e *yang.Entry) RefDefault {
	if e == nil || e.Kind != yang.LeafEntry || e.Type == nil {
		return RefDefault{}
	}
	// goyang keeps the node's own default statement(s) in Entry.Default, "mandatory" in
	// Entry.Mandatory and min-elements in Entry.ListAttr (a leaf-list's Entry.Node is a synthetic
	// *yang.Leaf without them).
	isList := e.ListAttr != nil
	var lex []string
	src := "leaf"
	switch {
	case len(e.Default) > 0:
		lex = append(lex, e.Default...)
	case e.Type.HasDefault && !isList && e.Mandatory != yang.TSTrue:
		lex, src = []string{e.Type.Default}, "typedef"
	case e.Type.HasDefault && isList && e.ListAttr.MinElements == 0:
		lex, src = []string{e.Type.Default}, "typedef"
	}
	if len(lex) == 0 {
		return RefDefault{}
	}
	yt := e.Type
	for i := 0; yt != nil && yt.Kind == yang.Yleafref && i < 8; i++ {
		t := s.leafrefTargetEntry(e)
		if t == nil || t.Type == nil {
			return RefDefault{Has: true, Unknown: "leafref target not resolved"}
		}
		e, yt = t, t.Type
	}
	var vals []Value
	for _, l := range lex {
		v, why := refLexToValue(yt, l)
		if why != "" {
			return RefDefault{Has: true, Source: src, Unknown: why}
		}
		vals = append(vals, v)
	}
	if isList {
		return RefDefault{Has: true, Source: src, Val: LL(vals...)}
	}
	return RefDefault{Has: true, Source: src, Val: vals[0]}
}

var rsIntKinds = map[yang.TypeKind]struct {
	bits   int
	signed bool
}{
	yang.Yint8: {8, true}, yang.Yint16: {16, true}, yang.Yint32: {32, true}, yang.Yint64: {64, true},
	yang.Yuint8: {8, false}, yang.Yuint16: {16, false}, yang.Yuint32: {32, false}, yang.Yuint64: {64, false},
}

// refParseYangInt parses the RFC 7950 9.2.1 lexical forms: decimal, 0x hexadecimal, leading-0 octal.
func refParseYangInt(s string) (*big.Int, bool) {
	neg := false
	t := s
	if strings.HasPrefix(t, "-") {
		neg, t = true, t[1:]
	} else if strings.HasPrefix(t, "+") {
		t = t[1:]
	}
	if t == "" {
		return nil, false
	}
	base := 10
	switch {
	case strings.HasPrefix(t, "0x") || strings.HasPrefix(t, "0X"):
		base, t = 16, t[2:]
	case len(t) > 1 && t[0] == '0':
		base, t = 8, t[1:]
	}
	for _, r := range t {
		ok := r >= '0' && r <= '9' || base == 16 && (r >= 'a' && r <= 'f' || r >= 'A' && r <= 'F')
		if !ok {
			return nil, false
		}
	}
	n, ok := new(big.Int).SetString(t, base)
	if !ok {
		return nil, false
	}
	if neg {
		n.Neg(n)
	}
	return n, true
}

// refLexToValue converts a default's lexical form to the canonical Value of type yt; why != ""
// when the lexical form is not in the type's lexical space (used to pick union members) or the
// reference does not cover the type.
func refLexToValue(yt *yang.YangType, lex string) (v Value, why string) {
	if ik, ok := rsIntKinds[yt.Kind]; ok {
		n, ok := refParseYangInt(lex)
		if !ok {
			return NoValue, "not an integer"
		}
		lo, hi := big.NewInt(0), new(big.Int).Sub(new(big.Int).Lsh(big.NewInt(1), uint(ik.bits)), big.NewInt(1))
		tag := fmt.Sprintf("u%d:", ik.bits)
		if ik.signed {
			lo = new(big.Int).Neg(new(big.Int).Lsh(big.NewInt(1), uint(ik.bits-1)))
			hi = new(big.Int).Sub(new(big.Int).Lsh(big.NewInt(1), uint(ik.bits-1)), big.NewInt(1))
			tag = fmt.Sprintf("i%d:", ik.bits)
		}
		if n.Cmp(lo) < 0 || n.Cmp(hi) > 0 || !InRanges(yt.Range, new(big.Rat).SetInt(n)) {
			return NoValue, "outside the range"
		}
		return Value(tag + n.String()), ""
	}
	switch yt.Kind {
	case yang.Ydecimal64:
		r, ok := new(big.Rat).SetString(lex)
		if !ok || strings.ContainsAny(lex, "eE/") {
			return NoValue, "not a decimal"
		}
		if !InRanges(yt.Range, r) {
			return NoValue, "outside the range"
		}
		f, _ := r.Float64()
		return Value("dec:" + decStr(f)), ""
	case yang.Ystring:
		if !lenOK(yt.Length, utf8.RuneCountInString(lex)) {
			return NoValue, "outside the length"
		}
		// a default must be in the value space, so for a plain string leaf a pattern needs no
		// evaluation; inside a union it would decide the member, which the union case leaves open.
		return Value("str:" + lex), ""
	case yang.Ybool:
		if lex == "true" || lex == "false" {
			return Value("bool:" + lex), ""
		}
		return NoValue, "not a boolean"
	case yang.Yenum:
		if yt.Enum != nil && yt.Enum.IsDefined(lex) {
			return Value("enum:" + lex), ""
		}
		return NoValue, "not an enum name"
	case yang.Yidentityref:
		name := lex
		if i := strings.Index(name, ":"); i >= 0 {
			name = name[i+1:]
		}
		if yt.IdentityBase != nil {
			for _, id := range yt.IdentityBase.Values {
				if id.Name == name {
					return Value("enum:" + name), ""
				}
			}
		}
		return NoValue, "not a derived identity"
	case yang.Ybinary:
		b, err := base64.StdEncoding.DecodeString(lex)
		if err != nil {
			return NoValue, "not base64"
		}
		if !lenOK(yt.Length, len(b)) {
			return NoValue, "outside the length"
		}
		return Value("bin:" + hex.EncodeToString(b)), ""
	case yang.Yunion:
		for _, m := range flattenUnion(yt) {
			if m.Kind == yang.Ystring && (len(m.Pattern) > 0 || len(m.POSIXPattern) > 0) {
				return NoValue, "union member with a pattern: not covered by the reference"
			}
			if v, why := refLexToValue(m, lex); why == "" {
				return v, ""
			}
		}
		return NoValue, "fits no union member"
	}
	return NoValue, "type " + yang.TypeKindToName[yt.Kind] + " not covered by the reference"
}

// ---------------------------------------------------------------------------------------------
// schema-level leafref resolution (used for defaults on leafref leaves and to derive the focused
// alphabet of C30)

// leafrefTargetEntry resolves the leafref path of e on the schema tree (predicates ignored).
func (s *RsSchema) leafrefTargetEntry(e *yang.Entry) *yang.Entry {
	abs, steps, err := ParseLeafrefPath(e.Type.Path)
	if err != nil {
		return nil
	}
	return s.walkSchema(e, abs, steps)
}

func (s *RsSchema) walkSchema(from *yang.Entry, abs bool, steps []LeafrefStep) *yang.Entry {
	cur := from
	top := false // cur is "above the top-level nodes"
	if abs {
		cur, top = nil, true
	}
	for _, st := range steps {
		if st.Up {
			if top || cur == nil {
				return nil
			}
			cur = RefDataParent(cur)
			if cur == nil {
				top = true
			}
			continue
		}
		if top {
			cur, top = s.Tops[st.Name], false
		} else {
			cur = refChild(cur, st.Name)
		}
		if cur == nil {
			return nil
		}
	}
	return cur
}

// LeafrefInfo describes one leafref leaf of the schema: its data-tree path, the path expression,
// and the schema paths of its target and of the leaves its predicates read.
type LeafrefInfo struct {
	Names    []string
	Expr     string
	LeafList bool
	Target   []string
	Selects  [][]string
}

func refEntryNames(e *yang.Entry) []string {
	var out []string
	for x := e; x != nil && x.Parent != nil; x = x.Parent {
		if x.IsChoice() || x.IsCase() {
			continue
		}
		out = append([]string{x.Name}, out...)
	}
	return out
}

// Leafrefs lists every leafref leaf of the schema.
func (s *RsSchema) Leafrefs() []LeafrefInfo {
	var out []LeafrefInfo
	s.RefDataLeaves(func(names []string, e *yang.Entry) {
		if e.Type == nil || e.Type.Kind != yang.Yleafref {
			return
		}
		li := LeafrefInfo{Names: names, Expr: e.Type.Path, LeafList: e.ListAttr != nil}
		abs, steps, err := ParseLeafrefPath(e.Type.Path)
		if err == nil {
			if t := s.walkSchema(e, abs, steps); t != nil {
				li.Target = refEntryNames(t)
			}
			for _, st := range steps {
				for _, pr := range st.Preds {
					if t := s.walkSchema(e, false, pr.Rel); t != nil {
						li.Selects = append(li.Selects, refEntryNames(t))
					}
				}
			}
		}
		out = append(out, li)
	})
	return out
}
