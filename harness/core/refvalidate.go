package core

// refvalidate: the boring reference for "is this data tree schema-valid" in the sense of property
// C07, and nothing more. It judges the observed Model (model.go) against the goyang schema entries
// of the package:
//
//   * every leaf / leaf-list element lies in the value space of its type: range and length
//     membership by exact arithmetic (math/big) on yang.YangRange, patterns by the reference regexp
//     matcher (refregex.go, XSD whole-string semantics), enumeration / identity values are defined
//     members, a union value fits at least one member type;
//   * list map keys equal the entries' key leaves (the observer's consistency facts, Model.Bad);
//   * configuration leaf-lists hold unique values;
//   * lists and leaf-lists respect min-elements / max-elements, min-elements being enforced where
//     RFC 7950 section 7.7.5 says so (the closest ancestor that is not a non-presence container
//     exists);
//   * at most one case of each choice is populated.
//
// Deliberately absent: mandatory, when, must, leafref targets, unique, defaults.
//
// It shares no code with ytypes: schema navigation is FindChild (atoms.go), values are the canonical
// Values of value.go.

import (
	"errors"
	"fmt"
	"math/big"
	"reflect"
	"sort"
	"strings"
	"sync"
	"unicode/utf8"

	"github.com/openconfig/goyang/pkg/yang"
)

// RefFault is one reason for which the reference rejects a tree.
type RefFault struct {
	Clause string // range length pattern type enum-undefined union-no-member[..] key-mismatch nil-entry no-key-leaf ll-duplicate ll-max ll-min ll-min-absent list-max list-min list-min-absent choice-multi
	Path   string
	Detail string
}

func (f RefFault) String() string { return f.Clause + " at " + f.Path + ": " + f.Detail }

// RefUnjudged is returned (as a Clause) for values the reference cannot judge (pattern outside the
// supported regexp subset, posix-pattern); callers exclude such cases instead of guessing.
const RefUnjudged = "unjudged"

// RefClauses returns the sorted distinct clauses of the faults.
func RefClauses(fs []RefFault) []string {
	seen := map[string]bool{}
	var out []string
	for _, f := range fs {
		if !seen[f.Clause] {
			seen[f.Clause] = true
			out = append(out, f.Clause)
		}
	}
	sort.Strings(out)
	return out
}

// ---- value spaces ---------------------------------------------------------------------------

var refIntKinds = map[yang.TypeKind]struct {
	tag    string
	bits   uint
	signed bool
}{
	yang.Yint8: {"i8", 8, true}, yang.Yint16: {"i16", 16, true}, yang.Yint32: {"i32", 32, true}, yang.Yint64: {"i64", 64, true},
	yang.Yuint8: {"u8", 8, false}, yang.Yuint16: {"u16", 16, false}, yang.Yuint32: {"u32", 32, false}, yang.Yuint64: {"u64", 64, false},
}

func refBuiltinIntRange(bits uint, signed bool) (lo, hi *big.Int) {
	if signed {
		lo = new(big.Int).Neg(new(big.Int).Lsh(big.NewInt(1), bits-1))
		hi = new(big.Int).Sub(new(big.Int).Lsh(big.NewInt(1), bits-1), big.NewInt(1))
		return
	}
	return big.NewInt(0), new(big.Int).Sub(new(big.Int).Lsh(big.NewInt(1), bits), big.NewInt(1))
}

// RefValueFault reports why v is outside the value space of type yt ("" when it is inside;
// "type" when v is not a value of that type at all; RefUnjudged when it cannot be decided).
// Leafref types must be resolved by the caller; an unresolved leafref accepts every value.
func RefValueFault(yt *yang.YangType, v Value) string {
	if yt == nil {
		return ""
	}
	if ik, ok := refIntKinds[yt.Kind]; ok {
		if v.Kind() != ik.tag {
			return "type"
		}
		x, ok := new(big.Rat).SetString(v.Payload())
		if !ok || !x.IsInt() {
			return "type"
		}
		lo, hi := refBuiltinIntRange(ik.bits, ik.signed)
		if x.Num().Cmp(lo) < 0 || x.Num().Cmp(hi) > 0 {
			return "range"
		}
		if !InRanges(yt.Range, x) {
			return "range"
		}
		return ""
	}
	switch yt.Kind {
	case yang.Ydecimal64:
		if v.Kind() != "dec" {
			return "type"
		}
		x, ok := new(big.Rat).SetString(v.Payload())
		if !ok {
			return "type"
		}
		if !InRanges(yt.Range, x) {
			return "range"
		}
		return ""
	case yang.Ystring:
		if v.Kind() != "str" {
			return "type"
		}
		s := v.Payload()
		if !InRanges(yt.Length, new(big.Rat).SetInt64(int64(utf8.RuneCountInString(s)))) {
			return "length"
		}
		if len(yt.POSIXPattern) > 0 {
			return RefUnjudged
		}
		for _, pat := range yt.Pattern {
			ok, err := RxMatch(pat, RxXSD, s)
			if err != nil {
				if errors.Is(err, ErrRxUnsupported) {
					return RefUnjudged
				}
				return RefUnjudged
			}
			if !ok {
				return "pattern"
			}
		}
		return ""
	case yang.Ybinary:
		if v.Kind() != "bin" {
			return "type"
		}
		if !InRanges(yt.Length, new(big.Rat).SetInt64(int64(len(v.Payload())/2))) {
			return "length"
		}
		return ""
	case yang.Ybool:
		if v.Kind() != "bool" {
			return "type"
		}
		return ""
	case yang.Yempty:
		if v != "empty" {
			return "type"
		}
		return ""
	case yang.Yenum:
		if strings.HasPrefix(string(v), "enum#") {
			return "enum-undefined"
		}
		if v.Kind() != "enum" {
			return "type"
		}
		if yt.Enum != nil && !yt.Enum.IsDefined(v.Payload()) {
			return "type" // a defined member of some other enumeration
		}
		return ""
	case yang.Yidentityref:
		if strings.HasPrefix(string(v), "enum#") {
			return "enum-undefined"
		}
		if v.Kind() != "enum" {
			return "type"
		}
		if yt.IdentityBase != nil && len(yt.IdentityBase.Values) > 0 {
			for _, id := range yt.IdentityBase.Values {
				if id.Name == v.Payload() {
					return ""
				}
			}
			return "type"
		}
		return ""
	case yang.Yunion:
		var why []string
		unj := false
		for _, m := range flattenUnion(yt) {
			switch f := RefValueFault(m, v); f {
			case "":
				return ""
			case "type":
			case RefUnjudged:
				unj = true
			default:
				why = append(why, f)
			}
		}
		if unj {
			return RefUnjudged
		}
		sort.Strings(why)
		return "union-no-member[" + strings.Join(dedupStrings(why), ",") + "]"
	case yang.Yleafref:
		return "" // unresolved leafref: no value-space information
	}
	return RefUnjudged
}

func dedupStrings(s []string) []string {
	var out []string
	for i, x := range s {
		if i == 0 || x != s[i-1] {
			out = append(out, x)
		}
	}
	return out
}

// RefLeafType returns the type that decides the value space of leaf / leaf-list entry e (leafrefs
// followed to their target; nil when that fails).
func RefLeafType(e *yang.Entry) *yang.YangType {
	if e == nil || e.Type == nil {
		return nil
	}
	if e.Type.Kind == yang.Yleafref {
		return ResolveLeafref(e)
	}
	return e.Type
}

// RefConfig reports whether schema node e is configuration (no config false on it or above it).
func RefConfig(e *yang.Entry) bool {
	for x := e; x != nil; x = x.Parent {
		if x.Config == yang.TSFalse {
			return false
		}
	}
	return true
}

// ---- per-package schema facts -----------------------------------------------------------------

type refFacts struct {
	presence map[string]bool // "/a/b" schema paths (names only) of presence containers, from the yangPresence struct tags
}

var refFactsOf sync.Map // *Pkg -> *refFacts

func (p *Pkg) refFacts() *refFacts {
	if f, ok := refFactsOf.Load(p); ok {
		return f.(*refFacts)
	}
	f := &refFacts{presence: map[string]bool{}}
	var walk func(t reflect.Type, prefix string, depth int)
	walk = func(t reflect.Type, prefix string, depth int) {
		for t.Kind() == reflect.Ptr {
			t = t.Elem()
		}
		if t.Kind() != reflect.Struct || depth > 12 {
			return
		}
		for i := 0; i < t.NumField(); i++ {
			fld := t.Field(i)
			alts := tagPaths(fld)
			if alts == nil {
				continue
			}
			fp := prefix + "/" + strings.Join(alts[0], "/")
			switch KindOfField(fld.Type) {
			case FContainer:
				if fld.Tag.Get("yangPresence") == "true" {
					f.presence[fp] = true
				}
				walk(fld.Type, fp, depth+1)
			case FKeyedList:
				walk(fld.Type.Elem(), fp, depth+1)
			case FOrderedList:
				if m, ok := fld.Type.MethodByName("Values"); ok {
					walk(m.Type.Out(0).Elem(), fp, depth+1)
				}
			case FUnkeyedList:
				walk(fld.Type.Elem(), fp, depth+1)
			}
		}
	}
	walk(p.RootType, "", 0)
	act, _ := refFactsOf.LoadOrStore(p, f)
	return act.(*refFacts)
}

func namesOf(p Path) []string {
	out := make([]string, len(p))
	for i, e := range p {
		out[i] = e.Name
	}
	return out
}

// ---- the validator ----------------------------------------------------------------------------

type refv struct {
	p         *Pkg
	m         *Model
	root      *yang.Entry    // schema entry of the model's root
	rootSP    string         // names-only schema path of the model's root (for presence lookup)
	label     string         // prefix for reported paths (unkeyed element recursion)
	rootGS    interface{}    // GoStruct pointer at the model's root (to reach unkeyed list elements)
	paths     []string       // sorted Path.String() of every node in the model
	listCount map[string]int // keyless list path -> number of entries
	out       []RefFault
}

func (r *refv) add(clause string, path string, format string, a ...interface{}) {
	r.out = append(r.out, RefFault{Clause: clause, Path: r.label + path, Detail: fmt.Sprintf(format, a...)})
}

func (r *refv) entry(p Path) *yang.Entry {
	if len(p) == 0 {
		return r.root
	}
	e, _ := FindChild(r.root, namesOf(p))
	return e
}

// exists reports whether any node of the model lies at or below the path string q.
func (r *refv) exists(q string) bool {
	i := sort.SearchStrings(r.paths, q)
	for ; i < len(r.paths); i++ {
		s := r.paths[i]
		if !strings.HasPrefix(s, q) {
			return false
		}
		if len(s) == len(q) || s[len(q)] == '/' || s[len(q)] == '[' {
			return true
		}
	}
	return false
}

// count returns the number of entries of the list / elements of the leaf-list at path lp (keyless last element).
func (r *refv) count(lp Path) int {
	s := lp.String()
	if v, ok := r.m.Leaves[s]; ok {
		if v.IsLL() {
			return len(v.Elems())
		}
		return 1
	}
	if u, ok := r.m.Unkeyed[s]; ok {
		return len(u)
	}
	return r.listCount[s]
}

// RefValidate returns the faults of the tree below root (a GoStruct pointer of package p); an empty
// result means the reference accepts the tree.
func (p *Pkg) RefValidate(root interface{}) []RefFault {
	p.Schema()
	m := p.Observe(root)
	r := &refv{p: p, m: m, root: p.RootSchema(), rootGS: root}
	r.run()
	return r.out
}

func (r *refv) run() {
	m := r.m
	seen := map[string]bool{}
	for _, mp := range []map[string]bool{m.Entries, m.Presence} {
		for k := range mp {
			seen[k] = true
		}
	}
	for k := range m.Leaves {
		seen[k] = true
	}
	for k := range m.Unkeyed {
		seen[k] = true
	}
	r.paths = make([]string, 0, len(seen))
	for k := range seen {
		r.paths = append(r.paths, k)
	}
	sort.Strings(r.paths)
	r.listCount = map[string]int{}
	for k := range m.Entries {
		kp := m.Paths[k].Clone()
		kp[len(kp)-1].Keys = nil
		r.listCount[kp.String()]++
	}

	// 1. values, leaf-list uniqueness
	for _, k := range SortedKeys(m.Leaves) {
		v := m.Leaves[k]
		e := r.entry(m.Paths[k])
		if e == nil {
			r.add("no-schema", k, "no schema entry for leaf")
			continue
		}
		yt := RefLeafType(e)
		if v.IsLL() {
			els := v.Elems()
			for i, el := range els {
				if f := RefValueFault(yt, el); f != "" {
					r.add(f, k, "element %d = %q", i, el)
				}
			}
			if RefConfig(e) {
				dup := map[Value]bool{}
				for _, el := range els {
					if dup[el] {
						r.add("ll-duplicate", k, "value %q occurs twice in a configuration leaf-list", el)
						break
					}
					dup[el] = true
				}
			}
			continue
		}
		if f := RefValueFault(yt, v); f != "" {
			r.add(f, k, "value %q", v)
		}
	}

	// 2. key consistency: the observer's facts
	for _, b := range m.Bad {
		cl := b
		if i := strings.Index(b, " "); i > 0 {
			cl = b[:i]
		}
		r.add(cl, "", "%s", b)
	}

	// 3. element counts: from every anchor (root, existing presence containers, list entries) down
	// through non-presence containers
	r.counts(r.root, nil, nil)
	for _, k := range SortedKeys(m.Presence) {
		if e := r.entry(m.Paths[k]); e != nil {
			r.counts(e, m.Paths[k], nil)
		}
	}
	for _, k := range SortedKeys(m.Entries) {
		if e := r.entry(m.Paths[k]); e != nil {
			r.counts(e, m.Paths[k], nil)
		}
	}

	// 4. choices: at every node of the tree that has children
	nodes := map[string]Path{"/": nil}
	for _, k := range r.paths {
		kp := m.Paths[k]
		for n := 1; n <= len(kp); n++ {
			pre := kp[:n]
			nodes[pre.String()] = pre
		}
	}
	for _, k := range SortedKeys(nodes) {
		e := r.entry(nodes[k])
		if e == nil || e.Kind != yang.DirectoryEntry {
			continue
		}
		for _, cn := range sortedDir(e) {
			if c := e.Dir[cn]; c.IsChoice() {
				r.choice(c, nodes[k])
			}
		}
	}

	// 5. unkeyed list elements: each element is validated as a tree of its own
	for _, k := range SortedKeys(m.Unkeyed) {
		r.unkeyed(m.Paths[k])
	}
}

func (r *refv) isPresence(e *yang.Entry, at Path) bool {
	return r.p.refFacts().presence[r.rootSP+schemaNames(at)]
}

func schemaNames(p Path) string {
	var b strings.Builder
	for _, e := range p {
		b.WriteByte('/')
		b.WriteString(e.Name)
	}
	return b.String()
}

// counts checks min/max-elements of the lists and leaf-lists whose closest ancestor that is not a
// non-presence container is the node (e, at). inCase is the case node passed on the way, if any.
func (r *refv) counts(e *yang.Entry, at Path, inCase *yang.Entry) {
	for _, cn := range sortedDir(e) {
		c := e.Dir[cn]
		switch {
		case c.IsChoice():
			for _, kn := range sortedDir(c) {
				k := c.Dir[kn]
				if k.IsCase() {
					r.counts(k, at, k)
				} else {
					r.countNode(k, at, k)
				}
			}
		case c.IsCase():
			r.counts(c, at, c)
		default:
			r.countNode(c, at, inCase)
		}
	}
}

func (r *refv) countNode(c *yang.Entry, at Path, inCase *yang.Entry) {
	cp := at.Names(c.Name)
	switch {
	case c.IsList() || c.IsLeafList():
		if c.ListAttr == nil {
			return
		}
		n := r.count(cp)
		kind := "list"
		if c.IsLeafList() {
			kind = "ll"
		}
		if min := c.ListAttr.MinElements; min > 0 && uint64(n) < min {
			enforced := true
			if inCase != nil { // RFC 7950 7.7.5: only if some other node of the case exists
				enforced = n > 0 || r.casePopulated(inCase, at)
			}
			if enforced {
				cl := kind + "-min"
				if n == 0 { // the list / leaf-list is absent although its anchor exists (RFC 7950 7.7.5)
					cl += "-absent"
				}
				r.add(cl, cp.String(), "%d elements, min-elements %d", n, min)
			}
		}
		if max := c.ListAttr.MaxElements; max > 0 && uint64(n) > max {
			r.add(kind+"-max", cp.String(), "%d elements, max-elements %d", n, max)
		}
	case c.Kind == yang.DirectoryEntry:
		if r.isPresence(c, cp) {
			return // its own anchor when it exists
		}
		r.counts(c, cp, inCase)
	}
}

// casePopulated: does any data node of case k (a case node, or the data node of a shorthand case)
// exist below the parent node at?
func (r *refv) casePopulated(k *yang.Entry, at Path) bool {
	if !k.IsCase() {
		return r.exists(at.Names(k.Name).String())
	}
	for _, cn := range sortedDir(k) {
		c := k.Dir[cn]
		if c.IsChoice() {
			for _, kn := range sortedDir(c) {
				if r.casePopulated(c.Dir[kn], at) {
					return true
				}
			}
			continue
		}
		if r.exists(at.Names(c.Name).String()) {
			return true
		}
	}
	return false
}

func (r *refv) choice(ch *yang.Entry, at Path) {
	var pop []string
	for _, kn := range sortedDir(ch) {
		k := ch.Dir[kn]
		if r.casePopulated(k, at) {
			pop = append(pop, kn)
		}
		if k.IsCase() {
			for _, cn := range sortedDir(k) {
				if c := k.Dir[cn]; c.IsChoice() {
					r.choice(c, at)
				}
			}
		}
	}
	if len(pop) > 1 {
		r.add("choice-multi", at.String()+"/("+ch.Name+":"+strings.Join(pop, "+")+")", "cases %v of choice %s are populated", pop, ch.Name)
	}
}

func (r *refv) unkeyed(lp Path) {
	e := r.entry(lp)
	if e == nil {
		r.add("no-schema", lp.String(), "no schema entry for unkeyed list")
		return
	}
	// the struct holding the list field: the longest proper prefix of lp that is a struct of the model
	var holder interface{} = r.rootGS
	cut := 0
	for n := len(lp) - 1; n >= 1; n-- {
		if s, ok := r.m.Structs[lp[:n].String()]; ok {
			holder, cut = s, n
			break
		}
	}
	hv := reflect.ValueOf(holder)
	if hv.Kind() != reflect.Ptr || hv.IsNil() {
		return
	}
	rest := strings.Join(namesOf(lp[cut:]), "/")
	st := hv.Elem().Type()
	for i := 0; i < st.NumField(); i++ {
		alts := tagPaths(st.Field(i))
		if alts == nil || strings.Join(alts[0], "/") != rest || KindOfField(st.Field(i).Type) != FUnkeyedList {
			continue
		}
		fv := hv.Elem().Field(i)
		for j := 0; j < fv.Len(); j++ {
			if fv.Index(j).IsNil() {
				r.add("nil-entry", lp.String(), "element %d is nil", j)
				continue
			}
			sub := &refv{p: r.p, m: r.p.ObserveAny(fv.Index(j).Interface()), root: e, rootSP: r.rootSP + schemaNames(lp),
				label: fmt.Sprintf("%s%s#%d", r.label, lp.String(), j), rootGS: fv.Index(j).Interface()}
			sub.run()
			r.out = append(r.out, sub.out...)
		}
	}
}
