package core

import (
	"encoding/hex"
	"fmt"
	"reflect"
	"sort"
	"strconv"
	"strings"

	"github.com/openconfig/ygot/ygot"
)

// Value is the canonical, representation-independent form of a YANG value:
//
//	i8:-5 i16: i32: i64: u8: u16: u32: u64:  dec:<shortest decimal>  str:<text>  bin:<hex>
//	bool:true  empty  enum:<NAME>  enum#<int> (undefined member)  ll:[<q1>,<q2>]
type Value string

// NoValue is the absent value.
const NoValue Value = ""

// Kind returns the tag in front of ':'.
func (v Value) Kind() string {
	s := string(v)
	if i := strings.IndexAny(s, ":#"); i >= 0 {
		return s[:i]
	}
	return s
}

// Payload returns the part after the first ':'.
func (v Value) Payload() string {
	s := string(v)
	if i := strings.Index(s, ":"); i >= 0 {
		return s[i+1:]
	}
	return ""
}

// LL builds a leaf-list value.
func LL(vs ...Value) Value {
	q := make([]string, len(vs))
	for i, v := range vs {
		q[i] = strconv.Quote(string(v))
	}
	return Value("ll:[" + strings.Join(q, ",") + "]")
}

// Elems splits a leaf-list value.
func (v Value) Elems() []Value {
	s := v.Payload()
	s = strings.TrimSuffix(strings.TrimPrefix(s, "["), "]")
	var out []Value
	for len(s) > 0 {
		q, err := strconv.QuotedPrefix(s)
		if err != nil {
			panic("bad ll value " + string(v))
		}
		u, _ := strconv.Unquote(q)
		out = append(out, Value(u))
		s = strings.TrimPrefix(s[len(q):], ",")
	}
	return out
}

// IsLL reports whether v is a leaf-list value.
func (v Value) IsLL() bool { return strings.HasPrefix(string(v), "ll:") }

func decStr(f float64) string { return strconv.FormatFloat(f, 'f', -1, 64) }

var goEnumType = reflect.TypeOf((*ygot.GoEnum)(nil)).Elem()

// IsBinaryType reports whether t is the generated Binary type (a *named* []byte; a leaf-list of
// uint8 is the unnamed []uint8).
func IsBinaryType(t reflect.Type) bool {
	return t.Kind() == reflect.Slice && t.Elem().Kind() == reflect.Uint8 && t.Name() != ""
}

// IsEnumType reports whether t is a generated enumeration type.
func IsEnumType(t reflect.Type) bool { return t.Kind() == reflect.Int64 && t.Implements(goEnumType) }

// EnumName returns the canonical enum value for the Go enum value (own lookup in the ΛEnum table).
func (p *Pkg) enumValue(t reflect.Type, n int64) Value {
	if n == 0 {
		return NoValue
	}
	if d, ok := p.EnumMap[t.Name()][n]; ok {
		return Value("enum:" + d.Name)
	}
	return Value("enum#" + strconv.FormatInt(n, 10))
}

// EnumNumber resolves an enum name in type t.
func (p *Pkg) EnumNumber(t reflect.Type, name string) (int64, bool) {
	for n, d := range p.EnumMap[t.Name()] {
		if d.Name == name {
			return n, true
		}
	}
	return 0, false
}

// EnumModule returns the defining module recorded for enum name in type t ("" for plain enumerations).
func (p *Pkg) EnumModule(t reflect.Type, name string) string {
	for _, d := range p.EnumMap[t.Name()] {
		if d.Name == name {
			return d.DefiningModule
		}
	}
	return ""
}

// FromGo canonicalises a Go leaf value (field value) into a Value. Unset -> NoValue.
func (p *Pkg) FromGo(v reflect.Value) Value {
	if !v.IsValid() {
		return NoValue
	}
	t := v.Type()
	switch t.Kind() {
	case reflect.Ptr:
		if v.IsNil() {
			return NoValue
		}
		e := v.Elem()
		if e.Kind() == reflect.Struct {
			// wrapper union: struct with exactly one field
			if e.NumField() != 1 {
				return Value("badwrapper:" + t.String())
			}
			return p.FromGo(e.Field(0))
		}
		return p.FromGo(e)
	case reflect.Interface:
		if v.IsNil() {
			return NoValue
		}
		return p.FromGo(v.Elem())
	case reflect.Slice:
		if IsBinaryType(t) {
			if v.IsNil() {
				return NoValue
			}
			return Value("bin:" + hex.EncodeToString(v.Bytes()))
		}
		if v.Len() == 0 { // nil and empty leaf-list are the same in YANG
			return NoValue
		}
		vs := make([]Value, v.Len())
		for i := range vs {
			vs[i] = p.FromGo(v.Index(i))
		}
		return LL(vs...)
	case reflect.Int64:
		if IsEnumType(t) {
			return p.enumValue(t, v.Int())
		}
		return Value("i64:" + strconv.FormatInt(v.Int(), 10))
	case reflect.Int8, reflect.Int16, reflect.Int32:
		return Value(fmt.Sprintf("i%d:%d", t.Bits(), v.Int()))
	case reflect.Uint8, reflect.Uint16, reflect.Uint32, reflect.Uint64:
		return Value(fmt.Sprintf("u%d:%d", t.Bits(), v.Uint()))
	case reflect.Float64:
		return Value("dec:" + decStr(v.Float()))
	case reflect.String:
		return Value("str:" + v.String())
	case reflect.Bool:
		if strings.HasSuffix(t.Name(), "YANGEmpty") {
			if v.Bool() {
				return Value("empty")
			}
			return NoValue
		}
		return Value("bool:" + strconv.FormatBool(v.Bool()))
	case reflect.Struct:
		if t.NumField() == 1 {
			return p.FromGo(v.Field(0))
		}
	}
	return Value("unknown:" + t.String())
}

// Native converts a scalar Value into the plain Go value the generated To_<Union> helpers accept
// (int64, string, []byte, ... or a generated enum value).
func (p *Pkg) native(val Value, unionType reflect.Type, parent reflect.Value) (interface{}, error) {
	pl := val.Payload()
	switch val.Kind() {
	case "i8":
		n, _ := strconv.ParseInt(pl, 10, 8)
		return int8(n), nil
	case "i16":
		n, _ := strconv.ParseInt(pl, 10, 16)
		return int16(n), nil
	case "i32":
		n, _ := strconv.ParseInt(pl, 10, 32)
		return int32(n), nil
	case "i64":
		n, _ := strconv.ParseInt(pl, 10, 64)
		return n, nil
	case "u8":
		n, _ := strconv.ParseUint(pl, 10, 8)
		return uint8(n), nil
	case "u16":
		n, _ := strconv.ParseUint(pl, 10, 16)
		return uint16(n), nil
	case "u32":
		n, _ := strconv.ParseUint(pl, 10, 32)
		return uint32(n), nil
	case "u64":
		n, _ := strconv.ParseUint(pl, 10, 64)
		return n, nil
	case "dec":
		f, _ := strconv.ParseFloat(pl, 64)
		return f, nil
	case "str":
		return pl, nil
	case "bool":
		return pl == "true", nil
	case "bin":
		b, _ := hex.DecodeString(pl)
		if b == nil {
			b = []byte{}
		}
		return b, nil
	}
	return nil, fmt.Errorf("no native form for %q", val)
}

// ToGo converts val into a reflect.Value assignable to a field of type t. parent is the
// addressable struct value (pointer) owning the field: generated To_<Union> methods hang off it.
func (p *Pkg) ToGo(val Value, t reflect.Type, parent reflect.Value) (reflect.Value, error) {
	p.Schema()
	if val == NoValue {
		return reflect.Zero(t), nil
	}
	switch t.Kind() {
	case reflect.Ptr:
		e := reflect.New(t.Elem())
		x, err := p.ToGo(val, t.Elem(), parent)
		if err != nil {
			return reflect.Value{}, err
		}
		e.Elem().Set(x)
		return e, nil
	case reflect.Interface:
		return p.toUnion(val, t, parent)
	case reflect.Slice:
		if IsBinaryType(t) {
			if val.Kind() != "bin" {
				return reflect.Value{}, fmt.Errorf("value %q for binary", val)
			}
			b, _ := hex.DecodeString(val.Payload())
			out := reflect.MakeSlice(t, len(b), len(b))
			reflect.Copy(out, reflect.ValueOf(b))
			return out, nil
		}
		if !val.IsLL() {
			return reflect.Value{}, fmt.Errorf("value %q for leaf-list", val)
		}
		es := val.Elems()
		out := reflect.MakeSlice(t, len(es), len(es))
		for i, e := range es {
			x, err := p.ToGo(e, t.Elem(), parent)
			if err != nil {
				return reflect.Value{}, err
			}
			out.Index(i).Set(x)
		}
		return out, nil
	case reflect.Int64:
		if IsEnumType(t) {
			out := reflect.New(t).Elem()
			if val.Kind() == "enum#" || strings.HasPrefix(string(val), "enum#") {
				n, _ := strconv.ParseInt(strings.TrimPrefix(string(val), "enum#"), 10, 64)
				out.SetInt(n)
				return out, nil
			}
			if val.Kind() != "enum" {
				return reflect.Value{}, fmt.Errorf("value %q for enum %s", val, t)
			}
			n, ok := p.EnumNumber(t, val.Payload())
			if !ok {
				return reflect.Value{}, fmt.Errorf("enum %s has no member %q", t, val.Payload())
			}
			out.SetInt(n)
			return out, nil
		}
		fallthrough
	case reflect.Int8, reflect.Int16, reflect.Int32:
		if !strings.HasPrefix(val.Kind(), "i") {
			return reflect.Value{}, fmt.Errorf("value %q for %s", val, t)
		}
		n, err := strconv.ParseInt(val.Payload(), 10, 64)
		if err != nil {
			return reflect.Value{}, err
		}
		out := reflect.New(t).Elem()
		if out.OverflowInt(n) {
			return reflect.Value{}, fmt.Errorf("overflow %q for %s", val, t)
		}
		out.SetInt(n)
		return out, nil
	case reflect.Uint8, reflect.Uint16, reflect.Uint32, reflect.Uint64:
		if !strings.HasPrefix(val.Kind(), "u") {
			return reflect.Value{}, fmt.Errorf("value %q for %s", val, t)
		}
		n, err := strconv.ParseUint(val.Payload(), 10, 64)
		if err != nil {
			return reflect.Value{}, err
		}
		out := reflect.New(t).Elem()
		if out.OverflowUint(n) {
			return reflect.Value{}, fmt.Errorf("overflow %q for %s", val, t)
		}
		out.SetUint(n)
		return out, nil
	case reflect.Float64:
		f, err := strconv.ParseFloat(val.Payload(), 64)
		if err != nil || val.Kind() != "dec" {
			return reflect.Value{}, fmt.Errorf("value %q for %s", val, t)
		}
		out := reflect.New(t).Elem()
		out.SetFloat(f)
		return out, nil
	case reflect.String:
		if val.Kind() != "str" {
			return reflect.Value{}, fmt.Errorf("value %q for %s", val, t)
		}
		out := reflect.New(t).Elem()
		out.SetString(val.Payload())
		return out, nil
	case reflect.Bool:
		out := reflect.New(t).Elem()
		if val == "empty" {
			out.SetBool(true)
			return out, nil
		}
		if val.Kind() != "bool" {
			return reflect.Value{}, fmt.Errorf("value %q for %s", val, t)
		}
		out.SetBool(val.Payload() == "true")
		return out, nil
	}
	return reflect.Value{}, fmt.Errorf("cannot build %q as %s", val, t)
}

func (p *Pkg) toUnion(val Value, t reflect.Type, parent reflect.Value) (reflect.Value, error) {
	m := parent.MethodByName("To_" + t.Name())
	if !m.IsValid() {
		return reflect.Value{}, fmt.Errorf("no To_%s on %s", t.Name(), parent.Type())
	}
	call := func(x interface{}) (reflect.Value, error) {
		out := m.Call([]reflect.Value{reflect.ValueOf(x)})
		if !out[1].IsNil() {
			return reflect.Value{}, out[1].Interface().(error)
		}
		if out[0].IsNil() {
			return reflect.Value{}, fmt.Errorf("To_%s returned nil", t.Name())
		}
		return out[0], nil
	}
	if val.Kind() == "enum" {
		var lastErr error = fmt.Errorf("no enum type of %s has member %q", p.Name, val.Payload())
		for _, et := range p.enumTypes {
			n, ok := p.EnumNumber(et, val.Payload())
			if !ok {
				continue
			}
			ev := reflect.New(et).Elem()
			ev.SetInt(n)
			r, err := call(ev.Interface())
			if err == nil {
				return r, nil
			}
			lastErr = err
		}
		return reflect.Value{}, lastErr
	}
	x, err := p.native(val, t, parent)
	if err != nil {
		return reflect.Value{}, err
	}
	r, err := call(x)
	if err != nil && val.Kind() == "bin" && p.BinaryType != nil {
		return call(reflect.ValueOf(x).Convert(p.BinaryType).Interface())
	}
	return r, err
}

// SortedKeys returns the sorted keys of a string-keyed map.
func SortedKeys[V any](m map[string]V) []string {
	out := make([]string, 0, len(m))
	for k := range m {
		out = append(out, k)
	}
	sort.Strings(out)
	return out
}
