// Package core holds the shared machinery of the bounded-exhaustive checks:
// registry of generated corpus packages, canonical values, the reference data
// model with its observer, the atom alphabet and builder, the explorers and
// the evidence / findings reporter.
package core

import (
	"reflect"
	"sort"
	"sync"

	"github.com/openconfig/goyang/pkg/yang"
	"github.com/openconfig/ygot/ygot"
	"github.com/openconfig/ygot/ytypes"
)

// Pkg describes one generated corpus package (schema x code-generation configuration).
type Pkg struct {
	Name, SchemaName, Config                   string
	Compressed, Wrapper, OpState, IgnoreShadow bool
	NewRoot                                    func() ygot.GoStruct
	RootType, BinaryType                       reflect.Type
	SchemaFn                                   func() (*ytypes.Schema, error)
	Unmarshal                                  func([]byte, ygot.GoStruct, ...ytypes.UnmarshalOpt) error
	EnumMap                                    map[string]map[int64]ygot.EnumDefinition
	EnumTypesFn                                func() map[string][]reflect.Type

	once      sync.Once
	schema    *ytypes.Schema
	enumTypes []reflect.Type
	atoms     []*Atom
	exposed   []*Atom
	atomsOnce sync.Once
}

var pkgs = map[string]*Pkg{}

// Register is called from the generated reg.go of each corpus package.
func Register(p *Pkg) { pkgs[p.Name] = p }

// Packages returns the registered corpus packages sorted by name, optionally filtered by schema name.
func Packages(schemaNames ...string) []*Pkg {
	var out []*Pkg
	for _, p := range pkgs {
		if len(schemaNames) == 0 {
			out = append(out, p)
			continue
		}
		for _, s := range schemaNames {
			if p.SchemaName == s {
				out = append(out, p)
			}
		}
	}
	sort.Slice(out, func(i, j int) bool { return out[i].Name < out[j].Name })
	return out
}

// PkgByName returns the named package or nil.
func PkgByName(n string) *Pkg { return pkgs[n] }

// Schema returns the (cached, shared) ytypes.Schema of the package.
func (p *Pkg) Schema() *ytypes.Schema {
	p.once.Do(func() {
		s, err := p.SchemaFn()
		if err != nil {
			panic("schema for " + p.Name + ": " + err.Error())
		}
		p.schema = s
		seen := map[reflect.Type]bool{}
		for _, ts := range p.EnumTypesFn() {
			for _, t := range ts {
				if !seen[t] {
					seen[t] = true
					p.enumTypes = append(p.enumTypes, t)
				}
			}
		}
		sort.Slice(p.enumTypes, func(i, j int) bool { return p.enumTypes[i].Name() < p.enumTypes[j].Name() })
	})
	return p.schema
}

// FreshSchema returns a newly unzipped schema (not shared with other users).
func (p *Pkg) FreshSchema() *ytypes.Schema {
	s, err := p.SchemaFn()
	if err != nil {
		panic(err)
	}
	return s
}

// RootSchema returns the yang.Entry of the fake root.
func (p *Pkg) RootSchema() *yang.Entry { return p.Schema().RootSchema() }

// EntryFor returns the schema entry describing struct type t (a generated GoStruct type).
func (p *Pkg) EntryFor(t reflect.Type) *yang.Entry {
	for t.Kind() == reflect.Ptr {
		t = t.Elem()
	}
	return p.Schema().SchemaTree[t.Name()]
}

// Prop is a registered property check.
type Prop struct {
	ID     string
	Run    func(c *Ctx)
	Replay func(c *Ctx, raw []byte) (violated bool, detail string)
}

var props = map[string]*Prop{}

// RegisterProp registers a property check.
func RegisterProp(p *Prop) { props[p.ID] = p }

// PropByID returns the registered check.
func PropByID(id string) *Prop { return props[id] }

// PropIDs lists registered ids.
func PropIDs() []string {
	var out []string
	for k := range props {
		out = append(out, k)
	}
	sort.Strings(out)
	return out
}

// BaseSchema names the YANG module family of the package: the revised copy of vt (schema "vtrev",
// package vtrs) behaves like vt wherever a check chooses options by schema.
func (p *Pkg) BaseSchema() string {
	if p.SchemaName == "vtrev" {
		return "vt"
	}
	return p.SchemaName
}

// PackagesWithRev: the regular corpus packages plus the revised-vt package.
func PackagesWithRev() []*Pkg {
	return append(append([]*Pkg{}, Packages()...), AuxPackages("vtrev")...)
}
