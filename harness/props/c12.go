package props

import (
	"encoding/json"
	"fmt"
	"reflect"
	"sort"
	"sync"

	gpb "github.com/openconfig/gnmi/proto/gnmi"
	"github.com/openconfig/ygot/ytypes"
	"github.com/openconfig/ygot/zzverif/core"
)

func init() { core.RegisterProp(&core.Prop{ID: "C12", Run: runC12, Replay: replayC12}) }

// nodePaths enumerates the schema's node paths instantiated with keys of the atom domain: every
// prefix of every atom path, plus whole-list (no keys) and partial-key variants.
func nodePaths(p *core.Pkg) []core.Path {
	seen := map[string]bool{}
	var out []core.Path
	add := func(q core.Path) {
		if s := q.String(); !seen[s] && len(q) > 0 {
			seen[s] = true
			out = append(out, q.Clone())
		}
	}
	for _, a := range p.Atoms() {
		if a.Kind == "unkeyed" {
			continue
		}
		bounds := map[int]bool{}
		for _, n := range p.AtomBounds(a) {
			bounds[n] = true
		}
		if p.Compressed {
			// every other prefix of the data path ends at a container that path compression removed from the Go
			// structs (".../config"): ygot may refuse such a path, but a delete that SUCCEEDS must remove the subtree
			for n := 1; n < len(a.Path); n++ {
				if !bounds[n] && len(a.Path[n-1].Keys) == 0 {
					pre := a.Path[:n].Clone()
					softTarget.Store(p.Name+"|"+pre.String(), true)
					add(pre)
				}
			}
		}
		for _, n := range p.AtomBounds(a) {
			if n > len(a.Path) {
				continue
			}
			pre := a.Path[:n].Clone()
			add(pre)
			last := pre[n-1]
			if len(last.Keys) > 0 {
				listArity.Store(p.Name+"|"+namesOf(pre), len(last.Keys))
				nk := pre.Clone()
				nk[n-1].Keys = nil
				add(nk)
				if len(last.Keys) > 1 {
					pk := pre.Clone()
					pk[n-1].Keys = pk[n-1].Keys[:1]
					add(pk)
				}
			}
		}
	}
	sort.Slice(out, func(i, j int) bool { return out[i].String() < out[j].String() })
	return out
}

// listArity maps "pkg|/names/of/a/list" to its number of keys (filled by nodePaths).
var listArity sync.Map

// softTarget marks "pkg|path" of paths that end at a container removed by path compression.
var softTarget sync.Map

func namesOf(q core.Path) string {
	s := ""
	for _, e := range q {
		s += "/" + e.Name
	}
	return s
}

func pathShapeP(p *core.Pkg, q core.Path) string {
	s := ""
	for i, e := range q {
		s += "/" + e.Name
		if n, ok := listArity.Load(p.Name + "|" + namesOf(q[:i+1])); ok && len(e.Keys) < n.(int) {
			if len(e.Keys) == 0 {
				s += "[*]"
				continue
			}
			s += "[partial:"
			for _, k := range e.Keys {
				s += k.Name + "=" + valueKind(k.Val) + ","
			}
			s += "*]"
			continue
		}
		if len(e.Keys) > 0 {
			s += "["
			for i, k := range e.Keys {
				if i > 0 {
					s += ","
				}
				s += k.Name + "=" + valueKind(k.Val)
			}
			s += "]"
		}
	}
	return s
}

func pathShape(q core.Path) string {
	s := ""
	for _, e := range q {
		s += "/" + e.Name
		if len(e.Keys) > 0 {
			s += "["
			for i, k := range e.Keys {
				if i > 0 {
					s += ","
				}
				s += k.Name + "=" + valueKind(k.Val)
			}
			s += "]"
		}
	}
	return s
}

// refDelete is the reference semantics of deleting path q from model m.
// It returns the expected leaves and the entries / presence containers that must be gone or must stay.
func refDelete(m *core.Model, q core.Path) (leaves map[string]core.Value, goneEntries, keepEntries, gonePres, keepPres map[string]bool, hadData bool) {
	leaves = map[string]core.Value{}
	for k, v := range m.Leaves {
		if q.Covers(m.Paths[k]) {
			hadData = true
			continue
		}
		leaves[k] = v
	}
	goneEntries, keepEntries, gonePres, keepPres = map[string]bool{}, map[string]bool{}, map[string]bool{}, map[string]bool{}
	hasLeafBelow := func(p core.Path) bool {
		for k := range leaves {
			if p.Covers(m.Paths[k]) {
				return true
			}
		}
		return false
	}
	for e := range m.Entries {
		ep := m.Paths[e]
		switch {
		case q.Covers(ep):
			goneEntries[e] = true
			hadData = true
		case ep.Covers(q) && !hasLeafBelow(ep): // on the way to q and now empty
			goneEntries[e] = true
		default:
			keepEntries[e] = true
		}
	}
	for c := range m.Presence {
		cp := m.Paths[c]
		switch {
		case q.Covers(cp):
			gonePres[c] = true
			hadData = true
		case cp.Covers(q) && !hasLeafBelow(cp):
			// on the way and empty: documented to be pruned; when q held no data this pruning is optional
		default:
			keepPres[c] = true
		}
	}
	return
}

func c12Check(p *core.Pkg, atoms []*core.Atom, q core.Path) (string, string) {
	t, err := p.Build(atoms)
	if err != nil {
		return "", ""
	}
	m := p.Observe(t)
	if len(m.Unkeyed) > 0 {
		return "", "excluded-unkeyed"
	}
	wantLeaves, goneE, keepE, goneP, keepP, hadData := refDelete(m, q)
	g := q.GNMI()
	derr := safeErr(func() error { return ytypes.DeleteNode(p.RootSchema(), t, g) })
	if derr != nil && len(derr.Error()) >= 5 && derr.Error()[:5] == "PANIC" {
		return "delete-panic:", derr.Error()
	}
	got := p.Observe(t)
	cls := "absent"
	if hadData {
		cls = "present"
	}
	if derr != nil {
		if _, soft := softTarget.Load(p.Name + "|" + q.String()); soft && hadData {
			if got.Canon() != m.Canon() {
				return "error-but-changed:", core.DiffCanon(m.Canon(), got.Canon())
			}
			return "", "error-on-compressed-out-container(not addressable in compressed structs)"
		}
		if hadData {
			return "error-on-present-data:", fmt.Sprintf("DeleteNode(%s) returned %v although the path holds data", q, derr)
		}
		if got.Canon() != m.Canon() {
			return "error-but-changed:", core.DiffCanon(m.Canon(), got.Canon())
		}
		return "", "error-on-absent"
	}
	// leaves
	for k, v := range wantLeaves {
		if gv, ok := got.Leaves[k]; !ok || gv != v {
			return "leaf-outside-lost@" + cls + ":", fmt.Sprintf("after DeleteNode(%s): leaf %s=%s became %q", q, k, v, gv)
		}
	}
	for k, v := range got.Leaves {
		if _, ok := wantLeaves[k]; !ok {
			if q.Covers(got.Paths[k]) {
				return "data-left-below@" + cls + ":", fmt.Sprintf("after DeleteNode(%s): %s=%s is still there", q, k, v)
			}
			return "leaf-appeared:", fmt.Sprintf("after DeleteNode(%s): new leaf %s=%s", q, k, v)
		}
	}
	for e := range goneE {
		if got.Entries[e] {
			return "entry-left@" + cls + ":", fmt.Sprintf("after DeleteNode(%s): list entry %s remains", q, e)
		}
	}
	for e := range keepE {
		if !got.Entries[e] {
			return "entry-lost@" + cls + ":", fmt.Sprintf("after DeleteNode(%s): list entry %s outside the path was removed", q, e)
		}
	}
	for c := range goneP {
		if got.Presence[c] {
			return "presence-left:", fmt.Sprintf("after DeleteNode(%s): presence container %s remains", q, c)
		}
	}
	for c := range keepP {
		if !got.Presence[c] {
			return "presence-lost:", fmt.Sprintf("after DeleteNode(%s): presence container %s outside the path was removed", q, c)
		}
	}
	if len(got.Bad) > len(m.Bad) && !isKeyLeafPath(m, q) {
		return "inconsistent-after:", fmt.Sprintf("after DeleteNode(%s): %v", q, got.Bad)
	}
	// GetNode finds nothing at or below the path
	nodes, gerr := safeGet(p, t, g)
	if gerr == nil {
		for _, n := range nodes {
			if !nodeEmpty(p, n.Data) {
				return "getnode-finds-data:", fmt.Sprintf("after DeleteNode(%s) GetNode still returns data %v", q, n.Data)
			}
		}
	} else if len(gerr.Error()) >= 5 && gerr.Error()[:5] == "PANIC" {
		return "getnode-panic:", gerr.Error()
	}
	// idempotence
	e2 := safeErr(func() error { return ytypes.DeleteNode(p.RootSchema(), t, g) })
	if e2 != nil && len(e2.Error()) >= 5 && e2.Error()[:5] == "PANIC" {
		return "second-delete-panic:", e2.Error()
	}
	if p.Observe(t).Canon() != got.Canon() {
		return "not-idempotent:", core.DiffCanon(got.Canon(), p.Observe(t).Canon())
	}
	return "", cls
}

// isKeyLeafPath: deleting just the key leaf of an entry necessarily leaves map key != key leaf.
func isKeyLeafPath(m *core.Model, q core.Path) bool {
	if len(q) < 2 {
		return false
	}
	par := q[:len(q)-1]
	for _, kv := range par[len(par)-1].Keys {
		if kv.Name == q[len(q)-1].Name {
			return true
		}
	}
	// compressed: config/<key>
	if len(q) >= 3 {
		par = q[:len(q)-2]
		for _, kv := range par[len(par)-1].Keys {
			if kv.Name == q[len(q)-1].Name {
				return true
			}
		}
	}
	return false
}

func safeGet(p *core.Pkg, t interface{}, g *gpb.Path) (n []*ytypes.TreeNode, err error) {
	defer recoverTo(&err)
	return ytypes.GetNode(p.RootSchema(), t, g)
}

// nodeEmpty reports whether the data returned by GetNode holds no YANG data.
func nodeEmpty(p *core.Pkg, d interface{}) bool {
	v := reflect.ValueOf(d)
	if !v.IsValid() {
		return true
	}
	switch v.Kind() {
	case reflect.Ptr, reflect.Map, reflect.Slice, reflect.Interface:
		if v.IsNil() {
			return true
		}
	}
	if v.Kind() == reflect.Ptr && v.Elem().Kind() == reflect.Struct {
		if _, ok := d.(interface{ IsYANGGoStruct() }); ok {
			sub := core.NewModel()
			_ = sub
			m := p.ObserveAny(d)
			return len(m.Leaves) == 0 && len(m.Entries) == 0 && len(m.Unkeyed) == 0
		}
	}
	if v.Kind() == reflect.Map || v.Kind() == reflect.Slice {
		return v.Len() == 0
	}
	return p.FromGo(v) == core.NoValue
}

func runC12(c *core.Ctx) {
	c.Level = "model_checking"
	k := kFor(c, 2, 3)
	c.Rule = fmt.Sprintf("transition oracle: from every explicit-state search state (k<=1: every node path; k=%d: every node path that touches the state's data) DeleteNode is executed for every schema node path instantiated with domain keys (containers, presence containers, whole lists, partial keys, list entries present and absent, ordered-list entries, leaves, leaf-lists, key leaves) on a fresh real tree and compared with reference deletion on the path-to-value Model (data below gone, everything outside unchanged, entries/presence containers on the way pruned only when empty), then GetNode and a second DeleteNode (idempotence); non-trivial = deletion of a path that holds data", k)
	for _, p := range core.Packages() {
		if c.Expired() {
			break
		}
		paths := nodePaths(p)
		// k<=1 over the full alphabet; deeper states over the focused alphabet (thorough: full)
		sp := core.Explore(p, p.Atoms(), 1)
		deep := core.FocusAtoms(p.Atoms())
		if c.Thorough() {
			deep = p.Atoms()
		}
		sp2 := core.Explore(p, deep, k)
		for _, st := range sp2.States {
			if len(st.Seq) >= 2 {
				// re-index the atom ids of the deep space into the full alphabet
				ns := make([]uint16, len(st.Seq))
				for i, id := range st.Seq {
					ns[i] = uint16(deep[id].ID)
				}
				sp.States = append(sp.States, core.State{Seq: ns, Key: st.Key})
			}
		}
		c.R.Add("states", int64(len(sp.States)))
		c.R.Note("space_"+p.Name, map[string]interface{}{"states": len(sp.States), "node_paths": len(paths)})
		core.ParallelFor(len(sp.States), func(i int) {
			if i%256 == 0 && c.Expired() {
				return
			}
			st := sp.States[i]
			atoms := sp.SeqAtoms(st)
			var m *core.Model
			if len(st.Seq) >= 2 || (!c.Thorough() && len(st.Seq) == 1 && p.Name != "vtus" && p.Name != "voccs") {
				m = p.Observe(sp.Build(st))
			}
			for _, q := range paths {
				if m != nil && !touches(m, q) {
					continue
				}
				c.R.Add("evaluations", 1)
				c.R.Add("transitions", 1)
				sig, detail := c12Check(p, atoms, q)
				if sig != "" {
					min, msig, md := minimise(atoms, func(a []*core.Atom) (string, string) { return c12Check(p, a, q) })
					if msig == "" || clauseOf(msig) == "unstable" {
						min, msig, md = atoms, sig, detail
					}
					c.R.Violation(sigFor(clauseOf(msig), min)+" del "+pathShapeP(p, q), md, map[string]interface{}{"pkg": p.Name, "atoms": atomNames(min), "path": q})
					c.R.Outcome("violation")
				} else {
					c.R.Outcome(detail)
					if detail == "present" {
						c.R.NonTrivial(p.Name + string(st.Key[:]) + q.String())
					}
				}
			}
		})
		c.R.Add("traces_validated_against_impl", c.R.Get("evaluations"))
		if len(sp.States) > 5 {
			c.R.Sample(map[string]interface{}{"pkg": p.Name, "state": sp.SeqNames(sp.States[len(sp.States)/3]), "delete": paths[len(paths)/2].String()})
		}
	}
}

func touches(m *core.Model, q core.Path) bool {
	hit := func(k string) bool {
		pp := m.Paths[k]
		return q.Covers(pp) || pp.Covers(q)
	}
	for k := range m.Leaves {
		if hit(k) {
			return true
		}
	}
	for k := range m.Entries {
		if hit(k) {
			return true
		}
	}
	for k := range m.Presence {
		if hit(k) {
			return true
		}
	}
	return false
}

func replayC12(c *core.Ctx, raw []byte) (bool, string) {
	var rc struct {
		Pkg   string    `json:"pkg"`
		Atoms []string  `json:"atoms"`
		Path  core.Path `json:"path"`
	}
	if err := json.Unmarshal(raw, &rc); err != nil {
		return false, err.Error()
	}
	p := core.PkgByName(rc.Pkg)
	if p == nil {
		return false, "unknown package"
	}
	atoms, ok := p.AtomsByName(rc.Atoms)
	if !ok {
		return false, "unknown atoms"
	}
	sig, d := c12Check(p, atoms, rc.Path)
	return sig != "", sig + " " + d
}
