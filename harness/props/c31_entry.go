package props

import (
	"encoding/json"
	"fmt"
	"sort"
	"strings"

	"github.com/openconfig/ygot/ygot"
	"github.com/openconfig/ygot/zzverif/core"
)

// Unmarshal whose TARGET is a list entry (the generated Unmarshal accepts any GoStruct of the package;
// for a list entry ytypes goes through a separate function, unmarshalContainerWithListSchema).
//
// For every keyed (not ordered) list entry atom E and every pair of atoms L=v1, L=v2 for one leaf or
// leaf-list L below E (not inside a deeper list): t1 = {E, L=v1}; the document is ygot's own rendering
// of the entry of {E, L=v2}, as it is, with an unknown scalar member added and with an unknown
// object-valued member added; target = the entry struct of t1 (found with GetNode). The plain document
// must yield exactly {E, L=v2}; with an unknown member the call must fail without IgnoreExtraFields and
// must yield {E, L=v2} with it. (The merge semantics as such are judged by the root-level pairs.)

type c31EntryCase struct {
	Fn    string `json:"fn"` // "entry-target"
	Pkg   string `json:"pkg"`
	Entry string `json:"entry"`
	From  string `json:"from"`
	To    string `json:"to"`
	Doc   string `json:"doc"`    // plain | unknown-scalar | unknown-object
	Opt   bool   `json:"ignore"` // IgnoreExtraFields
}

func c31EntryDoc(p *core.Pkg, e, to *core.Atom, variant string) ([]byte, error) {
	t2, err := p.Build([]*core.Atom{e, to})
	if err != nil {
		return nil, err
	}
	nodes, err := safeGet(p, t2, e.Path.GNMI())
	if err != nil || len(nodes) != 1 {
		return nil, fmt.Errorf("GetNode(%s) on t2: %v (%d nodes)", e.Path, err, len(nodes))
	}
	gs, ok := nodes[0].Data.(ygot.GoStruct)
	if !ok {
		return nil, fmt.Errorf("entry is %T", nodes[0].Data)
	}
	var doc []byte
	if err := safeErr(func() (e error) { doc, e = ygot.Marshal7951(gs); return }); err != nil {
		return nil, err
	}
	if variant == "plain" {
		return doc, nil
	}
	var m map[string]interface{}
	if err := json.Unmarshal(doc, &m); err != nil {
		return nil, err
	}
	if variant == "unknown-scalar" {
		m[c31Unknown] = 1
	} else {
		m[c31Unknown] = map[string]interface{}{"x": 1}
	}
	return json.Marshal(m)
}

func c31EntryCheck(p *core.Pkg, e, from, to *core.Atom, variant string, ignore bool) (clause, detail, outcome string) {
	doc, err := c31EntryDoc(p, e, to, variant)
	if err != nil {
		return "", "", "excluded-document-not-rendered"
	}
	t1, err := p.Build([]*core.Atom{e, from})
	if err != nil {
		return "", "", "builder-conflict"
	}
	wantT, err := p.Build([]*core.Atom{e, to})
	if err != nil {
		return "", "", "builder-conflict"
	}
	before := p.Observe(t1).Canon()
	want := p.Observe(wantT).Canon()
	nodes, err := safeGet(p, t1, e.Path.GNMI())
	if err != nil || len(nodes) != 1 {
		return "", "", "excluded-entry-not-found"
	}
	target, ok := nodes[0].Data.(ygot.GoStruct)
	if !ok {
		return "", "", "excluded-entry-not-a-struct"
	}
	uerr := c31Unmarshal(p, doc, target, ignore)
	if uerr != nil && strings.HasPrefix(uerr.Error(), "PANIC") {
		return "entry-target-panic", fmt.Sprintf("Unmarshal into the entry %s panicked: %v doc=%s", e.Path, uerr, doc), ""
	}
	got := p.Observe(t1).Canon()
	switch {
	case variant != "plain" && !ignore:
		if uerr == nil {
			return "entry-target-unknown-member-accepted", fmt.Sprintf("entry %s: unknown member accepted without IgnoreExtraFields: %s", e.Path, doc), ""
		}
		return "", "", "entry:unknown-member-rejected"
	case uerr != nil:
		if variant == "plain" {
			// the plain rendering is rejected for this target: decided on an empty twin, not a merge matter
			return "", "", "entry:excluded-plain-document-rejected"
		}
		return "entry-target-ignore-extra-fields-error", fmt.Sprintf("entry %s, IgnoreExtraFields: the same document without the unknown member is accepted, with it: %v doc=%s", e.Path, uerr, doc), ""
	case got != want:
		if variant == "plain" {
			return "", "", "entry:excluded-plain-document-not-reproduced"
		}
		return "entry-target-differs", fmt.Sprintf("entry %s (ignore=%v): %s [before: %s] doc=%s", e.Path, ignore, core.DiffCanon(want, got), before, doc), ""
	}
	return "", "", "entry:merged-as-reference"
}

func runC31EntryTargets(c *core.Ctx, p *core.Pkg) {
	byPath := map[string][]*core.Atom{}
	var order []string
	for _, a := range p.Atoms() {
		if a.Kind == "leaf" || a.Kind == "leaflist" {
			k := a.Path.String()
			if _, ok := byPath[k]; !ok {
				order = append(order, k)
			}
			byPath[k] = append(byPath[k], a)
		}
	}
	sort.Strings(order)
	type job struct {
		e, from, to *core.Atom
	}
	var jobs []job
	for _, e := range p.Atoms() {
		if e.Kind != "entry" || e.Ord {
			continue
		}
		for _, k := range order {
			as := byPath[k]
			lp := as[0].Path
			if len(lp) <= len(e.Path) || !e.Path.Covers(lp) {
				continue
			}
			deeper := false
			for _, el := range lp[len(e.Path):] {
				deeper = deeper || len(el.Keys) > 0
			}
			if deeper {
				continue
			}
			for _, from := range as {
				for _, to := range as {
					if from != to {
						jobs = append(jobs, job{e, from, to})
					}
				}
			}
		}
	}
	c.R.Add("transitions", int64(len(jobs)))
	core.ParallelFor(len(jobs), func(i int) {
		j := jobs[i]
		for _, variant := range []string{"plain", "unknown-scalar", "unknown-object"} {
			for _, ignore := range []bool{false, true} {
				c.R.Add("evaluations", 1)
				clause, detail, outcome := c31EntryCheck(p, j.e, j.from, j.to, variant, ignore)
				if clause == "" {
					c.R.Outcome(outcome)
					continue
				}
				c.R.Outcome("violation")
				c.R.Violation(clause+":"+shapeName(j.e)+" "+shapeName(j.to), detail,
					c31EntryCase{Fn: "entry-target", Pkg: p.Name, Entry: j.e.Name, From: j.from.Name, To: j.to.Name, Doc: variant, Opt: ignore})
			}
		}
	})
}

func replayC31Entry(raw []byte) (bool, string, bool) {
	var cs c31EntryCase
	if err := json.Unmarshal(raw, &cs); err != nil || cs.Fn != "entry-target" {
		return false, "", false
	}
	p := core.PkgByName(cs.Pkg)
	if p == nil {
		return false, "unknown package", true
	}
	as, ok := p.AtomsByName([]string{cs.Entry, cs.From, cs.To})
	if !ok {
		return false, "unknown atoms", true
	}
	clause, detail, _ := c31EntryCheck(p, as[0], as[1], as[2], cs.Doc, cs.Opt)
	return clause != "", clause + " " + detail, true
}
