package props

import (
	"encoding/json"
	"fmt"
	"strings"

	"github.com/openconfig/goyang/pkg/yang"
	"github.com/openconfig/ygot/ygot"
	"github.com/openconfig/ygot/ytypes"
	"github.com/openconfig/ygot/zzverif/core"
)

// C30 - Leafref validation errors exactly on dangling references.
//
// States k <= 3 over a FOCUSED alphabet: the atoms of the corpus packages that touch a leafref
// leaf, the leaf a leafref points to, a leaf read by a [k=current()/...] predicate, or a list on
// the way to one of them (derived from the harness's own goyang compile, no hand list). Packages:
// vt (relative ref into a list key, list keyed by a leafref), voc (../../../interface/name, list
// keys that are leafrefs into config; compressed and uncompressed) and the auxiliary vlr schema
// (absolute paths, key predicates over string / uint8 / enumeration keys, leafref to a leaf-list,
// leaf-list of leafrefs, leafref to a union, two levels up, references inside list entries).
//
// Oracle: core.EvalLeafrefs (refleafref) on the observed Model.
//   default options:            Validate() != nil  <=>  some leafref LEAF value is dangling
//   IgnoreMissingData: true:    Validate() == nil always
// All leaves of the alphabet are of unrestricted types, so a tree can only be invalid through a
// leafref. Dangling elements of a leaf-list of leafrefs are not judged in the "must report"
// direction (ytypes/leafref.go returns early for leaf-list schemas) and counted.

func init() { core.RegisterProp(&core.Prop{ID: "C30", Run: runC30, Replay: replayC30}) }

type validator interface {
	Validate(...ygot.ValidationOption) error
}

func c30Packages() []*core.Pkg {
	return append(append(core.Packages("vt"), core.Packages("voc")...), core.AuxPackages("vlr")...)
}

// c30Alphabet selects the leafref-bearing part of the package's atoms; with predOnly only the part
// belonging to leafrefs whose path carries a key predicate (the deeper thorough pass).
func c30Alphabet(p *core.Pkg, rs *core.RsSchema, predOnly bool) []*core.Atom {
	rel := map[string]bool{}
	add := func(n []string) {
		if len(n) > 0 {
			rel["/"+strings.Join(n, "/")] = true
		}
	}
	for _, li := range rs.Leafrefs() {
		if predOnly && len(li.Selects) == 0 {
			continue
		}
		add(li.Names)
		add(li.Target)
		for _, s := range li.Selects {
			add(s)
		}
	}
	var out []*core.Atom
	for _, a := range p.Atoms() {
		n := ""
		for _, e := range a.Path {
			n += "/" + e.Name
		}
		keep := false
		switch a.Kind {
		case "leaf", "leaflist":
			keep = rel[n]
		case "entry", "emptylist", "unkeyed":
			for r := range rel {
				if strings.HasPrefix(r, n+"/") {
					keep = true
				}
			}
		}
		if keep {
			out = append(out, a)
		}
	}
	return out
}

func c30Validate(t interface{}, opts ...ygot.ValidationOption) (err error) {
	defer recoverTo(&err)
	return t.(validator).Validate(opts...)
}

// c30Skip: in path-compressed packages a list key that is a leafref into the entry's config (or
// state) container shares ONE struct field with its target (tag path:"config/name|name", with
// -prefer_operational_state path:"state/name|name"), so the reference is satisfied by construction
// and cannot dangle; with -prefer_operational_state the config copy is compressed out and is not
// representable at all. These key leafrefs are not judged (ygot never visits them either: the
// field is walked once, with the schema of its first path).
func c30Skip(p *core.Pkg) func(core.Path, *yang.Entry) bool {
	return func(lp core.Path, e *yang.Entry) bool {
		if len(lp) > 0 && lp[len(lp)-1].Name == "to-ul" {
			return true // leafref into a list without keys (schema vlr): not judged, see c30Eval
		}
		if !p.Compressed {
			return false
		}
		if len(lp) < 2 {
			return false
		}
		for _, k := range lp[len(lp)-2].Keys {
			if k.Name == lp[len(lp)-1].Name {
				return true
			}
		}
		return false
	}
}

type c30Facts struct {
	sig, detail string
	nontrivial  bool   // at least one leafref value was evaluated
	class       string // outcome class
}

func c30Eval(p *core.Pkg, rs *core.RsSchema, atoms []*core.Atom) c30Facts {
	t, err := p.Build(atoms)
	if err != nil {
		return c30Facts{}
	}
	m := p.Observe(t)
	f := rs.EvalLeafrefs(m, c30Skip(p))
	if len(f.Errs) > 0 {
		return c30Facts{sig: "reference-cannot-evaluate:", detail: strings.Join(f.Errs, "; ")}
	}
	var leafD, llD []core.Dangling
	for _, d := range f.Dangling {
		if d.LeafList {
			llD = append(llD, d)
		} else {
			leafD = append(leafD, d)
		}
	}
	out := c30Facts{nontrivial: f.Checked > 0}
	// with IgnoreMissingData nothing may be reported (the tree is valid apart from leafrefs)
	if err := c30Validate(t, &ytypes.LeafrefOptions{IgnoreMissingData: true}); err != nil {
		out.sig, out.detail = "error-with-ignore-missing:", fmt.Sprintf("Validate(IgnoreMissingData) = %v", err)
		return out
	}
	// Log only asks for the suppressed errors to be logged: it must not bring them back
	if err := c30Validate(t, &ytypes.LeafrefOptions{IgnoreMissingData: true, Log: true}); err != nil {
		out.sig, out.detail = "error-with-ignore-missing+log:", fmt.Sprintf("Validate(IgnoreMissingData, Log) = %v", err)
		return out
	}
	for _, a := range atoms {
		if strings.HasPrefix(a.Name, "/Lr/ToUl=") {
			// ygot cannot traverse a list without keys; only the IgnoreMissingData variants above are judged
			out.class = "excluded-leafref-into-keyless-list"
			return out
		}
	}
	verr := c30Validate(t)
	if verr != nil && strings.Contains(verr.Error(), "PANIC") {
		out.sig, out.detail = "validate-panic:", verr.Error()
		return out
	}
	switch {
	case len(leafD) > 0 && verr == nil:
		out.sig = "dangling-not-reported:"
		out.detail = fmt.Sprintf("Validate() = nil although %s (path %s) holds %s and the path selects %v", leafD[0].Leaf, leafD[0].Expr, leafD[0].Val, leafD[0].Targets)
	case len(leafD) == 0 && len(llD) == 0 && verr != nil:
		out.sig = "satisfied-but-reported:"
		out.detail = fmt.Sprintf("every leafref value (%d) has a target in the tree, but Validate() = %v", f.Checked, verr)
	case len(leafD) == 0 && len(llD) > 0:
		if verr == nil {
			out.class = "excluded-leaflist-leafref-dangling-not-reported"
		} else {
			out.class = "excluded-leaflist-leafref-dangling-reported"
		}
	case len(leafD) > 0:
		out.class = "dangling-reported"
	case f.Checked > 0:
		out.class = "all-satisfied-no-error"
	default:
		out.class = "no-leafref-in-tree"
	}
	if f.Skipped > 0 {
		out.class += "+compressed-key-leafref-not-judged"
	}
	return out
}

func c30Check(p *core.Pkg, rs *core.RsSchema, atoms []*core.Atom) (string, string) {
	f := c30Eval(p, rs, atoms)
	return f.sig, f.detail
}

func runC30(c *core.Ctx) {
	c.Level = "model_checking"
	k := kFor(c, 3, 3)
	c.Rule = fmt.Sprintf("explicit-state BFS up to k=%d populated nodes over the leafref-bearing atoms (leafref leaves x {value in the target set, value not in it, target list empty}, target lists and leaves, predicate selector leaves) of vt (2 configs), voc (6 configs) and the auxiliary vlr schema (absolute leafref, key predicates over string / uint8 / enumeration keys, leafref to leaf-list, leaf-list of leafrefs, leafref to union; 2 configs); thorough adds k=4 for vlr over the atoms of the leafrefs with key predicates (leafref, selector leaf, target list entries and leaves); every state: root Validate() and Validate(IgnoreMissingData) against the harness's own leafref evaluator on the observed Model; non-trivial = state holding at least one leafref value", k)
	c.R.Assume("builder and observer are correct; the trees are valid apart from leafrefs (all leaves of the focused alphabet are unrestricted), so any Validate error is a leafref error")
	for _, p := range c30Packages() {
		rs, err := core.LoadRefSchema(c.VerifDir+"/schemas", p.SchemaName)
		if err != nil {
			panic("C30: " + err.Error())
		}
		c30Explore(c, p, rs, k, c30Alphabet(p, rs, false))
		if c.Thorough() && p.SchemaName == "vlr" {
			// a predicate, its selector leaf and two target entries need four nodes
			c30Explore(c, p, rs, 4, c30Alphabet(p, rs, true))
		}
	}
}

func c30Explore(c *core.Ctx, p *core.Pkg, rs *core.RsSchema, kk int, atoms []*core.Atom) {
	exploreAll(c, []*core.Pkg{p}, kk, func(*core.Pkg) []*core.Atom { return atoms }, func(sp *core.Space, st core.State) {
		as := sp.SeqAtoms(st)
		c.R.Add("evaluations", 1)
		f := c30Eval(p, rs, as)
		if f.sig != "" {
			min, msig, mdetail := minimise(as, func(a []*core.Atom) (string, string) { return c30Check(p, rs, a) })
			c.R.Violation(sigFor(clauseOf(msig)+"@"+p.Config, min), mdetail+" [first seen with "+fmt.Sprint(atomNames(as))+": "+f.detail+"]", treeCase{Pkg: p.Name, Atoms: atomNames(min)})
			c.R.Outcome("violation")
		} else {
			c.R.Outcome(f.class)
		}
		if f.nontrivial {
			c.R.NonTrivial(p.Name + string(st.Key[:]))
		}
	})
}

func replayC30(c *core.Ctx, raw []byte) (bool, string) {
	var tc treeCase
	if err := json.Unmarshal(raw, &tc); err != nil {
		return false, err.Error()
	}
	p := core.AnyPkgByName(tc.Pkg)
	if p == nil {
		return false, "unknown package"
	}
	rs, err := core.LoadRefSchema(c.VerifDir+"/schemas", p.SchemaName)
	if err != nil {
		return false, err.Error()
	}
	atoms, ok := p.AtomsByName(tc.Atoms)
	if !ok {
		return false, "unknown atoms"
	}
	sig, d := c30Check(p, rs, atoms)
	return sig != "", sig + " " + d
}
