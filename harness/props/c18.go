package props

// C18 — Decoding rejects values outside the leaf's value space instead of coercing.
//
// valmc: full cartesian product  leaf types (every leaf / leaf-list directly under /vt:top)
//   x input atoms (JSON texts; gNMI TypedValue messages) x entry points (generated Unmarshal,
//   ytypes.SetNode with json_ietf_val, ytypes.SetNode with a typed scalar; SetNode with and
//   without TolerateJSONInconsistencies) x {vtus, vtuw}.
// Oracle: core.RefDecodeJSON / core.RefDecodeTV (independent reference decoder, three-valued);
//   observed outcome = error | value found by the reference observer at /top/<leaf>.
//   Every accepted value is re-rendered with ygot.Marshal7951 and the rendered JSON value must
//   denote the stored value (again by the reference decoder).

import (
	"encoding/json"
	"fmt"
	"math"
	"math/big"
	"sort"
	"strings"
	"sync"
	"sync/atomic"

	gpb "github.com/openconfig/gnmi/proto/gnmi"
	"github.com/openconfig/ygot/ygot"
	"github.com/openconfig/ygot/ytypes"
	"github.com/openconfig/ygot/zzverif/core"
	"google.golang.org/protobuf/encoding/prototext"
	"google.golang.org/protobuf/types/known/anypb"
)

func init() { core.RegisterProp(&core.Prop{ID: "C18", Run: runC18, Replay: replayC18}) }

type c18Case struct {
	Pkg    string `json:"pkg"`
	Leaf   string `json:"leaf"`
	Entry  string `json:"entry"` // unmarshal | setnode-json | setnode
	Tol    bool   `json:"tolerate_json_inconsistencies,omitempty"`
	JSON   string `json:"json,omitempty"`    // raw JSON text given as the value of the leaf
	TV     string `json:"tv,omitempty"`      // name of the TypedValue atom (see c18TVAtoms)
	TVText string `json:"tv_text,omitempty"` // informational
}

func (cs c18Case) input() string {
	if cs.Entry == "setnode" {
		return "TypedValue{" + cs.TVText + "} (" + cs.TV + ")"
	}
	return cs.JSON
}

func (cs c18Case) entryName() string {
	e := cs.Entry
	if cs.Tol {
		e += "+tolerate"
	}
	return e
}

// ---------------------------------------------------------------------------------------------
// alphabets

// c18IntKinds in fixed order.
var c18IntKinds = []string{"int8", "int16", "int32", "int64", "uint8", "uint16", "uint32", "uint64"}

func c18IntBounds(kind string) (lo, hi *big.Int) {
	one := big.NewInt(1)
	bits := map[string]uint{"int8": 8, "int16": 16, "int32": 32, "int64": 64, "uint8": 8, "uint16": 16, "uint32": 32, "uint64": 64}[kind]
	if kind[0] == 'i' {
		return new(big.Int).Neg(new(big.Int).Lsh(one, bits-1)), new(big.Int).Sub(new(big.Int).Lsh(one, bits-1), one)
	}
	return big.NewInt(0), new(big.Int).Sub(new(big.Int).Lsh(one, bits), one)
}

// c18JSONAtoms: the JSON texts used as leaf values, simplest first. The list of DESIGN.md section
// 5/C18 plus: every integer type's boundaries (min-1, min, max, max+1 as number and as string, and
// min-0.5 / max+0.5 as number), exponent and hex-float spellings, decimal64 space boundaries,
// non-canonical base64, module-prefixed names, and multi-element arrays for the leaf-lists.
func c18JSONAtoms(thorough bool) []string {
	atoms := []string{
		`null`, `true`, `false`, `0`, `1`, `-1`, `5`, `1.5`, `-0.5`, `255`, `256`, `65535.5`, `4294967296`, `1e2`, `1.0`, `-0`, `1e40`,
		`""`, `"1"`, `"+1"`, `" 1"`, `"01"`, `"-0"`, `"1.5"`, `"-0.5"`, `"1."`, `"1e5"`, `"0x10"`, `"0x1p4"`, `"1_0"`,
		`"NaN"`, `"Inf"`, `"-Inf"`, `"infinity"`,
		`"9223372036854775808"`, `"-9223372036854775809"`, `"18446744073709551616"`,
		`"9223372036854.775807"`, `"9223372036854.775808"`, `"0.0000001"`,
		`"AQI="`, `"AQI"`, `"AQJ="`, `"!!!"`, `"a"`, `"abcdefghij"`, `"true"`,
		`"RED"`, `"GREEN"`, `"vt:RED"`, `"bogus"`, `"vt:bogus"`, `"bogus:RED"`,
		`"ID-A"`, `"vt:ID-A"`, `"bogus:ID-A"`, `"X-ONE"`, `"vt-ext:X-ONE"`, `"vt:X-ONE"`,
		`[]`, `[null]`, `[true]`, `[null,null]`, `{}`, `[1]`,
		`[1,2]`, `[1,1.5]`, `[1,256]`, `[1,null]`, `["1","2"]`, `["1","x"]`, `["a","b"]`, `["RED","GREEN"]`, `["RED","bogus"]`, `["RED","bogus:RED"]`,
		`["AQI=","AQI="]`, `["AQI=","AQI"]`, `[[1]]`, `[{}]`, `[-5,"a","RED"]`,
	}
	for _, k := range c18IntKinds {
		lo, hi := c18IntBounds(k)
		for _, b := range []*big.Int{lo, hi} {
			for d := int64(-1); d <= 1; d++ {
				n := new(big.Int).Add(b, big.NewInt(d)).String()
				atoms = append(atoms, n, `"`+n+`"`)
			}
		}
		// just outside by a fraction: these truncate into the range
		atoms = append(atoms, new(big.Int).Sub(lo, big.NewInt(1)).String()+".5")
		if lo.Sign() == 0 {
			atoms = append(atoms, "-0.5") // already present
		} else {
			atoms = append(atoms, lo.String()+".5")
		}
		atoms = append(atoms, hi.String()+".5")
		if thorough {
			atoms = append(atoms, hi.String()+".0", hi.String()+"e0", `"`+hi.String()+`.0"`, `"+`+hi.String()+`"`, `"0`+hi.String()+`"`, `" `+hi.String()+`"`, `"`+hi.String()+` "`)
		}
	}
	if thorough {
		atoms = append(atoms, `2`, `-2`, `0.5`, `1E2`, `1e-2`, `100e-2`, `0.1e1`, `"\n1"`, `"1\n"`, `"١"`, `"1e-2"`, `"100e-2"`, `"1E5"`, `"0X10"`, `"0b1"`, `"0o7"`, `"+Inf"`, `"nan"`, `"NAN"`, `"inf"`,
			`".5"`, `"-.5"`, `"+1.5"`, `"1.50"`, `"1.5000000"`, `"00.5"`, `"--1"`, `"1-"`, `"1,5"`, `"1 5"`,
			`"AQ=="`, `"AR=="`, `"AQ="`, `"A==="`, `"===="`, `"AQI=\n"`, `"AQ\nI="`, `"AQI=AQI="`, `"QUJD"`, `"QUJ-"`, `"QUJ_"`,
			`"red"`, `"RED "`, `":RED"`, `"vt:"`, `"vt:vt:RED"`, `"vt-ext:RED"`, `"vt-ext:ID-A"`, `"BASE"`, `"vt:BASE"`, `"XBASE"`,
			`[1,1]`, `[256,1]`, `[1.5]`, `[null,1]`, `["a",1]`, `[1,"a"]`, `["bogus","RED"]`, `["AQI","AQI="]`, `[[]]`, `[[null]]`, `[true,false]`, `["9223372036854775808"]`, `["1e5"]`, `[0,-1]`)
	}
	seen := map[string]bool{}
	var out []string
	for _, a := range atoms {
		if !seen[a] {
			seen[a] = true
			out = append(out, a)
		}
	}
	return out
}

type c18TV struct {
	Name string
	Make func() *gpb.TypedValue // fresh message per use: JSON tolerance rewrites tv.Value (C11)
}

func c18TVAtoms(thorough bool) []c18TV {
	var out []c18TV
	add := func(name string, mk func() *gpb.TypedValue) { out = append(out, c18TV{name, mk}) }
	add("nil-message", func() *gpb.TypedValue { return nil })
	add("nil-value", func() *gpb.TypedValue { return &gpb.TypedValue{} })
	for _, s := range []string{"", "1", "a", "1.5", "true", "RED", "vt:RED", "bogus", "bogus:RED", "ID-A", "vt:ID-A", "bogus:ID-A", "X-ONE", "vt-ext:X-ONE", "vt:X-ONE", "AQI=", "-5"} {
		s := s
		add(fmt.Sprintf("string:%q", s), func() *gpb.TypedValue { return &gpb.TypedValue{Value: &gpb.TypedValue_StringVal{StringVal: s}} })
	}
	ints := map[int64]bool{0: true, 1: true, -1: true, 5: true}
	uints := map[uint64]bool{0: true, 1: true, 5: true}
	for _, k := range c18IntKinds {
		lo, hi := c18IntBounds(k)
		for _, b := range []*big.Int{lo, hi} {
			for d := int64(-1); d <= 1; d++ {
				n := new(big.Int).Add(b, big.NewInt(d))
				if n.IsInt64() {
					ints[n.Int64()] = true
				}
				if n.IsUint64() {
					uints[n.Uint64()] = true
				}
			}
		}
	}
	var is []int64
	for n := range ints {
		is = append(is, n)
	}
	sort.Slice(is, func(i, j int) bool { return c18absLess(is[i], is[j]) })
	for _, n := range is {
		n := n
		add(fmt.Sprintf("int:%d", n), func() *gpb.TypedValue { return &gpb.TypedValue{Value: &gpb.TypedValue_IntVal{IntVal: n}} })
	}
	var us []uint64
	for n := range uints {
		us = append(us, n)
	}
	sort.Slice(us, func(i, j int) bool { return us[i] < us[j] })
	for _, n := range us {
		n := n
		add(fmt.Sprintf("uint:%d", n), func() *gpb.TypedValue { return &gpb.TypedValue{Value: &gpb.TypedValue_UintVal{UintVal: n}} })
	}
	add("bool:true", func() *gpb.TypedValue { return &gpb.TypedValue{Value: &gpb.TypedValue_BoolVal{BoolVal: true}} })
	add("bool:false", func() *gpb.TypedValue { return &gpb.TypedValue{Value: &gpb.TypedValue_BoolVal{BoolVal: false}} })
	add("bytes:nil", func() *gpb.TypedValue { return &gpb.TypedValue{Value: &gpb.TypedValue_BytesVal{BytesVal: nil}} })
	add("bytes:empty", func() *gpb.TypedValue { return &gpb.TypedValue{Value: &gpb.TypedValue_BytesVal{BytesVal: []byte{}}} })
	add("bytes:00", func() *gpb.TypedValue { return &gpb.TypedValue{Value: &gpb.TypedValue_BytesVal{BytesVal: []byte{0}}} })
	add("bytes:0102", func() *gpb.TypedValue {
		return &gpb.TypedValue{Value: &gpb.TypedValue_BytesVal{BytesVal: []byte{1, 2}}}
	})
	for _, f := range []float32{0, 1, 1.5, -0.5, 0.1, 255, 256, float32(math.NaN()), float32(math.Inf(1))} {
		f := f
		add(fmt.Sprintf("float:%v", f), func() *gpb.TypedValue { return &gpb.TypedValue{Value: &gpb.TypedValue_FloatVal{FloatVal: f}} })
	}
	for _, f := range []float64{0, 1, 1.5, -0.5, 0.1, 0.000001, 0.0000001, 255, 255.5, 256, 1e15, 1e40, math.Copysign(0, -1), math.NaN(), math.Inf(1), math.Inf(-1)} {
		f := f
		add(fmt.Sprintf("double:%v", f), func() *gpb.TypedValue { return &gpb.TypedValue{Value: &gpb.TypedValue_DoubleVal{DoubleVal: f}} })
	}
	add("decimal:nil", func() *gpb.TypedValue { return &gpb.TypedValue{Value: &gpb.TypedValue_DecimalVal{DecimalVal: nil}} })
	type dp struct {
		d int64
		p uint32
	}
	decs := []dp{{0, 0}, {1, 0}, {15, 1}, {1500, 3}, {-500, 3}, {1, 6}, {1, 7}, {1, 18}, {255, 0}, {256, 0}, {2555, 1},
		{math.MaxInt64, 0}, {math.MaxInt64, 6}, {math.MaxInt64, 18}, {math.MinInt64, 0}, {math.MinInt64, 6}, {math.MinInt64, 18}, {1, 19}, {1, 400}}
	if thorough {
		for p := uint32(0); p <= 19; p++ {
			decs = append(decs, dp{1, p}, dp{-15, p}, dp{math.MaxInt64, p})
		}
	}
	seenD := map[dp]bool{}
	for _, x := range decs {
		x := x
		if seenD[x] {
			continue
		}
		seenD[x] = true
		add(fmt.Sprintf("decimal:%d/p%d", x.d, x.p), func() *gpb.TypedValue {
			return &gpb.TypedValue{Value: &gpb.TypedValue_DecimalVal{DecimalVal: &gpb.Decimal64{Digits: x.d, Precision: x.p}}}
		})
	}
	u := func(n uint64) *gpb.TypedValue { return &gpb.TypedValue{Value: &gpb.TypedValue_UintVal{UintVal: n}} }
	i := func(n int64) *gpb.TypedValue { return &gpb.TypedValue{Value: &gpb.TypedValue_IntVal{IntVal: n}} }
	s := func(x string) *gpb.TypedValue { return &gpb.TypedValue{Value: &gpb.TypedValue_StringVal{StringVal: x}} }
	by := func(b []byte) *gpb.TypedValue { return &gpb.TypedValue{Value: &gpb.TypedValue_BytesVal{BytesVal: b}} }
	ll := func(es ...*gpb.TypedValue) *gpb.TypedValue {
		return &gpb.TypedValue{Value: &gpb.TypedValue_LeaflistVal{LeaflistVal: &gpb.ScalarArray{Element: es}}}
	}
	add("leaflist:nil-array", func() *gpb.TypedValue { return &gpb.TypedValue{Value: &gpb.TypedValue_LeaflistVal{}} })
	add("leaflist:empty", func() *gpb.TypedValue { return ll() })
	add("leaflist:[uint 1]", func() *gpb.TypedValue { return ll(u(1)) })
	add("leaflist:[uint 1,uint 2]", func() *gpb.TypedValue { return ll(u(1), u(2)) })
	add("leaflist:[uint 1,uint 256]", func() *gpb.TypedValue { return ll(u(1), u(256)) })
	add("leaflist:[int 1]", func() *gpb.TypedValue { return ll(i(1)) })
	add("leaflist:[int -5,int 7]", func() *gpb.TypedValue { return ll(i(-5), i(7)) })
	add("leaflist:[string a]", func() *gpb.TypedValue { return ll(s("a")) })
	add("leaflist:[string a,string b]", func() *gpb.TypedValue { return ll(s("a"), s("b")) })
	add("leaflist:[string RED,string GREEN]", func() *gpb.TypedValue { return ll(s("RED"), s("GREEN")) })
	add("leaflist:[string RED,string bogus]", func() *gpb.TypedValue { return ll(s("RED"), s("bogus")) })
	add("leaflist:[string RED,string bogus:RED]", func() *gpb.TypedValue { return ll(s("RED"), s("bogus:RED")) })
	add("leaflist:[bytes 0102]", func() *gpb.TypedValue { return ll(by([]byte{1, 2})) })
	add("leaflist:[bytes 0102,bytes nil]", func() *gpb.TypedValue { return ll(by([]byte{1, 2}), by(nil)) })
	add("leaflist:[int -5,string a,string RED]", func() *gpb.TypedValue { return ll(i(-5), s("a"), s("RED")) })
	add("leaflist:[nil]", func() *gpb.TypedValue { return ll(nil) })
	add("leaflist:[uint 1,nil-value]", func() *gpb.TypedValue { return ll(u(1), &gpb.TypedValue{}) })
	add("leaflist:[leaflist[uint 1]]", func() *gpb.TypedValue { return ll(ll(u(1))) })
	add("leaflist:[json_ietf 1]", func() *gpb.TypedValue {
		return ll(&gpb.TypedValue{Value: &gpb.TypedValue_JsonIetfVal{JsonIetfVal: []byte("1")}})
	})
	add("any:nil", func() *gpb.TypedValue { return &gpb.TypedValue{Value: &gpb.TypedValue_AnyVal{}} })
	add("any:empty", func() *gpb.TypedValue { return &gpb.TypedValue{Value: &gpb.TypedValue_AnyVal{AnyVal: &anypb.Any{}}} })
	add("any:typed", func() *gpb.TypedValue {
		return &gpb.TypedValue{Value: &gpb.TypedValue_AnyVal{AnyVal: &anypb.Any{TypeUrl: "type.googleapis.com/gnmi.TypedValue", Value: []byte{0x18, 0x01}}}}
	})
	add("proto_bytes:01", func() *gpb.TypedValue {
		return &gpb.TypedValue{Value: &gpb.TypedValue_ProtoBytes{ProtoBytes: []byte{1}}}
	})
	for _, j := range []string{"", "1", `"a"`, `"RED"`, `"1"`, "1.5", "[null]", "[1]"} {
		j := j
		add("json:"+j, func() *gpb.TypedValue { return &gpb.TypedValue{Value: &gpb.TypedValue_JsonVal{JsonVal: []byte(j)}} })
	}
	add("json:nil", func() *gpb.TypedValue { return &gpb.TypedValue{Value: &gpb.TypedValue_JsonVal{}} })
	add("json_ietf:nil", func() *gpb.TypedValue { return &gpb.TypedValue{Value: &gpb.TypedValue_JsonIetfVal{}} })
	for _, j := range []string{"", " ", "{", "1 2", "nul", `"a`} {
		j := j
		add("json_ietf:"+j, func() *gpb.TypedValue {
			return &gpb.TypedValue{Value: &gpb.TypedValue_JsonIetfVal{JsonIetfVal: []byte(j)}}
		})
	}
	for _, a := range []string{"", "1", "a", "RED", "true", "AQI="} {
		a := a
		add("ascii:"+a, func() *gpb.TypedValue { return &gpb.TypedValue{Value: &gpb.TypedValue_AsciiVal{AsciiVal: a}} })
	}
	return out
}

func c18absLess(a, b int64) bool {
	ua, ub := new(big.Int).Abs(big.NewInt(a)), new(big.Int).Abs(big.NewInt(b))
	if c := ua.Cmp(ub); c != 0 {
		return c < 0
	}
	return a > b
}

// ---------------------------------------------------------------------------------------------
// reference schema (compiled once from the YANG sources)

var (
	c18Once      sync.Once
	c18Leaves    []*core.RefLeaf
	c18Err       error
	c18RevOnce   sync.Once
	c18RevLeaves []*core.RefLeaf
	c18RevErr    error
)

// c18RevRefLeaves: the leaves of the second revision of module vt (package vtrs, schemas/rev): the same
// leaves, but typedef color and identity BASE have one more member each, numbered differently.
func c18RevRefLeaves(c *core.Ctx) ([]*core.RefLeaf, error) {
	c18RevOnce.Do(func() {
		c18RevLeaves, c18RevErr = core.RefLoadLeaves(c.VerifDir+"/schemas", []string{"rev/vt.yang"}, "vt", "top")
	})
	return c18RevLeaves, c18RevErr
}

func c18RefLeaves(c *core.Ctx) ([]*core.RefLeaf, error) {
	c18Once.Do(func() {
		c18Leaves, c18Err = core.RefLoadLeaves(c.VerifDir+"/schemas", []string{"vt.yang"}, "vt", "top")
	})
	return c18Leaves, c18Err
}

// ---------------------------------------------------------------------------------------------
// one evaluation

type c18Result struct {
	Sig      string // "" = conforms
	Detail   string
	Outcome  string // outcome class for the evidence
	Allowed  core.RefAllowed
	Observed string
}

func c18Path(leaf string) *gpb.Path {
	return &gpb.Path{Elem: []*gpb.PathElem{{Name: "top"}, {Name: leaf}}}
}

func c18Eval(p *core.Pkg, l *core.RefLeaf, cs c18Case, tvs map[string]c18TV) c18Result {
	root := p.NewRoot()
	var allowed core.RefAllowed
	var err error
	entryClass := "json"
	switch cs.Entry {
	case "unmarshal":
		allowed = core.RefDecodeJSON(l, cs.JSON)
		doc := fmt.Sprintf(`{"%s:top":{%q:%s}}`, l.Module, l.Name, cs.JSON)
		err = safeErr(func() error { return p.Unmarshal([]byte(doc), root) })
	case "setnode-json", "setnode":
		var tv *gpb.TypedValue
		if cs.Entry == "setnode-json" {
			tv = &gpb.TypedValue{Value: &gpb.TypedValue_JsonIetfVal{JsonIetfVal: []byte(cs.JSON)}}
		} else {
			a, ok := tvs[cs.TV]
			if !ok {
				return c18Result{Sig: "", Detail: "unknown TypedValue atom " + cs.TV, Outcome: "harness-error"}
			}
			tv = a.Make()
			entryClass = "gnmi"
		}
		allowed = core.RefDecodeTV(l, tv)
		opts := []ytypes.SetNodeOpt{&ytypes.InitMissingElements{}}
		if cs.Tol {
			opts = append(opts, &ytypes.TolerateJSONInconsistencies{})
		}
		err = safeErr(func() error { return ytypes.SetNode(p.Schema().RootSchema(), root, c18Path(l.Name), tv, opts...) })
	default:
		return c18Result{Detail: "unknown entry " + cs.Entry, Outcome: "harness-error"}
	}
	shape := l.Shape()
	if strings.Contains(shape, "union") {
		if p.Wrapper {
			shape += "@wrapper"
		} else {
			shape += "@simple"
		}
	}
	res := c18Result{Allowed: allowed}
	mk := func(verdict, clause, observed string) c18Result {
		res.Sig = verdict + ":" + clause + ":" + entryClass + ":" + shape
		res.Observed = observed
		res.Outcome = verdict
		res.Detail = fmt.Sprintf("%s leaf /top/%s (%s) via %s, input %s: reference allows %s, ygot: %s", p.Name, l.Name, l.Shape(), cs.entryName(), cs.input(), allowed, observed)
		return res
	}
	clause := strings.TrimPrefix(allowed.Clause, "lenient:")
	if err != nil {
		if strings.Contains(err.Error(), "PANIC") {
			return mk("panic", clause, err.Error())
		}
		res.Observed = "reject"
		if !allowed.Reject {
			return mk("wellformed-rejected", clause, "error: "+err.Error())
		}
		res.Outcome = allowed.Class() + "/rejected"
		return res
	}
	m := p.Observe(root)
	key := core.Path{}.Names("top", l.Name).String()
	stored, has := m.Leaves[key]
	for k := range m.Leaves {
		if k != key {
			return mk("stored-elsewhere", clause, fmt.Sprintf("accepted, but leaf %s was written: %s", k, m.LeafCanon(false)))
		}
	}
	if !has {
		res.Observed = "accept, nothing stored"
		if !allowed.Unset {
			if allowed.MustReject() {
				return mk("accepted-must-reject", clause, "no error, nothing stored")
			}
			return mk("accepted-nothing-stored", clause, "no error, nothing stored")
		}
		res.Outcome = allowed.Class() + "/accepted-nothing-stored"
		return res
	}
	// float64 -0 is the decimal64 value 0 (an artefact of ygot's Go representation, not a value)
	if stored == "dec:-0" {
		stored = "dec:0"
	}
	res.Observed = "store " + string(stored)
	if !allowed.Has(stored) {
		if len(allowed.Values) == 0 {
			return mk("accepted-must-reject", clause, "no error, stored "+string(stored))
		}
		// which kind of value was stored in place of which
		var ks []string
		for _, v := range allowed.Values {
			if k := valueKind(v); len(ks) == 0 || ks[len(ks)-1] != k {
				ks = append(ks, k)
			}
		}
		r := mk("stored-wrong-value", clause, "no error, stored "+string(stored))
		r.Sig += ":" + valueKind(stored) + "-for-" + strings.Join(ks, "|")
		return r
	}
	// every accepted value re-renders to a JSON value denoting the same value
	var js []byte
	rerr := safeErr(func() error {
		var e error
		js, e = ygot.Marshal7951(root, &ygot.RFC7951JSONConfig{AppendModuleName: true})
		return e
	})
	if rerr != nil {
		return mk("rerender-error", clause, fmt.Sprintf("stored %s; Marshal7951: %v", stored, rerr))
	}
	raw, ok := c18Extract(js, l)
	if !ok {
		return mk("rerender-missing", clause, fmt.Sprintf("stored %s; Marshal7951 output %s has no /top/%s", stored, js, l.Name))
	}
	if back := core.RefDecodeJSON(l, raw); !back.Has(stored) {
		return mk("rerender-differs", clause, fmt.Sprintf("stored %s; re-rendered as %s which denotes %s", stored, raw, back))
	}
	res.Outcome = allowed.Class() + "/accepted-exact"
	return res
}

// c18Extract finds the raw JSON text of /top/<leaf> in an RFC 7951 document.
func c18Extract(js []byte, l *core.RefLeaf) (string, bool) {
	var doc map[string]json.RawMessage
	if json.Unmarshal(js, &doc) != nil {
		return "", false
	}
	for _, tk := range []string{l.Module + ":top", "top"} {
		t, ok := doc[tk]
		if !ok {
			continue
		}
		var top map[string]json.RawMessage
		if json.Unmarshal(t, &top) != nil {
			return "", false
		}
		for _, lk := range []string{l.Name, l.Module + ":" + l.Name} {
			if v, ok := top[lk]; ok {
				return string(v), true
			}
		}
	}
	return "", false
}

// ---------------------------------------------------------------------------------------------

func runC18(c *core.Ctx) {
	c.Level = "exploration"
	leaves, err := c18RefLeaves(c)
	if err != nil {
		c.R.Note("harness_error", err.Error())
		c.R.Violation("harness-error:reference-schema", err.Error(), nil)
		return
	}
	jatoms := c18JSONAtoms(c.Thorough())
	tvatoms := c18TVAtoms(c.Thorough())
	tvs := map[string]c18TV{}
	for _, a := range tvatoms {
		tvs[a.Name] = a
	}
	pkgs := []*core.Pkg{core.PkgByName("vtus"), core.PkgByName("vtuw")}
	var shapes []string
	for _, l := range leaves {
		shapes = append(shapes, l.Name+":"+l.Shape())
	}
	c.Rule = fmt.Sprintf("valmc, full cartesian product: %d leaves and leaf-lists directly under /vt:top (types taken from the YANG source compiled by the harness with goyang: %s) x {vtus, vtuw} x [%d JSON texts x {generated Unmarshal of {\"vt:top\":{leaf:<text>}}, SetNode json_ietf_val, SetNode json_ietf_val+TolerateJSONInconsistencies}  +  %d TypedValue messages x {SetNode, SetNode+TolerateJSONInconsistencies}]; each outcome (error | value seen by the reference observer at /top/<leaf>) is compared with the outcome set of the reference decoder; accepted values are re-rendered with Marshal7951 and re-read by the reference decoder; non-trivial = case whose input is of a kind the leaf's type can carry (the reference allows a value, or demands rejection for a reason other than the JSON kind / TypedValue alternative)",
		len(leaves), strings.Join(shapes, " "), len(jatoms), len(tvatoms))
	c.R.Assume("reference decoder (core/refdecode.go) transcribes RFC 7951 s.6, RFC 7950 s.9 lexical forms, RFC 4648 s.4 and the gNMI TypedValue mapping; goyang parses the YANG source correctly; the reference observer reads the stored Go value correctly; range/length/pattern/max-elements restrictions are checked by Validate, not by decoding, and are not judged here")
	c.R.Note("json_atoms", len(jatoms))
	c.R.Note("typedvalue_atoms", len(tvatoms))
	c.R.Note("leaves", shapes)

	type job struct {
		p  *core.Pkg
		l  *core.RefLeaf
		cs c18Case
	}
	var jobs []job
	// vtrs (second revision of vt, same Go type names, other numbering) decodes the leaves that carry
	// enumeration / identityref values in the same process: a decoder table shared between packages by
	// type NAME gives one of the two packages the other's values
	if rp := core.AnyPkgByName("vtrs"); rp != nil {
		rl, err := c18RevRefLeaves(c)
		if err != nil {
			c.R.Violation("reference-error:rev-schema", err.Error(), nil)
			return
		}
		for _, l := range rl {
			if sh := l.Shape(); !strings.Contains(sh, "enumeration") && !strings.Contains(sh, "identityref") {
				continue
			}
			for _, a := range jatoms {
				jobs = append(jobs, job{rp, l, c18Case{Pkg: rp.Name, Leaf: l.Name, Entry: "unmarshal", JSON: a}})
				jobs = append(jobs, job{rp, l, c18Case{Pkg: rp.Name, Leaf: l.Name, Entry: "setnode-json", JSON: a}})
			}
		}
		pkgs = append(pkgs, rp)
	}
	for _, p := range pkgs[:2] {
		if p == nil {
			c.R.Violation("harness-error:missing-package", "vtus/vtuw not registered", nil)
			return
		}
		for _, l := range leaves {
			for _, a := range jatoms {
				jobs = append(jobs, job{p, l, c18Case{Pkg: p.Name, Leaf: l.Name, Entry: "unmarshal", JSON: a}})
				jobs = append(jobs, job{p, l, c18Case{Pkg: p.Name, Leaf: l.Name, Entry: "setnode-json", JSON: a}})
				jobs = append(jobs, job{p, l, c18Case{Pkg: p.Name, Leaf: l.Name, Entry: "setnode-json", Tol: true, JSON: a}})
			}
			for _, a := range tvatoms {
				txt := "<nil>"
				if tv := a.Make(); tv != nil {
					txt = prototext.MarshalOptions{}.Format(tv)
					txt = strings.Join(strings.Fields(txt), " ")
				}
				jobs = append(jobs, job{p, l, c18Case{Pkg: p.Name, Leaf: l.Name, Entry: "setnode", TV: a.Name, TVText: txt}})
				jobs = append(jobs, job{p, l, c18Case{Pkg: p.Name, Leaf: l.Name, Entry: "setnode", Tol: true, TV: a.Name, TVText: txt}})
			}
		}
	}
	for _, p := range pkgs {
		p.Schema()
	}
	// evaluate in parallel, report in enumeration order (so the case kept per signature is the
	// first = simplest one, independent of goroutine scheduling)
	results := make([]c18Result, len(jobs))
	done := make([]bool, len(jobs))
	var stop int32
	core.ParallelFor(len(jobs), func(i int) {
		if atomic.LoadInt32(&stop) != 0 {
			return
		}
		if i%1024 == 0 && c.Expired() {
			atomic.StoreInt32(&stop, 1)
			return
		}
		results[i] = c18Eval(jobs[i].p, jobs[i].l, jobs[i].cs, tvs)
		done[i] = true
	})
	byClause := map[string]int{}
	for i, j := range jobs {
		if !done[i] {
			continue
		}
		r := results[i]
		c.R.Add("evaluations", 1)
		cl := r.Allowed.Clause
		if len(r.Allowed.Values) > 0 || (cl != "wrong-kind" && cl != "wrong-alternative" && !strings.HasPrefix(cl, "lenient:")) {
			c.R.NonTrivial(j.l.Shape() + "|" + j.cs.Entry + "|" + j.cs.JSON + j.cs.TV)
		}
		c.R.Add("oracle_"+r.Allowed.Class(), 1)
		if j.l.Type.Restricted && strings.HasSuffix(r.Outcome, "/accepted-exact") {
			c.R.Add("accepted_on_restricted_leaf_restriction_not_judged", 1)
		}
		if len(r.Allowed.Values) > 1 {
			// lexically ambiguous union input: which member it resolves to is not judged (DESIGN.md s.6)
			c.R.Add("excluded_union_member_resolution_any_reading_allowed", 1)
		}
		c.R.Outcome(r.Outcome)
		byClause[r.Allowed.Clause+" -> "+strings.TrimPrefix(r.Outcome, r.Allowed.Class()+"/")]++
		if r.Sig != "" {
			c.R.Violation(r.Sig, r.Detail, j.cs)
		}
	}
	c.R.Note("outcomes_by_reference_clause", byClause)
	c.R.Sample(map[string]interface{}{"case": c18Case{Pkg: "vtus", Leaf: "u8", Entry: "unmarshal", JSON: "255.5"}, "reference": core.RefDecodeJSON(c18leaf(leaves, "u8"), "255.5").String()})
	c.R.Sample(map[string]interface{}{"case": c18Case{Pkg: "vtus", Leaf: "i64", Entry: "unmarshal", JSON: `"+1"`}, "reference": core.RefDecodeJSON(c18leaf(leaves, "i64"), `"+1"`).String()})
	c.R.Sample(map[string]interface{}{"case": c18Case{Pkg: "vtuw", Leaf: "un", Entry: "setnode-json", JSON: `"RED"`}, "reference": core.RefDecodeJSON(c18leaf(leaves, "un"), `"RED"`).String()})
	c.R.Sample(map[string]interface{}{"case": c18Case{Pkg: "vtus", Leaf: "ll-u8", Entry: "unmarshal", JSON: `[1,256]`}, "reference": core.RefDecodeJSON(c18leaf(leaves, "ll-u8"), `[1,256]`).String()})
	if a, ok := tvs["decimal:1500/p3"]; ok {
		c.R.Sample(map[string]interface{}{"case": c18Case{Pkg: "vtus", Leaf: "dec", Entry: "setnode", TV: a.Name}, "reference": core.RefDecodeTV(c18leaf(leaves, "dec"), a.Make()).String()})
	}
}

func c18leaf(ls []*core.RefLeaf, name string) *core.RefLeaf {
	for _, l := range ls {
		if l.Name == name {
			return l
		}
	}
	return &core.RefLeaf{Name: name, Type: &core.RefType{Kind: "string"}}
}

func replayC18(c *core.Ctx, raw []byte) (bool, string) {
	var cs c18Case
	if err := json.Unmarshal(raw, &cs); err != nil {
		return false, err.Error()
	}
	leaves, err := c18RefLeaves(c)
	if cs.Pkg == "vtrs" {
		leaves, err = c18RevRefLeaves(c)
	}
	if err != nil {
		return false, err.Error()
	}
	p := core.AnyPkgByName(cs.Pkg)
	if p == nil {
		return false, "unknown package " + cs.Pkg
	}
	var l *core.RefLeaf
	for _, x := range leaves {
		if x.Name == cs.Leaf {
			l = x
		}
	}
	if l == nil {
		return false, "unknown leaf " + cs.Leaf
	}
	tvs := map[string]c18TV{}
	for _, a := range c18TVAtoms(true) {
		tvs[a.Name] = a
	}
	r := c18Eval(p, l, cs, tvs)
	return r.Sig != "", r.Sig + " " + r.Detail
}
