package props

// C23 — gnmidiff SetRequest-to-notifications diff classifies leaves exactly.
//
// For every request of C22's base set (per-leaf typed / JSON scalar updates, JSON container updates at
// every grouping depth, and the requests that delete / replace the enclosing subtrees) the notifications
// carrying exactly the leaves the intent writes are built from the reference Model in every layout
// (one notification with every prefix split, JSON scalars, JSON container updates, two notifications at
// every cut with and without prefixes). Then every single-leaf edit of the canonical layouts is judged.
// Request/notification machinery lives in c22.go.

import (
	"encoding/json"
	"fmt"
	"sort"
	"strings"

	gpb "github.com/openconfig/gnmi/proto/gnmi"
	"github.com/openconfig/ygot/gnmidiff"
	"github.com/openconfig/ygot/zzverif/core"
	"google.golang.org/protobuf/proto"
)

func init() { core.RegisterProp(&core.Prop{ID: "C23", Run: runC23, Replay: replayC23}) }

type c23N struct {
	Prefix int
	Upd    []c22Upd
}

type c23NSpec struct {
	Desc string
	N    []c23N
}

func (s *c23NSpec) Notifs() []*gpb.Notification {
	var out []*gpb.Notification
	for i, n := range s.N {
		g := &gpb.Notification{Timestamp: int64(100 + i)}
		if n.Prefix > 0 {
			g.Prefix = n.Upd[0].Path[:n.Prefix].GNMI()
		}
		for _, u := range n.Upd {
			g.Update = append(g.Update, &gpb.Update{Path: c22Rel(u.Path, n.Prefix), Val: proto.Clone(u.TV).(*gpb.TypedValue)})
		}
		out = append(out, g)
	}
	return out
}

func (s *c23NSpec) String() string {
	return fmt.Sprintf("%s %s", s.Desc, strings.Join(strings.Fields(fmt.Sprint(s.Notifs())), " "))
}

func c23Upds(leaves []c22Leaf, typed, withSchema bool) []c22Upd {
	var out []c22Upd
	n := 0
	for _, l := range leaves {
		out = append(out, c22Upd{Path: l.Path, TV: c22LeafTV(l, typed, withSchema, &n)})
	}
	return out
}

func c23UpdPaths(u []c22Upd) []core.Path {
	var out []core.Path
	for _, x := range u {
		out = append(out, x.Path)
	}
	return out
}

// c23Canon: the two canonical layouts (one notification, no prefix; typed scalars / JSON scalars).
func c23Canon(leaves []c22Leaf, withSchema bool) []*c23NSpec {
	var out []*c23NSpec
	for _, typed := range []bool{true, false} {
		d := "n-json-scalar"
		if typed {
			d = "n-typed"
		}
		s := &c23NSpec{Desc: d}
		if len(leaves) > 0 {
			s.N = []c23N{{Upd: c23Upds(leaves, typed, withSchema)}}
		}
		out = append(out, s)
	}
	return out
}

// c23Layouts: every layout of "exactly these leaves" beyond the canonical ones.
func c23Layouts(leaves []c22Leaf, withSchema bool) []*c23NSpec {
	var out []*c23NSpec
	if len(leaves) == 0 {
		return out
	}
	typed := c23Upds(leaves, true, withSchema)
	for n := 1; n <= c22Common(c23UpdPaths(typed)); n++ {
		out = append(out, &c23NSpec{Desc: fmt.Sprintf("n-typed|prefix=%d", n), N: []c23N{{Prefix: n, Upd: typed}}})
	}
	seen := map[string]bool{}
	for d := 0; d <= c22MaxDepth(leaves); d++ {
		gs := c22Groups(leaves, d, false)
		if k := c22GroupSig(gs); seen[k] {
			continue
		} else {
			seen[k] = true
		}
		s := &c23NSpec{Desc: fmt.Sprintf("n-json@%d", d), N: []c23N{{}}}
		for _, g := range gs {
			s.N[0].Upd = append(s.N[0].Upd, c22Upd{Path: g.Base, TV: c22JSONTV(c22Render(g.Leaves, g.Base))})
		}
		out = append(out, s)
	}
	for cut := 1; cut < len(typed); cut++ {
		a, b := typed[:cut], typed[cut:]
		out = append(out, &c23NSpec{Desc: fmt.Sprintf("n2-typed|cut=%d", cut), N: []c23N{{Upd: a}, {Upd: b}}})
		pa, pb := c22Common(c23UpdPaths(a)), c22Common(c23UpdPaths(b))
		out = append(out, &c23NSpec{Desc: fmt.Sprintf("n2-typed|cut=%d|prefix=%d,%d", cut, pa, pb), N: []c23N{{Prefix: pa, Upd: a}, {Prefix: pb, Upd: b}}})
		// the later notification first: the set of leaves is the same
		out = append(out, &c23NSpec{Desc: fmt.Sprintf("n2-typed|cut=%d|reversed", cut), N: []c23N{{Upd: b}, {Upd: a}}})
	}
	return out
}

func c23Call(p *core.Pkg, req *c22Spec, ns *c23NSpec, withSchema bool) (d gnmidiff.SetToNotifsDiff, err error) {
	defer recoverTo(&err)
	return gnmidiff.DiffSetRequestToNotifications(req.Req(), ns.Notifs(), c22Schema(p, withSchema))
}

// c23Judge compares the three difference maps with the expected key sets.
func c23Judge(d gnmidiff.SetToNotifsDiff, missing, extra, mismatched []string) string {
	var parts []string
	cmp := func(n string, got, want []string) {
		sort.Strings(want)
		if strings.Join(got, "\x00") != strings.Join(want, "\x00") {
			parts = append(parts, fmt.Sprintf("%s: got %s, want %s", n, c22Trunc(got), c22Trunc(want)))
		}
	}
	cmp("missing", c22Keys(d.MissingUpdates), missing)
	cmp("extra", c22Keys(d.ExtraUpdates), extra)
	cmp("mismatched", c22Keys(d.MismatchedUpdates), mismatched)
	return strings.Join(parts, "; ")
}

// c23IsKeyLeaf: the leaf is a list key leaf (direct child of the entry, or config/<key>, state/<key>
// in OpenConfig style). Changing its value inside the entry would not be a data tree.
func c23IsKeyLeaf(p core.Path) bool {
	n := len(p)
	has := func(e core.PElem, name string) bool {
		for _, k := range e.Keys {
			if k.Name == name {
				return true
			}
		}
		return false
	}
	if n >= 2 && has(p[n-2], p[n-1].Name) {
		return true
	}
	if n >= 3 && len(p[n-2].Keys) == 0 && (p[n-2].Name == "config" || p[n-2].Name == "state") && has(p[n-3], p[n-1].Name) {
		return true
	}
	return false
}

// c23Alt: a different value of the same leaf, taken from the atom alphabet (values valid for the
// leaf's type); NoValue when the alphabet has none (type empty, key leaves).
func c23Alt(alpha []*core.Atom, l c22Leaf) core.Value {
	for _, a := range alpha {
		if a.Val == core.NoValue || a.Val == l.Val || (a.Val.IsLL() && len(a.Val.Elems()) == 0) {
			continue
		}
		if a.Path.String() == l.Key {
			return a.Val
		}
	}
	return core.NoValue
}

// c23Adds: up to max leaves of the alphabet that lie below a deleted subtree and are not written.
func c23Adds(alpha []*core.Atom, req *c22Spec, max int) []c22Leaf {
	written := map[string]bool{}
	for _, l := range req.Writes {
		written[l.Key] = true
	}
	var out []c22Leaf
	seen := map[string]bool{}
	for _, a := range alpha {
		if a.Val == core.NoValue || (a.Val.IsLL() && len(a.Val.Elems()) == 0) || (a.Kind != "leaf" && a.Kind != "leaflist") {
			continue
		}
		k := a.Path.String()
		if written[k] || seen[k] {
			continue
		}
		under := false
		for _, d := range req.Dels {
			if len(d) < len(a.Path) && c22Common([]core.Path{d, a.Path}) == len(d) {
				under = true
			}
		}
		if !under {
			continue
		}
		seen[k] = true
		out = append(out, c22Leaf{Key: k, Path: a.Path, Val: a.Val})
		if len(out) >= max {
			break
		}
	}
	return out
}

type c23Env struct {
	p  *core.Pkg
	ws bool
	s  *c22Sink
}

func (e *c23Env) check(clause, kind, sigKind string, req *c22Spec, ns *c23NSpec, missing, extra, mismatched []string, what string) {
	e.s.evals++
	d, err := c23Call(e.p, req, ns, e.ws)
	switch {
	case c22IsPanic(err):
		e.s.violSig("panic", kind, sigKind, fmt.Sprintf("DiffSetRequestToNotifications panicked: %v; request = %s; notifications = %s", err, req, ns))
	case err != nil:
		e.s.errOut(clause+"-", err, req, ns)
	default:
		if j := c23Judge(d, missing, extra, mismatched); j != "" {
			e.s.violSig(clause, kind, sigKind, fmt.Sprintf("%s: %s; request = %s; notifications = %s", what, j, req, ns))
		} else {
			e.s.out[clause+"-ok"]++
		}
	}
}

func c23ReqKind(desc string) string {
	if i := strings.Index(desc, "@"); i >= 0 {
		if desc[i:] == "@0" {
			return desc[:i] + "@root"
		}
		return desc[:i]
	}
	return desc
}

func c23LayoutKind(desc string) string {
	if i := strings.Index(desc, "|"); i >= 0 {
		k := desc[:i]
		if strings.Contains(desc, "prefix") {
			k += "+prefix"
		}
		return k
	}
	if i := strings.Index(desc, "@"); i >= 0 {
		if desc[i:] == "@0" {
			return desc[:i] + "@root"
		}
		return desc[:i]
	}
	return desc
}

// c23PathClass: the classes of the list key values on the path of an added leaf that are not plain
// ("" when all are plain): the added leaf comes from the alphabet, not from the state's atoms, so the
// signature has to show it.
func c23PathClass(p core.Path) string {
	var cl []string
	for _, e := range p {
		for _, k := range e.Keys {
			if c := c22ValClass(k.Val); strings.Contains(c, "{") {
				cl = append(cl, c)
			}
		}
	}
	if len(cl) == 0 {
		return ""
	}
	return "[" + strings.Join(cl, ",") + "]"
}

func c23Without(leaves []c22Leaf, i int) []c22Leaf {
	return append(append([]c22Leaf(nil), leaves[:i]...), leaves[i+1:]...)
}

// c23Eval judges one state: every request of the base set against every layout of the exact leaves,
// then every single-leaf edit of the canonical layouts.
func c23Eval(p *core.Pkg, alpha, atoms []*core.Atom, withSchema bool, s *c22Sink) (nleaves int) {
	leaves, ok := c22Leaves(p, atoms)
	if !ok || len(leaves) == 0 {
		return 0
	}
	e := &c23Env{p: p, ws: withSchema, s: s}
	lossy := 0
	reqs := append(c22Shapes(leaves, withSchema, &lossy), c22DeleteShapes(leaves, withSchema, &lossy)...)
	s.out["excluded-lossy-typed-noschema"] += int64(lossy)
	for ri, req := range reqs {
		rk := c23ReqKind(req.Desc)
		w := req.Writes
		canon := c23Canon(w, withSchema)
		// the layout sweep concerns the notification side only: it is crossed with the per-leaf typed
		// request and with the first request that deletes below the root; every other request meets the
		// two canonical layouts.
		full := ri == 0 || req.Desc == "delete+leaf@1"
		// (1) exactly the written leaves
		if s.want("exact/" + rk) {
			lay := canon
			if full {
				lay = append(lay, c23Layouts(w, withSchema)...)
			}
			for _, ns := range lay {
				e.check("exact-nonempty", "exact/"+rk, "exact", req, ns, nil, nil, nil, "notifications carry exactly the written leaves ("+c23LayoutKind(ns.Desc)+")")
			}
		}
		for ci, cn := range canon {
			typed := ci == 0
			if !typed && ri != 0 {
				continue // edits of the JSON-scalar layout: against the per-leaf typed request only
			}
			// (2) one leaf removed -> that leaf, and only it, missing
			if s.want("remove/" + rk) {
				for i, l := range w {
					ns := &c23NSpec{Desc: cn.Desc + "|removed=" + l.Key}
					if len(w) > 1 {
						ns.N = []c23N{{Upd: c23Upds(c23Without(w, i), typed, withSchema)}}
					}
					e.check("remove-misclassified", "remove/"+rk, "remove", req, ns, []string{c22RefPath(l.Path)}, nil, nil, "leaf "+l.Key+" removed from the notifications")
				}
			}
			// (3) one value changed -> that leaf, and only it, mismatched
			if s.want("change/" + rk) {
				for i, l := range w {
					if c23IsKeyLeaf(l.Path) {
						s.out["excluded-change-of-key-leaf"]++
						continue
					}
					alt := c23Alt(alpha, l)
					if alt == core.NoValue {
						s.out["excluded-change-no-other-value"]++
						continue
					}
					w2 := append([]c22Leaf(nil), w...)
					w2[i].Val = alt
					ns := &c23NSpec{Desc: cn.Desc + "|changed=" + l.Key, N: []c23N{{Upd: c23Upds(w2, typed, withSchema)}}}
					e.check("change-misclassified", "change/"+rk, "change", req, ns, nil, nil, []string{c22RefPath(l.Path)}, fmt.Sprintf("leaf %s changed from %s to %s in the notifications", l.Key, l.Val, alt))
				}
			}
			// (4) one leaf added below a deleted / replaced subtree -> that leaf, and only it, extra
			if len(req.Dels) > 0 && s.want("add/"+rk) {
				for _, l := range c23Adds(alpha, req, 3) {
					w2 := append(append([]c22Leaf(nil), w...), l)
					ns := &c23NSpec{Desc: cn.Desc + "|added=" + l.Key, N: []c23N{{Upd: c23Upds(w2, typed, withSchema)}}}
					e.check("add-misclassified", "add/"+rk, "add"+c23PathClass(l.Path), req, ns, nil, []string{c22RefPath(l.Path)}, nil, "leaf "+l.Key+" added below a deleted/replaced subtree")
				}
			}
		}
	}
	return len(leaves)
}

func runC23(c *core.Ctx) {
	c.Level = "exploration"
	p := core.PkgByName("voccs")
	if p == nil {
		c.R.Violation("setup:no-voccs", "corpus package voccs is not registered", nil)
		return
	}
	c.Rule = "every state with <= 2 atoms (thorough: additionally <= 3 atoms over the focus sub-alphabet) of the compressed OpenConfig-style package voccs (alphabet as in C22, incl. 7 adversarial interface names); per state every request of C22's base set (per-leaf typed / JSON scalar updates, JSON container updates at every grouping depth, replace-with-JSON, delete + leaf updates and delete-only at every grouping depth) x every layout of notifications carrying exactly the written leaves (one notification with every prefix split, typed or JSON_IETF scalars, JSON_IETF container updates at every depth, two notifications at every cut with/without prefixes and in both orders) must give an empty diff; then on the two canonical layouts every single-leaf edit: each leaf removed (-> exactly it missing), each non-key leaf changed to another value of the alphabet (-> exactly it mismatched), up to 3 alphabet leaves added below each deleted/replaced subtree (-> exactly it extra); with and without schema. Expected keys are rendered by an own path formatter. Non-trivial = state with at least one leaf"
	c.R.Assume("builder/observer correct; own RFC 7951 renderer, scalar TypedValue mapping and path formatter (name[k=v], '=' and ']' escaped) are right; every call gets a schema with a fresh Root")
	c.R.Note("excluded", "errors returned by DiffSetRequestToNotifications are counted, not judged; without schema 64-bit / decimal64 leaves are sent as JSON_IETF scalars (typed form documented lossy); the value of a list key leaf is never changed (the result would not be a data tree); leaves of type empty have no other value")
	run := func(alphaOf func(p *core.Pkg) []*core.Atom, k int) {
		exploreAll(c, []*core.Pkg{p}, k, alphaOf, func(sp *core.Space, st core.State) {
			atoms := sp.SeqAtoms(st)
			nl := 0
			for _, ws := range []bool{false, true} {
				ws := ws
				eval := func(a []*core.Atom, s *c22Sink) { c23Eval(p, sp.Atoms, a, ws, s) }
				s := newC22Sink("")
				nl = c23Eval(p, sp.Atoms, atoms, ws, s)
				c22Report(c, "C23", p, atoms, ws, s, eval)
			}
			if nl > 0 {
				c.R.NonTrivial(strings.Join(atomNames(atoms), "+"))
			}
		})
	}
	run(c22Alphabet, 2)
	if c.Thorough() {
		run(c22FocusAlphabet, 3)
	}
	if lv, ok := c22Leaves(p, c22Alphabet(p)[:1]); ok && len(lv) > 0 {
		sh := c22DeleteShapes(lv, false, new(int))
		c.R.Sample(map[string]interface{}{"state": atomNames(c22Alphabet(p)[:1]), "request": sh[0].String(), "notifications": c23Canon(lv, false)[0].String()})
	}
}

func replayC23(c *core.Ctx, raw []byte) (bool, string) {
	var cs c22Case
	if err := json.Unmarshal(raw, &cs); err != nil {
		return false, err.Error()
	}
	p := core.PkgByName(cs.Pkg)
	if p == nil {
		return false, "unknown package"
	}
	atoms, ok := c22Resolve(p, cs.Atoms)
	if !ok {
		return false, "unknown atoms"
	}
	alpha := c22Alphabet(p)
	return c22Replay(func(a []*core.Atom, s *c22Sink) { c23Eval(p, alpha, a, cs.Schema, s) }, atoms, cs)
}
