package props

import (
	"encoding/json"
	"fmt"
	"math/big"
	"reflect"
	"regexp"
	"sort"
	"strconv"
	"strings"
	"sync"

	"github.com/openconfig/goyang/pkg/yang"
	"github.com/openconfig/ygot/ygot"
	"github.com/openconfig/ygot/ytypes"
	"github.com/openconfig/ygot/zzverif/core"
)

// C07 -- tree validation accepts exactly schema-valid trees.
//
// Every state of the explicit-state search (atom sequences up to k populated nodes, built by
// reflection on fresh real GoStructs) is validated with the generated root's Validate(); then every
// single-fault mutation of every state the reference accepts is applied to that real object by
// reflection (such trees cannot be produced through ygot's setters), validated, and undone.
// Oracle for every tree, mutated or not: Validate()==nil  <=>  core.RefValidate accepts.
//
// Dangling leafrefs are not this property's business: Validate is always called with
// LeafrefOptions{IgnoreMissingData:true}.

func init() { core.RegisterProp(&core.Prop{ID: "C07", Run: runC07, Replay: replayC07}) }

// c07FaultID names one mutation of a built tree; together with the atom names it is the replay case.
type c07FaultID struct {
	Kind string `json:"kind"`
	Site string `json:"site"`
	Arg  string `json:"arg,omitempty"`
}

type c07Case struct {
	Pkg   string      `json:"pkg"`
	Atoms []string    `json:"atoms"`
	Fault *c07FaultID `json:"fault,omitempty"`
}

type c07Mut struct {
	ID    c07FaultID
	Shape string // abstraction of the mutation for the signature: kind(type ...)
	apply func() error
	undo  func()
}

// ---- calling the code under test --------------------------------------------------------------

type c07Validator interface {
	Validate(...ygot.ValidationOption) error
}

// c07Validate returns "" when Validate returned nil, otherwise the (truncated) error text; a panic is
// reported with the prefix "PANIC".
func c07Validate(root interface{}) (res string) {
	defer func() {
		if r := recover(); r != nil {
			res = fmt.Sprintf("PANIC: %v", r)
		}
	}()
	v, ok := root.(c07Validator)
	if !ok {
		return "PANIC: root has no Validate method"
	}
	if err := v.Validate(&ytypes.LeafrefOptions{IgnoreMissingData: true}); err != nil {
		s := err.Error()
		if s == "" {
			s = "(non-nil error with empty text)"
		}
		if len(s) > 300 {
			s = s[:300] + "..."
		}
		return s
	}
	return ""
}

// ---- out-of-space values -----------------------------------------------------------------------

type c07Out struct {
	Val core.Value
	Tag string // range | length | pattern | enum-undefined, for unions "<memberkind>:<tag>"
}

var c07OutCache sync.Map // pkg + type + entry pointer -> []c07Out

func c07Pow10(n int) *big.Rat {
	return new(big.Rat).SetInt(new(big.Int).Exp(big.NewInt(10), big.NewInt(int64(n)), nil))
}

func c07DecString(x *big.Rat, fd int) core.Value {
	f, _ := strconv.ParseFloat(x.FloatString(fd), 64)
	return core.Value("dec:" + strconv.FormatFloat(f, 'f', -1, 64))
}

// c07MemberOuts lists candidate out-of-space values of one non-union type (candidates only; the
// caller keeps those the reference really places outside the value space).
func c07MemberOuts(p *core.Pkg, yt *yang.YangType, valid []core.Value) []c07Out {
	var out []c07Out
	intTag := map[yang.TypeKind]string{yang.Yint8: "i8", yang.Yint16: "i16", yang.Yint32: "i32", yang.Yint64: "i64",
		yang.Yuint8: "u8", yang.Yuint16: "u16", yang.Yuint32: "u32", yang.Yuint64: "u64"}
	if tag, ok := intTag[yt.Kind]; ok {
		bits, _ := strconv.Atoi(tag[1:])
		lo, hi := big.NewInt(0), new(big.Int).Sub(new(big.Int).Lsh(big.NewInt(1), uint(bits)), big.NewInt(1))
		if tag[0] == 'i' {
			lo = new(big.Int).Neg(new(big.Int).Lsh(big.NewInt(1), uint(bits-1)))
			hi = new(big.Int).Sub(new(big.Int).Lsh(big.NewInt(1), uint(bits-1)), big.NewInt(1))
		}
		for _, r := range yt.Range {
			for _, c := range []*big.Rat{
				new(big.Rat).Sub(core.NumRat(r.Min), big.NewRat(1, 1)),
				new(big.Rat).Add(core.NumRat(r.Max), big.NewRat(1, 1)),
			} {
				if !c.IsInt() || c.Num().Cmp(lo) < 0 || c.Num().Cmp(hi) > 0 { // must be storable in the Go type
					continue
				}
				out = append(out, c07Out{core.Value(tag + ":" + c.Num().String()), "range"})
			}
		}
		return out
	}
	switch yt.Kind {
	case yang.Ydecimal64:
		fd := yt.FractionDigits
		if fd <= 0 {
			return nil
		}
		step := new(big.Rat).Inv(c07Pow10(fd))
		lim := new(big.Rat).Quo(new(big.Rat).SetInt(new(big.Int).Lsh(big.NewInt(1), 62)), c07Pow10(fd)) // stay clear of the type's extremes (C06 region)
		for _, r := range yt.Range {
			for _, c := range []*big.Rat{new(big.Rat).Sub(core.NumRat(r.Min), step), new(big.Rat).Add(core.NumRat(r.Max), step)} {
				if new(big.Rat).Abs(c).Cmp(lim) > 0 {
					continue
				}
				out = append(out, c07Out{c07DecString(c, fd), "range"})
			}
		}
	case yang.Ystring:
		seed := "a"
		for _, v := range valid {
			if v.Kind() == "str" && v.Payload() != "" {
				seed = v.Payload()
				break
			}
		}
		sr := []rune(seed)
		rep := func(n int) string {
			b := make([]rune, n)
			for i := range b {
				b[i] = sr[i%len(sr)]
			}
			return string(b)
		}
		cands := []string{"", "~"}
		for _, r := range yt.Length {
			mn, mx := core.NumRat(r.Min), core.NumRat(r.Max)
			if mx.IsInt() && mx.Num().IsInt64() && mx.Num().Int64() < 64 {
				cands = append(cands, rep(int(mx.Num().Int64())+1))
			}
			if mn.IsInt() && mn.Num().IsInt64() && mn.Num().Int64() > 0 && mn.Num().Int64() < 64 {
				n := int(mn.Num().Int64())
				cands = append(cands, rep(n-1), strings.Repeat("~", n), strings.Repeat("Z", n))
			}
		}
		if len(yt.Length) == 0 {
			cands = append(cands, "~~", "Z")
		}
		for _, s := range cands {
			out = append(out, c07Out{core.Value("str:" + s), ""}) // tag filled from the reference's answer
		}
	case yang.Ybinary:
		for _, r := range yt.Length {
			mn, mx := core.NumRat(r.Min), core.NumRat(r.Max)
			if mx.IsInt() && mx.Num().IsInt64() && mx.Num().Int64() < 64 {
				out = append(out, c07Out{core.Value("bin:" + strings.Repeat("ab", int(mx.Num().Int64())+1)), "length"})
			}
			if mn.IsInt() && mn.Num().IsInt64() && mn.Num().Int64() > 0 && mn.Num().Int64() < 64 {
				out = append(out, c07Out{core.Value("bin:" + strings.Repeat("ab", int(mn.Num().Int64())-1)), "length"})
			}
		}
	}
	return out
}

// c07EnumOuts: undefined integers of a generated enumeration type (max defined + 1, and -1).
func c07EnumOuts(p *core.Pkg, et reflect.Type) []c07Out {
	defs := p.EnumMap[et.Name()]
	var max int64
	for n := range defs {
		if n > max {
			max = n
		}
	}
	var out []c07Out
	for _, n := range []int64{max + 1, -1} {
		if _, ok := defs[n]; !ok && n != 0 {
			out = append(out, c07Out{core.Value("enum#" + strconv.FormatInt(n, 10)), "enum-undefined"})
		}
	}
	return out
}

// c07UnionEnumTypes lists the enumeration Go types a union field accepts (tried through the
// generated To_<Union> helper, which exists for simple and wrapper unions alike).
func c07UnionEnumTypes(p *core.Pkg, ut reflect.Type, owner reflect.Value) []reflect.Type {
	m := owner.MethodByName("To_" + ut.Name())
	if !m.IsValid() {
		return nil
	}
	var out []reflect.Type
	for _, et := range p.EnumTypes() {
		ev := reflect.New(et).Elem()
		res := func() (r []reflect.Value) {
			defer func() {
				if recover() != nil {
					r = nil
				}
			}()
			return m.Call([]reflect.Value{reflect.ValueOf(ev.Interface())})
		}()
		if len(res) == 2 && res[1].IsNil() && !res[0].IsNil() {
			out = append(out, et)
		}
	}
	return out
}

// c07ToGo builds the Go value for val in a field (or leaf-list element) of type ft owned by owner.
func c07ToGo(p *core.Pkg, val core.Value, ft reflect.Type, owner reflect.Value) (gv reflect.Value, err error) {
	defer recoverTo(&err)
	if strings.HasPrefix(string(val), "enum#") && ft.Kind() == reflect.Interface {
		n, _ := strconv.ParseInt(strings.TrimPrefix(string(val), "enum#"), 10, 64)
		m := owner.MethodByName("To_" + ft.Name())
		for _, et := range c07UnionEnumTypes(p, ft, owner) {
			ev := reflect.New(et).Elem()
			ev.SetInt(n)
			res := m.Call([]reflect.Value{reflect.ValueOf(ev.Interface())})
			if res[1].IsNil() && !res[0].IsNil() {
				return res[0], nil
			}
		}
		return reflect.Value{}, fmt.Errorf("no enumeration member in union %s", ft.Name())
	}
	return p.ToGo(val, ft, owner)
}

// c07Outs returns the out-of-space values for a leaf field / leaf-list element of Go type ft with
// schema entry e: candidates per type (range edge -+1, over-long / too-short / pattern-violating
// string, over-long / too-short binary, undefined enumeration integer, and for unions the same per
// member), kept only when the reference places them outside the value space.
func c07Outs(p *core.Pkg, ft reflect.Type, e *yang.Entry, owner reflect.Value) []c07Out {
	key := fmt.Sprintf("%s|%s|%p", p.Name, ft.String(), e)
	if v, ok := c07OutCache.Load(key); ok {
		return v.([]c07Out)
	}
	yt := core.RefLeafType(e)
	var out []c07Out
	if yt != nil {
		t := ft
		if t.Kind() == reflect.Ptr {
			t = t.Elem()
		}
		valid := p.LeafDomain(ft, e)
		var cands []c07Out
		switch {
		case core.IsEnumType(t):
			cands = c07EnumOuts(p, t)
		case t.Kind() == reflect.Interface && yt.Kind == yang.Yunion:
			for _, m := range c07Flatten(yt) {
				for _, c := range c07MemberOuts(p, m, valid) {
					c.Tag = yang.TypeKindToName[m.Kind] + ":" + c.Tag
					cands = append(cands, c)
				}
			}
			for _, et := range c07UnionEnumTypes(p, t, owner) {
				for _, c := range c07EnumOuts(p, et) {
					c.Tag = "enum:" + c.Tag
					cands = append(cands, c)
				}
			}
		default:
			cands = c07MemberOuts(p, yt, valid)
		}
		seen := map[core.Value]bool{}
		nPerTag := map[string]int{}
		for _, c := range cands {
			if seen[c.Val] {
				continue
			}
			seen[c.Val] = true
			f := core.RefValueFault(yt, c.Val)
			if f == "" || f == core.RefUnjudged || f == "type" {
				continue
			}
			if strings.HasSuffix(c.Tag, ":") || c.Tag == "" {
				c.Tag += f
			}
			if gv, err := c07ToGo(p, c.Val, ft, owner); err != nil || p.FromGo(gv) != c.Val {
				continue // not storable in the Go representation
			}
			if nPerTag[c.Tag] >= 2 {
				continue
			}
			nPerTag[c.Tag]++
			out = append(out, c)
		}
	}
	c07OutCache.Store(key, out)
	return out
}

func c07Flatten(t *yang.YangType) []*yang.YangType {
	var out []*yang.YangType
	for _, m := range t.Type {
		if m.Kind == yang.Yunion {
			out = append(out, c07Flatten(m)...)
		} else {
			out = append(out, m)
		}
	}
	return out
}

func c07TypeName(e *yang.Entry) string {
	yt := core.RefLeafType(e)
	if yt == nil {
		return "unresolved"
	}
	return yang.TypeKindToName[yt.Kind]
}

// ---- enumeration of the single-fault mutations of a built tree ---------------------------------

type c07Walker struct {
	p    *core.Pkg
	muts []c07Mut
}

func (w *c07Walker) add(kind, site, arg, shape string, apply func() error, undo func()) {
	w.muts = append(w.muts, c07Mut{ID: c07FaultID{kind, site, arg}, Shape: kind + "(" + shape + ")", apply: apply, undo: undo})
}

func c07IsKeyField(f reflect.StructField, keyNames []string) string {
	for _, a := range core.TagPaths(f) {
		if len(a) == 1 {
			for _, k := range keyNames {
				if a[0] == k {
					return k
				}
			}
		}
	}
	return ""
}

func (w *c07Walker) unionStyle(t reflect.Type) string {
	if t.Kind() == reflect.Ptr {
		t = t.Elem()
	}
	if t.Kind() != reflect.Interface {
		return ""
	}
	if w.p.Wrapper {
		return "@wrapper"
	}
	return "@simple"
}

// setField returns apply/undo closures that store gv into field fv.
func c07Setter(fv reflect.Value, mk func() (reflect.Value, error)) (func() error, func()) {
	var old reflect.Value
	return func() error {
			gv, err := mk()
			if err != nil {
				return err
			}
			old = reflect.New(fv.Type()).Elem()
			old.Set(fv)
			fv.Set(gv)
			return nil
		}, func() {
			if old.IsValid() {
				fv.Set(old)
			}
		}
}

func (w *c07Walker) walkStruct(ptr reflect.Value, se *yang.Entry, site string, keyNames []string) {
	p := w.p
	sv := ptr.Elem()
	st := sv.Type()
	w.choiceFaults(ptr, se, site)
	for i := 0; i < st.NumField(); i++ {
		f := st.Field(i)
		alts := core.TagPaths(f)
		if alts == nil {
			continue
		}
		ce, _ := core.FindChild(se, alts[0])
		if ce == nil {
			continue
		}
		fv := sv.Field(i)
		fsite := site + "/" + f.Name
		switch core.KindOfField(f.Type) {
		case core.FLeaf:
			if c07IsKeyField(f, keyNames) != "" || p.FromGo(fv) == core.NoValue {
				continue
			}
			ft := f.Type
			for _, o := range c07Outs(p, ft, ce, ptr) {
				o := o
				ap, un := c07Setter(fv, func() (reflect.Value, error) { return c07ToGo(p, o.Val, ft, ptr) })
				w.add("leaf-value", fsite, string(o.Val), c07TypeName(ce)+"/"+o.Tag+w.unionStyle(ft), ap, un)
			}
		case core.FLeafList:
			w.leafListFaults(ptr, fv, f, ce, fsite)
		case core.FContainer:
			if !fv.IsNil() {
				w.walkStruct(fv, ce, fsite, nil)
			}
		case core.FKeyedList:
			if !fv.IsNil() {
				w.mapFaults(fv, f, ce, fsite)
			}
		case core.FOrderedList:
			if !fv.IsNil() {
				w.orderedFaults(fv, f, ce, fsite)
			}
		case core.FUnkeyedList:
			for j := 0; j < fv.Len(); j++ {
				if !fv.Index(j).IsNil() {
					w.walkStruct(fv.Index(j), ce, fmt.Sprintf("%s#%d", fsite, j), nil)
				}
			}
		}
	}
}

func c07CopySlice(s reflect.Value, n int) reflect.Value {
	out := reflect.MakeSlice(s.Type(), n, n)
	reflect.Copy(out, s)
	return out
}

func (w *c07Walker) leafListFaults(owner, fv reflect.Value, f reflect.StructField, ce *yang.Entry, fsite string) {
	p := w.p
	n := fv.Len()
	if n == 0 {
		return
	}
	et := f.Type.Elem()
	tn := c07TypeName(ce)
	cfg := "config"
	if !core.RefConfig(ce) {
		cfg = "state"
	}
	var min, max uint64
	if ce.ListAttr != nil {
		min, max = ce.ListAttr.MinElements, ce.ListAttr.MaxElements
	}
	// each element replaced by each out-of-space value
	for i := 0; i < n; i++ {
		for _, o := range c07Outs(p, et, ce, owner) {
			i, o := i, o
			ap, un := c07Setter(fv, func() (reflect.Value, error) {
				gv, err := c07ToGo(p, o.Val, et, owner)
				if err != nil {
					return gv, err
				}
				ns := c07CopySlice(fv, n)
				ns.Index(i).Set(gv)
				return ns, nil
			})
			w.add("ll-elem-value", fsite, fmt.Sprintf("%d=%s", i, o.Val), tn+"/"+o.Tag+w.unionStyle(et), ap, un)
		}
	}
	// duplicate value: a copy of the first element is appended (or, when the list is full, replaces the last)
	if max == 0 || uint64(n) < max {
		ap, un := c07Setter(fv, func() (reflect.Value, error) {
			ns := c07CopySlice(fv, n+1)
			ns.Index(n).Set(fv.Index(0))
			return ns, nil
		})
		w.add("ll-dup", fsite, "append", tn+","+cfg+w.unionStyle(et), ap, un)
	} else if n >= 2 {
		ap, un := c07Setter(fv, func() (reflect.Value, error) {
			ns := c07CopySlice(fv, n)
			ns.Index(n - 1).Set(fv.Index(0))
			return ns, nil
		})
		w.add("ll-dup", fsite, "replace-last", tn+","+cfg+w.unionStyle(et), ap, un)
	}
	// near-duplicates (a VALID tree unless the type restricts length): two distinct values that agree in
	// their first 200 characters / 64 bytes and differ only at the very end. Any comparison of
	// elements by a truncated rendering (util.ValueStr cuts at 150 characters) or by a prefix hash
	// takes them for duplicates.
	if (max == 0 || max >= 2) && min <= 2 {
		for _, nd := range [][2]core.Value{
			{core.Value("str:" + strings.Repeat("a", 200) + "x"), core.Value("str:" + strings.Repeat("a", 200) + "y")},
			{core.Value("bin:" + strings.Repeat("ab", 64) + "01"), core.Value("bin:" + strings.Repeat("ab", 64) + "02")},
		} {
			nd := nd
			if _, err := c07ToGo(p, nd[0], et, owner); err != nil {
				continue
			}
			ap, un := c07Setter(fv, func() (reflect.Value, error) {
				ns := reflect.MakeSlice(f.Type, 2, 2)
				for i := 0; i < 2; i++ {
					gv, err := c07ToGo(p, nd[i], et, owner)
					if err != nil {
						return gv, err
					}
					ns.Index(i).Set(gv)
				}
				return ns, nil
			})
			w.add("ll-near-dup", fsite, string(nd[0][:3]), tn+","+cfg+w.unionStyle(et), ap, un)
		}
	}
	// one above max-elements: max+1 distinct in-space values
	if max > 0 && max < 16 && uint64(n) <= max {
		dom := p.LeafDomain(et, ce)
		if uint64(len(dom)) > max {
			ap, un := c07Setter(fv, func() (reflect.Value, error) {
				return p.ToGo(core.LL(dom[:max+1]...), f.Type, owner)
			})
			w.add("ll-over-max", fsite, fmt.Sprint(max+1), tn+","+cfg, ap, un)
		}
	}
	// one below min-elements
	if min > 0 && uint64(n) == min {
		ap, un := c07Setter(fv, func() (reflect.Value, error) {
			if n == 1 {
				return reflect.Zero(f.Type), nil
			}
			return c07CopySlice(fv, n-1), nil
		})
		w.add("ll-under-min", fsite, fmt.Sprint(n-1), tn+","+cfg, ap, un)
	}
}

type c07KeyField struct {
	name string
	idx  int
	e    *yang.Entry
}

func (w *c07Walker) keyFields(et reflect.Type, ee *yang.Entry, keyNames []string) []c07KeyField {
	var out []c07KeyField
	for _, kn := range keyNames {
		for j := 0; j < et.Elem().NumField(); j++ {
			kf := et.Elem().Field(j)
			if c07IsKeyField(kf, []string{kn}) != "" {
				tp := core.TagPaths(kf)
				ke, _ := core.FindChild(ee, tp[len(tp)-1])
				out = append(out, c07KeyField{kn, j, ke})
			}
		}
	}
	return out
}

// keyLeafFaults: for one entry, each key leaf set to another in-space value and set to nil.
func (w *c07Walker) keyLeafFaults(ev reflect.Value, kfs []c07KeyField, esite, listKind string) {
	p := w.p
	multi := "single"
	if len(kfs) > 1 {
		multi = "multi"
	}
	for _, kf := range kfs {
		kf := kf
		fld := ev.Elem().Field(kf.idx)
		ft := fld.Type()
		cur := p.FromGo(fld)
		fname := ev.Elem().Type().Field(kf.idx).Name
		for _, d := range p.LeafDomain(ft, kf.e) {
			if d == cur {
				continue
			}
			d := d
			ap, un := c07Setter(fld, func() (reflect.Value, error) { return p.ToGo(d, ft, ev) })
			w.add("key-leaf", esite+"/"+fname, string(d), listKind+","+multi+","+c07TypeName(kf.e)+w.unionStyle(ft), ap, un)
			break
		}
		ap, un := c07Setter(fld, func() (reflect.Value, error) { return reflect.Zero(ft), nil })
		w.add("key-leaf-nil", esite+"/"+fname, "", listKind+","+multi+","+c07TypeName(kf.e)+w.unionStyle(ft), ap, un)
	}
}

func c07Tuple(p *core.Pkg, key reflect.Value, keyNames []string) []core.Value {
	kvs := p.KeyKVs(key, keyNames)
	out := make([]core.Value, len(keyNames))
	for i, kn := range keyNames {
		for _, kv := range kvs {
			if kv.Name == kn {
				out[i] = kv.Val
			}
		}
	}
	return out
}

func c07TupleString(t []core.Value) string {
	s := make([]string, len(t))
	for i, v := range t {
		s[i] = string(v)
	}
	return strings.Join(s, ",")
}

// freshTuples returns n key tuples not in used: the first key varies over its domain, the others stay at their first value.
func (w *c07Walker) freshTuples(et reflect.Type, kfs []c07KeyField, used map[string]bool, n int) [][]core.Value {
	p := w.p
	doms := make([][]core.Value, len(kfs))
	for i, kf := range kfs {
		for _, d := range p.LeafDomain(et.Elem().Field(kf.idx).Type, kf.e) {
			if d != "str:" {
				doms[i] = append(doms[i], d)
			}
		}
		if len(doms[i]) == 0 {
			return nil
		}
	}
	var out [][]core.Value
	for _, d0 := range doms[0] {
		t := []core.Value{d0}
		for i := 1; i < len(kfs); i++ {
			t = append(t, doms[i][0])
		}
		if used[c07TupleString(t)] {
			continue
		}
		out = append(out, t)
		if len(out) == n {
			return out
		}
	}
	return nil
}

func (w *c07Walker) mapFaults(fv reflect.Value, f reflect.StructField, ce *yang.Entry, fsite string) {
	p := w.p
	et := f.Type.Elem()
	keyNames := p.ListKeyNames(et)
	ee := p.EntryFor(et)
	if ee == nil {
		ee = ce
	}
	kfs := w.keyFields(et, ee, keyNames)
	type ent struct {
		k, v reflect.Value
		t    []core.Value
		s    string
	}
	var ents []ent
	used := map[string]bool{}
	for _, k := range fv.MapKeys() {
		t := c07Tuple(p, k, keyNames)
		ents = append(ents, ent{k, fv.MapIndex(k), t, c07TupleString(t)})
		used[c07TupleString(t)] = true
	}
	sort.Slice(ents, func(i, j int) bool { return ents[i].s < ents[j].s })
	multi := "single"
	if len(kfs) > 1 {
		multi = "multi"
	}
	for _, e := range ents {
		if e.v.IsNil() {
			continue
		}
		e := e
		esite := fsite + "[" + e.s + "]"
		w.keyLeafFaults(e.v, kfs, esite, "keyed")
		// the map key changed in one component (the entry and its key leaves stay)
		for ki, kf := range kfs {
			kft := et.Elem().Field(kf.idx).Type
			for _, d := range p.LeafDomain(kft, kf.e) {
				nt := append([]core.Value{}, e.t...)
				nt[ki] = d
				if d == e.t[ki] || d == "str:" || used[c07TupleString(nt)] {
					continue
				}
				var nk reflect.Value
				w.add("rekey", esite, kf.name+"="+string(d), "keyed,"+multi+","+c07TypeName(kf.e)+w.unionStyle(kft), func() error {
					k, err := p.MapKey(f.Type.Key(), e.v, keyNames, nt)
					if err != nil {
						return err
					}
					nk = k
					fv.SetMapIndex(e.k, reflect.Value{})
					fv.SetMapIndex(nk, e.v)
					return nil
				}, func() {
					if nk.IsValid() {
						fv.SetMapIndex(nk, reflect.Value{})
						fv.SetMapIndex(e.k, e.v)
					}
				})
				break
			}
		}
		if f.Type.Key().Kind() == reflect.Interface && !used[""] {
			done := false
			w.add("rekey-nil", esite, "", "keyed,single,"+c07TypeName(kfs[0].e)+w.unionStyle(f.Type.Key()), func() error {
				fv.SetMapIndex(e.k, reflect.Value{})
				fv.SetMapIndex(reflect.Zero(f.Type.Key()), e.v)
				done = true
				return nil
			}, func() {
				if done {
					fv.SetMapIndex(reflect.Zero(f.Type.Key()), reflect.Value{})
					fv.SetMapIndex(e.k, e.v)
				}
			})
		}
		w.walkStruct(e.v, ee, esite, keyNames)
	}
	var min, max uint64
	if ce.ListAttr != nil {
		min, max = ce.ListAttr.MinElements, ce.ListAttr.MaxElements
	}
	n := len(ents)
	shape := "keyed," + multi
	if max > 0 && max < 16 && uint64(n) <= max {
		if ts := w.freshTuples(et, kfs, used, int(max)+1-n); ts != nil {
			var added []reflect.Value
			w.add("list-over-max", fsite, fmt.Sprint(max+1), shape, func() error {
				for _, t := range ts {
					entry := reflect.New(et.Elem())
					if err := p.SetKeyLeaves(entry, keyNames, t); err != nil {
						return err
					}
					k, err := p.MapKey(f.Type.Key(), entry, keyNames, t)
					if err != nil {
						return err
					}
					if f.Type.Key().Kind() == reflect.Interface { // one interface value for map key and key leaf
						k = entry.Elem().Field(kfs[0].idx)
					}
					fv.SetMapIndex(k, entry)
					added = append(added, k)
				}
				return nil
			}, func() {
				for _, k := range added {
					fv.SetMapIndex(k, reflect.Value{})
				}
				added = nil
			})
		}
	}
	if min > 0 && uint64(n) == min && n > 0 {
		last := ents[n-1]
		removed := false
		w.add("list-under-min", fsite, fmt.Sprint(n-1), shape, func() error {
			fv.SetMapIndex(last.k, reflect.Value{})
			removed = true
			return nil
		}, func() {
			if removed {
				fv.SetMapIndex(last.k, last.v)
			}
		})
		if n == 1 {
			ap, un := c07Setter(fv, func() (reflect.Value, error) { return reflect.Zero(f.Type), nil })
			w.add("list-under-min-nil", fsite, "0", shape, ap, un)
		}
	}
}

func (w *c07Walker) orderedFaults(fv reflect.Value, f reflect.StructField, ce *yang.Entry, fsite string) {
	p := w.p
	keysV := fv.MethodByName("Keys").Call(nil)[0]
	valsV := fv.MethodByName("Values").Call(nil)[0]
	et := valsV.Type().Elem()
	keyNames := p.ListKeyNames(et)
	ee := p.EntryFor(et)
	if ee == nil {
		ee = ce
	}
	kfs := w.keyFields(et, ee, keyNames)
	used := map[string]bool{}
	n := valsV.Len()
	for j := 0; j < n && j < keysV.Len(); j++ {
		t := c07Tuple(p, keysV.Index(j), keyNames)
		used[c07TupleString(t)] = true
		ev := valsV.Index(j)
		if ev.IsNil() {
			continue
		}
		esite := fsite + "[" + c07TupleString(t) + "]"
		w.keyLeafFaults(ev, kfs, esite, "ordered")
		w.walkStruct(ev, ee, esite, keyNames)
	}
	multi := "single"
	if len(kfs) > 1 {
		multi = "multi"
	}
	var min, max uint64
	if ce.ListAttr != nil {
		min, max = ce.ListAttr.MinElements, ce.ListAttr.MaxElements
	}
	shape := "ordered," + multi
	app, del := fv.MethodByName("Append"), fv.MethodByName("Delete")
	if max > 0 && max < 16 && uint64(n) <= max && app.IsValid() && del.IsValid() {
		if ts := w.freshTuples(et, kfs, used, int(max)+1-n); ts != nil {
			var added []reflect.Value
			w.add("list-over-max", fsite, fmt.Sprint(max+1), shape, func() error {
				for _, t := range ts {
					entry := reflect.New(et.Elem())
					if err := p.SetKeyLeaves(entry, keyNames, t); err != nil {
						return err
					}
					if out := app.Call([]reflect.Value{entry}); !out[0].IsNil() {
						return fmt.Errorf("generated Append failed: %v", out[0].Interface())
					}
					k, err := p.MapKey(del.Type().In(0), entry, keyNames, t)
					if err != nil {
						return err
					}
					added = append(added, k)
				}
				return nil
			}, func() {
				for _, k := range added {
					del.Call([]reflect.Value{k})
				}
				added = nil
			})
		}
	}
	if min > 0 && uint64(n) == min && n > 0 && app.IsValid() && del.IsValid() {
		lastK, lastV := keysV.Index(n-1), valsV.Index(n-1)
		removed := false
		w.add("list-under-min", fsite, fmt.Sprint(n-1), shape, func() error {
			del.Call([]reflect.Value{lastK})
			removed = true
			return nil
		}, func() {
			if removed {
				app.Call([]reflect.Value{lastV})
			}
		})
	}
}

// ---- choices ----------------------------------------------------------------------------------

// c07CaseChain returns, innermost last, the "<choice>/<case>" steps between container entry se and
// its descendant data node ce.
func c07CaseChain(se, ce *yang.Entry) [][2]string {
	var rev [][2]string
	for x := ce; x != nil && x != se; x = x.Parent {
		par := x.Parent
		if par == nil {
			break
		}
		if par.IsChoice() { // x is a case node or the data node of a shorthand case
			rev = append(rev, [2]string{par.Name, x.Name})
		}
	}
	out := make([][2]string, len(rev))
	for i := range rev {
		out[i] = rev[len(rev)-1-i]
	}
	return out
}

// choiceFaults: for every choice reachable from the struct's schema node (nested ones included) and
// every pair of its cases such that no third case is populated, both cases are populated (the first
// settable field of each that is still empty gets its first domain value).
func (w *c07Walker) choiceFaults(ptr reflect.Value, se *yang.Entry, site string) {
	p := w.p
	sv := ptr.Elem()
	st := sv.Type()
	type member struct {
		idx int
		ce  *yang.Entry
	}
	// choice path ("pick" or "pick/two/inner") -> case -> fields
	choices := map[string]map[string][]member{}
	for i := 0; i < st.NumField(); i++ {
		alts := core.TagPaths(st.Field(i))
		if alts == nil {
			continue
		}
		ce, _ := core.FindChild(se, alts[0][:1])
		if ce == nil {
			continue
		}
		chain := c07CaseChain(se, ce)
		pre := ""
		for _, cc := range chain {
			cp := pre + cc[0]
			if choices[cp] == nil {
				choices[cp] = map[string][]member{}
			}
			fce, _ := core.FindChild(se, alts[0])
			choices[cp][cc[1]] = append(choices[cp][cc[1]], member{i, fce})
			pre = cp + "/" + cc[1] + "/"
		}
	}
	populated := func(ms []member) bool {
		for _, m := range ms {
			fv := sv.Field(m.idx)
			switch core.KindOfField(fv.Type()) {
			case core.FLeaf, core.FLeafList:
				if p.FromGo(fv) != core.NoValue {
					return true
				}
			case core.FContainer:
				if !fv.IsNil() && p.ObserveAny(fv.Interface()).Size() > 0 {
					return true
				}
			default:
				if !fv.IsNil() && fv.Len() > 0 {
					return true
				}
			}
		}
		return false
	}
	// populate returns apply/undo that give the first settable member a value
	populate := func(ms []member) (func() error, func(), bool) {
		for _, m := range ms {
			fv := sv.Field(m.idx)
			ft := fv.Type()
			switch core.KindOfField(ft) {
			case core.FLeaf:
				dom := p.LeafDomain(ft, m.ce)
				if len(dom) == 0 {
					continue
				}
				ap, un := c07Setter(fv, func() (reflect.Value, error) { return p.ToGo(dom[0], ft, ptr) })
				return ap, un, true
			case core.FContainer:
				ct := ft.Elem()
				for j := 0; j < ct.NumField(); j++ {
					lf := ct.Field(j)
					la := core.TagPaths(lf)
					if la == nil || core.KindOfField(lf.Type) != core.FLeaf {
						continue
					}
					le, _ := core.FindChild(m.ce, la[0])
					dom := p.LeafDomain(lf.Type, le)
					if len(dom) == 0 {
						continue
					}
					j := j
					ap, un := c07Setter(fv, func() (reflect.Value, error) {
						c := reflect.New(ct)
						gv, err := p.ToGo(dom[0], lf.Type, c)
						if err != nil {
							return c, err
						}
						c.Elem().Field(j).Set(gv)
						return c, nil
					})
					return ap, un, true
				}
			}
		}
		return nil, nil, false
	}
	nestedUnder := map[string]bool{} // "<choice path>/<case>" of every case that holds a nested choice
	for cp := range choices {
		if i := strings.LastIndex(cp, "/"); i >= 0 {
			nestedUnder[cp[:i]] = true
		}
	}
	for _, cp := range core.SortedKeys(choices) {
		cases := choices[cp]
		names := core.SortedKeys(cases)
		for ai := 0; ai < len(names); ai++ {
			for bi := ai + 1; bi < len(names); bi++ {
				a, b := names[ai], names[bi]
				third := false
				for _, c := range names {
					if c != a && c != b && populated(cases[c]) {
						third = true
					}
				}
				// a nested choice: no sibling case of any enclosing case may be populated either, or the
				// mutation would break the enclosing choice as well (two faults)
				parts := strings.Split(cp, "/")
				for i := 0; i+2 < len(parts); i += 2 {
					anc, in := strings.Join(parts[:i+1], "/"), parts[i+1]
					for c, ms := range choices[anc] {
						if c != in && populated(ms) {
							third = true
						}
					}
				}
				if third {
					continue
				}
				var aps []func() error
				var uns []func()
				ok := true
				for _, c := range []string{a, b} {
					if populated(cases[c]) {
						continue
					}
					ap, un, can := populate(cases[c])
					if !can {
						ok = false
						break
					}
					aps, uns = append(aps, ap), append(uns, un)
				}
				if !ok || len(aps) == 0 {
					continue
				}
				shape := fmt.Sprintf("depth%d", strings.Count(cp, "/")/2+1)
				if nestedUnder[cp+"/"+a] || nestedUnder[cp+"/"+b] {
					shape += ",case-with-nested-choice"
				}
				w.add("choice-two-cases", site, cp+":"+a+"+"+b, shape, func() error {
					for _, ap := range aps {
						if err := ap(); err != nil {
							return err
						}
					}
					return nil
				}, func() {
					for i := len(uns) - 1; i >= 0; i-- {
						uns[i]()
					}
				})
			}
		}
	}
}

func c07Mutants(p *core.Pkg, root interface{}) []c07Mut {
	w := &c07Walker{p: p}
	rv := reflect.ValueOf(root)
	if rv.Kind() == reflect.Ptr && !rv.IsNil() {
		w.walkStruct(rv, p.RootSchema(), "", nil)
	}
	return w.muts
}

// ---- builder normalisation ----------------------------------------------------------------------

// c07Normalise makes the key leaf of every entry of a union-keyed list hold the very interface value
// that is the map key. With wrapper unions that value is a pointer: ygot's own constructors
// (New<List>, Unmarshal) store one pointer in both places, while the harness builder creates two
// equal-valued objects; Validate compares them by identity. The property speaks about values, so
// pointer identity is not judged (region counted as "normalised-wrapper-union-key").
func c07Normalise(p *core.Pkg, root interface{}) int {
	n := 0
	var walk func(ptr reflect.Value)
	walk = func(ptr reflect.Value) {
		sv := ptr.Elem()
		for i := 0; i < sv.NumField(); i++ {
			fv := sv.Field(i)
			if core.TagPaths(sv.Type().Field(i)) == nil {
				continue
			}
			switch core.KindOfField(fv.Type()) {
			case core.FContainer:
				if !fv.IsNil() {
					walk(fv)
				}
			case core.FKeyedList:
				if fv.IsNil() {
					continue
				}
				keyNames := p.ListKeyNames(fv.Type().Elem())
				for _, k := range fv.MapKeys() {
					ev := fv.MapIndex(k)
					if ev.IsNil() {
						continue
					}
					if fv.Type().Key().Kind() == reflect.Interface && len(keyNames) == 1 && k.Elem().Kind() == reflect.Ptr {
						et := ev.Elem().Type()
						for j := 0; j < et.NumField(); j++ {
							if c07IsKeyField(et.Field(j), keyNames) != "" && p.FromGo(ev.Elem().Field(j)) == p.FromGo(k) {
								ev.Elem().Field(j).Set(k)
								n++
							}
						}
					}
					walk(ev)
				}
			case core.FOrderedList:
				if fv.IsNil() {
					continue
				}
				vals := fv.MethodByName("Values").Call(nil)[0]
				for j := 0; j < vals.Len(); j++ {
					if !vals.Index(j).IsNil() {
						walk(vals.Index(j))
					}
				}
			}
		}
	}
	rv := reflect.ValueOf(root)
	if rv.Kind() == reflect.Ptr && !rv.IsNil() {
		walk(rv)
	}
	return n
}

// ---- the oracle -----------------------------------------------------------------------------------

type c07Verdict struct {
	Clause   string // "" = agreement
	Detail   string
	RefOK    bool
	Faults   []core.RefFault
	Excluded bool
	GotOK    bool
}

// c07Judge compares Validate with the reference on the tree as it is now. reps > 1 repeats the call
// to expose answers that depend on Go map iteration order.
func c07Judge(p *core.Pkg, root interface{}, reps int) c07Verdict {
	faults := p.RefValidate(root)
	v := c07Verdict{RefOK: len(faults) == 0, Faults: faults}
	for _, f := range faults {
		if f.Clause == core.RefUnjudged || f.Clause == "no-schema" {
			v.Excluded = true
			return v
		}
	}
	got := c07Validate(root)
	for i := 1; i < reps; i++ {
		if g := c07Validate(root); (g == "") != (got == "") {
			v.Clause = "unstable"
			v.Detail = fmt.Sprintf("Validate gives different answers for the same tree: %q vs %q", got, g)
			return v
		}
	}
	v.GotOK = got == ""
	switch {
	case strings.HasPrefix(got, "PANIC"):
		v.Clause = "validate-panic"
		v.Detail = got
	case v.RefOK && got != "":
		v.Clause = "rejects-valid"
		v.Detail = "reference accepts the tree, Validate returned: " + got
	case !v.RefOK && got == "":
		v.Clause = "accepts-invalid[" + strings.Join(core.RefClauses(faults), ",") + "]"
		v.Detail = fmt.Sprintf("Validate returned nil, reference rejects: %v", faults)
	}
	return v
}

var c07KeyRe = regexp.MustCompile(`\[[A-Za-z0-9_.-]+="(?:[^"\\]|\\.)*"\]`)

// c07StripKeys removes the key predicates from a reference fault path (/a/l[k="str:x"]/v -> /a/l/v).
func c07StripKeys(path string) string { return c07KeyRe.ReplaceAllString(path, "") }

// c07StateSig: oracle clause + the sorted shapes of the (minimal) atoms of an unmutated state.
func c07StateSig(clause string, atoms []*core.Atom) string {
	var sh []string
	for _, a := range atoms {
		sh = append(sh, shapeName(a))
	}
	sort.Strings(sh)
	return clause + ":" + strings.Join(sh, "+")
}

func c07Reps(p *core.Pkg) int {
	if p.SchemaName == "vval" { // nested choices: validateChoice / IsCaseSelected range over schema.Dir
		return 3
	}
	return 1
}

// c07Check evaluates one replayable case from scratch.
func c07Check(p *core.Pkg, atoms []*core.Atom, fid *c07FaultID) (string, string, string) {
	t, err := p.Build(atoms)
	if err != nil {
		return "", "", ""
	}
	c07Normalise(p, t)
	shape := ""
	if fid != nil {
		var m *c07Mut
		muts := c07Mutants(p, t)
		for i := range muts {
			if muts[i].ID == *fid {
				m = &muts[i]
				break
			}
		}
		if m == nil {
			return "", "", ""
		}
		if err := m.apply(); err != nil {
			return "", "", ""
		}
		shape = m.Shape
	}
	v := c07Judge(p, t, 3)
	if v.Excluded {
		return "", "", ""
	}
	return v.Clause, v.Detail, shape
}

func c07Pkgs(c *core.Ctx) []*core.Pkg {
	var out []*core.Pkg
	if c.Thorough() {
		out = append(out, core.PackagesWithRev()...)
	} else {
		// vtrs: second revision of vt (typedef mixed restricted differently, enums numbered differently) validated in
		// the same process as vtus: anything remembered per type NAME goes wrong for one of the two
		for _, n := range []string{"vtus", "vtuw", "vocus", "voccs", "vtrs"} {
			if p := core.AnyPkgByName(n); p != nil {
				out = append(out, p)
			}
		}
	}
	return append(out, core.AuxPackages("vval")...)
}

func runC07(c *core.Ctx) {
	c.Level = "model_checking"
	k := kFor(c, 2, 3)
	c.Rule = fmt.Sprintf("explicit-state BFS over atom sequences up to k=%d populated nodes on fresh real GoStructs (quick: vtus vtuw vocus voccs + validation corpus vvalus vvaluw; thorough: all 8 corpus packages + vval; in the thorough tier 3-atom states of alphabets with >= 100 atoms are validated as built but not mutated), deduplicated by observed Model; every state is validated with the generated root Validate(LeafrefOptions{IgnoreMissingData}); for every state the reference accepts, every single-fault mutation is applied to the real object by reflection, validated and undone: each set leaf / leaf-list element replaced by each out-of-space value of its type (range edge -+1, too long / too short / pattern-violating string, too long / too short binary, undefined enum / identity integer, union value fitting no member), each key leaf of each list entry changed / set to nil, the map key changed per key component (or nil for union keys), a duplicate value in each leaf-list, leaf-list and list one above max-elements and one below min-elements, two cases of each choice populated. Oracle: Validate()==nil <=> core.RefValidate accepts. Non-trivial = non-empty state or mutated tree", k)
	c.R.Assume("builder, observer and refvalidate (core/refvalidate.go: math/big range arithmetic, refregex, Model consistency facts) are correct; key leaf and map key of wrapper-union keyed entries are made the same pointer before validation, as ygot's own constructors do (pointer identity is not judged)")
	if len(core.AuxPackages("vval")) == 0 {
		c.R.Violation("harness:vval-corpus-missing", "the auxiliary packages vvalus / vvaluw (schemas/vval.yang) are not registered; min/max-elements on lists would be unexplored", nil)
	}
	var minimised, sampled sync.Map
	pkgs := c07Pkgs(c)
	var shapesMu sync.Mutex
	shapes, multi := map[string]int64{}, map[string]int64{}
	for _, p := range pkgs {
		p := p
		kk := k
		reps := c07Reps(p)
		report := func(atoms []*core.Atom, fid *c07FaultID, shape string, v c07Verdict) {
			check := func(a []*core.Atom) (string, string) {
				cl, d, _ := c07Check(p, a, fid)
				if cl == "" {
					return "", ""
				}
				return cl + ":", d
			}
			if fid == nil && len(v.Faults) > 1 {
				// several faults at once (vval states that are invalid by construction): outside the
				// quantifier "single-fault mutations", still judged, one signature per set of clauses
				c.R.Violation(v.Clause+":multi-fault-state", v.Detail, c07Case{Pkg: p.Name, Atoms: atomNames(atoms)})
				return
			}
			if fid == nil && len(v.Faults) == 1 {
				// unmutated state with exactly one fault: the signature names the schema node of the fault
				sig := v.Clause + ":state@" + c07StripKeys(v.Faults[0].Path)
				min := atoms
				if _, done := minimised.LoadOrStore(sig, true); !done {
					if m, msig, _ := minimise(atoms, check); clauseOf(msig) == v.Clause {
						min = m
					}
				}
				c.R.Violation(sig, v.Detail, c07Case{Pkg: p.Name, Atoms: atomNames(min)})
				return
			}
			if fid == nil {
				// rejects-valid / panic / unstable on an unmutated state: the signature names the shape of the minimal atoms
				min, msig, mdetail := minimise(atoms, check)
				cl := clauseOf(msig)
				if cl == "unstable" && v.Clause != "unstable" {
					cl, mdetail = v.Clause, v.Detail+" ["+mdetail+"]"
				}
				c.R.Violation(c07StateSig(cl, min), mdetail, c07Case{Pkg: p.Name, Atoms: atomNames(min)})
				return
			}
			sig := v.Clause + ":" + shape
			d := fmt.Sprintf("mutation %s at %s %s: %s", fid.Kind, fid.Site, fid.Arg, v.Detail)
			if _, done := minimised.LoadOrStore(sig, true); done {
				c.R.Violation(sig, d, c07Case{Pkg: p.Name, Atoms: atomNames(atoms), Fault: fid})
				return
			}
			// first occurrence of the signature: shrink the base state for the replay file
			min, msig, _ := minimise(atoms, check)
			if clauseOf(msig) != v.Clause {
				min = atoms
			}
			c.R.Violation(sig, d, c07Case{Pkg: p.Name, Atoms: atomNames(min), Fault: fid})
		}
		exploreAll(c, []*core.Pkg{p}, kk, nil, func(sp *core.Space, st core.State) {
			atoms := sp.SeqAtoms(st)
			t, err := p.Build(atoms)
			if err != nil {
				return
			}
			if n := c07Normalise(p, t); n > 0 {
				c.R.Add("normalised-wrapper-union-key", int64(n))
				// the region that is not judged, made visible: the same state as the builder makes it
				// (map key and key leaf are two equal-valued wrapper objects)
				if t2, err := p.Build(atoms); err == nil {
					if c07Validate(t2) == "" {
						c.R.Outcome("excluded-wrapper-union-key-two-pointers:accepted")
					} else {
						c.R.Outcome("excluded-wrapper-union-key-two-pointers:rejected")
					}
				}
			}
			c.R.Add("evaluations", 1)
			base := c07Judge(p, t, reps)
			if base.Excluded {
				c.R.Outcome("excluded-unjudged-state")
				return
			}
			if len(st.Seq) > 0 {
				c.R.NonTrivial(p.Name + string(st.Key[:]))
			}
			if base.Clause != "" {
				c.R.Outcome("VIOLATION-" + clauseOf(base.Clause+":"))
				report(atoms, nil, "", base)
			} else if base.RefOK {
				c.R.Outcome("state-valid-accepted")
			} else {
				c.R.Outcome("state-invalid-rejected")
			}
			if !base.RefOK {
				// not schema-valid by construction (vval: element counts below min-elements, atom values the
				// restricted union does not admit): judged above, not mutated
				if p.SchemaName != "vval" {
					c.R.Violation(c07StateSig("harness:constructed-state-invalid", atoms), fmt.Sprintf("reference rejects a state of the main corpus: %v", base.Faults), c07Case{Pkg: p.Name, Atoms: atomNames(atoms)})
				}
				return
			}
			if len(st.Seq) > 2 && len(sp.Atoms) >= 100 {
				// thorough tier, 3-atom states of the large alphabets: validated as built, not mutated
				c.R.Outcome("state-k3-not-mutated")
				return
			}
			key0 := p.Observe(t).StateKey()
			muts := c07Mutants(p, t)
			for i := range muts {
				m := &muts[i]
				if err := m.apply(); err != nil {
					m.undo()
					c.R.Outcome("mutant-not-buildable")
					continue
				}
				c.R.Add("evaluations", 1)
				c.R.Add("mutants", 1)
				v := c07Judge(p, t, reps)
				m.undo()
				if v.Excluded {
					c.R.Outcome("excluded-unjudged-mutant")
					continue
				}
				c.R.NonTrivial(p.Name + string(st.Key[:]) + m.ID.Kind + m.ID.Site + m.ID.Arg)
				if _, dup := sampled.LoadOrStore(m.ID.Kind, true); !dup && (m.ID.Kind == "key-leaf-nil" || m.ID.Kind == "leaf-value" || m.ID.Kind == "ll-dup") {
					c.R.Sample(map[string]interface{}{"pkg": p.Name, "atoms": atomNames(atoms), "mutation": m.ID, "reference_faults": fmt.Sprint(v.Faults), "validate_returned_nil": v.GotOK})
				}
				shapesMu.Lock()
				shapes[m.Shape]++
				shapesMu.Unlock()
				switch {
				case v.RefOK:
					c.R.Add("mutants_valid", 1) // duplicates in a config false leaf-list: must be accepted
				case len(v.Faults) == 1:
					c.R.Add("mutants_single_fault", 1)
				default:
					c.R.Add("mutants_multi_fault", 1)
					shapesMu.Lock()
					multi[m.Shape+" -> "+strings.Join(core.RefClauses(v.Faults), ",")]++
					shapesMu.Unlock()
				}
				if v.Clause != "" {
					c.R.Outcome("VIOLATION-" + clauseOf(v.Clause+":"))
					id := m.ID
					report(atoms, &id, m.Shape, v)
				} else if v.RefOK {
					c.R.Outcome("mutant-valid-accepted")
				} else {
					c.R.Outcome("mutant-invalid-rejected")
				}
			}
			if p.Observe(t).StateKey() != key0 {
				c.R.Violation("harness:undo-incomplete", "tree differs from the base state after all mutations were undone", c07Case{Pkg: p.Name, Atoms: atomNames(atoms)})
			}
		})
	}
	c.R.Note("mutation_shapes", shapes)
	c.R.Note("multi_fault_mutants", multi)
	kinds := map[string]int64{}
	for s, n := range shapes {
		kinds[s[:strings.Index(s, "(")]] += n
	}
	c.R.Note("mutation_kinds", kinds)
}

func replayC07(c *core.Ctx, raw []byte) (bool, string) {
	var cs c07Case
	if err := json.Unmarshal(raw, &cs); err != nil {
		return false, err.Error()
	}
	p := core.AnyPkgByName(cs.Pkg)
	if p == nil {
		return false, "unknown package"
	}
	atoms, ok := p.AtomsByName(cs.Atoms)
	if !ok {
		return false, "unknown atoms"
	}
	cl, d, _ := c07Check(p, atoms, cs.Fault)
	return cl != "", cl + ": " + d
}
