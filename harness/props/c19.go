package props

// C19 - RFC7951 output uses the RFC 7951 / RFC 7950 encodings.
//
// Every explored state x every RFC7951JSONConfig setting x {Marshal7951, ConstructIETFJSON,
// EmitJSON(RFC7951)}: the produced document must equal the document of the independent renderer
// core.RefJSON (Model + goyang schema facts) structurally and lexically. Plus a value sweep for
// decimal64 / int64 / uint64 through one-leaf trees.

import (
	"encoding/json"
	"fmt"
	"math/big"
	"strings"

	"github.com/openconfig/ygot/ygot"
	"github.com/openconfig/ygot/zzverif/core"
)

func init() { core.RegisterProp(&core.Prop{ID: "C19", Run: runC19, Replay: replayC19}) }

var (
	c19Opts = []string{"nil", "append", "idref", "rewrite", "rewrite2"}
	c19APIs = []string{"marshal", "construct", "emit"}
)

// c19Rewrite is the RewriteModuleNames map of a setting for a corpus schema.
func c19Rewrite(opt, schema string) map[string]string {
	switch opt + "/" + schema {
	case "rewrite/vt":
		return map[string]string{"vt-aug": "vt"} // the augmenting module is taken as the augmented one
	case "rewrite2/vt":
		return map[string]string{"vt": "vt-aug"} // the other way round: the whole tree moves into vt-aug
	case "rewrite/voc":
		return map[string]string{"voc": "vocx"}
	case "rewrite2/voc":
		return map[string]string{"vocy": "voc"} // a rule that matches no module of the schema
	}
	return nil
}

func c19Config(opt, schema string) *ygot.RFC7951JSONConfig {
	switch opt {
	case "append":
		return &ygot.RFC7951JSONConfig{AppendModuleName: true}
	case "idref":
		return &ygot.RFC7951JSONConfig{PrependModuleNameIdentityref: true}
	case "rewrite", "rewrite2":
		return &ygot.RFC7951JSONConfig{AppendModuleName: true, RewriteModuleNames: c19Rewrite(opt, schema)}
	}
	return nil
}

// c19RefOpts returns the reference naming rules of a setting; more than one alternative where the
// documentation does not decide (does RewriteModuleNames apply to the module of identity values?).
func c19RefOpts(opt, schema string) []core.RefJSONOpts {
	switch opt {
	case "append":
		return []core.RefJSONOpts{{ModulePrefixes: true, IdentityPrefixes: true}}
	case "idref":
		return []core.RefJSONOpts{{IdentityPrefixes: true}}
	case "rewrite", "rewrite2":
		rw := map[string]string{}
		for k, v := range c19Rewrite(opt, schema) {
			if v != "" {
				rw[k] = v
			}
		}
		return []core.RefJSONOpts{
			{ModulePrefixes: true, IdentityPrefixes: true, Rewrite: rw},
			{ModulePrefixes: true, IdentityPrefixes: true, Rewrite: rw, RewriteIdentities: true},
		}
	}
	return []core.RefJSONOpts{{}}
}

func c19Render(t ygot.GoStruct, api, opt, schema string) (out []byte, err error) {
	defer recoverTo(&err)
	cfg := c19Config(opt, schema)
	switch api {
	case "construct":
		m, e := ygot.ConstructIETFJSON(t, cfg)
		if e != nil {
			return nil, e
		}
		return json.Marshal(m)
	case "emit":
		s, e := ygot.EmitJSON(t, &ygot.EmitJSONConfig{Format: ygot.RFC7951, SkipValidation: true, RFC7951Config: cfg})
		return []byte(s), e
	}
	if cfg == nil {
		return ygot.Marshal7951(t)
	}
	return ygot.Marshal7951(t, cfg)
}

// c19Prune removes "[]" members (ygot's rendering of an empty but non-nil leaf-list / map, a
// representation state that holds no data; known from C01) and the objects that became empty by it,
// unless the reference has such a member. Returns the number of removed arrays.
func c19Prune(got interface{}, want interface{}) int {
	n := 0
	switch g := got.(type) {
	case map[string]interface{}:
		w, _ := want.(map[string]interface{})
		for k, v := range g {
			if a, ok := v.([]interface{}); ok && len(a) == 0 {
				if _, has := w[k]; !has {
					delete(g, k)
					n++
				}
				continue
			}
			r := c19Prune(v, w[k])
			n += r
			if o, ok := v.(map[string]interface{}); ok && r > 0 && len(o) == 0 {
				if _, has := w[k]; !has {
					delete(g, k)
				}
			}
		}
	case []interface{}:
		var wl []interface{}
		if l, ok := want.(core.RefList); ok && len(l.Entries) == len(g) {
			wl = l.Entries // same position only when the orders agree; otherwise pruned without reference
		}
		for i, v := range g {
			var w interface{}
			if wl != nil {
				w = wl[i]
			}
			n += c19Prune(v, w)
		}
	}
	return n
}

type c19Result struct {
	sig, detail string
	nonEmpty    bool
	outcomes    []string
}

var c19VerifDir = "/verif"

func c19Schema(p *core.Pkg) (*core.RefSchema, error) {
	return core.RefSchemaFor(c19VerifDir, p.SchemaName)
}

// c19Check renders one tree under one setting through the three entry points and compares each
// document with the reference.
func c19Check(p *core.Pkg, atoms []*core.Atom, opt string) c19Result {
	return c19CheckAPIs(p, atoms, opt, c19APIs)
}

func c19CheckAPIs(p *core.Pkg, atoms []*core.Atom, opt string, apis []string) c19Result {
	var res c19Result
	t, err := p.Build(atoms)
	if err != nil {
		return res
	}
	m := p.Observe(t)
	rs, err := c19Schema(p)
	if err != nil {
		res.sig, res.detail = "reference-error:", err.Error()
		return res
	}
	var refs []map[string]interface{}
	for _, ro := range c19RefOpts(opt, p.BaseSchema()) {
		d, err := rs.RefJSON(m, ro)
		if err != nil {
			res.sig, res.detail = "reference-error:", err.Error()
			return res
		}
		refs = append(refs, d)
	}
	res.nonEmpty = len(refs[0]) > 0
	ambiguous := false
	if len(refs) == 2 {
		a, _ := json.Marshal(refs[0])
		b, _ := json.Marshal(refs[1])
		ambiguous = string(a) != string(b)
		if !ambiguous {
			refs = refs[:1]
		}
	}
	for _, api := range apis {
		j, err := c19Render(t.(ygot.GoStruct), api, opt, p.BaseSchema())
		if err != nil {
			res.sig, res.detail = "render-error:", fmt.Sprintf("%s/%s failed: %v", api, opt, err)
			return res
		}
		var first *core.RefDiff
		matched := -1
		for i, ref := range refs {
			got, err := core.ParseJSONDoc(j)
			if err != nil {
				res.sig, res.detail = "not-json:", fmt.Sprintf("%s/%s output is not JSON: %v: %s", api, opt, err, j)
				return res
			}
			if len(m.Extra) > 0 {
				if n := c19Prune(got, ref); n > 0 && i == 0 {
					res.outcomes = append(res.outcomes, "excluded-empty-array-for-empty-nonnil-list")
				}
			}
			d, lenient := core.RefJSONCompare(ref, got)
			if d == nil {
				matched = i
				if lenient > 0 {
					res.outcomes = append(res.outcomes, "equal-noncanonical-but-legal-numeral")
				}
				break
			}
			if first == nil {
				first = d
			}
		}
		if matched < 0 {
			want, _ := json.Marshal(refs[0])
			res.sig = first.Clause + ":"
			res.detail = fmt.Sprintf("%s [api=%s opt=%s] got %s want %s", first, api, opt, j, want)
			return res
		}
		if ambiguous {
			// the documentation of RewriteModuleNames speaks of nodes only: either reading is accepted
			res.outcomes = append(res.outcomes, []string{"identity-module-under-rewrite:not-rewritten", "identity-module-under-rewrite:rewritten"}[matched])
		}
	}
	res.outcomes = append(res.outcomes, "equal-"+opt)
	return res
}

func c19CheckSD(p *core.Pkg, atoms []*core.Atom, opt string) (string, string) {
	r := c19Check(p, atoms, opt)
	return r.sig, r.detail
}

// ---- value sweep ------------------------------------------------------------------------------

// c19Target is one place a 64-bit / decimal value can be put: a leaf, a leaf-list (one element),
// a union leaf, or a list key.
type c19Target struct {
	base *core.Atom
	key  int    // index into the last step's key tuple for entry atoms, else -1
	kind string // dec | i64 | u64
	fd   int    // fraction-digits for dec
}

func c19Subst(tg c19Target, v core.Value) *core.Atom {
	b := *tg.base
	switch tg.base.Kind {
	case "leaf":
		b.Val = v
	case "leaflist":
		b.Val = core.LL(v)
	case "entry":
		st := append([]core.Step(nil), tg.base.Steps...)
		last := st[len(st)-1]
		last.Key = append([]core.Value(nil), last.Key...)
		last.Key[tg.key] = v
		st[len(st)-1] = last
		b.Steps = st
	}
	b.Name = "sweep"
	return &b
}

// c19Targets scans the alphabet of p for the distinct fields / list keys of 64-bit and decimal type
// (including union members), using the reference schema for the type facts.
func c19Targets(p *core.Pkg, rs *core.RefSchema) []c19Target {
	var out []c19Target
	seen := map[string]bool{}
	kindsOf := func(t *core.RefType) (kinds []string, fd int) {
		ts := []*core.RefType{t}
		if t.Kind == "union" {
			ts = t.Members
		}
		for _, x := range ts {
			switch x.Kind {
			case "decimal64":
				kinds, fd = append(kinds, "dec"), x.FracDigits
			case "int64":
				kinds = append(kinds, "i64")
			case "uint64":
				kinds = append(kinds, "u64")
			}
		}
		return
	}
	for _, a := range p.Atoms() {
		if a.Nested && a.Kind != "entry" {
			// leaves below list entries need their entry first: covered by the tree exploration
			continue
		}
		switch a.Kind {
		case "leaf", "leaflist":
			n := rs.FindPath(a.Path)
			if n == nil || n.Type == nil {
				continue
			}
			ks, fd := kindsOf(n.Type)
			for _, k := range ks {
				id := fmt.Sprintf("%s|%s", shapeNoVal(a), k)
				if !seen[id] {
					seen[id] = true
					out = append(out, c19Target{base: a, key: -1, kind: k, fd: fd})
				}
			}
		case "entry":
			if len(a.Steps) != 1 && !(len(a.Steps) == 2 && a.Steps[0].Key == nil) {
				continue
			}
			ln := rs.FindPath(a.Path)
			if ln == nil || ln.Kind != "list" {
				continue
			}
			for ki, kn := range ln.Keys {
				kl := ln.Children[kn]
				if kl == nil || kl.Type == nil {
					continue
				}
				ks, fd := kindsOf(kl.Type)
				for _, k := range ks {
					id := fmt.Sprintf("%s|%d|%s", a.Steps[len(a.Steps)-1].Field, ki, k)
					if !seen[id] {
						seen[id] = true
						out = append(out, c19Target{base: a, key: ki, kind: k, fd: fd})
					}
				}
			}
		}
	}
	return out
}

func shapeNoVal(a *core.Atom) string {
	s := ""
	for _, st := range a.Steps {
		s += "/" + st.Field
	}
	return s
}

// c19DecText writes sign * mant * 10^exp as a plain decimal numeral (no exponent, no superfluous
// zeros), by digit-string arithmetic.
func c19DecText(neg bool, mant string, exp int) string {
	mant = strings.TrimLeft(mant, "0")
	if mant == "" {
		return "0"
	}
	for strings.HasSuffix(mant, "0") {
		mant, exp = mant[:len(mant)-1], exp+1
	}
	var s string
	switch {
	case exp >= 0:
		s = mant + strings.Repeat("0", exp)
	case -exp < len(mant):
		s = mant[:len(mant)+exp] + "." + mant[len(mant)+exp:]
	default:
		s = "0." + strings.Repeat("0", -exp-len(mant)) + mant
	}
	if neg {
		s = "-" + s
	}
	return s
}

// c19DecSweep: +-d*10^e for d in {1, 1.5, 123456789}, e in -18..18, inside decimal64(fd).
func c19DecSweep(fd int) []core.Value {
	var out []core.Value
	lim := new(big.Int).SetUint64(1<<63 - 1)
	for _, d := range []struct {
		mant string
		exp  int
	}{{"1", 0}, {"15", -1}, {"123456789", 0}} {
		for e := -18; e <= 18; e++ {
			x := d.exp + e // value = mant * 10^x
			if -x > fd {
				continue // needs more fraction digits than the leaf has
			}
			scaled, _ := new(big.Int).SetString(d.mant, 10)
			scaled.Mul(scaled, new(big.Int).Exp(big.NewInt(10), big.NewInt(int64(x+fd)), nil))
			if scaled.Cmp(lim) > 0 {
				continue // outside the decimal64 value space for fd
			}
			for _, neg := range []bool{false, true} {
				out = append(out, core.Value("dec:"+c19DecText(neg, d.mant, x)))
			}
		}
	}
	return out
}

var c19I64Sweep = []string{"-9223372036854775808", "-9223372036854775807", "-1000000000000000000", "-9007199254740993", "-1", "0", "1",
	"9007199254740992", "9007199254740993", "999999999999999999", "1000000000000000000", "9223372036854775806", "9223372036854775807"}
var c19U64Sweep = []string{"0", "1", "9007199254740993", "999999999999999999", "9223372036854775807", "9223372036854775808", "10000000000000000000",
	"18446744073709551614", "18446744073709551615"}

func c19SweepValues(tg c19Target) []core.Value {
	var out []core.Value
	switch tg.kind {
	case "dec":
		return c19DecSweep(tg.fd)
	case "i64":
		for _, s := range c19I64Sweep {
			out = append(out, core.Value("i64:"+s))
		}
	case "u64":
		for _, s := range c19U64Sweep {
			out = append(out, core.Value("u64:"+s))
		}
	}
	return out
}

// c19SweepCheck renders the one-node tree; ok=false when the Go representation cannot hold the
// value exactly (the observer then sees another value), which is counted, not judged.
func c19SweepCheck(p *core.Pkg, tg c19Target, v core.Value, opt string) (r c19Result, exact bool) {
	a := c19Subst(tg, v)
	t, err := p.Build([]*core.Atom{a})
	if err != nil {
		return c19Result{sig: "sweep-build-error:", detail: err.Error()}, true
	}
	m := p.Observe(t)
	found := false
	for _, lv := range m.Leaves {
		if lv == v || (lv.IsLL() && len(lv.Elems()) == 1 && lv.Elems()[0] == v) {
			found = true
		}
	}
	if !found {
		return c19Result{}, false
	}
	return c19Check(p, []*core.Atom{a}, opt), true
}

type c19SweepCase struct {
	Pkg  string `json:"pkg"`
	Base string `json:"base"`
	Key  int    `json:"key"`
	Kind string `json:"kind"`
	Fd   int    `json:"fd"`
	Val  string `json:"val"`
	Opt  string `json:"opt"`
}

func runC19(c *core.Ctx) {
	c.Level = "model_checking"
	c19VerifDir = c.VerifDir
	k := kFor(c, 2, 3)
	c.Rule = fmt.Sprintf("explicit-state BFS over atom sequences (every leaf type/value, leaf-list, list entry incl. ordered-by-user and unkeyed lists, presence container, augmented nodes, identities of another module) up to k=%d populated nodes on all 8 corpus packages (uncompressed / compressed paths, simple / wrapper unions); every state x 5 RFC7951JSONConfig settings (nil, AppendModuleName, PrependModuleNameIdentityref, 2 x AppendModuleName+RewriteModuleNames) x 3 entry points (Marshal7951, ConstructIETFJSON, EmitJSON RFC7951) is compared with the document of the independent renderer refjson (Model + goyang schema facts) (thorough: states of the third level x {AppendModuleName, and for vt AppendModuleName+RewriteModuleNames} x Marshal7951 only); plus a value sweep through one-node trees: decimal64 +-d*10^e (d in 1, 1.5, 123456789; e in -18..18, inside the leaf's fraction-digits) and 13 int64 / 9 uint64 boundary values for every leaf, leaf-list, union member and list key of those types; non-trivial = state whose document is not {}", k)
	c.R.Assume("builder and observer are correct; goyang's parser is the source of schema facts (node module = Entry.Namespace, identity module = root node of the identity statement)")
	c.R.Assume("a decimal64 / int64 / uint64 string may use any spelling of RFC 7950 9.2.1 / 9.3.1 (lexical form, as the statement says), not only the canonical one")
	c.R.Note("not_judged", []string{
		"'[]' emitted for an empty but non-nil leaf-list / list map (no data; C01 known finding): removed before comparison, counted as excluded-empty-array-for-empty-nonnil-list",
		"module name of identityref values when RewriteModuleNames has a rule for the identity's module: both readings accepted, counted",
		"PreferShadowPath (renders other paths than the Model holds; not part of the statement)",
	})
	for _, p := range core.PackagesWithRev() {
		if _, err := c19Schema(p); err != nil {
			c.R.Violation("reference-error:schema", err.Error(), nil)
			return
		}
	}
	exploreAll(c, core.PackagesWithRev(), k, nil, func(sp *core.Space, st core.State) {
		atoms := sp.SeqAtoms(st)
		opts, apis := c19Opts, c19APIs
		if len(st.Seq) == 3 {
			// thorough, third level: the two settings that exercise every naming rule, one entry point
			// (the three entry points share structJSON; they are all compared on levels 0-2)
			opts, apis = []string{"append"}, []string{"marshal"}
			if sp.P.BaseSchema() == "vt" {
				opts = []string{"append", "rewrite"} // voc has a single module: its rewrite setting only renames it
			}
		}
		nonEmpty := false
		for _, opt := range opts {
			c.R.Add("evaluations", 1)
			r := c19CheckAPIs(sp.P, atoms, opt, apis)
			nonEmpty = nonEmpty || r.nonEmpty
			for _, o := range r.outcomes {
				c.R.Outcome(o)
			}
			if r.sig != "" {
				min, msig, mdetail := minimise(atoms, func(a []*core.Atom) (string, string) { return c19CheckSD(sp.P, a, opt) })
				c.R.Violation(sigFor(clauseOf(msig), min), mdetail+" [first seen: "+r.detail+"]", treeCase{Pkg: sp.P.Name, Atoms: atomNames(min), Opt: opt})
				c.R.Outcome("violation")
			}
		}
		if nonEmpty {
			c.R.NonTrivial(sp.P.Name + string(st.Key[:]))
		}
	})
	// value sweep
	type job struct {
		p  *core.Pkg
		tg c19Target
		v  core.Value
	}
	var jobs []job
	nt := map[string]int{}
	for _, p := range core.PackagesWithRev() {
		rs, _ := c19Schema(p)
		for _, tg := range c19Targets(p, rs) {
			nt[p.Name+"/"+tg.kind]++
			for _, v := range c19SweepValues(tg) {
				jobs = append(jobs, job{p, tg, v})
			}
		}
	}
	c.R.Note("sweep_targets", nt)
	results := make([][]c19Result, len(jobs))
	exact := make([]bool, len(jobs))
	sweepOpts := []string{"nil", "append"}
	core.ParallelFor(len(jobs), func(i int) {
		j := jobs[i]
		for _, opt := range sweepOpts {
			r, ok := c19SweepCheck(j.p, j.tg, j.v, opt)
			exact[i] = ok
			results[i] = append(results[i], r)
		}
	})
	for i, j := range jobs {
		if !exact[i] {
			c.R.Outcome("sweep-excluded-not-exact-in-go-type")
			continue
		}
		for oi, r := range results[i] {
			c.R.Add("evaluations", 1)
			c.R.Add("sweep_evaluations", 1)
			c.R.NonTrivial("sweep" + j.p.Name + shapeName(j.tg.base) + fmt.Sprint(j.tg.key) + string(j.v))
			if r.sig != "" {
				a := c19Subst(j.tg, j.v)
				c.R.Violation(sigFor(clauseOf(r.sig), []*core.Atom{a}), r.detail, c19SweepCase{Pkg: j.p.Name, Base: j.tg.base.Name, Key: j.tg.key, Kind: j.tg.kind, Fd: j.tg.fd, Val: string(j.v), Opt: sweepOpts[oi]})
				c.R.Outcome("sweep-violation-" + j.tg.kind)
			} else {
				c.R.Outcome("sweep-equal-" + j.tg.kind)
			}
		}
	}
	if len(jobs) > 0 {
		j := jobs[len(jobs)/2]
		c.R.Sample(map[string]interface{}{"sweep": true, "pkg": j.p.Name, "base": j.tg.base.Name, "value": string(j.v)})
	}
}

func replayC19(c *core.Ctx, raw []byte) (bool, string) {
	c19VerifDir = c.VerifDir
	var sc c19SweepCase
	if err := json.Unmarshal(raw, &sc); err == nil && sc.Base != "" {
		p := core.AnyPkgByName(sc.Pkg)
		if p == nil {
			return false, "unknown package"
		}
		base, ok := p.AtomsByName([]string{sc.Base})
		if !ok {
			return false, "unknown atoms"
		}
		r, exact := c19SweepCheck(p, c19Target{base: base[0], key: sc.Key, kind: sc.Kind, fd: sc.Fd}, core.Value(sc.Val), sc.Opt)
		if !exact {
			return false, "value not exact in the Go type"
		}
		return r.sig != "", r.sig + " " + r.detail
	}
	var tc treeCase
	if err := json.Unmarshal(raw, &tc); err != nil {
		return false, err.Error()
	}
	p := core.AnyPkgByName(tc.Pkg)
	if p == nil {
		return false, "unknown package"
	}
	atoms, ok := p.AtomsByName(tc.Atoms)
	if !ok {
		return false, "unknown atoms"
	}
	r := c19Check(p, atoms, tc.Opt)
	return r.sig != "", r.sig + " " + r.detail
}
