package props

import (
	"encoding/json"
	"fmt"
	"sort"
	"strings"

	gpb "github.com/openconfig/gnmi/proto/gnmi"
	"github.com/openconfig/ygot/util"
	"github.com/openconfig/ygot/zzverif/core"
)

// Query elements whose NAME is the wildcard and that carry keys ("*[k1=v1]"): the spaces of c09.go
// have the element "*" without keys only. Separate small sweep for util.PathMatchesQuery:
//
//	paths   : every sequence of <= 2 concrete elements out of y, x[k1,k2 in {v1,v2}], z[k1=v1,k2=v1], x[k1=v1] (a key missing)
//	queries : every sequence of <= 2 elements with name in {*, x, y} and each of k1,k2 absent, "*", v1 or v2
//
// Oracle (the documented semantics, evaluated directly): the query matches iff it is no longer than
// the path and, position by position, the names are equal or the query's is "*", and every key the
// query gives is present in the path element with that value (or the query gives "*").

type c09SKElem struct {
	Name string            `json:"name"`
	Keys map[string]string `json:"keys,omitempty"`
}

type c09SKCase struct {
	Fn    string      `json:"fn"` // "starquery"
	Path  []c09SKElem `json:"path"`
	Query []c09SKElem `json:"query"`
}

func (e c09SKElem) String() string {
	var ks []string
	for k := range e.Keys {
		ks = append(ks, k)
	}
	sort.Strings(ks)
	s := e.Name
	for _, k := range ks {
		s += "[" + k + "=" + e.Keys[k] + "]"
	}
	return s
}

func c09SKShape(es []c09SKElem) string {
	var parts []string
	for _, e := range es {
		s := e.Name
		if e.Name != "*" {
			s = "n"
		}
		var ks []string
		for k := range e.Keys {
			ks = append(ks, k)
		}
		sort.Strings(ks)
		for _, k := range ks {
			if e.Keys[k] == "*" {
				s += "[*]"
			} else {
				s += "[v]"
			}
		}
		parts = append(parts, s)
	}
	return strings.Join(parts, "/")
}

func c09SKProto(es []c09SKElem) *gpb.Path {
	p := &gpb.Path{}
	for _, e := range es {
		pe := &gpb.PathElem{Name: e.Name}
		if len(e.Keys) > 0 {
			pe.Key = map[string]string{}
			for k, v := range e.Keys {
				pe.Key[k] = v
			}
		}
		p.Elem = append(p.Elem, pe)
	}
	return p
}

func c09SKWant(path, query []c09SKElem) bool {
	if len(query) > len(path) {
		return false
	}
	for i, q := range query {
		pe := path[i]
		if q.Name != "*" && q.Name != pe.Name {
			return false
		}
		for k, v := range q.Keys {
			pv, ok := pe.Keys[k]
			if !ok || (v != "*" && v != pv) {
				return false
			}
		}
	}
	return true
}

func c09SKSeqs(elems []c09SKElem, maxLen int) [][]c09SKElem {
	out := [][]c09SKElem{{}}
	level := [][]c09SKElem{{}}
	for l := 1; l <= maxLen; l++ {
		var nxt [][]c09SKElem
		for _, p := range level {
			for _, e := range elems {
				nxt = append(nxt, append(append([]c09SKElem{}, p...), e))
			}
		}
		out = append(out, nxt...)
		level = nxt
	}
	return out
}

func c09SKCheck(path, query []c09SKElem) (string, string) {
	want := c09SKWant(path, query)
	var got bool
	if p := c09Safe(func() { got = util.PathMatchesQuery(c09SKProto(path), c09SKProto(query)) }); p != "" {
		return "query-panic:" + c09SKShape(query), p
	}
	if got != want {
		return fmt.Sprintf("query-wrong:want=%v,got=%v:%s", want, got, c09SKShape(query)), fmt.Sprintf("PathMatchesQuery(path=%v, query=%v) = %v, want %v", path, query, got, want)
	}
	return "", ""
}

func runC09StarKeys(c *core.Ctx) {
	var pathElems, queryElems []c09SKElem
	pathElems = append(pathElems, c09SKElem{Name: "y"}, c09SKElem{Name: "x", Keys: map[string]string{"k1": "v1"}}, c09SKElem{Name: "z", Keys: map[string]string{"k1": "v1", "k2": "v1"}})
	for _, a := range []string{"v1", "v2"} {
		for _, b := range []string{"v1", "v2"} {
			pathElems = append(pathElems, c09SKElem{Name: "x", Keys: map[string]string{"k1": a, "k2": b}})
		}
	}
	kinds := []string{"", "*", "v1", "v2"}
	for _, n := range []string{"*", "x", "y"} {
		for _, a := range kinds {
			for _, b := range kinds {
				e := c09SKElem{Name: n}
				if a != "" || b != "" {
					e.Keys = map[string]string{}
					if a != "" {
						e.Keys["k1"] = a
					}
					if b != "" {
						e.Keys["k2"] = b
					}
				}
				queryElems = append(queryElems, e)
			}
		}
	}
	paths, queries := c09SKSeqs(pathElems, 2), c09SKSeqs(queryElems, 2)
	c.R.Add("states", int64(len(paths)+len(queries)))
	c.R.Add("transitions", int64(len(paths)*len(queries)))
	core.ParallelFor(len(paths), func(i int) {
		var nTrue, nFalse int64
		for _, q := range queries {
			sig, d := c09SKCheck(paths[i], q)
			if sig != "" {
				c.R.Violation(sig, d, c09SKCase{Fn: "starquery", Path: paths[i], Query: q})
			} else if c09SKWant(paths[i], q) {
				nTrue++
			} else {
				nFalse++
			}
		}
		c.R.Add("evaluations", int64(len(queries)))
		c.R.OutcomeN("starquery:agrees:true", nTrue)
		c.R.OutcomeN("starquery:agrees:false", nFalse)
	})
	c.R.Note("space_starkeys", map[string]interface{}{"path_elements": len(pathElems), "query_elements": len(queryElems), "max_len": 2, "paths": len(paths), "queries": len(queries),
		"use": "PathMatchesQuery with keyed wildcard-name query elements (*[k=v]); oracle evaluated directly from the documented semantics"})
}

func replayC09StarKeys(raw []byte) (bool, string, bool) {
	var cs c09SKCase
	if err := json.Unmarshal(raw, &cs); err != nil || cs.Fn != "starquery" {
		return false, "", false
	}
	sig, d := c09SKCheck(cs.Path, cs.Query)
	return sig != "", sig + " " + d, true
}
