package props

import (
	"encoding/json"
	"fmt"
	"reflect"
	"regexp"
	"strings"
	"sync"

	"github.com/openconfig/goyang/pkg/yang"
	"github.com/openconfig/ygot/ytypes"
	"github.com/openconfig/ygot/zzverif/core"
)

// C33 - PopulateDefaults fills only unset defaulted leaves, validly.
//
// Every explored state (k <= 2, thorough 3) of the 8 corpus packages and of the auxiliary vdef
// schema (vdus: simple unions, with union / binary defaults; vduw: wrapper unions) is populated
// with the generated root.PopulateDefaults(). Oracle: the expected default of every leaf comes
// from the harness's own goyang compile (core.RefDefaultOf: the node's default statement(s), else
// the default of its type unless mandatory / min-elements > 0; lexical form -> canonical Value by
// the reference's own per-type parser, union = first member whose lexical space holds the text).
// Clauses, per state:
//   default-not-populated / wrong-default-value  every leaf field of every container / list entry
//        that exists after the call (existing before or instantiated by the call) that was unset
//        before and has a YANG default holds exactly that value (compared as canonical Values)
//   set-leaf-changed / entry-lost                 everything set before is unchanged
//   validity-broken                               Validate(IgnoreMissingData)==nil before => ==nil after
//   filled-leaf-without-default                   (from the title: "fills ONLY ... defaulted leaves")
//        a leaf without a YANG default that was unset before is still unset
// Not judged, counted: containers (incl. presence) the call instantiates; a default inside a choice
// case that is not in effect per RFC 7950 7.9.3 (another case is selected, or no case is selected and
// the case is not the choice's default case) is not required to be populated.

func init() { core.RegisterProp(&core.Prop{ID: "C33", Run: runC33, Replay: replayC33}) }

type populater interface{ PopulateDefaults() }

func c33Packages() []*core.Pkg { return append(core.Packages(), core.AuxPackages("vdef")...) }

type c33Viol struct{ sig, detail string }

type c33Facts struct {
	viols       []c33Viol
	populated   int // unset defaulted leaves found populated with the expected value
	keptSet     int // defaulted leaves that were set before (and must be unchanged)
	classes     []string
	validBefore bool
}

func namesStr(n []string) string { return "/" + strings.Join(n, "/") }

// c33CaseOf returns the case and choice schema nodes a leaf sits in directly (nil, nil otherwise).
func c33CaseOf(e *yang.Entry) (cs, ch *yang.Entry) {
	p := e.Parent
	if p != nil && p.IsCase() && p.Parent != nil && p.Parent.IsChoice() {
		return p, p.Parent
	}
	return nil, nil
}

// c33DataNames lists the data-tree child names below a case (looking through nested choices).
func c33DataNames(e *yang.Entry) []string {
	var out []string
	for _, n := range core.SortedKeys(e.Dir) {
		c := e.Dir[n]
		if c.IsChoice() || c.IsCase() {
			out = append(out, c33DataNames(c)...)
		} else {
			out = append(out, n)
		}
	}
	return out
}

// c33HasData reports whether the model holds anything at or below prefix+name.
func c33HasData(m *core.Model, prefix core.Path, name string) bool {
	q := prefix.Names(name)
	for _, p := range m.Paths {
		if len(p) < len(q) {
			continue
		}
		ok := true
		for i := range q {
			if p[i].Name != q[i].Name {
				ok = false
				break
			}
			if i < len(prefix) && p[i].KeyString() != q[i].KeyString() {
				ok = false
				break
			}
		}
		if ok {
			s := p.String()
			if _, l := m.Leaves[s]; l || m.Entries[s] || m.Presence[s] || len(m.Unkeyed[s]) > 0 {
				return true
			}
		}
	}
	return false
}

// c33CaseInEffect decides per RFC 7950 7.9.3 whether the defaults of leaf e's case apply in the
// container instance at prefix of the BEFORE model.
func c33CaseInEffect(m *core.Model, prefix core.Path, e *yang.Entry) bool {
	cs, ch := c33CaseOf(e)
	if cs == nil {
		return true
	}
	for _, n := range c33DataNames(cs) {
		if n != e.Name && c33HasData(m, prefix, n) {
			return true // another node of the case exists: the case is selected
		}
	}
	for _, on := range core.SortedKeys(ch.Dir) {
		oc := ch.Dir[on]
		if oc == cs {
			continue
		}
		for _, n := range c33DataNames(oc) {
			if c33HasData(m, prefix, n) {
				return false // another case is selected
			}
		}
	}
	if c, ok := ch.Node.(*yang.Choice); ok && c.Default != nil && c.Default.Name == cs.Name {
		return true // no case selected, and this is the default case
	}
	return false
}

var (
	c33ChoiceRe = regexp.MustCompile(`selected for choice (\S+)`)
	c33PathRe   = regexp.MustCompile(`/device(/[A-Za-z0-9_\-/]+)`)
)

// c33ErrClasses abstracts a Validate error to the schema nodes it names: "choice:<name>" for a
// choice with more than one selected case, "node:<schema path>" for the node a line complains about.
func c33ErrClasses(err error) map[string]string {
	seen := map[string]string{}
	for _, line := range strings.Split(err.Error(), "\n") {
		line = strings.TrimSpace(line)
		cl := ""
		switch {
		case line == "":
			continue
		case strings.Contains(line, "PANIC"):
			cl = "panic"
		case c33ChoiceRe.MatchString(line):
			cl = "choice:" + c33ChoiceRe.FindStringSubmatch(line)[1]
		case strings.HasSuffix(line, "/"): // "<container>: <choice>/" header line of a choice error
			continue
		default:
			// the longest schema path named on the line
			for _, m := range c33PathRe.FindAllStringSubmatch(line, -1) {
				if len(m[1]) > len(cl)-5 {
					cl = "node:" + strings.TrimSuffix(m[1], "/")
				}
			}
			if cl == "" {
				cl = "other"
			}
		}
		if _, ok := seen[cl]; !ok {
			seen[cl] = line
		}
	}
	return seen
}

// c33EmptyNonNil: the observer recorded the leaf-list at key as an empty, non-nil slice.
func c33EmptyNonNil(m *core.Model, key string) bool {
	for _, x := range m.Extra {
		if x == "empty-leaflist "+key {
			return true
		}
	}
	return false
}

type c33Struct struct {
	path core.Path
	v    reflect.Value // pointer to struct
}

func c33Eval(p *core.Pkg, rs *core.RsSchema, atoms []*core.Atom) c33Facts {
	var f c33Facts
	t, err := p.Build(atoms)
	if err != nil {
		return f
	}
	add := func(sig, detail string) { f.viols = append(f.viols, c33Viol{sig, detail}) }
	m1 := p.Observe(t)
	v1 := c30Validate(t, &ytypes.LeafrefOptions{IgnoreMissingData: true})
	f.validBefore = v1 == nil
	if e := safeErr(func() error { t.(populater).PopulateDefaults(); return nil }); e != nil {
		add("populate-panic:", e.Error())
		return f
	}
	m2 := p.Observe(t)

	// ---- everything set before is unchanged ------------------------------------------------
	for _, k := range core.SortedKeys(m1.Leaves) {
		if got, ok := m2.Leaves[k]; !ok || got != m1.Leaves[k] {
			add("set-leaf-changed:"+namesStr(pathNames(m1.Paths[k])), fmt.Sprintf("%s was %s before PopulateDefaults and is %q (present=%v) after", k, m1.Leaves[k], got, ok))
		}
	}
	for _, k := range core.SortedKeys(m1.Entries) {
		if !m2.Entries[k] {
			add("entry-lost:"+namesStr(pathNames(m1.Paths[k])), "list entry "+k+" disappeared")
		}
	}
	for _, k := range core.SortedKeys(m2.Entries) {
		if !m1.Entries[k] {
			add("entry-appeared:"+namesStr(pathNames(m2.Paths[k])), "list entry "+k+" was created by PopulateDefaults")
		}
	}
	for _, k := range core.SortedKeys(m1.Presence) {
		if !m2.Presence[k] {
			add("presence-lost:"+namesStr(pathNames(m1.Paths[k])), "presence container "+k+" disappeared")
		}
	}
	if strings.Join(m1.Bad, ";") != strings.Join(m2.Bad, ";") {
		add("consistency-changed:", fmt.Sprintf("consistency facts before %v after %v", m1.Bad, m2.Bad))
	}
	if o1, o2 := fmt.Sprint(m1.Order), fmt.Sprint(m2.Order); o1 != o2 {
		add("order-changed:", "ordered lists before "+o1+" after "+o2)
	}

	// ---- defaults in every struct that exists after the call ---------------------------------
	structs := []c33Struct{{nil, reflect.ValueOf(t)}}
	for _, k := range core.SortedKeys(m2.Structs) {
		structs = append(structs, c33Struct{m2.Paths[k], reflect.ValueOf(m2.Structs[k])})
	}
	for _, s := range structs {
		st := s.v.Type().Elem()
		for i := 0; i < st.NumField(); i++ {
			fld := st.Field(i)
			alts := core.TagPaths(fld)
			if alts == nil {
				continue
			}
			if k := core.KindOfField(fld.Type); k != core.FLeaf && k != core.FLeafList {
				continue
			}
			lp := s.path.Names(alts[0]...)
			key := lp.String()
			names := pathNames(lp)
			e := rs.Find(names)
			if e == nil {
				add("reference-cannot-evaluate:"+namesStr(names), "no goyang schema node for field "+st.Name()+"."+fld.Name)
				continue
			}
			d := rs.RefDefaultOf(e)
			_, had := m1.Leaves[key]
			after, has := m2.Leaves[key]
			if had {
				if d.Has {
					f.keptSet++
				}
				continue // unchanged-ness was judged above
			}
			switch {
			case d.Has && d.Unknown != "":
				f.classes = append(f.classes, "excluded-default-not-decided-by-reference")
			case d.Has:
				if !c33CaseInEffect(m1, s.path, e) {
					if has {
						f.classes = append(f.classes, "excluded-default-of-case-not-in-effect-populated")
					} else {
						f.classes = append(f.classes, "excluded-default-of-case-not-in-effect-left-unset")
					}
					continue
				}
				switch {
				case !has && c33EmptyNonNil(m1, key):
					add("default-not-populated(empty-nonnil-leaflist):"+namesStr(names), fmt.Sprintf("%s has YANG default %s and holds no value, but PopulateDefaults left it empty: the Go slice is empty but not nil", key, d.Val))
				case !has:
					add("default-not-populated:"+namesStr(names), fmt.Sprintf("%s has YANG default %s (%s) and was unset, but is still unset after PopulateDefaults", key, d.Val, d.Source))
				case after != d.Val:
					add("wrong-default-value:"+namesStr(names), fmt.Sprintf("%s has YANG default %s (%s) but PopulateDefaults set %s", key, d.Val, d.Source, after))
				default:
					f.populated++
				}
			case has:
				add("filled-leaf-without-default:"+namesStr(names), fmt.Sprintf("%s has no YANG default (RFC 7950 7.6.1 / 7.7.2) but PopulateDefaults set it to %s", key, after))
			}
		}
	}

	// ---- unkeyed list elements (not addressable by path: compared through their canonical lines)
	for _, k := range core.SortedKeys(m2.Unkeyed) {
		le := rs.FindPath(m2.Paths[k])
		b := m1.Unkeyed[k]
		for i, el := range m2.Unkeyed[k] {
			if i >= len(b) {
				add("unkeyed-element-appeared:"+namesStr(pathNames(m2.Paths[k])), "element created by PopulateDefaults")
				continue
			}
			afterLines := map[string]bool{}
			for _, l := range strings.Split(el, "\n") {
				afterLines[l] = true
			}
			for _, l := range strings.Split(b[i], "\n") {
				if l != "" && !afterLines[l] {
					add("set-leaf-changed:"+namesStr(pathNames(m2.Paths[k])), fmt.Sprintf("unkeyed element %s#%d lost %q", k, i, l))
				}
			}
			if le == nil {
				continue
			}
			for _, cn := range c33DataNames(le) {
				ce := le.Dir[cn]
				if ce == nil || ce.Kind != yang.LeafEntry {
					continue
				}
				d := rs.RefDefaultOf(ce)
				if !d.Has || d.Unknown != "" || strings.Contains("\n"+b[i], "\nL /"+cn+" = ") {
					continue
				}
				if !afterLines["L /"+cn+" = "+string(d.Val)] {
					add("default-not-populated:"+namesStr(append(pathNames(m2.Paths[k]), cn)), fmt.Sprintf("unkeyed element %s#%d: leaf %s has default %s, element after the call: %q", k, i, cn, d.Val, el))
				} else {
					f.populated++
				}
			}
		}
	}
	for _, k := range core.SortedKeys(m1.Unkeyed) {
		if len(m2.Unkeyed[k]) < len(m1.Unkeyed[k]) {
			add("entry-lost:"+namesStr(pathNames(m1.Paths[k])), "unkeyed list elements disappeared")
		}
	}

	// ---- recorded, not judged -------------------------------------------------------------
	for k := range m2.Presence {
		if !m1.Presence[k] {
			f.classes = append(f.classes, "recorded-presence-container-instantiated")
			break
		}
	}
	if len(m2.Structs) > len(m1.Structs) {
		f.classes = append(f.classes, "recorded-empty-container-instantiated")
	}

	// ---- validity ---------------------------------------------------------------------------
	if v1 == nil {
		if v2 := c30Validate(t, &ytypes.LeafrefOptions{IgnoreMissingData: true}); v2 != nil {
			cls := c33ErrClasses(v2)
			for _, cl := range core.SortedKeys(cls) {
				add("validity-broken:"+cl, fmt.Sprintf("Validate(IgnoreMissingData) was nil before PopulateDefaults; afterwards it reports %q", cls[cl]))
			}
		} else {
			f.classes = append(f.classes, "valid-before-and-after")
		}
	} else {
		f.classes = append(f.classes, "invalid-before(validity-clause-vacuous)")
	}
	return f
}

// c33Has reports whether evaluating atoms yields a violation with the given signature.
func c33Has(p *core.Pkg, rs *core.RsSchema, atoms []*core.Atom, sig string) (bool, string) {
	for _, v := range c33Eval(p, rs, atoms).viols {
		if v.sig == sig {
			return true, v.detail
		}
	}
	return false, ""
}

func seqLess(a, b []uint16) bool {
	if len(a) != len(b) {
		return len(a) < len(b)
	}
	for i := range a {
		if a[i] != b[i] {
			return a[i] < b[i]
		}
	}
	return false
}

func runC33(c *core.Ctx) {
	c.Level = "model_checking"
	k := kFor(c, 2, 3)
	c.Rule = fmt.Sprintf("explicit-state BFS over atom sequences up to k=%d (thorough: full alphabet to k=2, then k=3 on the focus alphabet = one atom family per field) on the 8 corpus packages and on the auxiliary defaults schema vdef (every integer width, decimal64, string, boolean, enumeration, identityref, leafref, typedef defaults incl. nested / overridden / mandatory, leaf-list defaults, defaults in list entries, ordered and unkeyed lists, presence / non-presence containers, choice cases incl. two cases of one choice; vdus additionally union and binary defaults); every state: root.PopulateDefaults() on the real tree, Model before/after compared with the defaults computed from the harness's goyang compile, Validate(IgnoreMissingData) before/after; non-trivial = state in which at least one unset defaulted leaf was populated", k)
	c.R.Assume("builder, observer and goyang's parser are correct; union defaults denote the first member type whose lexical space contains the text (RFC 7950 9.12)")
	for _, p := range c33Packages() {
		rs, err := core.LoadRefSchema(c.VerifDir+"/schemas", p.SchemaName)
		if err != nil {
			panic("C33: " + err.Error())
		}
		kk := k
		var atomsOf func(*core.Pkg) []*core.Atom
		if c.Thorough() {
			// k=3 over the full alphabets is ~10^7 states; the deep tier uses the focus alphabet
			// (one atom family per field) there, after the full k=2 pass below.
			atomsOf = func(q *core.Pkg) []*core.Atom { return core.FocusAtoms(q.Atoms()) }
		}
		type agg struct {
			n      int64
			seq    []uint16
			detail string
		}
		run := func(kk int, atomsOf func(*core.Pkg) []*core.Atom) {
			var mu sync.Mutex
			found := map[string]*agg{}
			var space *core.Space
			exploreAll(c, []*core.Pkg{p}, kk, atomsOf, func(sp *core.Space, st core.State) {
				as := sp.SeqAtoms(st)
				c.R.Add("evaluations", 1)
				f := c33Eval(p, rs, as)
				for _, cl := range f.classes {
					c.R.Outcome(cl)
				}
				if f.keptSet > 0 {
					c.R.Outcome("set-defaulted-leaf-kept")
				}
				if f.populated > 0 {
					c.R.Outcome("populated-defaults")
					c.R.NonTrivial(p.Name + string(st.Key[:]))
				}
				if len(f.viols) == 0 {
					return
				}
				c.R.Outcome("violation")
				mu.Lock()
				space = sp
				for _, v := range f.viols {
					a := found[v.sig]
					if a == nil {
						a = &agg{seq: st.Seq, detail: v.detail}
						found[v.sig] = a
					} else if seqLess(st.Seq, a.seq) {
						a.seq, a.detail = st.Seq, v.detail
					}
					a.n++
				}
				mu.Unlock()
			})
			// one report per signature: the smallest state showing it, minimised
			for _, sig := range core.SortedKeys(found) {
				a := found[sig]
				as := space.SeqAtoms(core.State{Seq: a.seq})
				min, _, mdetail := minimise(as, func(x []*core.Atom) (string, string) {
					if ok, d := c33Has(p, rs, x, sig); ok {
						return sig, d
					}
					return "", ""
				})
				full := sig
				if strings.HasSuffix(sig, ":") { // clause without a schema node: name the minimal tree
					full = sigFor(clauseOf(sig), min)
				}
				c.R.ViolationN(full+"@"+c33Mode(p), mdetail, treeCase{Pkg: p.Name, Atoms: atomNames(min), Extra: sig}, a.n)
			}
		}
		if atomsOf != nil {
			run(2, nil)
			run(3, atomsOf)
		} else {
			run(kk, nil)
		}
	}
}

func c33Mode(p *core.Pkg) string {
	m := "simple"
	if p.Wrapper {
		m = "wrapper"
	}
	if p.Compressed {
		m += "-compressed"
	}
	return m
}

func replayC33(c *core.Ctx, raw []byte) (bool, string) {
	var tc treeCase
	if err := json.Unmarshal(raw, &tc); err != nil {
		return false, err.Error()
	}
	p := core.AnyPkgByName(tc.Pkg)
	if p == nil {
		return false, "unknown package"
	}
	rs, err := core.LoadRefSchema(c.VerifDir+"/schemas", p.SchemaName)
	if err != nil {
		return false, err.Error()
	}
	atoms, ok := p.AtomsByName(tc.Atoms)
	if !ok {
		return false, "unknown atoms"
	}
	if tc.Extra != "" {
		ok, d := c33Has(p, rs, atoms, tc.Extra)
		return ok, tc.Extra + " " + d
	}
	vs := c33Eval(p, rs, atoms).viols
	if len(vs) == 0 {
		return false, ""
	}
	return true, vs[0].sig + " " + vs[0].detail
}
