package props

import (
	"encoding/json"
	"fmt"
	"math"
	"math/big"
	"reflect"
	"regexp"
	"sort"
	"strconv"
	"strings"
	"sync"
	"time"
	"unicode/utf8"

	gpb "github.com/openconfig/gnmi/proto/gnmi"
	"github.com/openconfig/goyang/pkg/yang"
	"github.com/openconfig/ygot/ygot"
	"github.com/openconfig/ygot/ytypes"
	"github.com/openconfig/ygot/zzverif/core"
	"google.golang.org/protobuf/proto"
)

// C16 -- list keys of every supported type round-trip through gNMI paths.
//
// For every keyed list (unordered and ordered-by-user) of every corpus package and of the
// auxiliary key corpus (schemas/vk.yang), and every value of a per-type key domain, one entry is
// built by reflection; the key strings ygot itself renders for that entry (TogNMINotifications,
// Diff(empty, t), PathKeyFromStruct on the entry, KeyValueAsString / ΛListKeyMap on the map key)
// are fed back as gpb.Path structures to GetNode, DeleteNode, SetNode (existing entry) and
// SetNode(InitMissingElements) on an empty root.

func init() { core.RegisterProp(&core.Prop{ID: "C16", Run: runC16, Replay: replayC16}) }

// ---- key domains ------------------------------------------------------------------------------

var c16Strings = []string{
	"a", "abc", "ab c", " ", " a", "a ", "/", "a/b", "/a", "a/", "//", "a//b", "..", "a/../b", ".",
	"[", "]", "a]b", "a[b", "[k=v]", "x]/y[z=1", "=", "a=b", "k=", "\\", "a\\b", "a\\", "\\]", "a\\]b", "\\\\",
	":", "x:y", "vk:LOW", "é✓", "日本語", "*", "a*", "\"", "'", "a,b", "a\tb", "a\nb",
	"true", "5", "-5", "1e3", "0x10", "1.50", "LOW", "",
	strings.Repeat("a", 300),
}

func c16ThoroughStrings() []string {
	alpha := []string{"a", "/", "[", "]", "=", "\\", " ", ":"}
	var out []string
	for _, x := range alpha {
		for _, y := range alpha {
			out = append(out, x+y)
			for _, z := range alpha {
				out = append(out, x+y+z)
			}
		}
	}
	return out
}

func c16StringDomain(t *yang.YangType, thorough bool, forUnion bool) []core.Value {
	cands := c16Strings
	if forUnion {
		cands = []string{"zq", "z q/]", "a=b", "é✓", "x:y", "\\", "[", "5", "-5", "true", "1e3", "1.5"}
	} else if thorough {
		cands = append(append([]string{}, cands...), c16ThoroughStrings()...)
	}
	var out []core.Value
	seen := map[string]bool{}
	for _, c := range cands {
		if seen[c] {
			continue
		}
		seen[c] = true
		if t != nil && t.Kind == yang.Ystring {
			if !core.InRanges(t.Length, new(big.Rat).SetInt64(int64(utf8.RuneCountInString(c)))) {
				continue
			}
			ok := true
			for _, pat := range t.Pattern {
				re, err := regexp.Compile("^(?:" + pat + ")$")
				if err != nil || !re.MatchString(c) {
					ok = false
				}
			}
			for _, pat := range t.POSIXPattern {
				re, err := regexp.CompilePOSIX(pat)
				if err != nil || !re.MatchString(c) {
					ok = false
				}
			}
			if !ok {
				continue
			}
		}
		out = append(out, core.Value("str:"+c))
	}
	return out
}

func c16IntDomain(bits int, signed bool, rng yang.YangRange, small bool) []core.Value {
	one := big.NewInt(1)
	pow := func(n uint) *big.Int { return new(big.Int).Lsh(one, n) }
	var lo, hi *big.Int
	if signed {
		lo, hi = new(big.Int).Neg(pow(uint(bits-1))), new(big.Int).Sub(pow(uint(bits-1)), one)
	} else {
		lo, hi = big.NewInt(0), new(big.Int).Sub(pow(uint(bits)), one)
	}
	var cands []*big.Int
	add := func(x *big.Int) { cands = append(cands, x) }
	for _, s := range []int64{1, 0, -1, 9, 10, -10} {
		add(big.NewInt(s))
	}
	if !small {
		for _, n := range []uint{7, 8, 15, 16, 31, 32, 53, 63, 64} {
			p := pow(n)
			add(new(big.Int).Sub(p, one)) // 2^n-1
			add(p)                        // 2^n
			add(new(big.Int).Add(p, one)) // 2^n+1
			add(new(big.Int).Neg(p))      // -2^n
			add(new(big.Int).Neg(new(big.Int).Add(p, one)))
			add(new(big.Int).Neg(new(big.Int).Sub(p, one)))
		}
		add(new(big.Int).Sub(hi, one))
		add(new(big.Int).Add(lo, one))
	}
	add(hi)
	add(lo)
	for _, r := range rng {
		for _, e := range []yang.Number{r.Min, r.Max} {
			x := core.NumRat(e)
			if x.IsInt() {
				add(new(big.Int).Set(x.Num()))
				add(new(big.Int).Add(x.Num(), one))
				add(new(big.Int).Sub(x.Num(), one))
			}
		}
	}
	tag := fmt.Sprintf("u%d:", bits)
	if signed {
		tag = fmt.Sprintf("i%d:", bits)
	}
	var out []core.Value
	seen := map[string]bool{}
	for _, x := range cands {
		if x.Cmp(lo) < 0 || x.Cmp(hi) > 0 || seen[x.String()] {
			continue
		}
		if !core.InRanges(rng, new(big.Rat).SetInt(x)) {
			continue
		}
		seen[x.String()] = true
		out = append(out, core.Value(tag+x.String()))
	}
	return out
}

var c16Decimals = []string{"1", "0", "-1", "10", "0.5", "-0.5", "1.5", "0.1", "-0.1", "1.25", "-1.25", "0.01", "1.125", "-1.125",
	"0.001", "0.000001", "-0.000001", "0.0001", "0.00001", "0.0000001", "0.000000001", "1.123456789", "-1.000000001", "0.000000000000000001", "1.000000000000001", "123.456", "99999.9", "100000", "999999", "1000000", "-1000000", "1000000.5",
	"1234567.891", "-1234567.891", "12345678.9", "123456789012.25", "1000000000000000", "-1000000000000000",
	"9007199254740992", "100000000000000000000"}

func c16DecDomain(fd int, rng yang.YangRange, small bool) []core.Value {
	if fd <= 0 {
		fd = 1
	}
	cands := c16Decimals
	if small {
		cands = []string{"1.5", "-0.5", "1000000.25"}
	}
	lim := new(big.Rat).SetFrac(new(big.Int).SetUint64(1<<63-1), new(big.Int).Exp(big.NewInt(10), big.NewInt(int64(fd)), nil))
	// the largest float64 not above the decimal64 maximum for fd
	mx, _ := lim.Float64()
	for new(big.Rat).SetFloat64(mx).Cmp(lim) > 0 {
		mx = math.Nextafter(mx, 0)
	}
	if !small {
		cands = append(append([]string{}, cands...), strconv.FormatFloat(mx, 'f', -1, 64), strconv.FormatFloat(-mx, 'f', -1, 64))
	}
	var out []core.Value
	seen := map[string]bool{}
	for _, c := range cands {
		f, err := strconv.ParseFloat(c, 64)
		if err != nil {
			continue
		}
		s := strconv.FormatFloat(f, 'f', -1, 64) // canonical form used by core.FromGo
		if i := strings.Index(s, "."); i >= 0 && len(s)-i-1 > fd {
			continue
		}
		x, ok := new(big.Rat).SetString(s)
		if !ok || new(big.Rat).Abs(x).Cmp(lim) > 0 || !core.InRanges(rng, x) || seen[s] {
			continue
		}
		seen[s] = true
		out = append(out, core.Value("dec:"+s))
	}
	return out
}

func c16FlattenUnion(t *yang.YangType) []*yang.YangType {
	var out []*yang.YangType
	for _, m := range t.Type {
		if m.Kind == yang.Yunion {
			out = append(out, c16FlattenUnion(m)...)
		} else {
			out = append(out, m)
		}
	}
	return out
}

var c16IntBits = map[yang.TypeKind]int{yang.Yint8: 8, yang.Yint16: 16, yang.Yint32: 32, yang.Yint64: 64,
	yang.Yuint8: 8, yang.Yuint16: 16, yang.Yuint32: 32, yang.Yuint64: 64}

// c16UnionDomain: the (reduced) domain of every member type in schema order; a value whose
// lexical form was already produced by an earlier member is dropped (the key string cannot tell
// them apart, RFC 7950 9.12 resolves to the first matching member).
func c16UnionDomain(p *core.Pkg, t *yang.YangType, dropped *int) []core.Value {
	var out []core.Value
	seen := map[string]bool{}
	for _, m := range c16FlattenUnion(t) {
		var dom []core.Value
		switch m.Kind {
		case yang.Yint8, yang.Yint16, yang.Yint32, yang.Yint64:
			dom = c16IntDomain(c16IntBits[m.Kind], true, m.Range, true)
			if m.Kind == yang.Yint64 {
				dom = append(dom, "i64:-7", "i64:9007199254740993", "i64:-9007199254740993")
			}
		case yang.Yuint8, yang.Yuint16, yang.Yuint32, yang.Yuint64:
			dom = c16IntDomain(c16IntBits[m.Kind], false, m.Range, true)
		case yang.Ystring:
			dom = c16StringDomain(m, false, true)
		case yang.Yenum:
			if m.Enum != nil {
				for _, n := range m.Enum.Names() {
					dom = append(dom, core.Value("enum:"+n))
				}
			}
		case yang.Yidentityref:
			if m.IdentityBase != nil {
				for _, v := range m.IdentityBase.Values {
					dom = append(dom, core.Value("enum:"+v.Name))
				}
			}
		case yang.Ybool:
			dom = []core.Value{"bool:true", "bool:false"}
		case yang.Ydecimal64:
			dom = c16DecDomain(m.FractionDigits, m.Range, true)
		}
		for _, v := range dom {
			lex := core.RefKeyString(v)
			if seen[lex] {
				*dropped++
				continue
			}
			seen[lex] = true
			out = append(out, v)
		}
	}
	return out
}

// c16Domain returns the key domain of a key leaf field (Go type ft, resolved YANG type yt).
func c16Domain(p *core.Pkg, ft reflect.Type, ke *yang.Entry, yt *yang.YangType, thorough bool, dropped *int) []core.Value {
	t := ft
	if t.Kind() == reflect.Ptr {
		t = t.Elem()
	}
	var rng yang.YangRange
	if yt != nil {
		rng = yt.Range
	}
	switch t.Kind() {
	case reflect.Int8, reflect.Int16, reflect.Int32:
		return c16IntDomain(t.Bits(), true, rng, false)
	case reflect.Int64:
		if core.IsEnumType(t) {
			return p.LeafDomain(ft, ke) // every defined member
		}
		return c16IntDomain(64, true, rng, false)
	case reflect.Uint8, reflect.Uint16, reflect.Uint32, reflect.Uint64:
		return c16IntDomain(t.Bits(), false, rng, false)
	case reflect.Float64:
		fd := 2
		if yt != nil && yt.FractionDigits > 0 {
			fd = yt.FractionDigits
		}
		return c16DecDomain(fd, rng, false)
	case reflect.String:
		return c16StringDomain(yt, thorough, false)
	case reflect.Bool:
		return []core.Value{"bool:true", "bool:false"}
	case reflect.Interface:
		if yt != nil && yt.Kind == yang.Yunion {
			return c16UnionDomain(p, yt, dropped)
		}
	}
	return nil
}

// c16Class abstracts a key value to a small class for signatures.
func c16Class(v core.Value) string {
	pl := v.Payload()
	switch k := v.Kind(); {
	case k == "str":
		if pl == "" {
			return "str-empty"
		}
		if len(pl) > 100 {
			return "str-long"
		}
		set := map[string]bool{}
		for _, r := range pl {
			switch {
			case strings.ContainsRune(`/[]=\:*"',.`, r):
				set[string(r)] = true
			case r == ' ':
				set["sp"] = true
			case r < 0x20:
				set["ctl"] = true
			case r > 0x7e:
				set["nonascii"] = true
			}
		}
		if len(set) == 0 {
			if _, err := strconv.ParseFloat(pl, 64); err == nil {
				return "str-numeric"
			}
			return "str-plain"
		}
		var ks []string
		for s := range set {
			ks = append(ks, s)
		}
		sort.Strings(ks)
		return "str-chars{" + strings.Join(ks, "") + "}"
	case k == "dec":
		x, _ := new(big.Rat).SetString(pl)
		c := "dec"
		if x.Sign() < 0 {
			c += "-neg"
		}
		ax := new(big.Rat).Abs(x)
		switch {
		case x.Sign() == 0:
			c += "-zero"
		case ax.Cmp(big.NewRat(1000000, 1)) >= 0:
			c += "-ge1e6"
		case ax.Cmp(big.NewRat(1, 10000)) < 0:
			c += "-lt1e-4"
		}
		if !x.IsInt() {
			c += "-frac"
		}
		return c
	case k == "enum" || k == "bool":
		return k
	case strings.HasPrefix(k, "i") || strings.HasPrefix(k, "u"):
		x, ok := new(big.Int).SetString(pl, 10)
		if !ok {
			return k
		}
		switch {
		case x.Sign() == 0:
			return k + "-zero"
		case x.Sign() < 0:
			return k + "-neg"
		case x.Cmp(big.NewInt(math.MaxInt64)) > 0:
			return k + "-gtmaxint64"
		}
		return k + "-pos"
	}
	return v.Kind()
}

// ---- list sites -------------------------------------------------------------------------------

type c16Leaf struct {
	steps  []core.Step // below the entry: containers + leaf field
	names  []string    // data-tree names below the entry
	v1, v2 core.Value
}

type c16List struct {
	p        *core.Pkg
	id       string // Go field path, e.g. /Top/KlStr
	pre      []core.Step
	field    string
	ordered  bool
	et       reflect.Type
	keyNames []string
	kinds    []string // per key: i8.. u64 str bool dec enum idref union, "ref>" prefix for leafref keys
	doms     [][]core.Value
	prefix   core.Path // model path of the list node without keys on its last element
	leaf     *c16Leaf
	nb       [][]core.Value // neighbour tuples populating the list in every "full" tree
	tuples   [][]core.Value // tuples evaluated
	unsupp   string         // non-empty: ordered list whose key type StringToType does not document

	baseOnce sync.Once
	baseFail map[string]bool
}

func (l *c16List) shape() string {
	s := "unordered"
	if l.ordered {
		s = "ordered"
	}
	return s + "[" + strings.Join(l.kinds, ",") + "]"
}

func c16KVs(keyNames []string, tuple []core.Value) []core.KV {
	var kvs []core.KV
	for i, n := range keyNames {
		kvs = append(kvs, core.KV{Name: n, Val: tuple[i]})
	}
	sort.Slice(kvs, func(i, j int) bool { return kvs[i].Name < kvs[j].Name })
	return kvs
}

func (l *c16List) entryPath(tuple []core.Value) core.Path {
	out := l.prefix.Clone()
	out[len(out)-1].Keys = c16KVs(l.keyNames, tuple)
	return out
}

func c16EntryType(ft reflect.Type) reflect.Type {
	if ft.Kind() == reflect.Map {
		return ft.Elem()
	}
	m, _ := ft.MethodByName("Values")
	return m.Type.Out(0).Elem()
}

func c16KeyField(et reflect.Type, kn string) (reflect.StructField, bool) {
	for j := 0; j < et.Elem().NumField(); j++ {
		f := et.Elem().Field(j)
		for _, a := range core.TagPaths(f) {
			if len(a) == 1 && a[0] == kn {
				return f, true
			}
		}
	}
	return reflect.StructField{}, false
}

func c16Kind(ft reflect.Type, ke *yang.Entry, yt *yang.YangType) string {
	t := ft
	if t.Kind() == reflect.Ptr {
		t = t.Elem()
	}
	k := "?"
	switch t.Kind() {
	case reflect.Int8, reflect.Int16, reflect.Int32:
		k = fmt.Sprintf("i%d", t.Bits())
	case reflect.Int64:
		k = "i64"
		if core.IsEnumType(t) {
			k = "enum"
			if yt != nil && yt.Kind == yang.Yidentityref {
				k = "idref"
			}
		}
	case reflect.Uint8, reflect.Uint16, reflect.Uint32, reflect.Uint64:
		k = fmt.Sprintf("u%d", t.Bits())
	case reflect.Float64:
		k = "dec"
	case reflect.String:
		k = "str"
	case reflect.Bool:
		k = "bool"
	case reflect.Interface:
		k = "union"
	}
	if ke != nil && ke.Type != nil && ke.Type.Kind == yang.Yleafref {
		k = "ref>" + k
	}
	return k
}

// c16FindLeaf looks (depth first through containers) for a non-key leaf of the entry: a string
// leaf if there is one, otherwise an unsigned integer or enumeration leaf.
func c16FindLeaf(p *core.Pkg, et reflect.Type, ee *yang.Entry, keyNames []string) *c16Leaf {
	var best *c16Leaf
	rank := 99
	var walk func(st reflect.Type, steps []core.Step, names []string, depth int)
	walk = func(st reflect.Type, steps []core.Step, names []string, depth int) {
		if st.Kind() == reflect.Ptr {
			st = st.Elem()
		}
		for i := 0; i < st.NumField(); i++ {
			f := st.Field(i)
			alts := core.TagPaths(f)
			if alts == nil {
				continue
			}
			fs := append(append([]core.Step{}, steps...), core.Step{Field: f.Name})
			fn := append(append([]string{}, names...), alts[0]...)
			switch core.KindOfField(f.Type) {
			case core.FContainer:
				if depth < 2 {
					walk(f.Type, fs, fn, depth+1)
				}
			case core.FLeaf:
				last := alts[0][len(alts[0])-1]
				isKey := false
				for _, k := range keyNames {
					if k == last {
						isKey = true
					}
				}
				if isKey || f.Type.Kind() != reflect.Ptr && !core.IsEnumType(f.Type) && f.Type.Kind() != reflect.Interface {
					continue
				}
				var r int
				var v1, v2 core.Value
				t := f.Type
				if t.Kind() == reflect.Ptr {
					t = t.Elem()
				}
				switch {
				case t.Kind() == reflect.String:
					if le, _ := core.FindChild(ee, fn); le != nil && le.Type != nil && le.Type.Kind == yang.Ystring &&
						(len(le.Type.Pattern) > 0 || len(le.Type.POSIXPattern) > 0 || !core.InRanges(le.Type.Length, big.NewRat(2, 1))) {
						continue // a restricted string would need a fitting value
					}
					r, v1, v2 = 0, "str:v1", "str:v2"
				case t.Kind() == reflect.Uint8 || t.Kind() == reflect.Uint16 || t.Kind() == reflect.Uint32:
					r, v1, v2 = 1, core.Value(fmt.Sprintf("u%d:7", t.Bits())), core.Value(fmt.Sprintf("u%d:8", t.Bits()))
				case t.Kind() == reflect.Interface:
					// a union leaf is usable when it has an unrestricted-enough string member ("v1" is
					// neither numeric nor an enumeration name)
					le, _ := core.FindChild(ee, fn)
					hasStr := false
					if le != nil && le.Type != nil && le.Type.Kind == yang.Yunion {
						for _, m := range c16FlattenUnion(le.Type) {
							if m.Kind == yang.Ystring && len(m.Pattern) == 0 && core.InRanges(m.Length, big.NewRat(2, 1)) {
								hasStr = true
							}
						}
					}
					if !hasStr {
						continue
					}
					r, v1, v2 = 3, "str:v1", "str:v2"
				case core.IsEnumType(t):
					d := p.LeafDomain(f.Type, nil)
					if len(d) < 2 {
						continue
					}
					r, v1, v2 = 2, d[0], d[len(d)-1]
				default:
					continue
				}
				if r < rank {
					rank = r
					best = &c16Leaf{steps: fs, names: fn, v1: v1, v2: v2}
				}
			}
		}
	}
	walk(et, nil, nil, 0)
	return best
}

func c16TypedValue(v core.Value) *gpb.TypedValue {
	switch v.Kind() {
	case "str", "enum":
		return &gpb.TypedValue{Value: &gpb.TypedValue_StringVal{StringVal: v.Payload()}}
	}
	n, _ := strconv.ParseUint(v.Payload(), 10, 64)
	return &gpb.TypedValue{Value: &gpb.TypedValue_UintVal{UintVal: n}}
}

const c16ProductCapQuick, c16ProductCapThorough = 64, 2500

// c16Tuples computes the neighbour set (star cover: every value of every key with the other keys at
// their first and second domain value) and the evaluated tuples (the full product when small enough).
func c16Tuples(doms [][]core.Value, thorough bool) (nb, tuples [][]core.Value) {
	if len(doms) == 1 {
		for _, v := range doms[0] {
			nb = append(nb, []core.Value{v})
		}
		return nb, nb
	}
	prod := 1
	for _, d := range doms {
		prod *= len(d)
		if prod > 1<<20 {
			prod = 1 << 20
		}
	}
	var product [][]core.Value
	var rec func(i int, cur []core.Value)
	rec = func(i int, cur []core.Value) {
		if i == len(doms) {
			product = append(product, append([]core.Value{}, cur...))
			return
		}
		for _, v := range doms[i] {
			rec(i+1, append(cur, v))
		}
	}
	seen := map[string]bool{}
	addNB := func(t []core.Value) {
		k := fmt.Sprint(t)
		if !seen[k] {
			seen[k] = true
			nb = append(nb, t)
		}
	}
	for base := 0; base < 2; base++ {
		for i := range doms {
			for vi, v := range doms[i] {
				if base == 1 && !thorough && vi >= 6 {
					break // quick tier: second base only for the first values of each key
				}
				t := make([]core.Value, len(doms))
				for j := range doms {
					b := base
					if b >= len(doms[j]) {
						b = len(doms[j]) - 1
					}
					t[j] = doms[j][b]
				}
				t[i] = v
				addNB(t)
			}
		}
	}
	// adversarial pairs for adjacent string keys: the tuples differ, their joined renderings coincide
	for i := 0; i+1 < len(doms); i++ {
		if doms[i][0].Kind() == "str" && doms[i+1][0].Kind() == "str" {
			for _, pr := range [][2]core.Value{{"str:a b", "str:c"}, {"str:a", "str:b c"}, {"str:a]", "str:[b"}, {"str:x=1", "str:y"}, {"str:x", "str:1,y"}} {
				t := make([]core.Value, len(doms))
				for j := range doms {
					t[j] = doms[j][0]
				}
				t[i], t[i+1] = pr[0], pr[1]
				addNB(t)
			}
		}
	}
	cap := c16ProductCapQuick
	if thorough {
		cap = c16ProductCapThorough
	}
	if prod <= cap {
		rec(0, nil)
		if prod <= c16ProductCapQuick {
			return product, product
		}
		return nb, product
	}
	return nb, nb
}

// c16Lists enumerates every keyed list of the package (unkeyed lists are counted, not judged).
func c16Lists(c *core.Ctx, p *core.Pkg, thorough bool) []*c16List {
	p.Schema()
	var out []*c16List
	var walk func(st reflect.Type, steps []core.Step, path core.Path, id string, depth int)
	walk = func(st reflect.Type, steps []core.Step, path core.Path, id string, depth int) {
		if st.Kind() == reflect.Ptr {
			st = st.Elem()
		}
		for i := 0; i < st.NumField(); i++ {
			f := st.Field(i)
			alts := core.TagPaths(f)
			if alts == nil {
				continue
			}
			fid := id + "/" + f.Name
			switch core.KindOfField(f.Type) {
			case core.FContainer:
				walk(f.Type, append(append([]core.Step{}, steps...), core.Step{Field: f.Name}), path.Names(alts[0]...), fid, depth)
			case core.FUnkeyedList:
				if c != nil {
					c.R.Outcome("excluded-unkeyed-list")
				}
			case core.FKeyedList, core.FOrderedList:
				et := c16EntryType(f.Type)
				l := &c16List{p: p, id: fid, pre: append([]core.Step{}, steps...), field: f.Name, et: et,
					ordered: core.KindOfField(f.Type) == core.FOrderedList, keyNames: p.ListKeyNames(et), prefix: path.Names(alts[0]...)}
				ee := p.EntryFor(et)
				ok := len(l.keyNames) > 0
				dropped := 0
				for _, kn := range l.keyNames {
					kf, found := c16KeyField(et, kn)
					if !found {
						ok = false
						break
					}
					tp := core.TagPaths(kf)
					ke, _ := core.FindChild(ee, tp[len(tp)-1])
					var yt *yang.YangType
					if ke != nil {
						yt = ke.Type
						if yt != nil && yt.Kind == yang.Yleafref {
							yt = core.ResolveLeafref(ke)
						}
					}
					dom := c16Domain(p, kf.Type, ke, yt, thorough && len(l.keyNames) == 1, &dropped) // multi-key lists keep the quick string set
					if len(dom) == 0 {
						ok = false
						break
					}
					l.doms = append(l.doms, dom)
					kind := c16Kind(kf.Type, ke, yt)
					l.kinds = append(l.kinds, kind)
					if l.ordered {
						// ytypes.StringToType (the ordered-list code path) documents integers, string and
						// GoEnum types; it also implements bool. decimal64 and union keys are not supported.
						if bk := strings.TrimPrefix(kind, "ref>"); bk == "dec" || bk == "union" {
							l.unsupp = bk
						}
					}
				}
				if !ok {
					if c != nil {
						c.R.Outcome("skipped-list-without-key-domain")
						c.R.Note("skipped_"+p.Name+fid, "no key field / domain found")
					}
					continue
				}
				if c != nil && dropped > 0 {
					c.R.Add("excluded_union_lexical_duplicates", int64(dropped))
				}
				l.leaf = c16FindLeaf(p, et, ee, l.keyNames)
				l.nb, l.tuples = c16Tuples(l.doms, thorough)
				out = append(out, l)
				if depth < 2 {
					base := l.nb[0]
					ps := append(append([]core.Step{}, steps...), core.Step{Field: f.Name, Key: base})
					walk(et, ps, l.entryPath(base), fid+"[*]", depth+1)
				}
			}
		}
	}
	walk(p.RootType, nil, nil, "", 0)
	return out
}

// ---- building ---------------------------------------------------------------------------------

func (l *c16List) entryAtom(t []core.Value) *core.Atom {
	return &core.Atom{Kind: "entry", Steps: append(append([]core.Step{}, l.pre...), core.Step{Field: l.field, Key: t})}
}

func (l *c16List) leafAtom(t []core.Value, v core.Value) *core.Atom {
	st := append(append([]core.Step{}, l.pre...), core.Step{Field: l.field, Key: t})
	return &core.Atom{Kind: "leaf", Steps: append(st, l.leaf.steps...), Val: v}
}

func sameTuple(a, b []core.Value) bool {
	if len(a) != len(b) {
		return false
	}
	for i := range a {
		if a[i] != b[i] {
			return false
		}
	}
	return true
}

// build returns a fresh tree: the target entry (with its leaf = lv when the list has a usable
// leaf and lv is set) and, unless solo, every neighbour entry. without: leave the target out.
func (l *c16List) build(target []core.Value, lv core.Value, solo, without bool) (ygot.GoStruct, error) {
	root := l.p.NewRoot()
	apply := func(a *core.Atom) error { return l.p.Apply(root, a) }
	// the target is created by ONE atom (entry + leaf): with wrapper unions the Go map key is a fresh
	// pointer each time, so a second atom could not find the entry again and would add a duplicate.
	place := func() error {
		if l.leaf != nil && lv != core.NoValue {
			return apply(l.leafAtom(target, lv))
		}
		return apply(l.entryAtom(target))
	}
	placed := false
	want := 0
	if !solo {
		for _, t := range l.nb {
			if sameTuple(t, target) {
				placed = true
				if !without {
					want++
					if err := place(); err != nil {
						return nil, err
					}
				}
				continue
			}
			want++
			if err := apply(l.entryAtom(t)); err != nil {
				return nil, err
			}
		}
	}
	if !without {
		if !placed {
			want++
			if err := place(); err != nil {
				return nil, err
			}
		}
	} else if solo && len(l.pre) > 0 {
		// keep the parent entries of a nested list: they are not removed with the target
		for i := len(l.pre) - 1; i >= 0; i-- {
			if l.pre[i].Key != nil {
				if err := apply(&core.Atom{Kind: "entry", Steps: append([]core.Step{}, l.pre[:i+1]...)}); err != nil {
					return nil, err
				}
				break
			}
		}
	}
	if got := l.listLen(root); got != want {
		return nil, fmt.Errorf("HARNESS: built list %s holds %d entries, want %d", l.id, got, want)
	}
	return root, nil
}

// listLen counts the entries of the list by reflection (parents of a nested list hold one entry).
func (l *c16List) listLen(root interface{}) int {
	cur := reflect.ValueOf(root)
	steps := append(append([]core.Step{}, l.pre...), core.Step{Field: l.field})
	for i, s := range steps {
		if cur.Kind() == reflect.Ptr && cur.IsNil() {
			return 0
		}
		f := cur.Elem().FieldByName(s.Field)
		last := i == len(steps)-1
		switch core.KindOfField(f.Type()) {
		case core.FKeyedList:
			if last {
				return f.Len()
			}
			if f.Len() == 0 {
				return 0
			}
			cur = f.MapIndex(f.MapKeys()[0])
		case core.FOrderedList:
			if f.IsNil() {
				return 0
			}
			vals := f.MethodByName("Values").Call(nil)[0]
			if last {
				return vals.Len()
			}
			if vals.Len() == 0 {
				return 0
			}
			cur = vals.Index(0)
		default:
			cur = f
		}
	}
	return -1
}

// ---- the check --------------------------------------------------------------------------------

type c16Case struct {
	Pkg    string       `json:"pkg"`
	List   string       `json:"list"`
	Tuple  []core.Value `json:"tuple"`
	Clause string       `json:"clause"`
	Solo   bool         `json:"solo"`
}

type c16Fail struct {
	clause, detail string
	excused        string // non-empty: counted outcome instead of a violation
}

type c16Src struct {
	name string
	path *gpb.Path
}

var c16Sources = []string{"notif", "diff", "entrykeys", "mapkey"}

func pathStr(p *gpb.Path) string {
	var b strings.Builder
	for _, e := range p.GetElem() {
		b.WriteString("/" + e.GetName())
		ks := make([]string, 0, len(e.GetKey()))
		for k := range e.GetKey() {
			ks = append(ks, k)
		}
		sort.Strings(ks)
		for _, k := range ks {
			b.WriteString("[" + k + "=" + strconv.Quote(e.Key[k]) + "]")
		}
	}
	return b.String()
}

// entryPathsIn extracts, from notifications, the distinct paths of the list entry (the first
// len(prefix) elements of every update path that runs through the list).
func (l *c16List) entryPathsIn(ns []*gpb.Notification) []*gpb.Path {
	var out []*gpb.Path
	seen := map[string]bool{}
	depth := len(l.prefix)
	for _, n := range ns {
		for _, u := range n.GetUpdate() {
			es := core.JoinElems(n.GetPrefix(), u.GetPath())
			if len(es) < depth {
				continue
			}
			ok := true
			for i := 0; i < depth; i++ {
				if es[i].GetName() != l.prefix[i].Name {
					ok = false
				}
			}
			if !ok || len(es[depth-1].GetKey()) == 0 {
				continue
			}
			np := &gpb.Path{}
			for i := 0; i < depth; i++ {
				np.Elem = append(np.Elem, proto.Clone(es[i]).(*gpb.PathElem))
			}
			if s := pathStr(np); !seen[s] {
				seen[s] = true
				out = append(out, np)
			}
		}
	}
	return out
}

// keysVia builds the entry path with the key maps ygot derives from each list entry on the way
// (via = "entrykeys": PathKeyFromStruct on the entry struct; "mapkey": KeyValueAsString /
// PathKeyFromStruct on the Go map key).
func (l *c16List) keysVia(via string, m *core.Model, tuple []core.Value) (gp *gpb.Path, err error) {
	defer recoverTo(&err)
	ep := l.entryPath(tuple)
	gp = &gpb.Path{}
	for i, e := range ep {
		pe := &gpb.PathElem{Name: e.Name}
		if len(e.Keys) > 0 {
			s, ok := m.Structs[ep[:i+1].String()]
			if !ok {
				return nil, fmt.Errorf("HARNESS: no struct observed at %s", ep[:i+1])
			}
			if via == "entrykeys" || i < len(ep)-1 {
				k, err := ygot.PathKeyFromStruct(reflect.ValueOf(s))
				if err != nil {
					return nil, err
				}
				pe.Key = k
			} else {
				mk, err := l.p.MapKey(l.mapKeyType(), reflect.New(l.et.Elem()), l.keyNames, tuple)
				if err != nil {
					return nil, fmt.Errorf("HARNESS: map key: %v", err)
				}
				if mk.Kind() == reflect.Struct {
					k, err := ygot.PathKeyFromStruct(mk)
					if err != nil {
						return nil, err
					}
					pe.Key = k
				} else {
					ks, err := ygot.KeyValueAsString(mk.Interface())
					if err != nil {
						return nil, err
					}
					pe.Key = map[string]string{l.keyNames[0]: ks}
				}
			}
		}
		gp.Elem = append(gp.Elem, pe)
	}
	return gp, nil
}

func (l *c16List) mapKeyType() reflect.Type {
	// parent struct type -> field type
	st := l.p.RootType
	for _, s := range l.pre {
		f, _ := st.FieldByName(s.Field)
		t := f.Type
		switch core.KindOfField(t) {
		case core.FKeyedList, core.FOrderedList:
			st = c16EntryType(t).Elem()
		default:
			st = t.Elem()
		}
	}
	f, _ := st.FieldByName(l.field)
	if f.Type.Kind() == reflect.Map {
		return f.Type.Key()
	}
	m, _ := f.Type.MethodByName("Get")
	return m.Type.In(1)
}

func c16Get(p *core.Pkg, root ygot.GoStruct, gp *gpb.Path) (ns []*ytypes.TreeNode, err error) {
	defer recoverTo(&err)
	return ytypes.GetNode(p.Schema().RootSchema(), root, gp)
}

func withLeaf(gp *gpb.Path, names []string) *gpb.Path {
	out := proto.Clone(gp).(*gpb.Path)
	for _, n := range names {
		out.Elem = append(out.Elem, &gpb.PathElem{Name: n})
	}
	return out
}

// c16Eval evaluates one (list, key tuple): all sources x all operations. With solo the tree holds
// only the target entry (used to tell collisions with neighbours from plain failures).
func c16Eval(c *core.Ctx, l *c16List, tuple []core.Value, solo bool) []c16Fail {
	var fails []c16Fail
	p := l.p
	fail := func(clause, detail string) {
		fails = append(fails, c16Fail{clause: clause, detail: detail})
	}
	count := func(o string) {
		if c != nil {
			c.R.Outcome(o)
		}
	}
	soloT, err := l.build(tuple, l.leafV1(), true, false)
	if err != nil {
		fail("HARNESS-build", err.Error())
		return fails
	}
	soloM := p.Observe(soloT)
	tp := l.entryPath(tuple)
	if _, ok := soloM.Structs[tp.String()]; !ok || len(soloM.Bad) > 0 {
		fail("HARNESS-observe", fmt.Sprintf("built entry %s not observed (bad=%v; entries=%v)", tp, soloM.Bad, core.SortedKeys(soloM.Entries)))
		return fails
	}
	soloCanon := soloM.Canon()

	// --- sources
	var srcs []c16Src
	addPaths := func(name string, ns []*gpb.Notification, err error) {
		if err != nil {
			fail("render-error@"+name, fmt.Sprintf("%s of a tree holding only %s failed: %v", name, tp, err))
			return
		}
		ps := l.entryPathsIn(ns)
		if len(ps) == 0 {
			fail("no-path@"+name, fmt.Sprintf("%s produced no update path through %s; got %v", name, tp, ns))
			return
		}
		if len(ps) > 1 {
			count("source-renders-entry-in-several-forms@" + name)
		}
		for _, gp := range ps {
			srcs = append(srcs, c16Src{name, gp})
		}
	}
	ns, err := safeNotifs(func() ([]*gpb.Notification, error) {
		return ygot.TogNMINotifications(soloT, 1, ygot.GNMINotificationsConfig{UsePathElem: true})
	})
	addPaths("notif", ns, err)
	ns, err = safeNotifs(func() ([]*gpb.Notification, error) {
		n, err := ygot.Diff(p.NewRoot(), soloT)
		if err != nil {
			return nil, err
		}
		return []*gpb.Notification{n}, nil
	})
	addPaths("diff", ns, err)
	for _, via := range []string{"entrykeys", "mapkey"} {
		gp, err := l.keysVia(via, soloM, tuple)
		if err != nil {
			fail("render-error@"+via, fmt.Sprintf("key strings of %s via %s: %v", tp, via, err))
			continue
		}
		srcs = append(srcs, c16Src{via, gp})
	}
	// informational: is ygot's key string the canonical lexical form, and do the sources agree?
	forms := map[string]bool{}
	for _, s := range srcs {
		forms[pathStr(s.path)] = true
		last := s.path.Elem[len(s.path.Elem)-1]
		for i, kn := range l.keyNames {
			ks, ok := last.GetKey()[kn]
			switch {
			case !ok:
				fail("key-name-missing@"+s.name, fmt.Sprintf("path %s lacks key %q of %s", pathStr(s.path), kn, tp))
			case ks == core.RefKeyString(tuple[i]):
				count("keystring-canonical:" + strings.TrimPrefix(l.kinds[i], "ref>"))
			case core.KeyMatches(tuple[i], ks):
				count("keystring-noncanonical-but-denotes-key:" + strings.TrimPrefix(l.kinds[i], "ref>"))
				if c != nil {
					c.R.Note("noncanonical_example_"+strings.TrimPrefix(l.kinds[i], "ref>"), fmt.Sprintf("%s rendered as %q", tuple[i], ks))
				}
			default:
				count("keystring-other-form:" + strings.TrimPrefix(l.kinds[i], "ref>"))
			}
		}
		if len(last.GetKey()) != len(l.keyNames) {
			fail("key-count@"+s.name, fmt.Sprintf("path %s has %d keys, list has %d", pathStr(s.path), len(last.GetKey()), len(l.keyNames)))
		}
	}
	if len(forms) > 1 {
		count("sources-disagree-on-key-strings")
	}
	if len(fails) > 0 && len(srcs) == 0 {
		return fails
	}

	// expected models (independent of the source)
	var wantDel, wantSet string
	if t, err := l.build(tuple, l.leafV1(), solo, true); err == nil {
		wantDel = p.Observe(t).Canon()
	} else {
		fail("HARNESS-build", err.Error())
		return fails
	}
	if l.leaf != nil {
		if t, err := l.build(tuple, l.leaf.v2, solo, false); err == nil {
			wantSet = p.Observe(t).Canon()
		}
	}
	rs := p.Schema().RootSchema()
	judge := func(op, src, clause, detail string) {
		if l.unsupp != "" {
			count("ordered-keytype-not-documented(" + l.unsupp + "):" + op + ":fails")
			return
		}
		fail(clause+"@"+src, detail)
	}
	okay := func(op, src string) {
		if l.unsupp != "" {
			count("ordered-keytype-not-documented(" + l.unsupp + "):" + op + ":works")
			return
		}
		count("ok:" + op + "@" + src)
	}
	done := map[string]bool{}
	for _, s := range srcs {
		ps := pathStr(s.path)
		if done[s.name+ps] {
			continue
		}
		done[s.name+ps] = true
		if c != nil {
			c.R.Add("evaluations", 1)
		}
		// --- get + delete on tree A
		a, err := l.build(tuple, l.leafV1(), solo, false)
		if err != nil {
			fail("HARNESS-build", err.Error())
			return fails
		}
		ma := p.Observe(a)
		want := ma.Structs[tp.String()]
		nodes, err := c16Get(p, a, s.path)
		switch {
		case err != nil:
			judge("get", s.name, "get-error", fmt.Sprintf("GetNode(%s) on a tree holding %s: %v", ps, tp, err))
		case len(nodes) != 1:
			judge("get", s.name, "get-count", fmt.Sprintf("GetNode(%s) returned %d nodes, want exactly the entry %s", ps, len(nodes), tp))
		case nodes[0].Data != want:
			other := "?"
			for k, v := range ma.Structs {
				if v == nodes[0].Data {
					other = k
				}
			}
			judge("get", s.name, "get-wrong-entry", fmt.Sprintf("GetNode(%s) returned entry %s, want %s", ps, other, tp))
		default:
			okay("get", s.name)
		}
		// (a GetNode that modified the tree would show up as delete-wrong below: the expectation is built independently)
		err = safeErr(func() error { return ytypes.DeleteNode(rs, a, s.path) })
		if err != nil {
			judge("delete", s.name, "delete-error", fmt.Sprintf("DeleteNode(%s) on a tree holding %s: %v", ps, tp, err))
		} else if got := p.Observe(a).Canon(); got != wantDel {
			judge("delete", s.name, "delete-wrong", fmt.Sprintf("DeleteNode(%s) did not remove exactly %s: %s", ps, tp, core.DiffCanon(wantDel, got)))
		} else {
			okay("delete", s.name)
		}
		if l.leaf == nil {
			count("no-non-key-leaf:set-not-run")
			continue
		}
		// --- set on the existing entry (tree B)
		lp := withLeaf(s.path, l.leaf.names)
		b, err := l.build(tuple, l.leafV1(), solo, false)
		if err != nil {
			fail("HARNESS-build", err.Error())
			return fails
		}
		err = safeErr(func() error { return ytypes.SetNode(rs, b, lp, c16TypedValue(l.leaf.v2)) })
		if err != nil {
			judge("set", s.name, "set-error", fmt.Sprintf("SetNode(%s) on a tree holding %s: %v", pathStr(lp), tp, err))
		} else if got := p.Observe(b).Canon(); got != wantSet {
			judge("set", s.name, "set-wrong", fmt.Sprintf("SetNode(%s) did not update exactly the entry %s: %s", pathStr(lp), tp, core.DiffCanon(wantSet, got)))
		} else {
			okay("set", s.name)
		}
		// --- create on an empty root
		e := p.NewRoot()
		err = safeErr(func() error {
			return ytypes.SetNode(rs, e, lp, c16TypedValue(l.leaf.v1), &ytypes.InitMissingElements{})
		})
		if err != nil {
			judge("create", s.name, "create-error", fmt.Sprintf("SetNode(%s, InitMissingElements) on an empty root: %v", pathStr(lp), err))
			continue
		}
		me := p.Observe(e)
		if got := me.Canon(); got != soloCanon {
			d := core.DiffCanon(soloCanon, got)
			// a union key whose lexical form also fits another member type may legitimately resolve to that member
			if amb := l.unionAmbiguity(tuple, me); amb != "" {
				fails = append(fails, c16Fail{clause: "create-wrong@" + s.name, detail: d, excused: "excluded-union-lexical-form-fits-other-member:" + amb})
				continue
			}
			judge("create", s.name, "create-wrong", fmt.Sprintf("SetNode(%s, InitMissingElements) created an entry whose map key / key leaves differ from %s: %s", pathStr(lp), tp, d))
		} else {
			okay("create", s.name)
		}
	}
	return fails
}

func (l *c16List) leafV1() core.Value {
	if l.leaf == nil {
		return core.NoValue
	}
	return l.leaf.v1
}

// unionAmbiguity: the created tree has exactly one entry in the list whose key differs from the
// wanted tuple only in union-typed components that have the same lexical form.
func (l *c16List) unionAmbiguity(tuple []core.Value, got *core.Model) string {
	hasUnion := false
	for _, k := range l.kinds {
		if strings.HasSuffix(k, "union") {
			hasUnion = true
		}
	}
	if !hasUnion {
		return ""
	}
	depth := len(l.prefix)
	var found []core.Path
	for k := range got.Entries {
		gp := got.Paths[k]
		if len(gp) != depth || gp[depth-1].Name != l.prefix[depth-1].Name {
			continue
		}
		found = append(found, gp)
	}
	if len(found) != 1 || len(got.Bad) > 0 {
		return ""
	}
	want := c16KVs(l.keyNames, tuple)
	have := found[0][depth-1].Keys
	if len(want) != len(have) {
		return ""
	}
	res := ""
	for i := range want {
		if want[i].Name != have[i].Name {
			return ""
		}
		if want[i].Val == have[i].Val {
			continue
		}
		ki := -1
		for j, n := range l.keyNames {
			if n == want[i].Name {
				ki = j
			}
		}
		if ki < 0 || !strings.HasSuffix(l.kinds[ki], "union") || core.RefKeyString(want[i].Val) != core.RefKeyString(have[i].Val) {
			return ""
		}
		res = want[i].Val.Kind() + "->" + have[i].Val.Kind()
	}
	return res
}

// soloClauses evaluates the tuple alone in its list and returns the failing clauses (without source).
func (l *c16List) soloClauses(t []core.Value) map[string]bool {
	out := map[string]bool{}
	for _, f := range c16Eval(nil, l, t, true) {
		if f.excused == "" {
			out[clauseBase(f.clause)] = true
		}
	}
	return out
}

// baseClauses: the clauses that already fail for the simplest tuple of the list (cached).
func (l *c16List) baseClauses() map[string]bool {
	l.baseOnce.Do(func() { l.baseFail = l.soloClauses(l.nb[0]) })
	return l.baseFail
}

// sig names the kind of failure: clause (without the source, which is kept in the detail and the
// replay case), the list shape (ordered?, key kinds, wrapper unions) and the minimal cause:
//
//	+neighbours       the tuple alone in its list passes: another entry of the list is in the way
//	#simplest-value   already the simplest tuple of the domain fails this clause
//	#<classes>        value classes of the key components that are needed for the failure ("_" =
//	                  component can be replaced by the simplest value and the failure stays)
func (l *c16List) sig(clause string, tuple []core.Value) string {
	s := clause + ":" + l.shape()
	if l.p.Wrapper {
		for _, k := range l.kinds {
			if strings.HasSuffix(k, "union") {
				s += "(wrapper)"
				break
			}
		}
	}
	if strings.HasPrefix(clause, "HARNESS") {
		return s
	}
	if !l.soloClauses(tuple)[clause] {
		return s + "+neighbours"
	}
	base := l.nb[0]
	if l.baseClauses()[clause] {
		return s + "#simplest-value"
	}
	cur := append([]core.Value{}, tuple...)
	if len(cur) > 1 {
		for i := range cur {
			if cur[i] == base[i] {
				continue
			}
			cand := append([]core.Value{}, cur...)
			cand[i] = base[i]
			if l.soloClauses(cand)[clause] {
				cur = cand
			}
		}
	}
	var cls []string
	for i, v := range cur {
		if len(cur) > 1 && v == base[i] {
			cls = append(cls, "_")
		} else {
			cls = append(cls, c16Class(v))
		}
	}
	return s + "#" + strings.Join(cls, ",")
}

func c16AllPackages() []*core.Pkg {
	return append(core.Packages(), core.AuxPackages("vk")...)
}

func runC16(c *core.Ctx) {
	c.Level = "exploration"
	c.Rule = "every keyed list (unordered and ordered-by-user, nested ones below a fixed parent entry) of the 8 corpus packages and of the auxiliary key corpus vk (simple and wrapper unions) x every key tuple (single key: every value of the per-type domain; several keys: full product when <= 64 tuples (thorough: <= 2500), else the star cover: every value of every key with the others at their 1st domain value (thorough: and 2nd; quick: 2nd for the first 6 values), plus adversarial string pairs) x every key-string source (TogNMINotifications, Diff(empty,t), PathKeyFromStruct(entry), KeyValueAsString/ΛListKeyMap(map key)) x {GetNode, DeleteNode, SetNode on the existing entry} on a tree that holds the entry among all its neighbour tuples, and SetNode(InitMissingElements) on an empty root; results compared through the reference Model (map key, key leaves, every other leaf and entry). Non-trivial = (package, list, tuple) for which at least one source path was obtained and fed back"
	c.R.Assume("builder/observer and core.ToGo/FromGo correct; key domains are boundary / metacharacter sets per type, complete for boolean, enumeration, identityref")
	c.R.Assume("path structs as a key-string source are covered by C29; paths are passed as gpb.Path structures (the string form is C08)")
	type job struct {
		l *c16List
		t []core.Value
	}
	var jobs []job
	pkgs := c16AllPackages()
	if len(core.AuxPackages("vk")) == 0 {
		c.R.Note("key_corpus", "auxiliary key corpus vk not built in: integer widths other than 8/32/64 and ordered lists keyed by enum/bool/int64/decimal64/union are NOT covered")
	}
	kindsSeen := map[string]int{}
	for _, p := range pkgs {
		ls := c16Lists(c, p, c.Thorough())
		var ids []string
		for _, l := range ls {
			ids = append(ids, fmt.Sprintf("%s %s tuples=%d neighbours=%d", l.id, l.shape(), len(l.tuples), len(l.nb)))
			kindsSeen[l.shape()]++
			for _, t := range l.tuples {
				jobs = append(jobs, job{l, t})
			}
			c.R.Add("lists", 1)
			if l.leaf == nil {
				c.R.Add("lists_without_usable_non_key_leaf", 1)
				c.R.Note("no_leaf_"+p.Name+l.id, "set/create not run: no plain string, unsigned, enumeration or string-union leaf besides the keys")
			}
			if l.unsupp != "" {
				c.R.Add("lists_ordered_keytype_not_documented", 1)
			}
		}
		c.R.Note("lists_"+p.Name, ids)
	}
	c.R.Note("list_shapes", kindsSeen)
	c.R.Add("tuples", int64(len(jobs)))
	var tmu sync.Mutex
	spent := map[string]time.Duration{}
	defer func() {
		type kv struct {
			k string
			d time.Duration
		}
		var all []kv
		for k, d := range spent {
			all = append(all, kv{k, d})
		}
		sort.Slice(all, func(i, j int) bool { return all[i].d > all[j].d })
		var top []string
		for i := 0; i < len(all) && i < 6; i++ {
			top = append(top, fmt.Sprintf("%s %.1fs", all[i].k, all[i].d.Seconds()))
		}
		c.R.Note("cpu_top_lists", top)
	}()
	core.ParallelFor(len(jobs), func(i int) {
		if c.Expired() {
			return
		}
		j := jobs[i]
		t0 := time.Now()
		defer func() {
			tmu.Lock()
			spent[j.l.p.Name+j.l.id] += time.Since(t0)
			tmu.Unlock()
		}()
		fails := c16Eval(c, j.l, j.t, false)
		c.R.Add("cases", 1)
		harness := false
		for _, f := range fails {
			if strings.HasPrefix(f.clause, "HARNESS") {
				harness = true
			}
		}
		if !harness {
			c.R.NonTrivial(j.l.p.Name + j.l.id + fmt.Sprint(j.t))
		}
		if i%97 == 0 {
			c.R.Sample(map[string]interface{}{"pkg": j.l.p.Name, "list": j.l.id, "shape": j.l.shape(), "tuple": j.t, "failures": len(fails)})
		}
		if len(fails) == 0 {
			return
		}
		seen := map[string]bool{}
		for _, f := range fails {
			if f.excused != "" {
				c.R.Outcome(f.excused)
				continue
			}
			cl := clauseBase(f.clause)
			c.R.Outcome("violation:" + cl)
			if seen[cl] {
				continue // one violation per clause and case; the first failing source is recorded
			}
			seen[cl] = true
			c.R.Violation(j.l.sig(cl, j.t), "["+f.clause+"] "+f.detail, c16Case{Pkg: j.l.p.Name, List: j.l.id, Tuple: j.t, Clause: cl})
		}
	})
}

func clauseBase(cl string) string {
	if i := strings.Index(cl, "@"); i >= 0 {
		return cl[:i]
	}
	return cl
}

func replayC16(c *core.Ctx, raw []byte) (bool, string) {
	var cs c16Case
	if err := json.Unmarshal(raw, &cs); err != nil {
		return false, err.Error()
	}
	p := core.AnyPkgByName(cs.Pkg)
	if p == nil {
		return false, "unknown package " + cs.Pkg
	}
	for _, l := range c16Lists(nil, p, c.Thorough()) {
		if l.id != cs.List {
			continue
		}
		if len(cs.Tuple) != len(l.keyNames) {
			return false, "tuple arity"
		}
		for _, f := range c16Eval(nil, l, cs.Tuple, cs.Solo) {
			if clauseBase(f.clause) == clauseBase(cs.Clause) && f.excused == "" {
				return true, f.clause + ": " + f.detail
			}
		}
		return false, "no failure of clause " + cs.Clause
	}
	return false, "unknown list " + cs.List
}
