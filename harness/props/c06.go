package props

// C06 — Scalar restriction checks match YANG value-space semantics.
//
// Bounded-exhaustive comparison of the exported restriction validators of ytypes
// (Validate{Int,Uint,Decimal,String,Binary}Restrictions, which rely on util.SanitizedPattern) with an
// independent reading of the restriction: exact rational arithmetic for range / length expressions
// (parsed here from the YANG text) and core/refregex.go for patterns. The yang.YangType handed to ygot
// is produced by goyang from a generated YANG module, i.e. it is exactly what ygot would see in a
// compiled schema.

import (
	"encoding/hex"
	"encoding/json"
	"fmt"
	"math/big"
	"regexp"
	"sort"
	"strconv"
	"strings"
	"sync/atomic"
	"unicode"
	"unicode/utf8"

	"github.com/openconfig/goyang/pkg/yang"
	"github.com/openconfig/ygot/util"
	"github.com/openconfig/ygot/ytypes"
	"github.com/openconfig/ygot/zzverif/core"
)

func init() { core.RegisterProp(&core.Prop{ID: "C06", Run: runC06, Replay: replayC06}) }

// c06Case is one (restriction, value) pair; without Value it is the restriction ("spec") of a group.
type c06Case struct {
	Kind     string   `json:"kind"` // int8..uint64, decimal64, string, binary
	FD       int      `json:"fraction_digits,omitempty"`
	Range    string   `json:"range,omitempty"`
	Length   string   `json:"length,omitempty"`
	Patterns []string `json:"patterns,omitempty"`
	Posix    bool     `json:"posix,omitempty"`
	Value    string   `json:"value"` // numbers: decimal text; string: the value; binary: hex
}

func (s c06Case) key() string {
	return fmt.Sprintf("%s/%d r=%s l=%s p=%q posix=%v", s.Kind, s.FD, s.Range, s.Length, s.Patterns, s.Posix)
}

// ---------------------------------------------------------------------------------------------
// Building the yang.YangType through goyang.

const c06ExtModule = `module openconfig-extensions {
  namespace "http://openconfig.net/yang/openconfig-ext";
  prefix oc-ext;
  extension posix-pattern { argument "pattern"; }
}`

func c06LeafText(i int, s c06Case) (string, error) {
	var b strings.Builder
	fmt.Fprintf(&b, "  leaf l%d { type %s", i, s.Kind)
	var body []string
	if s.Kind == "decimal64" {
		body = append(body, fmt.Sprintf("fraction-digits %d;", s.FD))
	}
	if s.Range != "" {
		body = append(body, fmt.Sprintf("range %q;", s.Range))
	}
	if s.Length != "" {
		body = append(body, fmt.Sprintf("length %q;", s.Length))
	}
	for _, p := range s.Patterns {
		if strings.ContainsAny(p, "'\n\r") {
			return "", fmt.Errorf("pattern %q cannot be written as a single-quoted YANG string", p)
		}
		if s.Posix {
			body = append(body, fmt.Sprintf("oc-ext:posix-pattern '%s';", p))
		} else {
			body = append(body, fmt.Sprintf("pattern '%s';", p))
		}
	}
	if len(body) == 0 {
		b.WriteString("; }\n")
	} else {
		b.WriteString(" { " + strings.Join(body, " ") + " } }\n")
	}
	return b.String(), nil
}

// c06ParseModule compiles the specs as the leaves of one module and returns their resolved types.
func c06ParseModule(specs []c06Case) (out []*yang.YangType, err error) {
	defer recoverTo(&err)
	var b strings.Builder
	b.WriteString("module c06m {\n  namespace \"urn:c06m\";\n  prefix m;\n  import openconfig-extensions { prefix oc-ext; }\n")
	for i, s := range specs {
		t, err := c06LeafText(i, s)
		if err != nil {
			return nil, err
		}
		b.WriteString(t)
	}
	b.WriteString("}\n")
	ms := yang.NewModules()
	if err := ms.Parse(c06ExtModule, "openconfig-extensions.yang"); err != nil {
		return nil, err
	}
	if err := ms.Parse(b.String(), "c06m.yang"); err != nil {
		return nil, err
	}
	if errs := ms.Process(); len(errs) > 0 {
		return nil, fmt.Errorf("goyang: %v", errs[0])
	}
	e := yang.ToEntry(ms.Modules["c06m"])
	if errs := e.GetErrors(); len(errs) > 0 {
		return nil, fmt.Errorf("goyang: %v", errs[0])
	}
	out = make([]*yang.YangType, len(specs))
	for i := range specs {
		le := e.Dir[fmt.Sprintf("l%d", i)]
		if le == nil || le.Type == nil {
			return nil, fmt.Errorf("leaf l%d has no type", i)
		}
		out[i] = le.Type
	}
	return out, nil
}

// c06BuildTypes resolves all specs (in parallel chunks). A spec goyang rejects gets a nil type and its
// error text in errs.
func c06BuildTypes(specs []c06Case) (types []*yang.YangType, errs []string) {
	types = make([]*yang.YangType, len(specs))
	errs = make([]string, len(specs))
	const chunk = 256
	n := (len(specs) + chunk - 1) / chunk
	core.ParallelFor(n, func(ci int) {
		lo, hi := ci*chunk, (ci+1)*chunk
		if hi > len(specs) {
			hi = len(specs)
		}
		ts, err := c06ParseModule(specs[lo:hi])
		if err == nil {
			copy(types[lo:hi], ts)
			return
		}
		for i := lo; i < hi; i++ { // locate the offending spec(s)
			ts, err := c06ParseModule(specs[i : i+1])
			if err != nil {
				errs[i] = err.Error()
				continue
			}
			types[i] = ts[0]
		}
	})
	return types, errs
}

// ---------------------------------------------------------------------------------------------
// Reference reading of a restriction.

type c06Part struct {
	lo, hi   *big.Rat
	ilo, ihi *big.Int // set when both bounds are integers
}

type c06Ref struct {
	spec         c06Case
	class        string // int, uint, dec, string, binary
	tmin, tmax   *big.Rat
	itmin, itmax *big.Int
	quantum      *big.Rat
	rparts       []c06Part // range parts (numbers); nil = unrestricted
	lparts       []c06Part // length parts; nil = unrestricted
	progs        []*core.RxProg
	progsLit     []*core.RxProg // literal reading of ^ and $ (XSD proper); nil when identical
	crossN       int64          // (pattern, value) pairs on which the two refregex evaluators were compared
}

var c06Two = big.NewInt(2)

func c06Pow2(n int) *big.Rat {
	return new(big.Rat).SetInt(new(big.Int).Exp(c06Two, big.NewInt(int64(n)), nil))
}
func c06Pow10(n int) *big.Rat {
	return new(big.Rat).SetInt(new(big.Int).Exp(big.NewInt(10), big.NewInt(int64(n)), nil))
}
func ratInt(i int64) *big.Rat       { return new(big.Rat).SetInt64(i) }
func ratSub(a, b *big.Rat) *big.Rat { return new(big.Rat).Sub(a, b) }
func ratAdd(a, b *big.Rat) *big.Rat { return new(big.Rat).Add(a, b) }

// c06TypeBounds returns the value space bounds of the base type.
func c06TypeBounds(kind string, fd int) (class string, tmin, tmax, quantum *big.Rat, err error) {
	one := ratInt(1)
	switch kind {
	case "int8", "int16", "int32", "int64":
		bits, _ := strconv.Atoi(kind[3:])
		return "int", new(big.Rat).Neg(c06Pow2(bits - 1)), ratSub(c06Pow2(bits-1), one), one, nil
	case "uint8", "uint16", "uint32", "uint64":
		bits, _ := strconv.Atoi(kind[4:])
		return "uint", ratInt(0), ratSub(c06Pow2(bits), one), one, nil
	case "decimal64":
		if fd < 1 || fd > 18 {
			return "", nil, nil, nil, fmt.Errorf("bad fraction-digits %d", fd)
		}
		q := new(big.Rat).Inv(c06Pow10(fd))
		lo := new(big.Rat).Mul(new(big.Rat).Neg(c06Pow2(63)), q)
		hi := new(big.Rat).Mul(ratSub(c06Pow2(63), one), q)
		return "dec", lo, hi, q, nil
	case "string", "binary":
		return kind, ratInt(0), ratSub(c06Pow2(64), one), one, nil
	}
	return "", nil, nil, nil, fmt.Errorf("unknown kind %q", kind)
}

// c06ParseParts reads a YANG range / length expression: part ("|" part)*, part = bound [".." bound],
// bound = "min" | "max" | decimal number.
func c06ParseParts(expr string, tmin, tmax *big.Rat) ([]c06Part, error) {
	if strings.TrimSpace(expr) == "" {
		return nil, nil
	}
	bound := func(s string) (*big.Rat, error) {
		s = strings.TrimSpace(s)
		switch s {
		case "min":
			return tmin, nil
		case "max":
			return tmax, nil
		}
		r, ok := new(big.Rat).SetString(s)
		if !ok || strings.ContainsAny(s, "/eE") {
			return nil, fmt.Errorf("bad bound %q", s)
		}
		return r, nil
	}
	var out []c06Part
	for _, ps := range strings.Split(expr, "|") {
		bs := strings.Split(ps, "..")
		if len(bs) > 2 {
			return nil, fmt.Errorf("bad part %q", ps)
		}
		lo, err := bound(bs[0])
		if err != nil {
			return nil, err
		}
		hi := lo
		if len(bs) == 2 {
			if hi, err = bound(bs[1]); err != nil {
				return nil, err
			}
		}
		if hi.Cmp(lo) < 0 {
			return nil, fmt.Errorf("part %q is empty", ps)
		}
		if n := len(out); n > 0 && lo.Cmp(out[n-1].hi) <= 0 {
			return nil, fmt.Errorf("parts of %q are not ascending and disjoint", expr)
		}
		pt := c06Part{lo: lo, hi: hi}
		if lo.IsInt() && hi.IsInt() {
			pt.ilo, pt.ihi = lo.Num(), hi.Num()
		}
		out = append(out, pt)
	}
	return out, nil
}

func c06InIntParts(parts []c06Part, v *big.Int) bool {
	if parts == nil {
		return true
	}
	for _, p := range parts {
		if p.ilo.Cmp(v) <= 0 && v.Cmp(p.ihi) <= 0 {
			return true
		}
	}
	return false
}

func c06InParts(parts []c06Part, v *big.Rat) bool {
	if parts == nil {
		return true
	}
	for _, p := range parts {
		if p.lo.Cmp(v) <= 0 && v.Cmp(p.hi) <= 0 {
			return true
		}
	}
	return false
}

func newC06Ref(s c06Case) (*c06Ref, error) {
	r := &c06Ref{spec: s}
	var err error
	if r.class, r.tmin, r.tmax, r.quantum, err = c06TypeBounds(s.Kind, s.FD); err != nil {
		return nil, err
	}
	if r.class != "dec" {
		r.itmin, r.itmax = r.tmin.Num(), r.tmax.Num()
	}
	switch r.class {
	case "int", "uint", "dec":
		if s.Length != "" || len(s.Patterns) > 0 {
			return nil, fmt.Errorf("length/pattern on a number")
		}
		if r.rparts, err = c06ParseParts(s.Range, r.tmin, r.tmax); err != nil {
			return nil, err
		}
	default:
		if s.Range != "" || (r.class == "binary" && len(s.Patterns) > 0) {
			return nil, fmt.Errorf("range on string/binary or pattern on binary")
		}
		if r.lparts, err = c06ParseParts(s.Length, r.tmin, r.tmax); err != nil {
			return nil, err
		}
		anchored := false
		for _, p := range s.Patterns {
			mode := core.RxXSD
			if s.Posix {
				mode = core.RxPOSIX
			}
			pg, err := core.ParseRx(p, mode)
			if err != nil {
				return nil, err
			}
			r.progs = append(r.progs, pg)
			if !s.Posix && (strings.HasPrefix(p, "^") || strings.HasSuffix(p, "$")) {
				anchored = true
			}
		}
		if anchored {
			for _, p := range s.Patterns {
				pg, err := core.ParseRx(p, core.RxXSDLiteral)
				if err != nil {
					return nil, err
				}
				r.progsLit = append(r.progsLit, pg)
			}
		}
	}
	return r, nil
}

// c06Val is one value of a domain, prepared once.
type c06Val struct {
	Text   string
	rat    *big.Rat // numeric meaning (numbers), or nil
	bi     *big.Int // the same for integers
	runes  []rune   // strings
	i64    int64
	u64    uint64
	f      float64
	b      []byte
	judged bool // false: the float64 does not denote the decimal text (decimal64 only)
}

func c06NumVal(class, text string) (*c06Val, error) {
	v := &c06Val{Text: text, judged: true}
	r, ok := new(big.Rat).SetString(text)
	if !ok {
		return nil, fmt.Errorf("bad number %q", text)
	}
	v.rat = r
	switch class {
	case "int":
		if !r.IsInt() || !r.Num().IsInt64() {
			return nil, fmt.Errorf("%q is not an int64", text)
		}
		v.i64, v.bi = r.Num().Int64(), r.Num()
	case "uint":
		if !r.IsInt() || !r.Num().IsUint64() {
			return nil, fmt.Errorf("%q is not a uint64", text)
		}
		v.u64, v.bi = r.Num().Uint64(), r.Num()
	case "dec":
		f, err := strconv.ParseFloat(text, 64)
		if err != nil {
			return nil, err
		}
		v.f = f
		// decimal meaning of the float64: the shortest decimal string that round-trips it.
		m, ok := new(big.Rat).SetString(strconv.FormatFloat(f, 'f', -1, 64))
		if !ok {
			return nil, fmt.Errorf("cannot read back %v", f)
		}
		v.judged = m.Cmp(r) == 0
		v.rat = m
	}
	return v, nil
}

func c06StrVal(s string) *c06Val { return &c06Val{Text: s, runes: []rune(s), judged: true} }

// c06Domain is the list of values a restriction is evaluated on. When the values are all strings of up
// to n symbols over an alphabet (generated by c06Strings), parent/last describe the prefix tree, which
// lets the derivative evaluator take one step per value.
type c06Domain struct {
	vals   []*c06Val
	parent []int
	last   []rune
}

func c06BinVal(b []byte) *c06Val { return &c06Val{Text: hex.EncodeToString(b), b: b, judged: true} }

func (r *c06Ref) valueOf(text string) (*c06Val, error) {
	switch r.class {
	case "int", "uint", "dec":
		return c06NumVal(r.class, text)
	case "binary":
		b, err := hex.DecodeString(text)
		if err != nil {
			return nil, err
		}
		return c06BinVal(b), nil
	}
	return c06StrVal(text), nil
}

// verdicts returns, for every value of dom, the reference verdict and, for XSD patterns carrying ^ / $,
// the verdict under the literal reading of those characters (which is tolerated); refDisagree reports a
// disagreement of the two reference evaluators (a harness defect, reported loudly).
func (r *c06Ref) verdicts(dom *c06Domain) (want, alt []bool, refDisagree string) {
	n := len(dom.vals)
	want = make([]bool, n)
	switch r.class {
	case "int", "uint":
		for i, v := range dom.vals {
			want[i] = r.itmin.Cmp(v.bi) <= 0 && v.bi.Cmp(r.itmax) <= 0 && c06InIntParts(r.rparts, v.bi)
		}
		return want, want, ""
	case "dec":
		for i, v := range dom.vals {
			want[i] = r.tmin.Cmp(v.rat) <= 0 && v.rat.Cmp(r.tmax) <= 0 && c06InParts(r.rparts, v.rat)
		}
		return want, want, ""
	case "binary":
		for i, v := range dom.vals {
			want[i] = c06InIntParts(r.lparts, big.NewInt(int64(len(v.b))))
		}
		return want, want, ""
	}
	for i, v := range dom.vals {
		want[i] = c06InIntParts(r.lparts, big.NewInt(int64(len(v.runes))))
	}
	alt = want
	if r.progsLit != nil {
		alt = append([]bool(nil), want...)
	}
	// one pattern at a time: end-position evaluator, cross-checked by the derivative evaluator
	eval := func(pg *core.RxProg, acc []bool) {
		var states []core.RxState
		if pg.Mode != core.RxPOSIX && dom.parent != nil {
			states = make([]core.RxState, n)
		}
		for i, v := range dom.vals {
			m := pg.MatchRunes(v.runes)
			if pg.Mode != core.RxPOSIX {
				var d bool
				if states != nil {
					if dom.parent[i] < 0 {
						states[i] = pg.Start()
					} else {
						states[i] = states[dom.parent[i]].Step(dom.last[i])
					}
					d = states[i].Accepting()
				} else {
					d = pg.MatchDerivative(v.Text)
				}
				r.crossN++
				if d != m {
					refDisagree = fmt.Sprintf("refregex evaluators disagree on pattern %q (mode %d) value %q: positions=%v derivatives=%v", pg.Src, pg.Mode, v.Text, m, d)
				}
			}
			acc[i] = acc[i] && m
		}
	}
	for i, pg := range r.progs {
		eval(pg, want)
		if r.progsLit != nil {
			eval(r.progsLit[i], alt)
		}
	}
	return want, alt, refDisagree
}

func (r *c06Ref) want(v *c06Val) (want, alt bool, refDisagree string) {
	w, a, d := r.verdicts(&c06Domain{vals: []*c06Val{v}})
	return w[0], a[0], d
}

// c06Call runs the function under test.
func c06Call(class string, t *yang.YangType, v *c06Val) (accepted bool, verr, panicked error) {
	defer recoverTo(&panicked)
	switch class {
	case "int":
		verr = ytypes.ValidateIntRestrictions(t, v.i64)
	case "uint":
		verr = ytypes.ValidateUintRestrictions(t, v.u64)
	case "dec":
		verr = ytypes.ValidateDecimalRestrictions(t, v.f)
	case "binary":
		verr = ytypes.ValidateBinaryRestrictions(t, v.b)
	default:
		verr = ytypes.ValidateStringRestrictions(t, v.Text)
	}
	return verr == nil, verr, nil
}

// c06Compile reports whether the sanitised patterns of t compile (the reason for "every value fails").
func c06Compile(t *yang.YangType) (bad int, err error) {
	bad = -1
	defer recoverTo(&err)
	pats, posix := util.SanitizedPattern(t)
	want := len(t.Pattern)
	if len(t.POSIXPattern) > 0 {
		want = len(t.POSIXPattern)
		if !posix {
			return -1, fmt.Errorf("SanitizedPattern does not report POSIX for a type with posix-pattern")
		}
	} else if posix {
		return -1, fmt.Errorf("SanitizedPattern reports POSIX for a type without posix-pattern")
	}
	if len(pats) != want {
		return -1, fmt.Errorf("SanitizedPattern returned %d patterns for %d pattern statements", len(pats), want)
	}
	for i, p := range pats {
		if posix {
			_, err = regexp.CompilePOSIX(p)
		} else {
			_, err = regexp.Compile(p)
		}
		if err != nil {
			return i, fmt.Errorf("sanitised pattern %q does not compile: %v", p, err)
		}
	}
	return -1, nil
}

// c06Judge evaluates one value; clause "" = agreement.
func c06Judge(r *c06Ref, t *yang.YangType, v *c06Val) (clause, detail string, got, want bool) {
	want, alt, dis := r.want(v)
	return c06JudgeWith(r, t, v, want, alt, dis)
}

func c06JudgeWith(r *c06Ref, t *yang.YangType, v *c06Val, want, alt bool, dis string) (clause, detail string, got, _ bool) {
	got, verr, panicked := c06Call(r.class, t, v)
	switch {
	case dis != "":
		return "reference-disagreement", dis, got, want
	case panicked != nil:
		return "panic", fmt.Sprintf("%s value %q: %v", r.spec.key(), v.Text, panicked), got, want
	case !v.judged:
		return "", "", got, want
	case got == want || got == alt:
		return "", "", got, want
	case got:
		return "accepts-nonmember", fmt.Sprintf("%s: value %q is outside the restricted value space but accepted", r.spec.key(), v.Text), got, want
	}
	return "rejects-member", fmt.Sprintf("%s: value %q is inside the restricted value space but rejected: %v", r.spec.key(), v.Text, verr), got, want
}

// ---------------------------------------------------------------------------------------------
// Signatures: "<clause>:<shape of the restriction>:<position of the value>".

// c06EscDiffers reports whether value holds a character on which the XSD meaning of the class escape
// \<e> differs from Go's (ASCII-only \d \w, \s with form feed).
func c06EscDiffers(e byte, value string) bool {
	for _, c := range value {
		switch e {
		case 'd', 'D':
			if c > 0x7f && unicode.Is(unicode.Nd, c) {
				return true
			}
		case 's', 'S':
			if c == '\f' || c == '\v' {
				return true
			}
		case 'w', 'W':
			if c == '_' || (c > 0x7f && !(unicode.IsPunct(c) || unicode.In(c, unicode.Z, unicode.C))) {
				return true
			}
		}
	}
	return false
}

// c06PatFeatures abstracts a pattern to the features the sanitiser is sensitive to. A class escape is
// listed only when the failing value holds a character on which XSD and Go read that escape differently.
func c06PatFeatures(p string, posix bool, value string) string {
	var fs []string
	if p == "" {
		fs = append(fs, "empty")
	}
	if strings.HasPrefix(p, "^") {
		fs = append(fs, "^")
	}
	mode := core.RxXSD
	if posix {
		mode = core.RxPOSIX
	}
	if pg, err := core.ParseRx(p, mode); err == nil && pg.TopAlt() {
		fs = append(fs, "alt")
	}
	if strings.HasSuffix(p, "$") {
		bs := 0
		for i := len(p) - 2; i >= 0 && p[i] == '\\'; i-- {
			bs++
		}
		if bs%2 == 0 {
			fs = append(fs, "$")
		} else {
			fs = append(fs, "esc$-last")
		}
	}
	for _, e := range []byte("dDwWsS") {
		if !posix && strings.Contains(p, `\`+string(e)) && c06EscDiffers(e, value) {
			fs = append(fs, `\`+string(e))
		}
	}
	if r, _ := utf8.DecodeLastRuneInString(p); p != "" && r >= 0x80 {
		fs = append(fs, "mb-last")
	}
	kind := "xsd"
	if posix {
		kind = "posix"
	}
	return kind + "{" + strings.Join(fs, ",") + "}"
}

// c06FromFloatKind classifies what goyang's FromFloat (used by ValidateDecimalRestrictions) makes of the
// float64: "exact" (the Number denotes the decimal meaning of the float), "clamped" (beyond the widest
// decimal64), "overflow19" (19 fraction digits, which Number.Less cannot compare), "inexact" (the
// repeated binary multiplication by ten drifted away from the decimal meaning).
func c06FromFloatKind(v *c06Val) (kind string) {
	defer func() {
		if recover() != nil {
			kind = "panic"
		}
	}()
	if v.f > yang.MaxDecimal64 || v.f < yang.MinDecimal64 {
		return "clamped"
	}
	n := yang.FromFloat(v.f)
	if n.FractionDigits > 18 {
		return "overflow19"
	}
	x := new(big.Rat).SetFrac(new(big.Int).SetUint64(n.Value), c06Pow10(int(n.FractionDigits)).Num())
	if n.Negative {
		x.Neg(x)
	}
	if x.Cmp(v.rat) != 0 {
		return "inexact"
	}
	return "exact"
}

func (r *c06Ref) position(v *big.Rat) string {
	if v.Cmp(r.tmin) < 0 || v.Cmp(r.tmax) > 0 {
		return "out-of-type"
	}
	edges := []*big.Rat{r.tmin, r.tmax}
	parts := r.rparts
	if r.class == "string" || r.class == "binary" {
		parts = r.lparts
	}
	for _, p := range parts {
		edges = append(edges, p.lo, p.hi)
	}
	near := false
	for _, e := range edges {
		d := ratSub(v, e)
		d.Abs(d)
		if d.Sign() == 0 {
			return "edge"
		}
		if d.Cmp(r.quantum) == 0 {
			near = true
		}
	}
	if near {
		return "edge±1"
	}
	return "far"
}

// c06Sig computes the signature of a mismatch, reducing a composite string restriction to the part that
// shows the mismatch on its own where possible.
func c06Sig(clause string, r *c06Ref, t *yang.YangType, v *c06Val) string {
	s := r.spec
	switch r.class {
	case "int", "uint":
		return fmt.Sprintf("range-%s:%s:%s", clause, s.Kind, r.position(v.rat))
	case "dec":
		// name the cause when it lies in the float64 -> yang.Number conversion ygot relies on (diagnosis only;
		// the verdict above does not depend on it)
		if conv := c06FromFloatKind(v); conv != "exact" {
			return fmt.Sprintf("range-%s:decimal64:fromfloat-%s", clause, conv)
		}
		return fmt.Sprintf("range-%s:decimal64/fd%d:%s", clause, s.FD, r.position(v.rat))
	case "binary":
		return fmt.Sprintf("length-%s:binary:%s", clause, r.position(ratInt(int64(len(v.b)))))
	}
	lenSig := func() string {
		w := "ascii"
		if len(v.Text) != utf8.RuneCountInString(v.Text) {
			w = "mb"
		}
		return fmt.Sprintf("length-%s:string{%s}:%s", clause, w, r.position(ratInt(int64(utf8.RuneCountInString(v.Text)))))
	}
	suffix := ""
	if strings.ContainsAny(v.Text, "\n\r") {
		suffix = ":nl"
	}
	if len(s.Patterns) == 0 {
		return lenSig()
	}
	same := func(s2 c06Case, t2 *yang.YangType) bool {
		r2, err := newC06Ref(s2)
		if err != nil {
			return false
		}
		cl, _, _, _ := c06Judge(r2, t2, v)
		return cl == clause
	}
	if s.Length != "" {
		s2, t2 := s, *t
		s2.Patterns, t2.Pattern, t2.POSIXPattern = nil, nil, nil
		if same(s2, &t2) {
			return lenSig()
		}
	}
	if s.Length != "" || len(s.Patterns) > 1 {
		for _, p := range s.Patterns {
			s2, t2 := s, *t
			s2.Length, t2.Length = "", nil
			s2.Patterns = []string{p}
			if s.Posix {
				t2.POSIXPattern = []string{p}
			} else {
				t2.Pattern = []string{p}
			}
			if same(s2, &t2) {
				return fmt.Sprintf("pattern-%s:%s%s", clause, c06PatFeatures(p, s.Posix, v.Text), suffix)
			}
		}
	}
	var fs []string
	for _, p := range s.Patterns {
		fs = append(fs, c06PatFeatures(p, s.Posix, v.Text))
	}
	pre := "pattern"
	if s.Length != "" {
		pre = "length+pattern"
	}
	return fmt.Sprintf("%s-%s:%s%s", pre, clause, strings.Join(fs, "&"), suffix)
}

// ---------------------------------------------------------------------------------------------
// Groups: one restriction with its domain of values.

type c06Group struct {
	spec   c06Case
	domain *c06Domain
}

type c06Finding struct {
	sig, detail string
	cs          c06Case
	n           int
}

type c06Stats struct {
	evals, agreeAccept, agreeReject, unjudged, tolerated, crosschecks int64
	discriminates                                                     bool
	toleratedExample                                                  string
}

func c06RunGroup(g *c06Group, t *yang.YangType) (fs []c06Finding, st c06Stats, err error) {
	r, err := newC06Ref(g.spec)
	if err != nil {
		return nil, st, err
	}
	found := map[string]*c06Finding{}
	var order []string
	add := func(sig, detail string, v *c06Val) {
		f := found[sig]
		if f == nil {
			cs := g.spec
			cs.Value = v.Text
			f = &c06Finding{sig: sig, detail: detail, cs: cs}
			found[sig] = f
			order = append(order, sig)
		}
		f.n++
	}
	defer func() {
		for _, s := range order {
			fs = append(fs, *found[s])
		}
	}()
	vals := g.domain.vals
	wants, alts, dis := r.verdicts(g.domain)
	nWant := 0
	for i, w := range wants {
		if w && vals[i].judged {
			nWant++
		}
	}
	st.discriminates = nWant > 0 && nWant < len(vals)
	st.crosschecks = r.crossN
	// clause "a pattern that compiles in the schema never makes every value fail"
	var cerr error
	bad := -1
	if len(g.spec.Patterns) > 0 {
		bad, cerr = c06Compile(t)
	}
	nGot := 0
	type mm struct {
		detail string
		v      *c06Val
	}
	var rejMember []mm
	for i, v := range vals {
		clause, detail, got, _ := c06JudgeWith(r, t, v, wants[i], alts[i], dis)
		st.evals++
		if got {
			nGot++
		}
		if !v.judged {
			st.unjudged++
		}
		switch clause {
		case "":
			switch {
			case !v.judged:
			case got != wants[i]:
				st.tolerated++
				if st.toleratedExample == "" {
					st.toleratedExample = fmt.Sprintf("pattern %q value %q: accepted=%v (anchor reading %v, literal reading %v)", g.spec.Patterns, v.Text, got, wants[i], alts[i])
				}
			case got:
				st.agreeAccept++
			default:
				st.agreeReject++
			}
		case "rejects-member":
			rejMember = append(rejMember, mm{detail, v})
		case "accepts-nonmember":
			add(c06Sig(clause, r, t, v), detail, v)
		default: // panic, reference-disagreement
			add(clause+":"+g.spec.Kind, detail, v)
		}
	}
	switch {
	case cerr != nil:
		// every value fails (or SanitizedPattern is inconsistent); the replay value is one the reference accepts, if any.
		pick := vals[0]
		if len(rejMember) > 0 {
			pick = rejMember[0].v
		}
		var fts []string
		for i, p := range g.spec.Patterns {
			if bad < 0 || i == bad { // name the pattern that does not compile
				fts = append(fts, c06PatFeatures(p, g.spec.Posix, ""))
			}
		}
		add("sanitized-uncompilable:"+strings.Join(fts, "&"), fmt.Sprintf("%s: %v — %d of the %d values of the domain are accepted", g.spec.key(), cerr, nGot, len(vals)), pick)
	case len(rejMember) > 0 && nGot == 0 && strings.HasPrefix(c06Sig("rejects-member", r, t, rejMember[0].v), "pattern-"):
		m := rejMember[0]
		sig := strings.Replace(c06Sig("rejects-member", r, t, m.v), "rejects-member", "rejects-all", 1)
		add(sig, m.detail+fmt.Sprintf(" — every one of the %d values of the domain is rejected although %d are members", len(vals), nWant), m.v)
	default:
		for _, m := range rejMember {
			add(c06Sig("rejects-member", r, t, m.v), m.detail, m.v)
		}
	}
	return fs, st, nil
}

// ---------------------------------------------------------------------------------------------
// Enumeration of restrictions and domains.

// c06Exprs lists every range/length expression with 1..maxParts ascending, disjoint parts whose bounds
// are taken from b (ascending). Fewer parts first.
func c06Exprs(b []string, maxParts int) []string {
	byParts := make([][]string, maxParts+1)
	var rec func(start int, parts []string)
	rec = func(start int, parts []string) {
		if len(parts) > 0 {
			byParts[len(parts)] = append(byParts[len(parts)], strings.Join(parts, "|"))
		}
		if len(parts) == maxParts {
			return
		}
		for i := start; i < len(b); i++ {
			rec(i+1, append(parts[:len(parts):len(parts)], b[i]))
			for j := i + 1; j < len(b); j++ {
				rec(j+1, append(parts[:len(parts):len(parts)], b[i]+".."+b[j]))
			}
		}
	}
	rec(0, nil)
	var out []string
	for _, l := range byParts {
		out = append(out, l...)
	}
	return out
}

var c06IntBounds = map[string][]string{
	"int8":   {"min", "-100", "-1", "0", "1", "100", "max"},
	"int16":  {"min", "-129", "-1", "0", "1", "128", "max"},
	"int32":  {"min", "-32769", "-1", "0", "1", "32768", "max"},
	"int64":  {"min", "-2147483649", "-1", "0", "1", "2147483648", "max"},
	"uint8":  {"min", "1", "2", "100", "200", "254", "max"},
	"uint16": {"min", "1", "255", "256", "1000", "65534", "max"},
	"uint32": {"min", "1", "65535", "65536", "2147483648", "4294967294", "max"},
	"uint64": {"min", "1", "4294967296", "9223372036854775807", "9223372036854775808", "18446744073709551614", "max"},
}
var c06IntKinds = []string{"int8", "uint8", "int16", "uint16", "int32", "uint32", "int64", "uint64"}

// thorough tier: two more bounds per type (explicit spellings of the type limits' neighbours).
var c06IntBoundsExtra = map[string][]string{
	"int8":   {"min", "-127", "-100", "-1", "0", "1", "100", "126", "max"},
	"int16":  {"min", "-32767", "-129", "-1", "0", "1", "128", "32766", "max"},
	"int32":  {"min", "-2147483647", "-32769", "-1", "0", "1", "32768", "2147483646", "max"},
	"int64":  {"min", "-9223372036854775807", "-2147483649", "-1", "0", "1", "2147483648", "9223372036854775806", "max"},
	"uint8":  {"min", "1", "2", "100", "127", "128", "200", "254", "max"},
	"uint16": {"min", "1", "255", "256", "1000", "32767", "32768", "65534", "max"},
	"uint32": {"min", "1", "65535", "65536", "2147483647", "2147483648", "4294967294", "max"},
	"uint64": {"min", "1", "4294967296", "9223372036854775807", "9223372036854775808", "9223372036854775809", "18446744073709551614", "max"},
}

func c06IntDomain(kind string, bounds []string) *c06Domain {
	class, tminR, tmaxR, _, _ := c06TypeBounds(kind, 0)
	tmin, tmax := tminR.Num(), tmaxR.Num()
	bits, _ := strconv.Atoi(strings.TrimLeft(kind, "uint"))
	one := big.NewInt(1)
	add := func(a, b *big.Int) *big.Int { return new(big.Int).Add(a, b) }
	sub := func(a, b *big.Int) *big.Int { return new(big.Int).Sub(a, b) }
	// what the Go parameter (int64 / uint64) can hold
	capLo, capHi := new(big.Int).Neg(c06Pow2(63).Num()), sub(c06Pow2(63).Num(), one)
	if class == "uint" {
		capLo, capHi = big.NewInt(0), sub(c06Pow2(64).Num(), one)
	}
	var all []*big.Int
	put := func(v *big.Int) {
		if v.Cmp(capLo) >= 0 && v.Cmp(capHi) <= 0 {
			all = append(all, v)
		}
	}
	if bits <= 16 {
		for i := tmin.Int64(); i <= tmax.Int64(); i++ {
			put(big.NewInt(i))
		}
	}
	for _, v := range []*big.Int{tmin, add(tmin, one), big.NewInt(-1), big.NewInt(0), one, sub(tmax, one), tmax,
		sub(tmin, one), add(tmax, one), capLo, capHi} { // the last four: outside the type where the parameter allows
		put(v)
	}
	for _, b := range bounds {
		if b == "min" || b == "max" {
			continue
		}
		v, _ := new(big.Int).SetString(b, 10)
		put(sub(v, one))
		put(v)
		put(add(v, one))
	}
	sort.SliceStable(all, func(i, j int) bool { // simplest first: by magnitude, positive before negative
		if c := all[i].CmpAbs(all[j]); c != 0 {
			return c < 0
		}
		return all[i].Sign() > all[j].Sign()
	})
	d := &c06Domain{}
	for i, bi := range all {
		if i > 0 && bi.Cmp(all[i-1]) == 0 {
			continue
		}
		v := &c06Val{Text: bi.String(), bi: bi, rat: new(big.Rat).SetInt(bi), judged: true}
		if class == "int" {
			v.i64 = bi.Int64()
		} else {
			v.u64 = bi.Uint64()
		}
		d.vals = append(d.vals, v)
	}
	return d
}

var c06DecBounds = map[int][]string{
	1:  {"min", "-2.5", "-0.1", "0", "0.3", "1.1", "max"},
	2:  {"min", "-2.55", "-0.01", "0", "0.3", "1.15", "max"},
	3:  {"min", "-1.005", "-0.001", "0", "0.3", "2.675", "max"},
	6:  {"min", "-1.000005", "-0.000001", "0", "0.3", "2.675", "max"},
	9:  {"min", "-1.000000005", "-0.000000001", "0", "0.3", "2.675", "max"},
	15: {"min", "-1.000000000000005", "-0.000000000000001", "0", "0.3", "2.675", "max"},
	18: {"min", "-1.000000000000000001", "-0.000000000000000001", "0", "0.3", "1.1", "max"},
}

func c06DecText(r *big.Rat, fd int) string {
	s := r.FloatString(fd)
	if strings.Contains(s, ".") {
		s = strings.TrimRight(strings.TrimRight(s, "0"), ".")
	}
	if s == "-0" || s == "" {
		s = "0"
	}
	return s
}

func c06DecDomain(fd int, bounds []string, span int) *c06Domain {
	_, _, _, q, _ := c06TypeBounds("decimal64", fd)
	set := map[string]bool{}
	var texts []string
	put := func(r *big.Rat) {
		t := c06DecText(r, fd)
		if !set[t] {
			set[t] = true
			texts = append(texts, t)
		}
	}
	for k := 0; k <= span; k++ { // multiples of the quantum and of 0.1 around zero
		for _, sgn := range []int64{1, -1} {
			put(new(big.Rat).Mul(ratInt(sgn*int64(k)), q))
			put(new(big.Rat).Mul(ratInt(sgn*int64(k)), big.NewRat(1, 10)))
		}
	}
	for _, b := range bounds {
		if b == "min" || b == "max" {
			continue
		}
		r, _ := new(big.Rat).SetString(b)
		put(r)
		put(ratSub(r, q))
		put(ratAdd(r, q))
	}
	// round values just inside and just outside the type's value space (max ~ 9.22e(18-fd))
	in := new(big.Rat).Mul(ratInt(9), c06Pow10(18-fd))
	outside := new(big.Rat).Mul(big.NewRat(93, 10), c06Pow10(18-fd))
	for _, r := range []*big.Rat{in, outside} {
		put(r)
		put(new(big.Rat).Neg(r))
	}
	d := &c06Domain{}
	for _, t := range texts {
		v, err := c06NumVal("dec", t)
		if err != nil {
			panic(err)
		}
		d.vals = append(d.vals, v)
	}
	return d
}

// c06Strings lists all strings of up to maxLen symbols over alpha, shorter first, as a prefix tree.
func c06Strings(alpha []string, maxLen int) *c06Domain {
	d := &c06Domain{vals: []*c06Val{c06StrVal("")}, parent: []int{-1}, last: []rune{0}}
	single := true
	for _, a := range alpha {
		if utf8.RuneCountInString(a) != 1 {
			single = false
		}
	}
	lo, hi := 0, 1
	for l := 1; l <= maxLen; l++ {
		for pi := lo; pi < hi; pi++ {
			for _, a := range alpha {
				d.vals = append(d.vals, c06StrVal(d.vals[pi].Text+a))
				d.parent = append(d.parent, pi)
				r, _ := utf8.DecodeRuneInString(a)
				d.last = append(d.last, r)
			}
		}
		lo, hi = hi, len(d.vals)
	}
	if !single {
		d.parent, d.last = nil, nil
	}
	return d
}

// pattern ASTs ------------------------------------------------------------------------------

type c06Ast struct {
	op   byte // 'a' atom, 'c' concat, '|', '*', '+', '?', '(' group
	atom string
	l, r *c06Ast
}

// render returns the pattern text and its precedence (0 alternation, 1 concatenation, 2 quantified, 3 atom).
func (n *c06Ast) render() (string, int) {
	wrap := func(c *c06Ast, min int) string {
		s, p := c.render()
		if p < min {
			return "(" + s + ")"
		}
		return s
	}
	switch n.op {
	case 'a':
		return n.atom, 3
	case '(':
		s, _ := n.l.render()
		return "(" + s + ")", 3
	case '*', '+', '?':
		return wrap(n.l, 3) + string(n.op), 2
	case 'c':
		return wrap(n.l, 1) + wrap(n.r, 1), 1
	}
	return wrap(n.l, 0) + "|" + wrap(n.r, 0), 0
}

// c06Patterns renders all ASTs with at most maxSize nodes, de-duplicated, smallest first. bySize[i] is
// the number of distinct patterns of size <= i.
func c06Patterns(atoms []string, maxSize int) (pats []string, upTo []int) {
	sizes := make([][]*c06Ast, maxSize+1)
	for _, a := range atoms {
		sizes[1] = append(sizes[1], &c06Ast{op: 'a', atom: a})
	}
	for n := 2; n <= maxSize; n++ {
		for _, u := range []byte{'*', '+', '?', '('} {
			for _, c := range sizes[n-1] {
				sizes[n] = append(sizes[n], &c06Ast{op: u, l: c})
			}
		}
		for _, bop := range []byte{'c', '|'} {
			for i := 1; i <= n-2; i++ {
				for _, l := range sizes[i] {
					for _, r := range sizes[n-1-i] {
						sizes[n] = append(sizes[n], &c06Ast{op: bop, l: l, r: r})
					}
				}
			}
		}
	}
	seen := map[string]bool{}
	upTo = make([]int, maxSize+1)
	for n := 1; n <= maxSize; n++ {
		for _, a := range sizes[n] {
			s, _ := a.render()
			if !seen[s] {
				seen[s] = true
				pats = append(pats, s)
			}
		}
		upTo[n] = len(pats)
	}
	return pats, upTo
}

var (
	c06XSDAtoms   = []string{"a", "b", ".", "[ab]", "[^a]", `\d`, "é"}
	c06POSIXAtoms = []string{"a", "b", ".", "[ab]", "[^a]", "[0-9]", "é"}
	c06PatAlpha   = []string{"a", "b", "é", "1", "x"}
	c06LenAlpha   = []string{"a", "é", "✓", "😀"}
)

// c06Specials: hand-picked patterns that exercise the remaining branches of fixYangRegexp ('$' and '^'
// away from the pattern's ends, escaped, inside classes; the empty pattern; counted repetition).
var c06Specials = []string{"", "^", "$", "^$", "a|", "|a", "()", "a{2}", "a{1,2}", "[a-b]{2,}", `\.`, `a\.`, `a\$`, `\^a`, `\$a`,
	"a^b", "a$b", "$a", "a^", "^^a", "a$$", "[a$]", "[$a]", "[a^]", `[\^a]`, `[^^]`, `a\\`, `\\$`, `^a\$`, `(a$)`, `(^a)`, "a|^b", "a$|b", `.\$`, `\.$`}

var c06EscapePats = []string{`\d`, `\D`, `\w`, `\W`, `\s`, `\S`, `\d+`, `[\w]`, `[^\w]`, `\w*`, `[\s-]`, `a\w`}

func runC06(c *core.Ctx) {
	c.Level = "exploration"
	th := c.Thorough()
	maxParts := kFor(c, 2, 3)
	astXSD := kFor(c, 4, 5)
	c.R.Assume("goyang (parser and type resolution) is the source of the yang.YangType values handed to ygot; the reference reads the same restriction text independently (exact rational arithmetic; core/refregex.go for patterns, whose two evaluators are cross-checked on every XSD case)")
	c.R.Assume("decimal64: a float64 argument denotes the shortest decimal string that round-trips it; domain values whose decimal text is not denoted by its float64 (more than ~15 significant digits) are executed but not judged")
	c.R.Assume("XSD patterns: one leading '^' / trailing unescaped '$' are read as redundant anchors (what ygot documents it intends); a verdict that agrees with the literal XSD reading of those characters is tolerated as well")
	c.R.Assume("posix-pattern is judged by POSIX search semantics with '^' / '$' asserting the start / end of the whole value")

	var groups []*c06Group
	section := map[string][2]int{}
	mark := func(name string, from int) { section[name] = [2]int{from, len(groups)} }

	// A. integers
	from := len(groups)
	intDoms := make([]*c06Domain, len(c06IntKinds))
	intB := func(k string) []string {
		if th {
			return c06IntBoundsExtra[k]
		}
		return c06IntBounds[k]
	}
	core.ParallelFor(len(c06IntKinds), func(i int) { intDoms[i] = c06IntDomain(c06IntKinds[i], intB(c06IntKinds[i])) })
	for ki, k := range c06IntKinds {
		b, dom := intB(k), intDoms[ki]
		groups = append(groups, &c06Group{spec: c06Case{Kind: k}, domain: dom})
		for _, e := range c06Exprs(b, maxParts) {
			groups = append(groups, &c06Group{spec: c06Case{Kind: k, Range: e}, domain: dom})
		}
	}
	mark("int-range", from)

	// B. decimal64
	from = len(groups)
	fds := []int{1, 3, 18}
	span := 25
	if th {
		fds, span = []int{1, 2, 3, 6, 9, 15, 18}, 120
	}
	for _, fd := range fds {
		b := c06DecBounds[fd]
		dom := c06DecDomain(fd, b, span)
		groups = append(groups, &c06Group{spec: c06Case{Kind: "decimal64", FD: fd}, domain: dom})
		for _, e := range c06Exprs(b, maxParts) {
			groups = append(groups, &c06Group{spec: c06Case{Kind: "decimal64", FD: fd, Range: e}, domain: dom})
		}
	}
	mark("decimal-range", from)

	// C/D. string and binary length
	from = len(groups)
	lenExprs := c06Exprs([]string{"min", "1", "2", "3", "4", "5", "max"}, maxParts)
	for _, e := range c06Exprs([]string{"0", "1", "2", "3", "4", "5"}, maxParts) {
		if strings.Contains(e, "0") {
			lenExprs = append(lenExprs, e)
		}
	}
	strDom := c06Strings(c06LenAlpha, 4)
	binDom := &c06Domain{}
	for _, v := range strDom.vals {
		binDom.vals = append(binDom.vals, c06BinVal([]byte(v.Text)))
	}
	for _, b := range [][]byte{{0}, {0xff}, {0xc3}, {0xff, 0xfe, 0xfd}, {0, 0, 0, 0, 0}, {0xe2, 0x9c}, {0xf0, 0x9f, 0x98, 0x80, 0xf0}} {
		binDom.vals = append(binDom.vals, c06BinVal(b)) // not valid UTF-8 / NUL bytes
	}
	groups = append(groups, &c06Group{spec: c06Case{Kind: "string"}, domain: strDom}, &c06Group{spec: c06Case{Kind: "binary"}, domain: binDom})
	for _, e := range lenExprs {
		groups = append(groups, &c06Group{spec: c06Case{Kind: "string", Length: e}, domain: strDom})
		groups = append(groups, &c06Group{spec: c06Case{Kind: "binary", Length: e}, domain: binDom})
	}
	mark("length", from)

	// E. single XSD patterns, bare and wrapped by ^ / $
	from = len(groups)
	patDom := (c06Strings(c06PatAlpha, 4))
	xsdPats, xsdUpTo := c06Patterns(c06XSDAtoms, astXSD)
	wrap := func(p string, w int) string {
		if w&1 != 0 {
			p = "^" + p
		}
		if w&2 != 0 {
			p += "$"
		}
		return p
	}
	for w := 0; w < 4; w++ {
		for _, p := range xsdPats {
			groups = append(groups, &c06Group{spec: c06Case{Kind: "string", Patterns: []string{wrap(p, w)}}, domain: patDom})
		}
	}
	mark("xsd-pattern", from)

	// F. two-pattern conjunctions
	from = len(groups)
	firstN, secondN := xsdUpTo[2], xsdUpTo[2]
	if th {
		secondN = xsdUpTo[3]
	}
	for w := 0; w < 4; w++ {
		for _, p1 := range xsdPats[:firstN] {
			for _, p2 := range xsdPats[:secondN] {
				groups = append(groups, &c06Group{spec: c06Case{Kind: "string", Patterns: []string{wrap(p1, w), p2}}, domain: patDom})
			}
		}
	}
	mark("xsd-conjunction", from)

	// G. posix-pattern
	from = len(groups)
	astPOSIX := kFor(c, 4, 5)
	posPats, posUpTo := c06Patterns(c06POSIXAtoms, astPOSIX)
	allForms := posUpTo[3]
	if th {
		allForms = posUpTo[4]
	}
	for i, p := range posPats {
		forms := []string{"^(" + p + ")$", "^" + p + "$"}
		if i < allForms {
			forms = append(forms, p, "^"+p, p+"$")
		}
		for _, f := range forms {
			groups = append(groups, &c06Group{spec: c06Case{Kind: "string", Patterns: []string{f}, Posix: true}, domain: patDom})
		}
	}
	for _, p1 := range posPats[:posUpTo[2]] {
		for _, p2 := range posPats[:posUpTo[2]] {
			groups = append(groups, &c06Group{spec: c06Case{Kind: "string", Patterns: []string{"^(" + p1 + ")$", "^(" + p2 + ")$"}, Posix: true}, domain: patDom})
		}
	}
	mark("posix-pattern", from)

	// H. length and pattern together
	from = len(groups)
	for _, e := range c06Exprs([]string{"min", "1", "2", "3", "4", "5", "max"}, 1) {
		for _, p := range xsdPats[:xsdUpTo[2]] {
			groups = append(groups, &c06Group{spec: c06Case{Kind: "string", Length: e, Patterns: []string{p}}, domain: patDom})
		}
		for _, p := range posPats[:posUpTo[1]] {
			groups = append(groups, &c06Group{spec: c06Case{Kind: "string", Length: e, Patterns: []string{"^(" + p + ")*$"}, Posix: true}, domain: patDom})
		}
	}
	mark("length+pattern", from)

	// I. hand-picked patterns for the remaining branches of the sanitiser; class escapes; newlines
	from = len(groups)
	specDom := (c06Strings([]string{"a", "b", "^", "$", ".", `\`}, 3))
	for _, p := range c06Specials {
		groups = append(groups, &c06Group{spec: c06Case{Kind: "string", Patterns: []string{p}}, domain: specDom})
	}
	escDom := (c06Strings([]string{"a", "_", "é", "1", "٣", " ", "\f", "-"}, 2))
	for _, p := range c06EscapePats {
		groups = append(groups, &c06Group{spec: c06Case{Kind: "string", Patterns: []string{p}}, domain: escDom})
	}
	nlDom := (c06Strings([]string{"a", "\n", "x"}, 3))
	nlPats, _ := c06Patterns([]string{"a", ".", "[^a]"}, 3)
	for _, p := range nlPats {
		groups = append(groups, &c06Group{spec: c06Case{Kind: "string", Patterns: []string{p}}, domain: nlDom})
		for _, f := range []string{"^(" + p + ")$", "^" + p + "$", p} {
			groups = append(groups, &c06Group{spec: c06Case{Kind: "string", Patterns: []string{f}, Posix: true}, domain: nlDom})
		}
	}
	mark("special-patterns", from)

	c.Rule = fmt.Sprintf("every restriction of the families below is compiled by goyang and every value of its domain is passed to the exported ytypes.Validate*Restrictions function; verdict compared with exact arithmetic / refregex. "+
		"Integers: int8/uint8/int16/uint16 complete value spaces (plus out-of-type values the Go parameter can hold), 32/64-bit boundary sets {min,min+1,-1,0,1,max-1,max, bounds±1}, against every range expression with <=%d ascending parts over a %d-value bound set incl. min/max. "+
		"decimal64 fraction-digits %v likewise (values: multiples of the quantum and of 0.1 around 0, bounds ± one quantum, round values inside/outside the type). "+
		"String length: all strings of <=4 runes over {a,é,✓,😀} against all length expressions with <=%d parts over {min,0..5,max}; binary the same in bytes plus non-UTF-8 values. "+
		"Patterns: all ASTs of size <=%d over atoms {a,b,.,[ab],[^a],\\d,é} with {concat,|,*,+,?,group}, bare and wrapped by ^ / $ (%d distinct texts x4), conjunctions of two patterns, posix-pattern forms ^(p)$ ^p$ p ^p p$, length+pattern, %d hand-picked patterns for the sanitiser's remaining branches, class escapes, newline values; against all strings of <=4 symbols over {a,b,é,1,x}. "+
		"Non-trivial = a restriction that discriminates (accepts some and rejects some values of its domain under the reference).",
		maxParts, len(c06IntBounds["int8"])+map[bool]int{true: 2}[th], fds, maxParts, astXSD, len(xsdPats), len(c06Specials))

	// compile all restrictions with goyang
	specs := make([]c06Case, len(groups))
	for i, g := range groups {
		specs[i] = g.spec
	}
	types, terrs := c06BuildTypes(specs)
	nRejected := 0
	for i, e := range terrs {
		if types[i] == nil {
			nRejected++
			c.R.Outcome("excluded-goyang-rejects-restriction")
			if nRejected <= 5 {
				c.R.Note(fmt.Sprintf("goyang_rejected_%d", nRejected), specs[i].key()+": "+e)
			}
		}
	}
	c.R.Note("restrictions", len(groups))
	c.R.Note("restrictions_rejected_by_goyang", nRejected)

	// evaluate
	results := make([][]c06Finding, len(groups))
	stats := make([]c06Stats, len(groups))
	errsRun := make([]error, len(groups))
	var stop int32
	core.ParallelFor(len(groups), func(i int) {
		if types[i] == nil || atomic.LoadInt32(&stop) != 0 {
			return
		}
		if i%64 == 0 && c.Expired() {
			atomic.StoreInt32(&stop, 1)
			return
		}
		results[i], stats[i], errsRun[i] = c06RunGroup(groups[i], types[i])
	})
	secNames := make([]string, 0, len(section))
	for n := range section {
		secNames = append(secNames, n)
	}
	sort.Slice(secNames, func(i, j int) bool { return section[secNames[i]][0] < section[secNames[j]][0] })
	cover := map[string]interface{}{}
	var tolEx []string
	for _, n := range secNames {
		var ev, acc, rej, unj, tol, cross int64
		disc := 0
		for i := section[n][0]; i < section[n][1]; i++ {
			st := stats[i]
			ev, acc, rej, unj, tol, cross = ev+st.evals, acc+st.agreeAccept, rej+st.agreeReject, unj+st.unjudged, tol+st.tolerated, cross+st.crosschecks
			if st.toleratedExample != "" && len(tolEx) < 8 {
				tolEx = append(tolEx, st.toleratedExample)
			}
			if st.discriminates {
				disc++
				c.R.NonTrivial(groups[i].spec.key())
			}
			if errsRun[i] != nil {
				c.R.Violation("harness-error:"+n, fmt.Sprintf("%s: %v", groups[i].spec.key(), errsRun[i]), groups[i].spec)
			}
		}
		c.R.Add("evaluations", ev)
		c.R.Add("agree_accept", acc)
		c.R.Add("agree_reject", rej)
		c.R.Add("executed_not_judged", unj)
		c.R.Add("tolerated_literal_anchor_reading", tol)
		c.R.Add("refregex_evaluators_crosschecked", cross)
		cover[n] = map[string]int64{"restrictions": int64(section[n][1] - section[n][0]), "discriminating": int64(disc), "evaluations": ev, "agree_accept": acc, "agree_reject": rej}
		if acc > 0 {
			c.R.Outcome(n + ":accept")
		}
		if rej > 0 {
			c.R.Outcome(n + ":reject")
		}
		if unj > 0 {
			c.R.Outcome("excluded-decimal-text-not-denoted-by-float64")
		}
	}
	c.R.Note("families", cover)
	c.R.Note("tolerated_literal_anchor_reading_examples", tolEx)
	for i, fs := range results { // fixed order -> deterministic replay case per signature
		_ = i
		for _, f := range fs {
			c.R.Violation(f.sig, fmt.Sprintf("%s (%d values of this restriction's domain)", f.detail, f.n), f.cs)
			c.R.Outcome(clauseOf(f.sig))
		}
	}
	c.R.Sample(c06Case{Kind: "int16", Range: "min..-129|1..128", Value: "129"})
	c.R.Sample(c06Case{Kind: "decimal64", FD: 3, Range: "-1.005..0.3", Value: "0.3"})
	c.R.Sample(c06Case{Kind: "string", Length: "1..2|4", Value: "é✓😀"})
	c.R.Sample(c06Case{Kind: "string", Patterns: []string{"^a|b"}, Value: "ax"})
	c.R.Sample(c06Case{Kind: "string", Patterns: []string{"(a|é)*", `[^a]\d?`}, Value: "é"})
	c.R.Sample(c06Case{Kind: "string", Patterns: []string{"^([ab]+é)$"}, Posix: true, Value: "abé"})
}

func replayC06(c *core.Ctx, raw []byte) (bool, string) {
	var cs c06Case
	if err := json.Unmarshal(raw, &cs); err != nil {
		return false, err.Error()
	}
	spec := cs
	spec.Value = ""
	ts, err := c06ParseModule([]c06Case{spec})
	if err != nil {
		return false, "goyang rejects the restriction: " + err.Error()
	}
	r, err := newC06Ref(spec)
	if err != nil {
		return false, err.Error()
	}
	v, err := r.valueOf(cs.Value)
	if err != nil {
		return false, err.Error()
	}
	if len(spec.Patterns) > 0 {
		if _, cerr := c06Compile(ts[0]); cerr != nil {
			return true, "sanitized-uncompilable: " + cerr.Error()
		}
	}
	clause, detail, _, _ := c06Judge(r, ts[0], v)
	return clause != "", clause + ": " + detail
}
