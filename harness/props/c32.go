package props

import (
	"encoding/json"
	"fmt"
	"reflect"
	"sort"
	"strings"

	"github.com/openconfig/goyang/pkg/yang"
	"github.com/openconfig/ygot/ygot"
	"github.com/openconfig/ygot/zzverif/core"
)

// C32 - PruneConfigFalse removes exactly derived state.
//
// Every explored state (k <= 2, thorough 3) of vtus/vtuw (uncompressed) and vocus, voccs, vocco,
// voccsh is pruned with ygot.PruneConfigFalse(root schema entry, tree). Oracle: the config flag of
// every populated node comes from the harness's own goyang compile of the YANG sources
// (core.RsConfig: nearest explicit config statement on the way up). After the call
//   - no leaf / leaf-list / list entry / unkeyed-list element / presence container whose schema
//     node is config false remains                                          (config-false-left)
//   - every config-true node is still there with the same value              (config-true-changed)
//   - nothing that was not there before appeared                            (node-appeared)
//   - a second call changes nothing (observed state incl. representation facts) (not-idempotent)
//
// Documented exception (ygot/gostruct.go doc comment: for compressed GoStructs only "derived
// state" is pruned = config-false nodes WITHOUT a config-true sibling of the same name in the
// sibling "config" container; "behaviour ... is the same between ... PreferIntendedConfig or
// PreferOperationalState"): in a path-compressed package a config-false leaf state/X whose schema
// has a sibling config/X is applied configuration, not derived state. It is recognised from the
// goyang tree (sibling "config" container holding a leaf of the same name), which is exactly the
// definition in the doc comment; such leaves must be KEPT unchanged (applied-config-removed). The
// struct tags cannot be used for this in general: only packages generated with
// -ignore_shadow_schema_paths carry a shadow-path tag naming the second source (voccsh; there the
// tag-based and the goyang-based recognition are compared and the agreement is recorded), while
// with -prefer_operational_state (vocco) the field is tagged path:"state/descr" only.

func init() { core.RegisterProp(&core.Prop{ID: "C32", Run: runC32, Replay: replayC32}) }

func c32Packages() []*core.Pkg {
	var out []*core.Pkg
	for _, n := range []string{"vtus", "vtuw", "vocus", "voccs", "vocco", "voccsh"} {
		if p := core.PkgByName(n); p != nil {
			out = append(out, p)
		}
	}
	return out
}

type c32Item struct {
	key, val string
	path     core.Path
}

// c32Items flattens a model into comparable items.
func c32Items(m *core.Model) []c32Item {
	var out []c32Item
	for k, v := range m.Leaves {
		out = append(out, c32Item{"L " + k, string(v), m.Paths[k]})
	}
	for k := range m.Entries {
		out = append(out, c32Item{"E " + k, "", m.Paths[k]})
	}
	for k, v := range m.Order {
		out = append(out, c32Item{"O " + k, strings.Join(v, " "), m.Paths[k]})
	}
	for k := range m.Presence {
		out = append(out, c32Item{"P " + k, "", m.Paths[k]})
	}
	for k, v := range m.Unkeyed {
		out = append(out, c32Item{"U " + k, strings.Join(v, " ## "), m.Paths[k]})
	}
	sort.Slice(out, func(i, j int) bool { return out[i].key < out[j].key })
	return out
}

func pathNames(p core.Path) []string {
	out := make([]string, len(p))
	for i, e := range p {
		out[i] = e.Name
	}
	return out
}

// c32AppliedConfig: names is a leaf state/X whose parent also has config/X (goyang tree).
func c32AppliedConfig(rs *core.RsSchema, names []string) bool {
	n := len(names)
	if n < 2 || names[n-2] != "state" {
		return false
	}
	sib := append(append([]string{}, names[:n-2]...), "config", names[n-1])
	e := rs.Find(sib)
	return e != nil && e.Kind == yang.LeafEntry && core.RsConfig(e)
}

type c32Facts struct {
	sig, detail          string
	nFalse, nKept, nTrue int
}

func c32Eval(p *core.Pkg, rs *core.RsSchema, atoms []*core.Atom) c32Facts {
	t, err := p.Build(atoms)
	if err != nil {
		return c32Facts{}
	}
	gs := t.(ygot.GoStruct)
	before := p.Observe(t)
	type cls struct {
		item   c32Item
		expect string // keep | keep-applied | remove
	}
	var want []cls
	var f c32Facts
	for _, it := range c32Items(before) {
		names := pathNames(it.path)
		e := rs.Find(names)
		if e == nil {
			return c32Facts{sig: "reference-cannot-evaluate:", detail: "no goyang schema node for " + it.key}
		}
		switch {
		case core.RsConfig(e):
			want = append(want, cls{it, "keep"})
			f.nTrue++
		case p.Compressed && it.key[0] == 'L' && c32AppliedConfig(rs, names):
			want = append(want, cls{it, "keep-applied"})
			f.nKept++
		default:
			want = append(want, cls{it, "remove"})
			f.nFalse++
		}
	}
	var perr error
	if e := safeErr(func() error { perr = ygot.PruneConfigFalse(p.RootSchema(), gs); return nil }); e != nil {
		f.sig, f.detail = "prune-panic:", e.Error()
		return f
	}
	if perr != nil {
		f.sig, f.detail = "prune-error:", fmt.Sprintf("PruneConfigFalse returned %v", perr)
		return f
	}
	after := p.Observe(t)
	got := map[string]string{}
	for _, it := range c32Items(after) {
		got[it.key] = it.val
	}
	var left, changed, applied []string
	for _, w := range want {
		v, ok := got[w.item.key]
		switch w.expect {
		case "remove":
			if ok {
				left = append(left, w.item.key)
			}
		case "keep":
			if !ok || v != w.item.val {
				changed = append(changed, fmt.Sprintf("%s: %q -> %q (present=%v)", w.item.key, w.item.val, v, ok))
			}
		case "keep-applied":
			if !ok || v != w.item.val {
				applied = append(applied, fmt.Sprintf("%s: %q -> %q (present=%v)", w.item.key, w.item.val, v, ok))
			}
		}
		delete(got, w.item.key)
	}
	switch {
	case len(left) > 0:
		f.sig, f.detail = "config-false-left:", fmt.Sprintf("config-false data remains after PruneConfigFalse: %v", left)
	case len(changed) > 0:
		f.sig, f.detail = "config-true-changed:", fmt.Sprintf("config-true data changed: %v", changed)
	case len(applied) > 0:
		f.sig, f.detail = "applied-config-removed:", fmt.Sprintf("compressed state leaf with a config counterpart (applied configuration, documented as kept) changed: %v", applied)
	case len(got) > 0:
		f.sig, f.detail = "node-appeared:", fmt.Sprintf("nodes that did not exist before: %v", core.SortedKeys(got))
	case strings.Join(before.Bad, ";") != strings.Join(after.Bad, ";"):
		f.sig, f.detail = "consistency-changed:", fmt.Sprintf("consistency facts before %v after %v", before.Bad, after.Bad)
	}
	if f.sig != "" {
		return f
	}
	// idempotence: the observed state (data Model plus representation facts such as empty non-nil
	// maps / slices) is the same after a second call.
	key1 := after.StateKey()
	if e := safeErr(func() error { perr = ygot.PruneConfigFalse(p.RootSchema(), gs); return nil }); e != nil {
		f.sig, f.detail = "prune-panic-second:", e.Error()
		return f
	}
	if perr != nil {
		f.sig, f.detail = "prune-error-second:", fmt.Sprintf("second PruneConfigFalse returned %v", perr)
		return f
	}
	if again := p.Observe(t); again.StateKey() != key1 {
		f.sig, f.detail = "not-idempotent:", "second PruneConfigFalse changed the tree: "+core.DiffCanon(key1, again.StateKey())
	}
	return f
}

func c32Check(p *core.Pkg, rs *core.RsSchema, atoms []*core.Atom) (string, string) {
	f := c32Eval(p, rs, atoms)
	return f.sig, f.detail
}

// c32CompareAtomFlags compares the Config flag the atoms carry (computed from the schema ygot
// embeds in the generated package) with the goyang reference.
func c32CompareAtomFlags(c *core.Ctx, p *core.Pkg, rs *core.RsSchema) {
	agree, differ := 0, 0
	for _, a := range p.Atoms() {
		e := rs.Find(pathNames(a.Path))
		if e == nil {
			c.R.Violation("atom-without-goyang-node:"+shapeName(a), "no goyang schema node for atom "+a.Name+" of "+p.Name, treeCase{Pkg: p.Name, Atoms: []string{a.Name}, Opt: "flags"})
			continue
		}
		if core.RsConfig(e) != a.Config {
			differ++
			c.R.Violation("embedded-config-flag-differs:"+shapeName(a), fmt.Sprintf("%s %s: embedded schema says config=%v, goyang compile of the YANG source says %v", p.Name, a.Name, a.Config, core.RsConfig(e)), treeCase{Pkg: p.Name, Atoms: []string{a.Name}, Opt: "flags"})
		} else {
			agree++
		}
	}
	c.R.Note("config_flags_"+p.Name, map[string]int{"atoms_agreeing_with_goyang": agree, "differing": differ})
}

// c32CompareTags: where the struct tags name both sources of a compressed leaf (shadow-path), the
// tag-based recognition of "has a config counterpart" must agree with the goyang-based one.
func c32CompareTags(c *core.Ctx, p *core.Pkg, rs *core.RsSchema) {
	if !p.Compressed {
		return
	}
	tagged, agree, differ := c32TagStats(p, rs)
	c.R.Note("applied_config_recognition_"+p.Name, map[string]int{"leaf_fields_with_shadow_path_tag": tagged, "tag_and_goyang_agree": agree, "differ": differ})
	if differ > 0 {
		c.R.Violation("tag-vs-goyang-counterpart-differs:"+p.Config, fmt.Sprintf("%s: %d leaf fields whose shadow-path tag and the goyang tree disagree on the existence of a config/state counterpart", p.Name, differ), treeCase{Pkg: p.Name, Opt: "tags"})
	}
}

func c32TagStats(p *core.Pkg, rs *core.RsSchema) (tagged, agree, differ int) {
	var walk func(t reflect.Type, prefix []string, depth int)
	walk = func(t reflect.Type, prefix []string, depth int) {
		for t.Kind() == reflect.Ptr {
			t = t.Elem()
		}
		if depth > 8 {
			return
		}
		for i := 0; i < t.NumField(); i++ {
			f := t.Field(i)
			alts := core.TagPaths(f)
			if alts == nil {
				continue
			}
			names := append(append([]string{}, prefix...), alts[0]...)
			switch core.KindOfField(f.Type) {
			case core.FContainer:
				walk(f.Type, names, depth+1)
			case core.FKeyedList:
				walk(f.Type.Elem(), names, depth+1)
			case core.FOrderedList:
				m, _ := f.Type.MethodByName("Values")
				walk(m.Type.Out(0).Elem(), names, depth+1)
			case core.FUnkeyedList:
				walk(f.Type.Elem(), names, depth+1)
			default:
				sh, ok := f.Tag.Lookup("shadow-path")
				n := len(alts[0])
				if n < 2 || (alts[0][n-2] != "config" && alts[0][n-2] != "state") {
					continue
				}
				other := "state"
				if alts[0][n-2] == "state" {
					other = "config"
				}
				tagPair := ok && strings.HasPrefix(strings.Split(sh, "|")[0], other+"/")
				if ok {
					tagged++
				}
				sib := append(append([]string{}, names[:len(names)-2]...), other, names[len(names)-1])
				goyangPair := rs.Find(sib) != nil && rs.Find(names) != nil
				if p.IgnoreShadow {
					if tagPair == goyangPair {
						agree++
					} else {
						differ++
					}
				}
			}
		}
	}
	walk(p.RootType, nil, 0)
	return
}

func runC32(c *core.Ctx) {
	c.Level = "model_checking"
	k := kFor(c, 2, 3)
	c.Rule = fmt.Sprintf("explicit-state BFS over atom sequences up to k=%d on vtus, vtuw (uncompressed, config-false container /top/st and unkeyed list /top/ul), vocus (uncompressed config/state), voccs, vocco (-prefer_operational_state), voccsh (-ignore_shadow_schema_paths); thorough: compressed packages full alphabet to k=3, uncompressed packages full alphabet to k=2 and then k=3 over every config-false atom plus one atom family per config-true field; every state is pruned twice with ygot.PruneConfigFalse(root schema, tree); config flag per node from the harness's goyang compile; non-trivial = state holding at least one config-false node", k)
	c.R.Assume("builder, observer and goyang's parser are correct; a compressed state leaf with a same-named leaf in the sibling config container is applied configuration (kept), per the doc comment of PruneConfigFalse")
	for _, p := range c32Packages() {
		rs, err := core.LoadRefSchema(c.VerifDir+"/schemas", p.SchemaName)
		if err != nil {
			panic("C32: " + err.Error())
		}
		c32CompareAtomFlags(c, p, rs)
		c32CompareTags(c, p, rs)
		var atomsOf func(*core.Pkg) []*core.Atom
		if c.Thorough() && !p.Compressed {
			// the full alphabets give ~8*10^6 states at k=3; the deep tier keeps EVERY config-false atom
			// and one atom family per config-true field (focus atoms) for the uncompressed packages
			atomsOf = func(q *core.Pkg) []*core.Atom {
				var out []*core.Atom
				for _, a := range q.Atoms() {
					if !a.Config || a.Focus {
						out = append(out, a)
					}
				}
				return out
			}
			c32Explore(c, p, rs, 2, nil)
		}
		c32Explore(c, p, rs, k, atomsOf)
	}
}

func c32Explore(c *core.Ctx, p *core.Pkg, rs *core.RsSchema, k int, atomsOf func(*core.Pkg) []*core.Atom) {
	exploreAll(c, []*core.Pkg{p}, k, atomsOf, func(sp *core.Space, st core.State) {
		as := sp.SeqAtoms(st)
		c.R.Add("evaluations", 1)
		f := c32Eval(p, rs, as)
		if f.sig != "" {
			min, msig, mdetail := minimise(as, func(a []*core.Atom) (string, string) { return c32Check(p, rs, a) })
			c.R.Violation(sigFor(clauseOf(msig)+"@"+p.Config, min), mdetail+" [first seen with "+fmt.Sprint(atomNames(as))+": "+f.detail+"]", treeCase{Pkg: p.Name, Atoms: atomNames(min)})
			c.R.Outcome("violation")
			return
		}
		switch {
		case f.nFalse > 0 && f.nKept > 0:
			c.R.Outcome("pruned-derived-state-kept-applied-config")
		case f.nFalse > 0:
			c.R.Outcome("pruned-config-false")
		case f.nKept > 0:
			c.R.Outcome("kept-applied-config-only")
		default:
			c.R.Outcome("nothing-config-false")
		}
		if f.nFalse+f.nKept > 0 {
			c.R.NonTrivial(p.Name + string(st.Key[:]))
		}
	})
}

func replayC32(c *core.Ctx, raw []byte) (bool, string) {
	var tc treeCase
	if err := json.Unmarshal(raw, &tc); err != nil {
		return false, err.Error()
	}
	p := core.AnyPkgByName(tc.Pkg)
	if p == nil {
		return false, "unknown package"
	}
	rs, err := core.LoadRefSchema(c.VerifDir+"/schemas", p.SchemaName)
	if err != nil {
		return false, err.Error()
	}
	atoms, ok := p.AtomsByName(tc.Atoms)
	if !ok {
		return false, "unknown atoms"
	}
	switch tc.Opt {
	case "flags":
		for _, a := range atoms {
			e := rs.Find(pathNames(a.Path))
			if e == nil || core.RsConfig(e) != a.Config {
				return true, "embedded config flag differs from goyang for " + a.Name
			}
		}
		return false, ""
	case "tags":
		_, _, differ := c32TagStats(p, rs)
		return differ > 0, fmt.Sprintf("%d leaf fields whose shadow-path tag and the goyang tree disagree", differ)
	}
	sig, d := c32Check(p, rs, atoms)
	return sig != "", sig + " " + d
}
