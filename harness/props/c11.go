package props

import (
	"encoding/json"
	"fmt"
	"reflect"
	"strconv"
	"strings"

	gpb "github.com/openconfig/gnmi/proto/gnmi"
	"github.com/openconfig/ygot/gnmidiff"
	"github.com/openconfig/ygot/ygot"
	"github.com/openconfig/ygot/ytypes"
	"github.com/openconfig/ygot/zzverif/core"
	"google.golang.org/protobuf/proto"
)

func init() { core.RegisterProp(&core.Prop{ID: "C11", Run: runC11, Replay: replayC11}) }

// c11Call is one read-only / encoding API call; it returns a description of what it mutated ("" = nothing).
type c11Call struct {
	name string
	run  func(p *core.Pkg, atoms []*core.Atom) string
}

func cfgSnapshot(c *ygot.RFC7951JSONConfig) string {
	if c == nil {
		return "nil"
	}
	return fmt.Sprintf("%v|%v|%v|%v", c.AppendModuleName, c.PrependModuleNameIdentityref, c.PreferShadowPath, c.RewriteModuleNames)
}

func treeUnchanged(p *core.Pkg, atoms []*core.Atom, t interface{}, what string) string {
	twin, _ := p.Build(atoms)
	if deepSnapshot(t) != deepSnapshot(twin) {
		return what + ": " + core.DiffCanon(p.Observe(twin).StateKey(), p.Observe(t).StateKey())
	}
	return ""
}

func guard(f func() string) (out string) {
	defer func() {
		if r := recover(); r != nil {
			out = "" // panics belong to C20
		}
	}()
	return f()
}

func c11Calls() []c11Call {
	var calls []c11Call
	add := func(n string, f func(p *core.Pkg, atoms []*core.Atom) string) { calls = append(calls, c11Call{n, f}) }
	// --- tree renderers and validators
	add("Validate", func(p *core.Pkg, atoms []*core.Atom) string {
		t, _ := p.Build(atoms)
		if v, ok := t.(interface {
			Validate(...ygot.ValidationOption) error
		}); ok {
			v.Validate(&ytypes.LeafrefOptions{IgnoreMissingData: true})
			v.Validate()
		}
		return treeUnchanged(p, atoms, t, "tree")
	})
	for _, opt := range []string{"nil", "append", "idref", "rewrite"} {
		opt := opt
		mk := func() *ygot.RFC7951JSONConfig {
			switch opt {
			case "append":
				return &ygot.RFC7951JSONConfig{AppendModuleName: true}
			case "idref":
				return &ygot.RFC7951JSONConfig{PrependModuleNameIdentityref: true}
			case "rewrite":
				// the rules form chains (vt-aug -> vt -> vtz, voc -> vocx -> vocy): a renderer that resolves a
				// chain may be tempted to write the resolved target back into the caller's map
				return &ygot.RFC7951JSONConfig{AppendModuleName: true, RewriteModuleNames: map[string]string{"vt-aug": "vt", "vt": "vtz", "voc": "vocx", "vocx": "vocy"}}
			}
			return &ygot.RFC7951JSONConfig{}
		}
		add("Marshal7951/"+opt, func(p *core.Pkg, atoms []*core.Atom) string {
			t, _ := p.Build(atoms)
			cfg := mk()
			before := cfgSnapshot(cfg)
			ygot.Marshal7951(t, cfg)
			if cfgSnapshot(cfg) != before {
				return "RFC7951JSONConfig: " + before + " -> " + cfgSnapshot(cfg)
			}
			return treeUnchanged(p, atoms, t, "tree")
		})
		add("ConstructIETFJSON/"+opt, func(p *core.Pkg, atoms []*core.Atom) string {
			t, _ := p.Build(atoms)
			cfg := mk()
			before := cfgSnapshot(cfg)
			ygot.ConstructIETFJSON(t.(ygot.GoStruct), cfg)
			if cfgSnapshot(cfg) != before {
				return "RFC7951JSONConfig: " + before + " -> " + cfgSnapshot(cfg)
			}
			return treeUnchanged(p, atoms, t, "tree")
		})
		add("EmitJSON/"+opt, func(p *core.Pkg, atoms []*core.Atom) string {
			t, _ := p.Build(atoms)
			cfg := mk()
			ec := &ygot.EmitJSONConfig{Format: ygot.RFC7951, SkipValidation: true, RFC7951Config: cfg, Indent: " "}
			before := cfgSnapshot(cfg) + fmt.Sprintf("|%v|%v|%q", ec.Format, ec.SkipValidation, ec.Indent)
			ygot.EmitJSON(t.(ygot.GoStruct), ec)
			if after := cfgSnapshot(cfg) + fmt.Sprintf("|%v|%v|%q", ec.Format, ec.SkipValidation, ec.Indent); after != before || ec.RFC7951Config != cfg {
				return "EmitJSONConfig: " + before + " -> " + after
			}
			return treeUnchanged(p, atoms, t, "tree")
		})
		for _, enc := range []gpb.Encoding{gpb.Encoding_JSON_IETF, gpb.Encoding_JSON} {
			enc := enc
			add(fmt.Sprintf("EncodeTypedValue(%s)/%s", enc, opt), func(p *core.Pkg, atoms []*core.Atom) string {
				t, _ := p.Build(atoms)
				m := p.Observe(t)
				vals := []interface{}{t}
				for _, s := range core.SortedKeys(m.Structs) {
					vals = append(vals, m.Structs[s])
				}
				// every leaf value too
				collectLeafValues(reflect.ValueOf(t), &vals, 0)
				for _, v := range vals {
					cfg := mk()
					before := cfgSnapshot(cfg)
					guard(func() string { ygot.EncodeTypedValue(v, enc, cfg); return "" })
					if cfgSnapshot(cfg) != before {
						return fmt.Sprintf("RFC7951JSONConfig (value %T): %s -> %s", v, before, cfgSnapshot(cfg))
					}
				}
				return treeUnchanged(p, atoms, t, "tree")
			})
		}
	}
	add("TogNMINotifications", func(p *core.Pkg, atoms []*core.Atom) string {
		t, _ := p.Build(atoms)
		pfx := []*gpb.PathElem{{Name: "pfx", Key: map[string]string{"k": "v"}}}
		cfg := ygot.GNMINotificationsConfig{UsePathElem: true, PathElemPrefix: pfx}
		ygot.TogNMINotifications(t.(ygot.GoStruct), 1, cfg)
		if len(pfx) != 1 || pfx[0].Name != "pfx" || len(pfx[0].Key) != 1 || pfx[0].Key["k"] != "v" {
			return "PathElemPrefix modified"
		}
		return treeUnchanged(p, atoms, t, "tree")
	})
	add("DeepCopy", func(p *core.Pkg, atoms []*core.Atom) string {
		t, _ := p.Build(atoms)
		ygot.DeepCopy(t.(ygot.GoStruct))
		return treeUnchanged(p, atoms, t, "tree")
	})
	// --- GetNode on every node path with every option
	for _, opt := range []string{"none", "partial", "wildcards", "toleratenil"} {
		opt := opt
		add("GetNode/"+opt, func(p *core.Pkg, atoms []*core.Atom) string {
			t, _ := p.Build(atoms)
			var opts []ytypes.GetNodeOpt
			switch opt {
			case "partial":
				opts = append(opts, &ytypes.GetPartialKeyMatch{})
			case "wildcards":
				opts = append(opts, &ytypes.GetHandleWildcards{})
			case "toleratenil":
				opts = append(opts, &ytypes.GetTolerateNil{})
			}
			for _, q := range nodePaths(p) {
				g := q.GNMI()
				if opt == "wildcards" {
					for _, e := range g.Elem {
						for k := range e.Key {
							e.Key[k] = "*"
							break
						}
					}
				}
				g0 := proto.Clone(g)
				guard(func() string { ytypes.GetNode(p.RootSchema(), t, g, opts...); return "" })
				if !proto.Equal(g, g0) {
					return fmt.Sprintf("path argument modified: %v -> %v", g0, g)
				}
			}
			return treeUnchanged(p, atoms, t, "tree")
		})
	}
	// --- Unmarshal must not modify the decoded JSON value
	add("Unmarshal(jsonTree)", func(p *core.Pkg, atoms []*core.Atom) string {
		t, _ := p.Build(atoms)
		js, err := ygot.Marshal7951(t, &ygot.RFC7951JSONConfig{AppendModuleName: true})
		if err != nil {
			return ""
		}
		var tree, copyTree interface{}
		json.Unmarshal(js, &tree)
		json.Unmarshal(js, &copyTree)
		for _, opts := range [][]ytypes.UnmarshalOpt{nil, {&ytypes.IgnoreExtraFields{}}} {
			dst := p.NewRoot()
			guard(func() string { ytypes.Unmarshal(p.RootSchema(), dst, tree, opts...); return "" })
			if !reflect.DeepEqual(tree, copyTree) {
				a, _ := json.Marshal(copyTree)
				b, _ := json.Marshal(tree)
				return fmt.Sprintf("decoded JSON value modified: %s -> %s", a, b)
			}
		}
		return ""
	})
	// --- SetNode / UnmarshalSetRequest / UnmarshalNotifications must not modify their messages
	for _, opt := range []string{"init", "init+tolerate"} {
		opt := opt
		add("SetNode/"+opt, func(p *core.Pkg, atoms []*core.Atom) string {
			for _, a := range atoms {
				if a.Kind != "leaf" && a.Kind != "leaflist" {
					continue
				}
				tvs := []*gpb.TypedValue{core.RefTypedValue(a.Val), core.RefJSONIETF(a.Val)}
				if strings.HasPrefix(a.Val.Kind(), "u") { // uint leaf given as int_val (JSON tolerance case)
					tvs = append(tvs, &gpb.TypedValue{Value: &gpb.TypedValue_IntVal{IntVal: 1}})
				}
				if a.Val.IsLL() && len(a.Val.Elems()) > 0 && strings.HasPrefix(a.Val.Elems()[0].Kind(), "u") {
					tvs = append(tvs, &gpb.TypedValue{Value: &gpb.TypedValue_LeaflistVal{LeaflistVal: &gpb.ScalarArray{Element: []*gpb.TypedValue{{Value: &gpb.TypedValue_IntVal{IntVal: 1}}}}}})
				}
				for ti, tv := range tvs {
					t := p.NewRoot()
					g := a.Path.GNMI()
					if ti == 1 { // the JSON_IETF payload travels with a non-canonical spelling of the keys
						if nc := nonCanonicalPath(p, a.Path); nc != nil {
							g = nc
						}
					}
					g0, tv0 := proto.Clone(g), proto.Clone(tv)
					opts := []ytypes.SetNodeOpt{&ytypes.InitMissingElements{}}
					if opt == "init+tolerate" {
						opts = append(opts, &ytypes.TolerateJSONInconsistencies{})
					}
					guard(func() string { ytypes.SetNode(p.RootSchema(), t, g, tv, opts...); return "" })
					if !proto.Equal(tv, tv0) {
						return fmt.Sprintf("TypedValue modified: %v -> %v", tv0, tv)
					}
					if !proto.Equal(g, g0) {
						return fmt.Sprintf("path modified: %v -> %v", g0, g)
					}
				}
			}
			return ""
		})
	}
	add("UnmarshalSetRequest", func(p *core.Pkg, atoms []*core.Atom) string {
		t, _ := p.Build(atoms)
		m := p.Observe(t)
		if len(m.Unkeyed) > 0 {
			return ""
		}
		ns, err := ygot.TogNMINotifications(t.(ygot.GoStruct), 1, ygot.GNMINotificationsConfig{UsePathElem: true})
		if err != nil {
			return ""
		}
		for _, n := range ns {
			req := &gpb.SetRequest{Prefix: n.Prefix}
			// spare capacity beyond len must stay untouched
			sentinel := &gpb.Path{Elem: []*gpb.PathElem{{Name: "SENTINEL"}}}
			del := make([]*gpb.Path, 0, 4)
			for _, u := range n.Update {
				del = append(del, proto.Clone(u.Path).(*gpb.Path))
				if len(del) == 2 {
					break
				}
			}
			full := del[:cap(del)]
			for i := len(del); i < cap(del); i++ {
				full[i] = sentinel
			}
			req.Delete = del
			for i, u := range n.Update {
				if i%2 == 0 {
					req.Update = append(req.Update, proto.Clone(u).(*gpb.Update))
				} else {
					req.Replace = append(req.Replace, proto.Clone(u).(*gpb.Update))
				}
			}
			// non-canonical key spellings in half of the paths
			for i, u := range req.Update {
				if i%2 == 0 {
					for _, e := range u.Path.Elem {
						for k, v := range e.Key {
							if _, err := strconv.ParseUint(v, 10, 64); err == nil {
								e.Key[k] = "0" + v
							}
						}
					}
				}
			}
			req0 := proto.Clone(req)
			for _, opts := range [][]ytypes.UnmarshalOpt{nil, {&ytypes.IgnoreExtraFields{}}, {&ytypes.BestEffortUnmarshal{}}} {
				dst := p.NewRoot()
				sch := &ytypes.Schema{Root: dst, SchemaTree: p.Schema().SchemaTree, Unmarshal: p.Schema().Unmarshal}
				guard(func() string { ytypes.UnmarshalSetRequest(sch, req, opts...); return "" })
				if !proto.Equal(req, req0) {
					return fmt.Sprintf("SetRequest modified: %v -> %v", req0, req)
				}
				for i := len(del); i < cap(del); i++ {
					if full[i] != sentinel {
						return "SetRequest.Delete backing array written beyond its length"
					}
				}
			}
			// the same through UnmarshalNotifications (atomic and not)
			for _, atomic := range []bool{false, true} {
				nn := proto.Clone(n).(*gpb.Notification)
				nn.Atomic = atomic
				d2 := make([]*gpb.Path, 0, 4)
				d2 = append(d2, &gpb.Path{Elem: []*gpb.PathElem{{Name: "nonexistent"}}})
				f2 := d2[:cap(d2)]
				for i := 1; i < cap(d2); i++ {
					f2[i] = sentinel
				}
				nn.Delete = d2
				n0 := proto.Clone(nn)
				dst := p.NewRoot()
				sch := &ytypes.Schema{Root: dst, SchemaTree: p.Schema().SchemaTree, Unmarshal: p.Schema().Unmarshal}
				guard(func() string { ytypes.UnmarshalNotifications(sch, []*gpb.Notification{nn}); return "" })
				if !proto.Equal(nn, n0) {
					return fmt.Sprintf("Notification modified (atomic=%v): %v -> %v", atomic, n0, nn)
				}
				for i := 1; i < cap(d2); i++ {
					if f2[i] != sentinel {
						return fmt.Sprintf("Notification.Delete backing array written beyond its length (atomic=%v)", atomic)
					}
				}
			}
		}
		return ""
	})
	// --- gnmidiff
	for _, withSchema := range []bool{false, true} {
		withSchema := withSchema
		add(fmt.Sprintf("gnmidiff.DiffSetRequest/schema=%v", withSchema), func(p *core.Pkg, atoms []*core.Atom) string {
			if p.SchemaName != "voc" { // the no-schema mode assumes OpenConfig-style schemas
				return ""
			}
			t, _ := p.Build(atoms)
			ns, err := ygot.TogNMINotifications(t.(ygot.GoStruct), 1, ygot.GNMINotificationsConfig{UsePathElem: true})
			if err != nil || len(ns) == 0 {
				return ""
			}
			req := &gpb.SetRequest{Prefix: ns[0].Prefix}
			for _, u := range ns[0].Update {
				req.Update = append(req.Update, proto.Clone(u).(*gpb.Update))
			}
			req2 := proto.Clone(req).(*gpb.SetRequest)
			req0 := proto.Clone(req)
			var sch *ytypes.Schema
			var rootSnap string
			if withSchema {
				sch = p.FreshSchema()
				rootSnap = deepSnapshot(sch.Root)
			}
			guard(func() string { gnmidiff.DiffSetRequest(req, req2, sch); return "" })
			guard(func() string {
				gnmidiff.DiffSetRequestToNotifications(req, ns, sch)
				return ""
			})
			if !proto.Equal(req, req0) || !proto.Equal(req2, req0) {
				return "SetRequest modified by gnmidiff"
			}
			if withSchema && deepSnapshot(sch.Root) != rootSnap {
				return "ytypes.Schema.Root modified by gnmidiff: " + core.DiffCanon(p.Observe(p.NewRoot()).StateKey(), p.Observe(sch.Root).StateKey())
			}
			return ""
		})
	}
	return calls
}

// nonCanonicalPath renders q with key strings that denote the same keys but are not in ygot's
// canonical spelling (leading zero, trailing fraction zero, module-prefixed names); nil if no key differs.
func nonCanonicalPath(p *core.Pkg, q core.Path) *gpb.Path {
	g := q.GNMI()
	changed := false
	for i, e := range q {
		for _, kv := range e.Keys {
			s := g.Elem[i].Key[kv.Name]
			n := s
			switch k := kv.Val.Kind(); {
			case k == "enum":
				n = p.SchemaName + ":" + s
			case k == "dec":
				if strings.Contains(s, ".") {
					n = s + "0"
				} else {
					n = s + ".0"
				}
			case k == "bool", k == "str", k == "bin", k == "empty":
			case strings.HasPrefix(s, "-"):
				n = "-0" + s[1:]
			default:
				n = "0" + s
			}
			if n != s {
				g.Elem[i].Key[kv.Name] = n
				changed = true
			}
		}
	}
	if !changed {
		return nil
	}
	return g
}

func collectLeafValues(v reflect.Value, out *[]interface{}, depth int) {
	if depth > 12 || !v.IsValid() {
		return
	}
	switch v.Kind() {
	case reflect.Ptr:
		if v.IsNil() {
			return
		}
		if v.Elem().Kind() == reflect.Struct {
			collectLeafValues(v.Elem(), out, depth+1)
			return
		}
		*out = append(*out, v.Interface())
	case reflect.Struct:
		for i := 0; i < v.NumField(); i++ {
			f := v.Field(i)
			if !f.CanInterface() {
				continue
			}
			switch f.Kind() {
			case reflect.Ptr:
				collectLeafValues(f, out, depth+1)
			case reflect.Map:
				for _, k := range f.MapKeys() {
					collectLeafValues(f.MapIndex(k), out, depth+1)
				}
			case reflect.Slice, reflect.Interface:
				if !f.IsNil() {
					*out = append(*out, f.Interface())
				}
			case reflect.Int64, reflect.Bool:
				*out = append(*out, f.Interface())
			}
		}
	}
}

func c11Check(p *core.Pkg, atoms []*core.Atom, call c11Call) (string, string) {
	if _, err := p.Build(atoms); err != nil {
		return "", ""
	}
	var d string
	func() {
		defer func() {
			if r := recover(); r != nil {
				d = ""
			}
		}()
		d = call.run(p, atoms)
	}()
	if d != "" {
		what := d
		if i := strings.Index(d, ":"); i > 0 {
			what = d[:i]
		}
		return "mutates[" + call.name + " -> " + strings.Fields(what)[0] + "]:", d
	}
	return "", ""
}

func c11PairCheck(p *core.Pkg, aa, ba []*core.Atom, which string) (string, string) {
	a, err := p.Build(aa)
	if err != nil {
		return "", ""
	}
	b, err := p.Build(ba)
	if err != nil {
		return "", ""
	}
	func() {
		defer func() { recover() }()
		switch which {
		case "Diff":
			ygot.Diff(a.(ygot.GoStruct), b.(ygot.GoStruct))
			ygot.Diff(a.(ygot.GoStruct), b.(ygot.GoStruct), &ygot.IgnoreAdditions{})
		case "DiffWithAtomic":
			ygot.DiffWithAtomic(a.(ygot.GoStruct), b.(ygot.GoStruct))
		case "MergeStructs":
			ygot.MergeStructs(a.(ygot.GoStruct), b.(ygot.GoStruct))
			ygot.MergeStructs(a.(ygot.GoStruct), b.(ygot.GoStruct), &ygot.MergeOverwriteExistingFields{}, &ygot.MergeEmptyMaps{})
		}
	}()
	if d := treeUnchanged(p, aa, a, "first argument"); d != "" {
		return "mutates[" + which + " -> first]:", d
	}
	if d := treeUnchanged(p, ba, b, "second argument"); d != "" {
		return "mutates[" + which + " -> second]:", d
	}
	return "", ""
}

type c11Case struct {
	Pkg   string   `json:"pkg"`
	Atoms []string `json:"atoms"`
	B     []string `json:"b,omitempty"`
	Call  string   `json:"call"`
}

func runC11(c *core.Ctx) {
	c.Level = "model_checking"
	c.Rule = "every explicit-state search state (k<=1 full alphabet + k<=2 focused; thorough k<=2 full) x every read-only / encoding call of the statement with every option value (Validate, Marshal7951 / ConstructIETFJSON / EmitJSON x 4 RFC7951JSONConfig settings, EncodeTypedValue of the root, every sub-struct and every leaf value x JSON/JSON_IETF x config, TogNMINotifications with a caller-owned prefix, DeepCopy, GetNode on every node path x 4 options, Unmarshal of the decoded JSON tree, SetNode / UnmarshalSetRequest / UnmarshalNotifications incl. TolerateJSONInconsistencies and slices with spare capacity, gnmidiff with and without schema), and Diff / DiffWithAtomic / MergeStructs on all ordered pairs of k<=1 states: every argument (tree vs pristine twin including unexported fields, protobuf messages vs clones, option structs, decoded JSON trees, schema root) must be unchanged afterwards; non-trivial = state x call pair executed on a non-empty tree"
	calls := c11Calls()
	for _, p := range core.Packages() {
		if c.Expired() {
			break
		}
		sp := core.Explore(p, p.Atoms(), kFor(c, 1, 2))
		states := sp.States
		if !c.Thorough() {
			foc := core.FocusAtoms(p.Atoms())
			sp2 := core.Explore(p, foc, 2)
			for _, st := range sp2.States {
				if len(st.Seq) == 2 {
					states = append(states, core.State{Seq: []uint16{uint16(foc[st.Seq[0]].ID), uint16(foc[st.Seq[1]].ID)}, Key: st.Key})
				}
			}
		}
		c.R.Add("states", int64(len(states)))
		core.ParallelFor(len(states), func(i int) {
			if i%64 == 0 && c.Expired() {
				return
			}
			atoms := sp.SeqAtoms(states[i])
			for _, call := range calls {
				if strings.HasPrefix(call.name, "GetNode") && len(atoms) > 1 && !c.Thorough() {
					continue
				}
				c.R.Add("evaluations", 1)
				c.R.Add("transitions", 1)
				sig, d := c11Check(p, atoms, call)
				if sig != "" {
					min, msig, md := minimise(atoms, func(x []*core.Atom) (string, string) { return c11Check(p, x, call) })
					if msig == "" || clauseOf(msig) == "unstable" {
						min, msig, md = atoms, sig, d
					}
					c.R.Violation(sigFor(clauseOf(msig), min), md, c11Case{Pkg: p.Name, Atoms: atomNames(min), Call: call.name})
					c.R.Outcome("violation")
				} else {
					c.R.Outcome("unchanged")
					if len(atoms) > 0 {
						c.R.NonTrivial(p.Name + string(states[i].Key[:]) + call.name)
					}
				}
			}
		})
		// pairs
		one := core.Explore(p, p.Atoms(), 1)
		n := len(one.States)
		if !c.Thorough() && p.Name != "vtus" && p.Name != "vtuw" && p.Name != "voccs" {
			n = 0
		}
		core.ParallelFor(n, func(i int) {
			for j := 0; j < n; j++ {
				for _, which := range []string{"Diff", "DiffWithAtomic", "MergeStructs"} {
					c.R.Add("evaluations", 1)
					aa, ba := one.SeqAtoms(one.States[i]), one.SeqAtoms(one.States[j])
					if sig, d := c11PairCheck(p, aa, ba, which); sig != "" {
						c.R.Violation(sigFor(clauseOf(sig), aa)+" || "+sigFor("", ba), d, c11Case{Pkg: p.Name, Atoms: atomNames(aa), B: atomNames(ba), Call: which})
					}
				}
			}
		})
		c.R.Add("traces_validated_against_impl", c.R.Get("evaluations"))
		if len(states) > 2 {
			c.R.Sample(c11Case{Pkg: p.Name, Atoms: sp.SeqNames(states[len(states)/2]), Call: calls[len(calls)/2].name})
		}
	}
}

func replayC11(c *core.Ctx, raw []byte) (bool, string) {
	var rc c11Case
	if err := json.Unmarshal(raw, &rc); err != nil {
		return false, err.Error()
	}
	p := core.PkgByName(rc.Pkg)
	if p == nil {
		return false, "unknown package"
	}
	atoms, ok := p.AtomsByName(rc.Atoms)
	if !ok {
		return false, "unknown atoms"
	}
	if rc.B != nil || rc.Call == "Diff" || rc.Call == "DiffWithAtomic" || rc.Call == "MergeStructs" {
		b, _ := p.AtomsByName(rc.B)
		sig, d := c11PairCheck(p, atoms, b, rc.Call)
		return sig != "", sig + " " + d
	}
	for _, call := range c11Calls() {
		if call.name == rc.Call {
			sig, d := c11Check(p, atoms, call)
			return sig != "", sig + " " + d
		}
	}
	return false, "unknown call"
}
