package props

// C28 - Generated protobufs are well-formed.
//
// protogen is run in-process (protogen.New(...).Generate) on
//   (1) the on-disk corpora: $VERIF/schemas, $REPO/protogen/testdata/proto, $REPO/testdata/modules;
//   (2) a bounded-exhaustive schema family: a skeleton module plus every single feature atom and every
//       unordered pair of feature atoms (leaves of each type, leaf-lists, keyed / unkeyed / nested lists,
//       containers, choice, anydata, enumerations, identities, unions, typedefs, OpenConfig config/state);
//   (3) an adversarial identifier family found by exhaustive enumeration: every name of length <= 4 over
//       [a-z0-9-] is hashed with the real (overlay-exported) protogen.fieldTag under the path prefix protogen
//       uses for sibling leaves ("/va/c/") and for identity values (base name "B"); colliding pairs, names
//       whose raw hash falls into 0, 1..1000, 19000..19999 (the search for those goes to length 6 / 7 with an
//       FNV-1 walk and every hit is confirmed with the real fieldTag), names folded together by protobuf name
//       mangling, protobuf keywords, and enumeration names / values at the edges are instantiated as schemas;
// each under the protogen options {compress paths, nested messages, annotate schema paths, annotate enum
// names} x {default packages, custom package / enum package / base import path / go_package / fake root,
// defaults + fake root}.
//
// Oracle per generated file set: every file parses with core.ParseProto (protoparse-mini) as proto3, and
// core.ValidateProtoSet finds no descriptor-level defect (distinct field names / numbers, numbers in
// 1..2^29-1 outside 19000-19999, enums: first value 0, distinct names and numbers, ...); a second generation
// yields the same tags; tags of untouched fields do not change when unrelated siblings (a leaf, an identity,
// a top-level container, an augmenting module) are added. A generator ERROR is always acceptable.

import (
	"encoding/json"
	"fmt"
	"os"
	"path"
	"path/filepath"
	"regexp"
	"sort"
	"strings"
	"sync"
	"sync/atomic"

	"github.com/openconfig/ygot/genutil"
	"github.com/openconfig/ygot/protogen"
	"github.com/openconfig/ygot/ygen"
	"github.com/openconfig/ygot/zzverif/core"
)

func init() { core.RegisterProp(&core.Prop{ID: "C28", Run: runC28, Replay: replayC28}) }

// ---------------------------------------------------------------------------------------------
// cases

type c28Opts struct {
	Compress   bool `json:"compress"`
	Nested     bool `json:"nested"`
	AnnotPaths bool `json:"annot_paths"`
	AnnotEnums bool `json:"annot_enums"`
	// Pkg: 0 = default package names, no fake root; 1 = custom package / enum package / base import path /
	// go_package base / ywrapper and yext paths, with fake root; 2 = defaults with fake root.
	Pkg int `json:"pkg"`
}

func (o c28Opts) lits() []string {
	b := func(n string, v bool) string {
		if v {
			return n + "=1"
		}
		return n + "=0"
	}
	return []string{b("compress", o.Compress), b("nested", o.Nested), b("annot-paths", o.AnnotPaths), b("annot-enums", o.AnnotEnums), fmt.Sprintf("pkg=%d", o.Pkg)}
}

type c28Mod struct {
	Name string `json:"name"` // file name without .yang
	Text string `json:"text"`
}

type c28Case struct {
	Source string `json:"source"` // corpus:<dir> | family | adv
	Kind   string `json:"kind"`   // signature shape: atom classes / adversarial kind / corpus dir
	Shape  string `json:"shape"`  // concrete: atom ids, file names, identifier names
	// on-disk schemas ("$REPO/..." / "$VERIF/..." are expanded at run time)
	Files   []string `json:"files,omitempty"`
	Include []string `json:"include,omitempty"`
	// in-memory schemas, written to a temporary directory; all are handed to Generate
	Modules []c28Mod `json:"modules,omitempty"`
	// the same schema with unrelated siblings added (sibling-independence clause)
	Variant []c28Mod `json:"variant,omitempty"`
	Opts    c28Opts  `json:"opts"`
	// expectations of adversarial cases (0 = not judged): number of values every top-level (enums package) enum /
	// every message-embedded enum must have, the UNSET value included
	TopEnumValues int `json:"top_enum_values,omitempty"`
	MsgEnumValues int `json:"msg_enum_values,omitempty"`
	// Predicted: the enumeration with the real fieldTag predicts that this schema cannot be rendered as a
	// well-formed proto; "no error and no violation" is then a harness failure that must not pass silently.
	Predicted string `json:"predicted,omitempty"`

	atoms     []string // family: atom ids (for attribution of pair failures to single atoms)
	noVariant bool     // quick tier: atom pairs are not re-generated with the unrelated siblings
	files     []string // materialised inputs (set by c28Materialise)
	vfiles    []string
}

type c28Fail struct {
	Clause string
	Qual   string // short qualifier that is part of the signature (e.g. the option name)
	Detail string
}

type c28Stats struct {
	files, msgs, fields, enums, values int
	errClass                           string
}

// ---------------------------------------------------------------------------------------------
// running protogen

func (o c28Opts) generator() *protogen.CodeGenerator {
	cb, err := genutil.TranslateToCompressBehaviour(o.Compress, false, false)
	if err != nil {
		panic(err)
	}
	iro := ygen.IROptions{TransformationOptions: ygen.TransformationOpts{CompressBehaviour: cb}}
	po := protogen.ProtoOpts{AnnotateSchemaPaths: o.AnnotPaths, AnnotateEnumNames: o.AnnotEnums, NestedMessages: o.Nested}
	switch o.Pkg {
	case 1:
		iro.TransformationOptions.GenerateFakeRoot = true
		iro.TransformationOptions.FakeRootName = "device"
		po.PackageName = "vpkg"
		po.EnumPackageName = "venums"
		po.BaseImportPath = "example.com/base"
		po.GoPackageBase = "example.com/go"
		po.YwrapperPath = "ext/yw"
		po.YextPath = "ext/yx"
	case 2:
		iro.TransformationOptions.GenerateFakeRoot = true
		iro.TransformationOptions.FakeRootName = "device"
	}
	return protogen.New("c28", iro, po)
}

func (o c28Opts) extPaths() (yw, yx, base string) {
	if o.Pkg == 1 {
		return "ext/yw", "ext/yx", "example.com/base"
	}
	return protogen.DefaultYwrapperPath, protogen.DefaultYextPath, ""
}

// c28Generate returns import path -> file text, assembled exactly as proto_generator writes the files.
func c28Generate(files, include []string, o c28Opts) (out map[string]string, err error) {
	defer recoverTo(&err)
	gc, errs := o.generator().Generate(files, include)
	if errs != nil {
		return nil, fmt.Errorf("%v", errs)
	}
	_, _, base := o.extPaths()
	out = map[string]string{}
	for _, p := range gc.Packages {
		var b strings.Builder
		b.WriteString(p.Header)
		for _, m := range p.Messages {
			b.WriteString(m)
			b.WriteString("\n")
		}
		for _, e := range p.Enums {
			b.WriteString(e)
		}
		fp := path.Join(append([]string{base}, p.FilePath...)...)
		if _, dup := out[fp]; dup {
			return nil, fmt.Errorf("C28-INTERNAL two packages map to file %s", fp)
		}
		out[fp] = b.String()
	}
	if d := os.Getenv("C28_DUMP"); d != "" { // debugging aid for replays: write the generated files
		for fp, t := range out {
			os.MkdirAll(filepath.Join(d, filepath.Dir(fp)), 0o755)
			os.WriteFile(filepath.Join(d, fp), []byte(t), 0o644)
		}
	}
	return out, nil
}

var (
	c28ExtOnce sync.Once
	c28ExtYw   *core.ProtoFile
	c28ExtYx   *core.ProtoFile
	c28ExtErr  error
)

// c28Externals parses the real ywrapper.proto / yext.proto of the tree under test with protoparse-mini and adds
// stand-ins for the two google/protobuf files that are referenced.
func c28Externals(repo string, o c28Opts) ([]*core.ProtoFile, error) {
	c28ExtOnce.Do(func() {
		rd := func(p string) (*core.ProtoFile, error) {
			b, err := os.ReadFile(filepath.Join(repo, p))
			if err != nil {
				return nil, err
			}
			f, err := core.ParseProto(string(b))
			if err != nil {
				return nil, fmt.Errorf("%s: %v", p, err)
			}
			return f, nil
		}
		if c28ExtYw, c28ExtErr = rd("proto/ywrapper/ywrapper.proto"); c28ExtErr != nil {
			return
		}
		c28ExtYx, c28ExtErr = rd("proto/yext/yext.proto")
	})
	if c28ExtErr != nil {
		return nil, c28ExtErr
	}
	yw, yx, _ := o.extPaths()
	cp := func(f *core.ProtoFile, p string) *core.ProtoFile { g := *f; g.Path = p; return &g }
	anyF := &core.ProtoFile{Path: "google/protobuf/any.proto", Syntax: "proto3", Package: "google.protobuf",
		Messages: []*core.ProtoMessage{{Name: "Any"}}}
	desc := &core.ProtoFile{Path: "google/protobuf/descriptor.proto", Syntax: "proto2", Package: "google.protobuf",
		Messages: []*core.ProtoMessage{{Name: "FieldOptions"}, {Name: "EnumValueOptions"}, {Name: "MessageOptions"}, {Name: "FileOptions"}, {Name: "EnumOptions"}}}
	return []*core.ProtoFile{cp(c28ExtYw, yw+"/ywrapper.proto"), cp(c28ExtYx, yx+"/yext.proto"), anyF, desc}, nil
}

var (
	c28rePath = regexp.MustCompile(`/[^\s:,"'\]\)]+`)
	c28reNum  = regexp.MustCompile(`\d+`)
	c28reQ    = regexp.MustCompile(`"[^"]*"`)
)

func c28ErrClass(msg string) string {
	if i := strings.IndexByte(msg, '\n'); i >= 0 {
		msg = msg[:i]
	}
	msg = c28reQ.ReplaceAllString(msg, "Q")
	msg = c28rePath.ReplaceAllString(msg, "P")
	msg = c28reNum.ReplaceAllString(msg, "N")
	if len(msg) > 70 {
		msg = msg[:70]
	}
	return msg
}

func c28ParseClass(msg string) string {
	// "line N: text (at tok)" -> text
	if i := strings.Index(msg, ": "); i >= 0 && strings.HasPrefix(msg, "line ") {
		msg = msg[i+2:]
	}
	if i := strings.LastIndex(msg, " (at "); i >= 0 {
		msg = msg[:i]
	}
	msg = c28reQ.ReplaceAllString(msg, "Q")
	msg = c28reNum.ReplaceAllString(msg, "N")
	if strings.Contains(msg, "string literal") {
		return "string-literal"
	}
	return "syntax"
}

func c28Expand(c *core.Ctx, p string) string {
	p = strings.Replace(p, "$REPO", c.RepoDir, 1)
	return strings.Replace(p, "$VERIF", c.VerifDir, 1)
}

func c28WriteMods(dir string, mods []c28Mod) ([]string, error) {
	var files []string
	for _, m := range mods {
		fn := filepath.Join(dir, m.Name+".yang")
		if err := os.WriteFile(fn, []byte(m.Text), 0o644); err != nil {
			return nil, err
		}
		files = append(files, fn)
	}
	return files, nil
}

// c28Materialise writes the in-memory modules of the cases below root, once per distinct schema.
func c28Materialise(root string, cases []*c28Case) {
	type ent struct{ files, vfiles []string }
	seen := map[string]*ent{}
	for _, cs := range cases {
		if len(cs.Modules) == 0 {
			continue
		}
		key := cs.Source + "|" + cs.Kind + "|" + cs.Shape
		e := seen[key]
		if e == nil {
			e = &ent{}
			dir := filepath.Join(root, fmt.Sprintf("s%05d", len(seen)))
			if err := os.MkdirAll(filepath.Join(dir, "variant"), 0o755); err != nil {
				panic(err)
			}
			var err error
			if e.files, err = c28WriteMods(dir, cs.Modules); err != nil {
				panic(err)
			}
			if len(cs.Variant) > 0 {
				if e.vfiles, err = c28WriteMods(filepath.Join(dir, "variant"), cs.Variant); err != nil {
					panic(err)
				}
			}
			seen[key] = e
		}
		cs.files, cs.vfiles = e.files, e.vfiles
	}
}

type c28Parsed struct {
	files  []*core.ProtoFile
	fields map[core.ProtoFieldRef]int64
	enums  map[core.ProtoFieldRef]int64
}

// c28Parse parses a generated file set; a parse failure is reported as a c28Fail.
func c28Parse(texts map[string]string) (*c28Parsed, []c28Fail) {
	var fails []c28Fail
	ps := &c28Parsed{fields: map[core.ProtoFieldRef]int64{}, enums: map[core.ProtoFieldRef]int64{}}
	var paths []string
	for p := range texts {
		paths = append(paths, p)
	}
	sort.Strings(paths)
	for _, p := range paths {
		f, err := core.ParseProto(texts[p])
		if err != nil {
			fails = append(fails, c28Fail{Clause: "parse-error", Qual: c28ParseClass(err.Error()), Detail: fmt.Sprintf("%s: %v\n%s", p, err, c28Excerpt(texts[p], err.Error()))})
			continue
		}
		f.Path = p
		ps.files = append(ps.files, f)
		for k, v := range f.FieldNumbers() {
			ps.fields[k] = v
		}
		for k, v := range f.EnumNumbers() {
			ps.enums[k] = v
		}
	}
	return ps, fails
}

var c28reLine = regexp.MustCompile(`^line (\d+):`)

func c28Excerpt(text, errMsg string) string {
	m := c28reLine.FindStringSubmatch(errMsg)
	if m == nil {
		return ""
	}
	var n int
	fmt.Sscanf(m[1], "%d", &n)
	lines := strings.Split(text, "\n")
	lo, hi := n-2, n+1
	if lo < 0 {
		lo = 0
	}
	if hi > len(lines) {
		hi = len(lines)
	}
	return strings.Join(lines[lo:hi], "\n")
}

// c28Eval evaluates one case: generation (twice), parsing, validation, cross-run and sibling clauses.
func c28Eval(c *core.Ctx, cs *c28Case) (fails []c28Fail, st c28Stats, outcome string) {
	var files, include []string
	for _, f := range cs.Files {
		files = append(files, c28Expand(c, f))
	}
	for _, d := range cs.Include {
		include = append(include, filepath.Join(c28Expand(c, d), "..."))
	}
	vfiles := cs.vfiles
	if len(cs.Modules) > 0 {
		if cs.files == nil { // replay: materialise this one case
			dir, err := os.MkdirTemp("", "c28-")
			if err != nil {
				panic(err)
			}
			defer os.RemoveAll(dir)
			c28Materialise(dir, []*c28Case{cs})
			vfiles = cs.vfiles
		}
		files = cs.files
	}
	if cs.noVariant {
		vfiles = nil
	}
	c.R.Add("generations", 2)
	t1, err1 := c28Generate(files, include, cs.Opts)
	t2, err2 := c28Generate(files, include, cs.Opts)
	if (err1 == nil) != (err2 == nil) {
		fails = append(fails, c28Fail{Clause: "nondeterministic-error", Detail: fmt.Sprintf("first generation: %v; second generation: %v", err1, err2)})
		return fails, st, "violation"
	}
	if err1 != nil {
		msg := err1.Error()
		if strings.Contains(msg, "PANIC") || strings.Contains(msg, "C28-INTERNAL") {
			// a panic is not a diagnosed rejection; it is reported (it is not a silent ill-formed file either, so it
			// has its own clause and can be classified separately)
			fails = append(fails, c28Fail{Clause: "generator-panic", Qual: c28ErrClass(msg), Detail: msg})
			return fails, st, "violation"
		}
		st.errClass = c28ErrClass(msg)
		return nil, st, "generator-error"
	}
	p1, pf := c28Parse(t1)
	fails = append(fails, pf...)
	st.files = len(t1)
	for _, f := range p1.files {
		m, fl, e, v := f.Counts()
		st.msgs += m
		st.fields += fl
		st.enums += e
		st.values += v
	}
	ext, err := c28Externals(c.RepoDir, cs.Opts)
	if err != nil {
		panic("C28: cannot read ywrapper/yext from the tree under test: " + err.Error())
	}
	if len(pf) == 0 {
		for _, is := range core.ValidateProtoSet(p1.files, ext) {
			q := ""
			switch is.Clause {
			case "option-unresolved", "option-not-imported", "option-wrong-target", "option-value-type":
				if i := strings.Index(is.Detail, "("); i >= 0 {
					if j := strings.Index(is.Detail[i:], ")"); j >= 0 {
						q = is.Detail[i : i+j+1]
					}
				}
			case "symbol-conflict":
				q = c28SymKinds(is.Detail)
			case "type-not-imported":
				q = path.Base(is.Detail[strings.Index(is.Detail, "is defined in ")+len("is defined in ") : strings.Index(is.Detail, ", which")])
			case "import-unresolved":
				q = path.Base(is.Where)
				if q == ".proto" {
					q = "empty-file-name"
				}
			}
			if q == "venums.proto" { // custom enum package name of configuration pkg=1
				q = "enums.proto"
			}
			fails = append(fails, c28Fail{Clause: is.Clause, Qual: q, Detail: is.String()})
		}
		// expectations of adversarial cases: no schema value may be dropped silently
		if cs.TopEnumValues > 0 || cs.MsgEnumValues > 0 {
			for _, f := range p1.files {
				if cs.TopEnumValues > 0 {
					for _, e := range f.Enums {
						fails = append(fails, c28EnumComplete(f.Package+"."+e.Name, e, cs.TopEnumValues)...)
					}
				}
				if cs.MsgEnumValues > 0 {
					var walk func(pfx string, m *core.ProtoMessage)
					walk = func(pfx string, m *core.ProtoMessage) {
						for _, e := range m.Enums {
							fails = append(fails, c28EnumComplete(pfx+"."+m.Name+"."+e.Name, e, cs.MsgEnumValues)...)
						}
						for _, ch := range m.Messages {
							walk(pfx+"."+m.Name, ch)
						}
					}
					for _, m := range f.Messages {
						walk(f.Package, m)
					}
				}
			}
		}
	}
	// clause: tags equal across two generations
	p2, pf2 := c28Parse(t2)
	if len(pf) == 0 && len(pf2) == 0 {
		if d := c28DiffNumbers(p1.fields, p2.fields, true); d != "" {
			fails = append(fails, c28Fail{Clause: "tags-differ-across-runs", Detail: d})
		}
		if d := c28DiffNumbers(p1.enums, p2.enums, true); d != "" {
			fails = append(fails, c28Fail{Clause: "enum-numbers-differ-across-runs", Detail: d})
		}
	} else if len(pf) != len(pf2) {
		fails = append(fails, c28Fail{Clause: "nondeterministic-error", Detail: "only one of two generations parses"})
	}
	// clause: tags of untouched fields unchanged when unrelated siblings are added
	if len(vfiles) > 0 && len(pf) == 0 {
		c.R.Add("generations", 1)
		c.R.Add("sibling_variants", 1)
		tv, errv := c28Generate(vfiles, include, cs.Opts)
		if errv != nil {
			c.R.Outcome("variant-generator-error (not judged)")
		} else if pv, pfv := c28Parse(tv); len(pfv) == 0 {
			if d := c28DiffNumbers(p1.fields, pv.fields, false); d != "" {
				fails = append(fails, c28Fail{Clause: "tag-changed-by-unrelated-sibling", Detail: d})
			}
			if d := c28DiffNumbers(p1.enums, pv.enums, false); d != "" {
				fails = append(fails, c28Fail{Clause: "enum-number-changed-by-unrelated-sibling", Detail: d})
			}
			n := 0
			for k := range p1.fields {
				if _, ok := pv.fields[k]; ok {
					n++
				}
			}
			c.R.Add("sibling_fields_compared", int64(n))
			if n < len(p1.fields) {
				c.R.Outcome("variant-field-unmatched (not judged)")
			}
		}
	}
	if len(fails) > 0 {
		return fails, st, "violation"
	}
	return nil, st, "ok"
}

var c28reKinds = regexp.MustCompile(`defined as (\w+) \([^)]*\) and as (\w+)`)

func c28SymKinds(detail string) string {
	m := c28reKinds.FindStringSubmatch(detail)
	if m == nil {
		return ""
	}
	k := []string{m[1], m[2]}
	sort.Strings(k)
	return k[0] + "/" + k[1]
}

func c28EnumComplete(name string, e *core.ProtoEnum, want int) []c28Fail {
	var fails []c28Fail
	if len(e.Values) < want {
		var have []string
		for _, v := range e.Values {
			have = append(have, fmt.Sprintf("%s=%d", v.Name, v.Number))
		}
		fails = append(fails, c28Fail{Clause: "enum-value-dropped", Detail: fmt.Sprintf("enum %s has %d values, the schema defines %d (UNSET included): %s", name, len(e.Values), want, strings.Join(have, " "))})
	}
	return fails
}

// c28DiffNumbers compares two name->number maps; with both=false only names present in both are compared.
func c28DiffNumbers(a, b map[core.ProtoFieldRef]int64, both bool) string {
	var diffs []string
	for k, v := range a {
		w, ok := b[k]
		if !ok {
			if both {
				diffs = append(diffs, fmt.Sprintf("%s.%s only in first", k.Message, k.Field))
			}
			continue
		}
		if v != w {
			diffs = append(diffs, fmt.Sprintf("%s.%s: %d vs %d", k.Message, k.Field, v, w))
		}
	}
	if both {
		for k := range b {
			if _, ok := a[k]; !ok {
				diffs = append(diffs, fmt.Sprintf("%s.%s only in second", k.Message, k.Field))
			}
		}
	}
	sort.Strings(diffs)
	if len(diffs) > 5 {
		diffs = append(diffs[:5], fmt.Sprintf("... %d more", len(diffs)-5))
	}
	return strings.Join(diffs, "; ")
}

// ---------------------------------------------------------------------------------------------
// option configurations

func c28AllOpts() []c28Opts {
	var out []c28Opts
	for pkg := 0; pkg < 3; pkg++ {
		for m := 0; m < 16; m++ {
			out = append(out, c28Opts{Compress: m&1 != 0, Nested: m&2 != 0, AnnotPaths: m&4 != 0, AnnotEnums: m&8 != 0, Pkg: pkg})
		}
	}
	return out
}

// c28PairOpts: reduced configuration set used for atom pairs in the quick tier:
// compress x nested x {both annotations off with default packages, both on with custom packages + fake root}.
func c28PairOpts() []c28Opts {
	var out []c28Opts
	for m := 0; m < 8; m++ {
		o := c28Opts{Compress: m&1 != 0, Nested: m&2 != 0, AnnotPaths: m&4 != 0, AnnotEnums: m&4 != 0}
		if m&4 != 0 {
			o.Pkg = 1
		}
		out = append(out, o)
	}
	return out
}

func c28AdvOpts() []c28Opts {
	return []c28Opts{
		{Nested: true},
		{Nested: false},
		{Nested: true, AnnotPaths: true, AnnotEnums: true},
		{Nested: false, AnnotPaths: true, AnnotEnums: true},
		{Nested: true, Compress: true, AnnotPaths: true, AnnotEnums: true, Pkg: 1},
		{Nested: false, Compress: true, Pkg: 1},
	}
}

// ---------------------------------------------------------------------------------------------
// (1) corpora

func c28CorpusCases(c *core.Ctx) []*c28Case {
	var out []*c28Case
	type src struct {
		tag, dir string
		groups   [][]string // extra multi-file inputs
	}
	srcs := []src{
		{"verif-schemas", "$VERIF/schemas", [][]string{{"vt.yang", "vt-aug.yang"}, {"vt.yang", "vt-aug.yang", "vt-ext.yang"}, {"ven.yang", "openconfig-vex.yang"}, {"venx-dupid.yang", "venx-dupid-b.yang"}}},
		{"protogen-testdata", "$REPO/protogen/testdata/proto", [][]string{{"fakeroot-multimod-one.yang", "fakeroot-multimod-two.yang"}, {"cross-ref-src.yang", "cross-ref-target.yang"}, {"proto-enums.yang", "proto-enums-addid.yang"}}},
		{"repo-testdata-modules", "$REPO/testdata/modules", nil},
	}
	for _, s := range srcs {
		dir := c28Expand(c, s.dir)
		ms, _ := filepath.Glob(filepath.Join(dir, "*.yang"))
		sort.Strings(ms)
		var inputs [][]string
		// the harness's own schema directory grows with other properties' corpora: C28 uses a pinned list
		pinned := map[string]bool{"vt.yang": true, "vt-aug.yang": true, "vt-ext.yang": true, "voc.yang": true, "vk.yang": true, "ven.yang": true,
			"openconfig-vex.yang": true, "venx-dupid.yang": true, "venx-dupid-b.yang": true, "venx-fold.yang": true, "venx-unset.yang": true}
		for _, m := range ms {
			if s.tag == "verif-schemas" && !pinned[filepath.Base(m)] {
				continue
			}
			inputs = append(inputs, []string{filepath.Base(m)})
		}
		inputs = append(inputs, s.groups...)
		c.R.Note("corpus_"+s.tag, map[string]interface{}{"dir": s.dir, "single_modules": len(ms), "groups": len(s.groups)})
		for _, in := range inputs {
			var files []string
			ok := true
			for _, f := range in {
				if _, err := os.Stat(filepath.Join(dir, f)); err != nil {
					ok = false
				}
				files = append(files, s.dir+"/"+f)
			}
			if !ok {
				continue
			}
			for _, o := range c28AllOpts() {
				out = append(out, &c28Case{Source: "corpus", Kind: s.tag, Shape: strings.Join(in, "+"), Files: files, Include: []string{s.dir}, Opts: o})
			}
		}
	}
	return out
}

// ---------------------------------------------------------------------------------------------
// (2) schema family

type c28Atom struct {
	ID, Class string
	Top       string // module-level statements
	Body      string // statements inside container c
}

func c28Atoms() []c28Atom {
	var as []c28Atom
	add := func(id, class, top, body string) { as = append(as, c28Atom{id, class, top, body}) }
	for _, t := range []string{"int8", "int16", "int32", "int64", "uint8", "uint16", "uint32", "uint64", "string", "boolean", "empty", "binary"} {
		add("l-"+t, "leaf-scalar", "", fmt.Sprintf("leaf l-%s { type %s; }", t, t))
	}
	add("l-dec64", "leaf-scalar", "", "leaf l-dec64 { type decimal64 { fraction-digits 2; } }")
	add("l-default", "leaf-scalar", "", `leaf l-default { type string; default "x"; }`)
	add("l-enum", "leaf-enum", "", "leaf l-enum { type enumeration { enum A; enum B; } }")
	add("l-enum-default", "leaf-enum", "", "leaf l-enum-default { type enumeration { enum A; enum B; } default B; }")
	add("l-enum-x2", "leaf-enum", "", "leaf l-enum-p { type enumeration { enum A; enum B; } } leaf l-enum-q { type enumeration { enum A; enum B; } }")
	add("l-idref", "leaf-idref", "", "leaf l-idref { type identityref { base BASE; } }")
	add("l-idref-x2", "leaf-idref", "", "leaf l-idref-p { type identityref { base BASE; } } leaf l-idref-q { type identityref { base BASE; } }")
	add("l-lref", "leaf-leafref", "", `leaf l-lref { type leafref { path "../base-leaf"; } }`)
	add("l-lref-enum", "leaf-leafref", "", `leaf l-lref-tgt { type enumeration { enum A; enum B; } } leaf l-lref-enum { type leafref { path "../l-lref-tgt"; } }`)
	add("l-union", "leaf-union", "", "leaf l-union { type union { type string; type uint32; } }")
	add("l-union3", "leaf-union", "", "leaf l-union3 { type union { type int8; type uint8; type string; type boolean; type decimal64 { fraction-digits 1; } } }")
	add("l-union-enum", "leaf-union-enum", "", "leaf l-union-enum { type union { type enumeration { enum A; enum B; } type string; } }")
	add("l-union-idref", "leaf-union-idref", "", "leaf l-union-idref { type union { type identityref { base BASE; } type string; } }")
	add("l-union-single", "leaf-union", "", `leaf l-union-single { type union { type string { pattern "a.*"; } type string { pattern "b.*"; } } }`)
	add("l-tdenum", "leaf-typedef-enum", "", "leaf l-tdenum { type td-enum; }")
	add("l-tdenum-x2", "leaf-typedef-enum", "", "leaf l-tdenum-p { type td-enum; } leaf l-tdenum-q { type td-enum; }")
	add("l-tdenum-default", "leaf-typedef-enum", "typedef tdd { type enumeration { enum P; enum Q; } default Q; }", "leaf l-tdenum-default { type tdd; }")
	add("l-tdunion", "leaf-union", "typedef tdu { type union { type string; type uint32; } }", "leaf l-tdunion { type tdu; }")
	add("l-tdunion-enum", "leaf-union-enum", "typedef tdue { type union { type enumeration { enum M; enum N; } type uint8; } }", "leaf l-tdunion-enum { type tdue; }")
	add("l-tdstring", "leaf-scalar", "typedef tds { type string { length 1..5; } }", "leaf l-tdstring { type tds; }")
	add("l-bits", "leaf-bits", "", "leaf l-bits { type bits { bit x; bit y; } }")
	add("l-instid", "leaf-instance-identifier", "", "leaf l-instid { type instance-identifier; }")
	for _, t := range []string{"string", "uint32", "int64", "boolean", "binary"} {
		add("ll-"+t, "leaflist-scalar", "", fmt.Sprintf("leaf-list ll-%s { type %s; }", t, t))
	}
	add("ll-dec64", "leaflist-scalar", "", "leaf-list ll-dec64 { type decimal64 { fraction-digits 3; } }")
	add("ll-enum", "leaflist-enum", "", "leaf-list ll-enum { type enumeration { enum A; enum B; } }")
	add("ll-idref", "leaflist-idref", "", "leaf-list ll-idref { type identityref { base BASE; } }")
	add("ll-tdenum", "leaflist-typedef-enum", "", "leaf-list ll-tdenum { type td-enum; }")
	add("ll-union", "leaflist-union", "", "leaf-list ll-union { type union { type string; type uint32; } }")
	add("ll-union-enum", "leaflist-union-enum", "", "leaf-list ll-union-enum { type union { type enumeration { enum A; enum B; } type string; } }")
	add("ll-lref", "leaflist-leafref", "", `leaf-list ll-lref { type leafref { path "../base-leaf"; } }`)
	kl := func(id, class, keytype string) {
		if !strings.HasSuffix(keytype, "}") {
			keytype += ";"
		}
		add(id, class, "", fmt.Sprintf(`list %s { key "k"; leaf k { type %s } leaf v { type string; } }`, id, keytype))
	}
	kl("kl-str", "list-keyed-scalar", "string")
	kl("kl-u32", "list-keyed-scalar", "uint32")
	kl("kl-i16", "list-keyed-scalar", "int16")
	kl("kl-bool", "list-keyed-scalar", "boolean")
	kl("kl-dec64", "list-keyed-scalar", "decimal64 { fraction-digits 2; }")
	kl("kl-bin", "list-keyed-scalar", "binary")
	kl("kl-enum", "list-keyed-enum", "enumeration { enum A; enum B; }")
	kl("kl-idref", "list-keyed-idref", "identityref { base BASE; }")
	kl("kl-tdenum", "list-keyed-typedef-enum", "td-enum")
	kl("kl-union", "list-keyed-union", "union { type string; type uint32; }")
	kl("kl-union-enum", "list-keyed-union-enum", "union { type enumeration { enum A; enum B; } type uint8; }")
	kl("kl-lref", "list-keyed-leafref", `leafref { path "../../base-leaf"; }`)
	add("kl-multi", "list-multikey", "", `list kl-multi { key "a b"; leaf a { type string; } leaf b { type uint16; } leaf v { type string; } }`)
	add("kl-multi3", "list-multikey", "", `list kl-multi3 { key "a b e"; leaf a { type string; } leaf b { type uint16; } leaf e { type enumeration { enum A; enum B; } } }`)
	add("kl-same", "list-key-named-as-list", "", `list kl-same { key "kl-same"; leaf kl-same { type string; } leaf v { type string; } }`)
	add("kl-onlykey", "list-keyed-scalar", "", `list kl-onlykey { key "k"; leaf k { type string; } }`)
	add("ul", "list-unkeyed", "", "list ul { config false; leaf v { type string; } }")
	add("kl-ll", "list-with-leaflist", "", `list kl-ll { key "k"; leaf k { type string; } leaf-list vs { type uint8; } }`)
	add("kl-nested", "list-in-list", "", `list kl-nested { key "k"; leaf k { type string; } list inner { key "j"; leaf j { type uint8; } leaf v { type string; } } }`)
	add("kl-cont", "list-with-container", "", `list kl-cont { key "k"; leaf k { type string; } container in { leaf x { type string; } } }`)
	add("kl-union-ll", "list-with-leaflist-union", "", `list kl-union-ll { key "k"; leaf k { type string; } leaf-list us { type union { type string; type uint32; } } }`)
	add("cont", "container", "", "container cont { leaf x { type string; } }")
	add("cont2", "container-nested", "", "container cont2 { container in { leaf x { type string; } leaf y { type uint8; } } }")
	add("cont3", "container-nested", "", "container cont3 { container in { container deep { leaf x { type string; } } } }")
	add("cont-enum", "container-nested", "", "container cont-enum { container in { leaf e { type enumeration { enum A; enum B; } } leaf i { type identityref { base BASE; } } } }")
	add("pcont", "container-presence", "", `container pcont { presence "p"; leaf x { type string; } }`)
	add("econt", "container-empty", "", "container econt { }")
	add("choice", "choice", "", "choice ch { case ca { leaf ch-a { type string; } } case cb { leaf ch-b { type uint8; } container ch-c { leaf x { type string; } } } }")
	add("anydata", "anydata", "", "anydata ad;")
	add("anyxml", "anyxml", "", "anyxml ax;")
	add("uses", "uses-grouping", "grouping g { leaf g-x { type string; } container g-c { leaf y { type string; } } }", "uses g;")
	add("oc-cs", "oc-config-state", "", "container oc-cs { container config { leaf a { type string; } } container state { config false; leaf a { type string; } leaf b { type uint8; } } }")
	add("oc-list", "oc-list", "", `container oc-lists { list oc-list { key "k"; leaf k { type leafref { path "../config/k"; } } container config { leaf k { type string; } leaf e { type enumeration { enum A; enum B; } } } container state { config false; leaf k { type string; } leaf e { type enumeration { enum A; enum B; } } leaf n { type uint32; } } } }`)
	add("oc-list-union", "oc-list", "", `container oc-lus { list oc-lu { key "k"; leaf k { type leafref { path "../config/k"; } } container config { leaf k { type union { type string; type uint32; } } } } }`)
	add("root-leaf", "root-leaf", "leaf root-leaf { type string; }", "")
	add("root-list", "root-list", `list root-list { key "k"; leaf k { type string; } leaf v { type uint8; } }`, "")
	add("root-cont", "root-container", "container root-cont { leaf x { type string; } container in { leaf y { type string; } } }", "")
	add("rpc", "rpc", "rpc do-it { input { leaf x { type string; } } output { leaf y { type string; } } }", "")
	add("notif", "notification", "notification ev { leaf x { type string; } }", "")
	return as
}

const c28FamilyTop = `identity BASE; identity ID-A { base BASE; } identity ID-B { base BASE; }
  typedef td-enum { type enumeration { enum X; enum Y; } }`

// c28FamilyModule renders the skeleton with the given atoms; extra=true adds the unrelated siblings.
func c28FamilyModule(atoms []c28Atom, extra bool) []c28Mod {
	var top, body []string
	for _, a := range atoms {
		if a.Top != "" {
			top = append(top, "  "+a.Top)
		}
		if a.Body != "" {
			body = append(body, "    "+a.Body)
		}
	}
	if extra {
		top = append(top, "  identity ZZX { base BASE; }", "  container zzc { leaf y { type string; } }")
		body = append(body, "    leaf zzx { type string; }", "    container zzd { leaf y { type uint8; } }")
	}
	text := fmt.Sprintf("module vf {\n  namespace \"urn:vf\";\n  prefix vf;\n  %s\n%s\n  container c {\n    leaf base-leaf { type string; }\n%s\n  }\n}\n",
		c28FamilyTop, strings.Join(top, "\n"), strings.Join(body, "\n"))
	mods := []c28Mod{{Name: "vf", Text: text}}
	if extra {
		mods = append(mods, c28Mod{Name: "vf-aug", Text: "module vf-aug {\n  namespace \"urn:vf-aug\";\n  prefix vfa;\n  import vf { prefix vf; }\n  identity ZZA { base vf:BASE; }\n  augment \"/vf:c\" { leaf zza { type string; } }\n}\n"})
	}
	return mods
}

func c28FamilyCases(c *core.Ctx) []*c28Case {
	atoms := c28Atoms()
	var out []*c28Case
	mk := func(as []c28Atom, opts []c28Opts) {
		noVariant := len(as) == 2 && !c.Thorough()
		var ids, classes []string
		for _, a := range as {
			ids = append(ids, a.ID)
			classes = append(classes, a.Class)
		}
		sort.Strings(classes)
		// every enumeration / identity base of the family has two values: each generated enum must have UNSET + 2
		// values, or 2 when a default value takes the place of UNSET (documented in genProtoEnum)
		want := 3
		for _, id := range ids {
			if strings.HasSuffix(id, "-default") {
				want = 2
			}
		}
		for _, o := range opts {
			out = append(out, &c28Case{Source: "family", Kind: strings.Join(classes, "+"), Shape: strings.Join(ids, "+"),
				Modules: c28FamilyModule(as, false), Variant: c28FamilyModule(as, true), Opts: o, atoms: ids, noVariant: noVariant,
				TopEnumValues: want, MsgEnumValues: want})
		}
	}
	mk(nil, c28AllOpts())
	for _, a := range atoms {
		mk([]c28Atom{a}, c28AllOpts())
	}
	popts := c28PairOpts()
	if c.Thorough() {
		popts = c28AllOpts()
	}
	np := 0
	for i := range atoms {
		for j := i + 1; j < len(atoms); j++ {
			mk([]c28Atom{atoms[i], atoms[j]}, popts)
			np++
		}
	}
	c.R.Note("family", map[string]interface{}{"atoms": len(atoms), "single_atom_schemas": len(atoms) + 1, "pair_schemas": np,
		"configs_single": len(c28AllOpts()), "configs_pair": len(popts)})
	return out
}

// ---------------------------------------------------------------------------------------------
// (3) adversarial identifiers

const c28Alphabet = "abcdefghijklmnopqrstuvwxyz0123456789-"
const c28TagMask = 0x1fffffff

// c28LeafPrefix is the string protogen hashes for a child of container c of module va, up to the child's name
// (protoTagForEntry hashes YANGNodeDetails.Path = "/<module>/<container>/<name>").
const c28LeafPrefix = "/va/c/"

// c28IdPrefix: identity values are hashed as <base identity name><identity name> (writeProtoEnums).
const c28IdPrefix = "B"

func c28fnv1(s string) uint32 {
	h := uint32(2166136261)
	for i := 0; i < len(s); i++ {
		h *= 16777619
		h ^= uint32(s[i])
	}
	return h
}

// c28Names lists all names of length <= maxLen over the alphabet that are YANG identifiers (start with a
// letter, do not start with "xml"), ordered by length and then by alphabet position (simplest first).
func c28Names(maxLen int) []string {
	var out []string
	cur := []string{""}
	for l := 1; l <= maxLen; l++ {
		var nxt []string
		for _, p := range cur {
			for i := 0; i < len(c28Alphabet); i++ {
				if l == 1 && i >= 26 {
					break
				}
				nxt = append(nxt, p+c28Alphabet[i:i+1])
			}
		}
		for _, n := range nxt {
			if !strings.HasPrefix(n, "xml") {
				out = append(out, n)
			}
		}
		cur = nxt
	}
	return out
}

type c28Enum struct {
	prefix    string
	names     int
	pairs     [][2]string // colliding pairs under the real fieldTag, simplest first
	zero      []string    // names whose real tag is 0
	low       []string    // raw hash in 1..1000
	reserved  []string    // raw hash in 19000..19999
	badDirect int         // real fieldTag outputs outside 1..2^29-1 or inside 19000..19999 (over the <=4 names)
	lowOut    int         // real fieldTag outputs in 1..1000
	modelDiff int         // real fieldTag differs from the documented algorithm re-implemented here
	searched  int64
	// collision search beyond length 4 (raw FNV-1 walk, each pair confirmed with the real fieldTag)
	pairsLe4     int
	collWalked   int64
	collLen      int
	candRejected int
}

func c28RefTag(s string) uint32 {
	for {
		v := c28fnv1(s) & c28TagMask
		if (v >= 19000 && v <= 19999) || (v >= 1 && v <= 1000) {
			s += "_"
			continue
		}
		return v
	}
}

// c28Enumerate hashes every name of length <= 4 with the real fieldTag and walks names up to searchLen with an
// FNV-1 walk to find the rare classes (0 / 1..1000 / 19000..19999), each confirmed with the real fieldTag.
func c28Enumerate(prefix string, searchLen, wantPairs int) *c28Enum {
	e := &c28Enum{prefix: prefix}
	names := c28Names(4)
	e.names = len(names)
	tags := make([]uint32, len(names))
	const chunk = 4096
	var mu sync.Mutex
	core.ParallelFor((len(names)+chunk-1)/chunk, func(ci int) {
		bad, lowOut, md := 0, 0, 0
		for i := ci * chunk; i < (ci+1)*chunk && i < len(names); i++ {
			t, err := protogen.VerifFieldTag(prefix + names[i])
			if err != nil {
				bad++
			}
			tags[i] = t
			if t == 0 || t > c28TagMask || (t >= 19000 && t <= 19999) {
				bad++
			}
			if t >= 1 && t <= 1000 {
				lowOut++
			}
			if t != c28RefTag(prefix+names[i]) {
				md++
			}
		}
		mu.Lock()
		e.badDirect += bad
		e.lowOut += lowOut
		e.modelDiff += md
		mu.Unlock()
	})
	idx := make([]int, len(names))
	for i := range idx {
		idx[i] = i
	}
	sort.Slice(idx, func(a, b int) bool {
		if tags[idx[a]] != tags[idx[b]] {
			return tags[idx[a]] < tags[idx[b]]
		}
		return idx[a] < idx[b]
	})
	type pr struct{ i, j int }
	var prs []pr
	for a := 0; a < len(idx); {
		b := a + 1
		for b < len(idx) && tags[idx[b]] == tags[idx[a]] {
			b++
		}
		for x := a; x < b; x++ {
			for y := x + 1; y < b; y++ {
				prs = append(prs, pr{idx[x], idx[y]})
			}
		}
		a = b
	}
	sort.Slice(prs, func(a, b int) bool {
		if prs[a].j != prs[b].j {
			return prs[a].j < prs[b].j
		}
		return prs[a].i < prs[b].i
	})
	for _, p := range prs {
		e.pairs = append(e.pairs, [2]string{names[p.i], names[p.j]})
	}
	e.pairsLe4 = len(e.pairs)
	if len(e.pairs) < wantPairs {
		// FNV-1 is collision-poor on very short suffixes: continue exhaustively through longer names
		cands, walked, reached := c28WalkCollisions(prefix, wantPairs, searchLen)
		e.collWalked, e.collLen = walked, reached
		have := map[[2]string]bool{}
		for _, p := range e.pairs {
			have[p] = true
		}
		for _, p := range cands {
			ta, erra := protogen.VerifFieldTag(prefix + p[0])
			tb, errb := protogen.VerifFieldTag(prefix + p[1])
			if erra == nil && errb == nil && ta == tb && !have[p] {
				e.pairs = append(e.pairs, p)
			} else {
				e.candRejected++
			}
		}
	}

	// rare classes: depth-first walk with the incremental FNV-1 state, sharded by the first character
	type hit struct {
		name string
		v    uint32
	}
	var hits []hit
	core.ParallelFor(26, func(fi int) {
		var local []hit
		var n int64
		buf := make([]byte, searchLen)
		h0 := c28fnv1(prefix)
		var rec func(h uint32, depth int)
		rec = func(h uint32, depth int) {
			n++
			v := h & c28TagMask
			if v <= 1000 || (v >= 19000 && v <= 19999) {
				if !(depth >= 3 && buf[0] == 'x' && buf[1] == 'm' && buf[2] == 'l') {
					local = append(local, hit{string(buf[:depth]), v})
				}
			}
			if depth == searchLen {
				return
			}
			for i := 0; i < len(c28Alphabet); i++ {
				ch := c28Alphabet[i]
				buf[depth] = ch
				rec((h*16777619)^uint32(ch), depth+1)
			}
		}
		buf[0] = c28Alphabet[fi]
		rec((h0*16777619)^uint32(buf[0]), 1)
		mu.Lock()
		hits = append(hits, local...)
		e.searched += n
		mu.Unlock()
	})
	pos := func(s string) []int {
		p := make([]int, len(s))
		for i := range s {
			p[i] = strings.IndexByte(c28Alphabet, s[i])
		}
		return p
	}
	sort.Slice(hits, func(a, b int) bool {
		x, y := hits[a].name, hits[b].name
		if len(x) != len(y) {
			return len(x) < len(y)
		}
		px, py := pos(x), pos(y)
		for i := range px {
			if px[i] != py[i] {
				return px[i] < py[i]
			}
		}
		return false
	})
	for _, h := range hits {
		switch {
		case h.v == 0:
			// confirm with the real function
			if t, err := protogen.VerifFieldTag(prefix + h.name); err == nil && t == 0 {
				e.zero = append(e.zero, h.name)
			}
		case h.v <= 1000:
			e.low = append(e.low, h.name)
		default:
			e.reserved = append(e.reserved, h.name)
		}
	}
	return e
}

// c28WalkCollisions finds, in enumeration order (length, then alphabet position), the first `want` names of length
// <= maxLen whose raw 29-bit FNV-1 hash under the prefix equals that of an EARLIER name, together with that earlier
// name. Exhaustive over the walked lengths: a 2^29-bit map records every hash value seen. The pairs are candidates;
// the caller confirms them with the real fieldTag.
func c28WalkCollisions(prefix string, want, maxLen int) (pairs [][2]string, walked int64, lenReached int) {
	seen := make([]uint64, (c28TagMask+1)/64)
	hit := make([]uint64, (c28TagMask+1)/64)
	type later struct {
		name string
		v    uint32
	}
	var laters []later
	h0 := c28fnv1(prefix)
	buf := make([]byte, maxLen)
	skip := func(depth int) bool { return depth >= 3 && buf[0] == 'x' && buf[1] == 'm' && buf[2] == 'l' }
	// visit every name of exactly length L in order
	var walk func(h uint32, depth, L int, fn func(v uint32, name []byte) bool) bool
	walk = func(h uint32, depth, L int, fn func(v uint32, name []byte) bool) bool {
		if depth == L {
			if skip(depth) {
				return true
			}
			walked++
			return fn(h&c28TagMask, buf[:depth])
		}
		for i := 0; i < len(c28Alphabet); i++ {
			if depth == 0 && i >= 26 {
				break
			}
			ch := c28Alphabet[i]
			buf[depth] = ch
			if !walk((h*16777619)^uint32(ch), depth+1, L, fn) {
				return false
			}
		}
		return true
	}
	for L := 1; L <= maxLen && len(laters) < want; L++ {
		lenReached = L
		walk(h0, 0, L, func(v uint32, name []byte) bool {
			w, b := v/64, uint64(1)<<(v%64)
			if seen[w]&b != 0 {
				laters = append(laters, later{string(name), v})
				hit[w] |= b
				return len(laters) < want
			}
			seen[w] |= b
			return true
		})
	}
	if len(laters) == 0 {
		return nil, walked, lenReached
	}
	first := map[uint32]string{}
	for L := 1; L <= lenReached; L++ {
		walk(h0, 0, L, func(v uint32, name []byte) bool {
			if hit[v/64]&(uint64(1)<<(v%64)) != 0 {
				if _, ok := first[v]; !ok {
					first[v] = string(name)
				}
			}
			return true
		})
	}
	for _, l := range laters {
		if f := first[l.v]; f != "" && f != l.name {
			pairs = append(pairs, [2]string{f, l.name})
		}
	}
	return pairs, walked, lenReached
}

func c28AdvModule(top, body string) []c28Mod {
	return []c28Mod{{Name: "va", Text: fmt.Sprintf("module va {\n  namespace \"urn:va\";\n  prefix va;\n%s\n  container c {\n    leaf ok { type string; }\n%s\n  }\n}\n", top, body)}}
}

func c28Leaves(kind string, names ...string) string {
	var b []string
	for _, n := range names {
		switch kind {
		case "leaf":
			b = append(b, fmt.Sprintf("    leaf %s { type string; }", n))
		case "leaflist":
			b = append(b, fmt.Sprintf("    leaf-list %s { type string; }", n))
		case "container":
			b = append(b, fmt.Sprintf("    container %s { leaf z { type string; } }", n))
		case "container2":
			b = append(b, fmt.Sprintf("    container %s { leaf z { type string; } container in { leaf y { type string; } } }", n))
		case "list":
			b = append(b, fmt.Sprintf("    list %s { key \"k\"; leaf k { type string; } leaf z { type string; } }", n))
		case "enumleaf":
			b = append(b, fmt.Sprintf("    leaf %s { type enumeration { enum A; enum B; } }", n))
		case "unionleaf":
			b = append(b, fmt.Sprintf("    leaf %s { type union { type string; type uint32; } }", n))
		}
	}
	return strings.Join(b, "\n")
}

func c28Identities(names ...string) (top string) {
	b := []string{"  identity B;"}
	for _, n := range names {
		b = append(b, fmt.Sprintf("  identity %s { base B; }", n))
	}
	return strings.Join(b, "\n")
}

func c28EnumLeaf(vals ...string) string {
	var b []string
	for _, v := range vals {
		b = append(b, fmt.Sprintf("enum %s;", v))
	}
	return "    leaf e { type enumeration { " + strings.Join(b, " ") + " } }"
}

func c28AdvCases(c *core.Ctx, le, ie *c28Enum) []*c28Case {
	var out []*c28Case
	opts := c28AdvOpts()
	add := func(kind, shape, predicted string, mods []c28Mod, topVals, msgVals int) {
		// the signature carries the group only (text before the first ':'); the rest goes into the shape
		group, sub := kind, ""
		if i := strings.IndexByte(kind, ':'); i >= 0 {
			group, sub = kind[:i], kind[i+1:]+" "
		}
		for _, o := range opts {
			out = append(out, &c28Case{Source: "adv", Kind: group, Shape: sub + shape, Modules: mods, Opts: o, TopEnumValues: topVals, MsgEnumValues: msgVals, Predicted: predicted})
		}
	}
	take := func(xs []string, n int) []string {
		if len(xs) > n {
			return xs[:n]
		}
		return xs
	}
	nPairs, nRare := 50, 20
	if c.Thorough() {
		nPairs, nRare = 1000, 200
	}
	// --- hash collisions between sibling data nodes
	for i, p := range le.pairs {
		if i >= nPairs {
			break
		}
		add("hash-collision:leaf+leaf", p[0]+","+p[1], "collision", c28AdvModule("", c28Leaves("leaf", p[0], p[1])), 0, 0)
		if i < 5 {
			add("hash-collision:leaf+container", p[0]+","+p[1], "collision", c28AdvModule("", c28Leaves("leaf", p[0])+"\n"+c28Leaves("container", p[1])), 0, 0)
			add("hash-collision:leaflist+list", p[0]+","+p[1], "collision", c28AdvModule("", c28Leaves("leaflist", p[0])+"\n"+c28Leaves("list", p[1])), 0, 0)
		}
	}
	// --- raw hash 0 / 1..1000 / 19000..19999 for a data node
	for _, n := range take(le.zero, nRare) {
		add("hash-zero:leaf", n, "zero", c28AdvModule("", c28Leaves("leaf", n)), 0, 0)
		add("hash-zero:container", n, "zero", c28AdvModule("", c28Leaves("container", n)), 0, 0)
	}
	for i, n := range take(le.low, nRare) {
		add("hash-low-1-1000:leaf", n, "", c28AdvModule("", c28Leaves("leaf", n)), 0, 0)
		if i < 5 {
			// the avoidance re-hashes <path>_ : a sibling that is literally called <name>_ then has the same tag
			add("rehash-sibling:low leaf", n+","+n+"_", "collision", c28AdvModule("", c28Leaves("leaf", n, n+"_")), 0, 0)
		}
	}
	for i, n := range take(le.reserved, nRare) {
		add("hash-reserved-19000-19999:leaf", n, "", c28AdvModule("", c28Leaves("leaf", n)), 0, 0)
		if i < 5 {
			add("rehash-sibling:reserved leaf", n+","+n+"_", "collision", c28AdvModule("", c28Leaves("leaf", n, n+"_")), 0, 0)
			add("hash-reserved-19000-19999:list", n, "", c28AdvModule("", c28Leaves("list", n)), 0, 0)
		}
	}
	// --- identity values
	idLeaf := "    leaf r { type identityref { base B; } }"
	for i, p := range ie.pairs {
		if i >= nPairs {
			break
		}
		add("hash-collision:identity+identity", p[0]+","+p[1], "collision", c28AdvModule(c28Identities("fine", p[0], p[1]), idLeaf), 4, 0)
	}
	for _, n := range take(ie.zero, nRare) {
		add("hash-zero:identity", n, "zero", c28AdvModule(c28Identities("fine", n), idLeaf), 3, 0)
	}
	for _, n := range take(ie.low, 5) {
		add("hash-low-1-1000:identity", n, "", c28AdvModule(c28Identities("fine", n), idLeaf), 3, 0)
	}
	for _, n := range take(ie.reserved, 5) {
		add("hash-reserved-19000-19999:identity", n, "", c28AdvModule(c28Identities("fine", n), idLeaf), 3, 0)
	}
	// --- oneof members: tag = fieldTag(<path>_<lower(type)>), name = <field>_<lower(type)>
	add("oneof-member-vs-sibling:u_string", "u,u_string", "", c28AdvModule("", c28Leaves("unionleaf", "u")+"\n"+c28Leaves("leaf", "u_string")), 0, 0)
	add("oneof-member-vs-sibling:u-string", "u,u-string", "", c28AdvModule("", c28Leaves("unionleaf", "u")+"\n"+c28Leaves("leaf", "u-string")), 0, 0)
	add("oneof-member-vs-sibling:u_uint64", "u,u_uint64", "", c28AdvModule("", c28Leaves("unionleaf", "u")+"\n"+c28Leaves("leaf", "u_uint64")), 0, 0)
	add("oneof-member-vs-sibling:two-unions", "u,u_", "", c28AdvModule("", c28Leaves("unionleaf", "u", "u_")), 0, 0)
	// --- names folded together by protobuf name mangling (safeProtoIdentifierName, CamelCase, JSON names)
	sets := [][]string{{"a-b", "a_b"}, {"a-b", "a.b"}, {"a_b", "aB"}, {"a-b", "aB"}, {"a_b", "a__b"}, {"a-b", "a_b", "a.b", "aB"}, {"ab", "aB"}, {"a", "A"}, {"a-1", "a_1"}, {"a_", "a__"}}
	for _, s := range sets {
		sh := strings.Join(s, ",")
		for _, k := range []string{"leaf", "leaflist", "container", "container2", "list", "enumleaf", "unionleaf"} {
			add("mangle:"+k, sh, "", c28AdvModule("", c28Leaves(k, s...)), 0, 0)
		}
		if len(s) == 2 {
			add("mangle:container+enumleaf", sh, "", c28AdvModule("", c28Leaves("container", s[0])+"\n"+c28Leaves("enumleaf", s[1])), 0, 0)
			add("mangle:leaf+container", sh, "", c28AdvModule("", c28Leaves("leaf", s[0])+"\n"+c28Leaves("container", s[1])), 0, 0)
			add("mangle:list+container", sh, "", c28AdvModule("", c28Leaves("list", s[0])+"\n"+c28Leaves("container", s[1])), 0, 0)
		}
	}
	// --- upper-case node names: message name == package component
	for _, n := range []string{"X", "Ab", "Cont"} {
		add("case:container2", n, "", c28AdvModule("", c28Leaves("container2", n)), 0, 0)
		add("case:list", n, "", c28AdvModule("", c28Leaves("list", n)), 0, 0)
	}
	// --- protobuf keywords and built-in type names as node names
	kws := []string{"message", "enum", "oneof", "option", "repeated", "optional", "required", "reserved", "extensions", "extend", "import",
		"package", "syntax", "service", "rpc", "returns", "stream", "map", "group", "public", "weak", "to", "max", "true", "false", "inf", "nan",
		"string", "bytes", "bool", "double", "float", "int32", "uint64", "sint64", "fixed32"}
	for _, k := range kws {
		add("keyword:leaf", k, "", c28AdvModule("", c28Leaves("leaf", k)), 0, 0)
		add("keyword:container2", k, "", c28AdvModule("", c28Leaves("container2", k)), 0, 0)
		add("keyword:list", k, "", c28AdvModule("", c28Leaves("list", k)), 0, 0)
		add("keyword:enumleaf", k, "", c28AdvModule("", c28Leaves("enumleaf", k)), 0, 0)
	}
	// --- enumeration value names (YANG enum names are arbitrary strings) and values at the edges
	evs := []struct {
		kind string
		vals []string
		want int
	}{
		{"enum-names:a-b,a_b", []string{"a-b", "a_b"}, 3},
		{"enum-names:a-b,a.b", []string{"a-b", "a.b"}, 3},
		{"enum-names:up,UP", []string{"up", "UP"}, 3},
		{"enum-names:a_b,a__b", []string{"a_b", "a__b"}, 3},
		{"enum-names:space", []string{`"a b"`, "c"}, 3},
		{"enum-names:UNSET", []string{"UNSET", "X"}, 3},
		{"enum-names:digit-first", []string{"10G", "1G"}, 3},
		{"enum-names:quote", []string{`'a"b'`, "c"}, 3},
		{"enum-names:backslash", []string{`'a\'`, "c"}, 3},
		{"enum-names:non-ascii", []string{`"é"`, "c"}, 3},
		{"enum-names:non-ascii-x2", []string{`"é"`, `"ü"`}, 3},
		{"enum-values:-1", []string{"A { value -1; }", "B { value 5; }"}, 3},
		{"enum-values:int32-max", []string{"A { value 1; }", "B { value 2147483647; }"}, 3},
		{"enum-values:int32-max-1", []string{"A { value 1; }", "B { value 2147483646; }"}, 3},
		{"enum-values:int32-min", []string{"A { value -2147483648; }", "B { value 0; }"}, 3},
	}
	for _, ev := range evs {
		var b []string
		for _, v := range ev.vals {
			if strings.HasSuffix(v, "}") {
				b = append(b, "enum "+v)
			} else {
				b = append(b, "enum "+v+";")
			}
		}
		decl := "type enumeration { " + strings.Join(b, " ") + " }"
		add(ev.kind+":leaf", strings.Join(ev.vals, ","), "", c28AdvModule("", "    leaf e { "+decl+" }"), 0, ev.want)
		add(ev.kind+":typedef", strings.Join(ev.vals, ","), "", c28AdvModule("  typedef te { "+decl+" }", "    leaf e { type te; }"), ev.want, 0)
		add(ev.kind+":list-key", strings.Join(ev.vals, ","), "", c28AdvModule("", `    list l { key "e"; leaf e { `+decl+` } leaf v { type string; } }`), 0, ev.want)
	}
	// --- identity names folded together
	for _, s := range [][]string{{"I-A", "I_A"}, {"I.A", "I-A"}, {"UNSET", "X"}, {"ia", "IA"}, {"i_a", "i__a"}} {
		add("identity-names:identity", strings.Join(s, ","), "", c28AdvModule(c28Identities(s...), idLeaf), 1+len(s), 0)
	}
	return out
}

// ---------------------------------------------------------------------------------------------
// aggregation into signatures

type c28AggEnt struct {
	clause, qual, source, kind string
	shapes                     map[string]bool
	cfgs                       []c28Opts
	first                      *c28Case
	detail                     string
	count                      int64
}

type c28Agg struct {
	mu sync.Mutex
	m  map[string]*c28AggEnt
	// family: clause|qual -> atom id -> true, for single-atom (or skeleton) schemas that fail
	single map[string]map[string]bool
}

func (a *c28Agg) add(idx int, cs *c28Case, f c28Fail, order map[*c28Case]int) {
	a.mu.Lock()
	defer a.mu.Unlock()
	key := strings.Join([]string{f.Clause, f.Qual, cs.Source, cs.Kind}, "|")
	e := a.m[key]
	if e == nil {
		e = &c28AggEnt{clause: f.Clause, qual: f.Qual, source: cs.Source, kind: cs.Kind, shapes: map[string]bool{}}
		a.m[key] = e
	}
	e.count++
	e.shapes[cs.Shape] = true
	e.cfgs = append(e.cfgs, cs.Opts)
	if e.first == nil || order[cs] < order[e.first] {
		e.first = cs
		e.detail = f.Detail
	}
	if cs.Source == "family" && len(cs.atoms) <= 1 {
		k := f.Clause + "|" + f.Qual
		if a.single[k] == nil {
			a.single[k] = map[string]bool{}
		}
		id := ""
		if len(cs.atoms) == 1 {
			id = cs.atoms[0]
		}
		a.single[k][id] = true
	}
}

// c28Cond describes the option literals shared by every failing configuration.
func c28Cond(cfgs []c28Opts) string {
	if len(cfgs) == 0 {
		return "any"
	}
	common := map[string]int{}
	for _, o := range cfgs {
		for _, l := range o.lits() {
			common[l]++
		}
	}
	var lits []string
	for _, l := range cfgs[0].lits() {
		if common[l] == len(cfgs) && !strings.HasPrefix(l, "pkg=") {
			lits = append(lits, l)
		}
	}
	if len(lits) == 0 {
		return "any"
	}
	return strings.Join(lits, "&")
}

// ---------------------------------------------------------------------------------------------
// run / replay

func runC28(c *core.Ctx) {
	c.Level = "exploration"
	c.Rule = "protogen is run in-process (twice, plus once on a variant with unrelated siblings added) on: every .yang of $VERIF/schemas, $REPO/protogen/testdata/proto, $REPO/testdata/modules (and listed multi-module groups) x all 48 option configurations {compress, nested messages, annotate schema paths, annotate enum names} x {default packages; custom package/enum package/base import/go_package/ywrapper+yext paths + fake root; defaults + fake root}; a schema family = skeleton + every single feature atom (x48 configurations) and every unordered pair of atoms (x16 configurations quick, x48 thorough); an adversarial family: all names of length <=4 over [a-z0-9-] hashed with the real protogen.fieldTag under the prefixes protogen uses for sibling data nodes and for identity values, the first 50 (thorough: all) colliding pairs, all names up to length 6 (thorough 7) whose raw hash is 0 / in 1..1000 / in 19000..19999 (first 20, thorough 200), names folded by name mangling, protobuf keywords, edge enumeration names and values, each instantiated as a schema x 6 configurations. Every generated file set is parsed by an independent proto3 parser and validated as protoc's descriptor builder would. A case is non-trivial when protogen emitted at least one message with a field; generator errors are counted, never judged."
	if _, err := c28Externals(c.RepoDir, c28Opts{}); err != nil {
		panic("C28: " + err.Error())
	}
	c28OracleSelfTest(c)
	searchLen := 6
	if c.Thorough() {
		searchLen = 7
	}
	wantPairs := 50
	if c.Thorough() {
		wantPairs = 1000
	}
	le := c28Enumerate(c28LeafPrefix, searchLen, wantPairs)
	ie := c28Enumerate(c28IdPrefix, searchLen, wantPairs)
	for _, e := range []*c28Enum{le, ie} {
		c.R.Add("identifiers_hashed_with_real_fieldTag", int64(e.names))
		c.R.Add("identifiers_walked_fnv1", e.searched+e.collWalked)
		c.R.Note("enumeration_prefix_"+e.prefix, map[string]interface{}{
			"names_len_le_4": e.names, "colliding_pairs_len_le_4": e.pairsLe4, "colliding_pairs_used": len(e.pairs),
			"collision_walk_names": e.collWalked, "collision_walk_reached_len": e.collLen, "collision_candidates_not_confirmed": e.candRejected, "names_walked_up_to_len": searchLen, "names_walked": e.searched,
			"raw_hash_zero_confirmed_by_real_fieldTag": len(e.zero), "raw_hash_zero_first_names": take10(e.zero), "raw_hash_in_1_1000": len(e.low), "raw_hash_in_19000_19999": len(e.reserved),
			"real_fieldTag_outputs_invalid_len_le_4": e.badDirect, "real_fieldTag_outputs_in_1_1000_len_le_4": e.lowOut,
			"real_fieldTag_differs_from_documented_algorithm_len_le_4": e.modelDiff,
			"first_pairs": firstPairs(e.pairs, 5),
		})
		if e.badDirect > 0 {
			c.R.Outcome("fieldTag-direct:invalid-output")
		}
		if e.modelDiff > 0 {
			c.R.Outcome("fieldTag-direct:differs-from-documented-algorithm")
		}
	}

	var cases []*c28Case
	cases = append(cases, c28AdvCases(c, le, ie)...)
	cases = append(cases, c28FamilyCases(c)...)
	cases = append(cases, c28CorpusCases(c)...)
	root, err := os.MkdirTemp("", "c28-")
	if err != nil {
		panic(err)
	}
	defer os.RemoveAll(root)
	c28Materialise(root, cases)
	order := make(map[*c28Case]int, len(cases))
	for i, cs := range cases {
		order[cs] = i
	}
	bySource := map[string]int{}
	for _, cs := range cases {
		bySource[cs.Source]++
	}
	c.R.Note("cases_by_source", bySource)

	agg := &c28Agg{m: map[string]*c28AggEnt{}, single: map[string]map[string]bool{}}
	type res struct {
		fails   []c28Fail
		st      c28Stats
		outcome string
		done    bool
	}
	results := make([]res, len(cases))
	var stop int32
	core.ParallelFor(len(cases), func(i int) {
		if atomic.LoadInt32(&stop) != 0 {
			return
		}
		if i%64 == 0 && c.Expired() {
			atomic.StoreInt32(&stop, 1)
			return
		}
		cs := cases[i]
		fails, st, outcome := c28Eval(c, cs)
		results[i] = res{fails, st, outcome, true}
	})
	errClasses := map[string]int{}
	errBySource := map[string]int{}
	for i, cs := range cases {
		r := results[i]
		if !r.done {
			c.R.Capped("deadline: not every case was evaluated")
			continue
		}
		c.R.Add("evaluations", 1)
		c.R.Add("proto_files_parsed", int64(r.st.files))
		c.R.Add("messages_checked", int64(r.st.msgs))
		c.R.Add("fields_checked", int64(r.st.fields))
		c.R.Add("enums_checked", int64(r.st.enums))
		c.R.Add("enum_values_checked", int64(r.st.values))
		if r.st.fields > 0 {
			c.R.NonTrivial(cs.Source + "|" + cs.Shape + "|" + strings.Join(cs.Opts.lits(), ","))
		}
		switch r.outcome {
		case "generator-error":
			c.R.Outcome("excluded-generator-error:" + cs.Source)
			errClasses[cs.Source+": "+r.st.errClass]++
			errBySource[cs.Source]++
		case "ok":
			c.R.Outcome("well-formed:" + cs.Source)
			if cs.Predicted != "" {
				// the enumeration predicted an unrepresentable schema, protogen neither failed nor emitted a defect
				agg.add(i, cs, c28Fail{Clause: "harness-prediction-missed", Qual: cs.Predicted, Detail: "the schema was predicted to collide under fieldTag but the output is well-formed: the path prefix assumed by the enumeration is wrong"}, order)
			}
		default:
			seen := map[string]bool{}
			for _, f := range r.fails {
				if !seen[f.Clause] {
					c.R.Outcome("violation:" + f.Clause)
					seen[f.Clause] = true
				}
				agg.add(i, cs, f, order)
			}
		}
	}
	c.R.Note("generator_error_classes", errClasses)
	c.R.Note("generator_errors_by_source", errBySource)

	// emit signatures; failures of atom pairs that a member atom (or the skeleton) shows alone are attributed to it
	var keys []string
	for k := range agg.m {
		keys = append(keys, k)
	}
	sort.Strings(keys)
	attributed := int64(0)
	for _, k := range keys {
		e := agg.m[k]
		if e.source == "family" && len(e.first.atoms) == 1 && agg.single[e.clause+"|"+e.qual][""] {
			// the bare skeleton fails the same way: not a property of this atom
			attributed += e.count
			continue
		}
		if e.source == "family" && len(e.first.atoms) == 2 {
			// is every failing pair shape explained by a single atom?
			single := agg.single[e.clause+"|"+e.qual]
			all := true
			for sh := range e.shapes {
				ids := strings.Split(sh, "+")
				if !(single[""] || single[ids[0]] || single[ids[1]]) {
					all = false
				}
			}
			if all {
				attributed += e.count
				continue
			}
		}
		sig := e.clause
		if e.qual != "" {
			sig += "[" + e.qual + "]"
		}
		sig += ":" + e.source + ":" + e.kind + ":" + c28Cond(e.cfgs)
		var shapes []string
		for s := range e.shapes {
			shapes = append(shapes, s)
		}
		sort.Strings(shapes)
		if len(shapes) > 6 {
			shapes = append(shapes[:6], fmt.Sprintf("... %d more", len(shapes)-6))
		}
		detail := fmt.Sprintf("%s | failing schemas: %s | first failing configuration: %s", e.detail, strings.Join(shapes, " ; "), strings.Join(e.first.Opts.lits(), ","))
		c.R.ViolationN(sig, detail, e.first, e.count)
	}
	c.R.Add("family_failures_attributed_to_a_smaller_schema", attributed)
	// samples
	for _, i := range []int{0, len(cases) / 3, len(cases) / 2, len(cases) - 1} {
		cs := cases[i]
		c.R.Sample(map[string]interface{}{"source": cs.Source, "kind": cs.Kind, "shape": cs.Shape, "opts": cs.Opts, "outcome": results[i].outcome,
			"files": results[i].st.files, "messages": results[i].st.msgs, "fields": results[i].st.fields})
	}
	c.R.Assume("generated files are compiled together with -I roots such that a file's import path is <base_import_path>/<FilePath joined by '/'> (how proto_generator lays them out)")
	c.R.Assume("ywrapper.proto / yext.proto are those of the tree under test (parsed with the same parser); google/protobuf/any.proto and descriptor.proto are stand-ins")
}

// c28OracleSelfTest feeds the parser / validator hand-written files: the well-formed one must pass, every broken one
// must be flagged with the named clause. A failure here is a defect of the trusted base and stops the check.
func c28OracleSelfTest(c *core.Ctx) {
	hdr := "syntax = \"proto3\";\npackage t;\n"
	good := hdr + `import "github.com/openconfig/ygot/proto/ywrapper/ywrapper.proto";
import "github.com/openconfig/ygot/proto/yext/yext.proto";
// comment
message M {
  message N { string a = 1; }
  enum E { E_UNSET = 0; E_A = 1 [(yext.yang_name) = "A"]; E_NEG = -3; }
  /* block */
  N n = 2;
  E e = 536870911;
  repeated string enum = 18999 [(yext.leaflist) = true, (yext.schemapath) = "/a/b"];
  oneof u { string u_string = 20000; uint64 u_uint64 = 5; }
  ywrapper.StringValue message = 1001;
  t.M.N q = 7;
  .t.M r = 8;
}
`
	bad := []struct{ clause, src string }{
		{"parse-error", "package t;\nmessage M { string a = 1; }\n"},
		{"parse-error", "syntax = \"proto2\";\nmessage M { }\n"},
		{"parse-error", hdr + "message M { string a = 1 }\n"},
		{"parse-error", hdr + "message M { string a-b = 1; }\n"},
		{"parse-error", hdr + "message M { enum.C c = 1; }\n"},
		{"parse-error", hdr + "message M { string.C c = 1; }\n"},
		{"parse-error", hdr + "message M { string a = 1 [(x.y) = \"a\"b\"]; }\n"},
		{"parse-error", hdr + "message M { string a = 1 [(x.y) = \"a\\\"]; }\n"},
		{"parse-error", hdr + "message M { string a = -1; }\n"},
		{"parse-error", hdr + "message M { string a = 1;\n"},
		{"parse-error", hdr + "enum E { A = ; }\n"},
		{"field-number-zero", hdr + "message M { string a = 0; }\n"},
		{"field-number-out-of-range", hdr + "message M { string a = 536870912; }\n"},
		{"field-number-reserved", hdr + "message M { string a = 19000; }\n"},
		{"field-number-reserved", hdr + "message M { string a = 19999; }\n"},
		{"dup-field-number", hdr + "message M { string a = 5; string b = 5; }\n"},
		{"dup-field-number", hdr + "message M { string a = 5; oneof o { string b = 5; } }\n"},
		{"dup-field-name", hdr + "message M { string a = 5; string a = 6; }\n"},
		{"dup-field-name", hdr + "message M { string a = 5; oneof o { string a = 6; } }\n"},
		{"json-name-conflict", hdr + "message M { string a_b = 5; string aB = 6; }\n"},
		{"enum-first-nonzero", hdr + "enum E { E_A = 1; E_Z = 0; }\n"},
		{"dup-enum-number", hdr + "enum E { E_Z = 0; E_A = 1; E_B = 1; }\n"},
		{"dup-enum-value-name", hdr + "enum E { E_Z = 0; E_A = 1; E_A = 2; }\n"},
		{"enum-number-out-of-range", hdr + "enum E { E_Z = 0; E_A = 2147483648; }\n"},
		{"enum-value-case-conflict", hdr + "enum E { E_Z = 0; E_up = 1; E_UP = 2; }\n"},
		{"enum-empty", hdr + "enum E { }\n"},
		{"symbol-conflict", hdr + "enum E { A = 0; }\nenum F { A = 0; }\n"},
		{"symbol-conflict", hdr + "message M { message X { } string X = 1; }\n"},
		{"type-unresolved", hdr + "message M { Nope a = 1; }\n"},
		{"type-unresolved", hdr + "message M { message t { } t.M a = 1; }\n"},
		{"type-not-imported", hdr + "message M { ywrapper.StringValue a = 1; }\n"},
		{"option-not-imported", hdr + "message M { repeated string a = 1 [(yext.leaflist) = true]; }\n"},
		{"option-unresolved", hdr + "import \"github.com/openconfig/ygot/proto/yext/yext.proto\";\nmessage M { string a = 1 [(yext.nope) = true]; }\n"},
		{"option-value-type", hdr + "import \"github.com/openconfig/ygot/proto/yext/yext.proto\";\nmessage M { string a = 1 [(yext.leaflist) = \"x\"]; }\n"},
		{"option-wrong-target", hdr + "import \"github.com/openconfig/ygot/proto/yext/yext.proto\";\nmessage M { string a = 1 [(yext.yang_name) = \"x\"]; }\n"},
		{"import-unresolved", hdr + "import \"nowhere/x.proto\";\n"},
		{"import-duplicate", hdr + "import \"google/protobuf/any.proto\";\nimport \"google/protobuf/any.proto\";\n"},
		{"label-required", hdr + "message M { required string a = 1; }\n"},
	}
	ext, err := c28Externals(c.RepoDir, c28Opts{})
	if err != nil {
		panic(err)
	}
	judge := func(src string) []string {
		f, err := core.ParseProto(src)
		if err != nil {
			return []string{"parse-error"}
		}
		f.Path = "t/t.proto"
		var out []string
		for _, is := range core.ValidateProtoSet([]*core.ProtoFile{f}, ext) {
			out = append(out, is.Clause)
		}
		return out
	}
	if got := judge(good); len(got) != 0 {
		panic(fmt.Sprintf("C28 oracle self-test: the well-formed file is flagged: %v", got))
	}
	for _, b := range bad {
		got := judge(b.src)
		ok := false
		for _, g := range got {
			if g == b.clause {
				ok = true
			}
		}
		if !ok {
			panic(fmt.Sprintf("C28 oracle self-test: expected %s, got %v for:\n%s", b.clause, got, b.src))
		}
	}
	c.R.Note("oracle_selftest", map[string]int{"well_formed_accepted": 1, "broken_files_flagged": len(bad)})
	// the repository's golden outputs: which of them does the parser accept?
	gold, _ := filepath.Glob(filepath.Join(c.RepoDir, "protogen/testdata/proto/*.formatted-txt"))
	sort.Strings(gold)
	var rejected []string
	for _, g := range gold {
		b, err := os.ReadFile(g)
		if err != nil {
			continue
		}
		if _, err := core.ParseProto(string(b)); err != nil {
			rejected = append(rejected, filepath.Base(g)+": "+err.Error())
		}
	}
	c.R.Note("golden_files_of_the_repo", map[string]interface{}{"parsed": len(gold) - len(rejected), "rejected": rejected})
}

func take10(xs []string) []string {
	if len(xs) > 10 {
		return xs[:10]
	}
	return xs
}

func firstPairs(p [][2]string, n int) [][2]string {
	if len(p) > n {
		return p[:n]
	}
	return p
}

func replayC28(c *core.Ctx, raw []byte) (bool, string) {
	var cs c28Case
	if err := json.Unmarshal(raw, &cs); err != nil {
		return false, "bad case: " + err.Error()
	}
	fails, _, outcome := c28Eval(c, &cs)
	if outcome == "ok" && cs.Predicted != "" {
		return true, "harness-prediction-missed"
	}
	if len(fails) == 0 {
		return false, outcome
	}
	var ds []string
	for _, f := range fails {
		ds = append(ds, f.Clause+": "+f.Detail)
	}
	return true, strings.Join(ds, " || ")
}
