package props

import (
	"encoding/json"
	"fmt"
	"reflect"
	"sort"
	"strconv"
	"strings"
	"sync"

	gpb "github.com/openconfig/gnmi/proto/gnmi"
	"github.com/openconfig/ygot/ygot"
	"github.com/openconfig/ygot/ytypes"
	"github.com/openconfig/ygot/zzverif/core"
)

func init() { core.RegisterProp(&core.Prop{ID: "C15", Run: runC15, Replay: replayC15}) }

// ---- shared by C15 and C34 -------------------------------------------------------------------

// seqCase is the replay artefact of a history-based check.
type seqCase struct {
	Pkg   string   `json:"pkg"`
	Site  string   `json:"list"`
	Init  string   `json:"init"`
	Ops   []string `json:"calls"`
	Check string   `json:"state_check,omitempty"` // json | gnmi | copy: a law evaluated in the state the history reaches
}

// seqDump renders the complete object graph below v (pointers followed, unexported fields included,
// nil and empty slices/maps distinguished, map entries sorted) for "nothing changed" comparisons:
// equal dumps <=> reflect.DeepEqual trees.
func seqDump(v reflect.Value) string {
	var b strings.Builder
	seqDumpTo(&b, v, 0)
	return b.String()
}

func seqDumpTo(b *strings.Builder, v reflect.Value, depth int) {
	if depth > 40 {
		b.WriteString("...")
		return
	}
	switch v.Kind() {
	case reflect.Ptr, reflect.Interface:
		if v.IsNil() {
			b.WriteString("nil")
			return
		}
		b.WriteByte('&')
		seqDumpTo(b, v.Elem(), depth+1)
	case reflect.Struct:
		b.WriteString(v.Type().Name())
		b.WriteByte('{')
		for i := 0; i < v.NumField(); i++ {
			f := v.Field(i)
			if (f.Kind() == reflect.Ptr || f.Kind() == reflect.Map || f.Kind() == reflect.Slice || f.Kind() == reflect.Interface) && f.IsNil() {
				continue // nil fields are omitted (named fields: no ambiguity)
			}
			b.WriteString(v.Type().Field(i).Name)
			b.WriteByte(':')
			seqDumpTo(b, f, depth+1)
			b.WriteByte(' ')
		}
		b.WriteByte('}')
	case reflect.Map:
		if v.IsNil() {
			b.WriteString("nil")
			return
		}
		ents := make([]string, 0, v.Len())
		for _, k := range v.MapKeys() {
			var e strings.Builder
			seqDumpTo(&e, k, depth+1)
			e.WriteString("=>")
			seqDumpTo(&e, v.MapIndex(k), depth+1)
			ents = append(ents, e.String())
		}
		sort.Strings(ents)
		b.WriteString("map[")
		for _, e := range ents {
			b.WriteString(e)
			b.WriteByte(';')
		}
		b.WriteByte(']')
	case reflect.Slice:
		if v.IsNil() {
			b.WriteString("nil")
			return
		}
		b.WriteByte('[')
		for i := 0; i < v.Len(); i++ {
			seqDumpTo(b, v.Index(i), depth+1)
			b.WriteByte(',')
		}
		b.WriteByte(']')
	case reflect.String:
		b.WriteString(strconv.Quote(v.String()))
	case reflect.Bool:
		b.WriteString(strconv.FormatBool(v.Bool()))
	case reflect.Int, reflect.Int8, reflect.Int16, reflect.Int32, reflect.Int64:
		b.WriteString(strconv.FormatInt(v.Int(), 10))
	case reflect.Uint, reflect.Uint8, reflect.Uint16, reflect.Uint32, reflect.Uint64:
		b.WriteString(strconv.FormatUint(v.Uint(), 10))
	case reflect.Float32, reflect.Float64:
		b.WriteString(strconv.FormatFloat(v.Float(), 'g', -1, 64))
	default:
		b.WriteString(v.Kind().String())
	}
}

type methodKey struct {
	t reflect.Type
	n string
}

var methodIdx sync.Map // methodKey -> method index (Value.MethodByName builds a func type on every call)

// callM calls method name on recv (a typed nil pointer receiver is allowed).
func callM(recv reflect.Value, name string, args ...reflect.Value) []reflect.Value {
	k := methodKey{recv.Type(), name}
	i, ok := methodIdx.Load(k)
	if !ok {
		m, found := k.t.MethodByName(name)
		if !found {
			panic("harness: no method " + name + " on " + k.t.String())
		}
		i = m.Index
		methodIdx.Store(k, i)
	}
	return recv.Method(i.(int)).Call(args)
}

func ptrOf(v reflect.Value) uintptr {
	if v.Kind() != reflect.Ptr || v.IsNil() {
		return 0
	}
	return v.Pointer()
}

// seqSites selects the list sites to drive in the given packages.
func seqSites(pkgs []string, ordered bool, onePerKind bool) []*core.ListSite {
	var out []*core.ListSite
	for _, pn := range pkgs {
		p := core.PkgByName(pn)
		if p == nil {
			continue
		}
		seen := map[string]bool{}
		for _, s := range p.ListSites() {
			if s.Ordered != ordered || len(s.Domain) < 2 {
				continue
			}
			if onePerKind {
				var ts []string
				for _, t := range s.CompTypes {
					ts = append(ts, t.String())
				}
				k := strings.Join(ts, ",")
				if seen[k] {
					continue
				}
				seen[k] = true
			}
			out = append(out, s)
		}
	}
	return out
}

// seqFullLen is the length of the histories enumerated without deduplication: 3 in the quick tier; 4 in
// the thorough tier for the simple-union, wrapper-union and one compressed package, 3 for the rest.
func seqFullLen(c *core.Ctx, site *core.ListSite) int {
	if c.Thorough() {
		switch site.P.Name {
		case "vtus", "vtuw", "voccs":
			return 4
		}
	}
	return 3
}

func findSite(pkg, id string) *core.ListSite {
	p := core.PkgByName(pkg)
	if p == nil {
		return nil
	}
	for _, s := range p.ListSites() {
		if s.ID() == id {
			return s
		}
	}
	return nil
}

func opIndices(sys core.SeqSystem, names []string) ([]uint16, bool) {
	idx := map[string]int{}
	for i, n := range sys.Ops() {
		idx[n] = i
	}
	var out []uint16
	for _, n := range names {
		i, ok := idx[n]
		if !ok {
			return nil, false
		}
		out = append(out, uint16(i))
	}
	return out, true
}

func initIndex(sys core.SeqSystem, name string) int {
	for i, n := range sys.Inits() {
		if n == name {
			return i
		}
	}
	return -1
}

// seqReport moves the counters and findings of an explored space into the reporter.
func seqReport(c *core.Ctx, site *core.ListSite, sp *core.SeqSpace) {
	c.R.Add("states", int64(len(sp.States)))
	c.R.Add("transitions", sp.Transitions)
	c.R.Add("traces_validated_against_impl", sp.Histories)
	c.R.Add("evaluations", sp.Transitions+sp.FullCount)
	c.R.Add("full_histories", sp.FullCount)
	c.R.Add("self_loops", sp.SelfLoops)
	c.R.Add("merges", sp.Merges)
	maxd := 0
	for _, st := range sp.States {
		if st.Depth > maxd {
			maxd = st.Depth
		}
	}
	c.R.Note("space_"+site.P.Name+site.Path, map[string]interface{}{"shape": site.Shape(), "calls": len(sp.Sys.Ops()), "keys": len(site.Domain),
		"inits": sp.Sys.Inits(), "depth": sp.Depth, "states": len(sp.States), "deepest_new_state": maxd, "transitions": sp.Transitions,
		"self_loops": sp.SelfLoops, "merges": sp.Merges, "full_history_length": sp.FullLen, "full_histories": sp.FullCount, "outcomes": sp.Classes})
	for _, cl := range core.SortedKeys(sp.Classes) {
		for i := int64(0); i < sp.Classes[cl]; i++ {
			c.R.Outcome(cl)
		}
	}
	if !sp.Complete {
		c.R.Capped("deadline")
	}
	inits := sp.Sys.Inits()
	for _, f := range sp.Findings {
		c.R.Violation(f.Viol.Sig, fmt.Sprintf("%s %s init=%s calls=%v: step %d: %s", site.P.Name, site.Path, inits[f.Init], sp.HistNames(f.Hist), f.Viol.Step, f.Viol.Detail),
			seqCase{Pkg: site.P.Name, Site: site.ID(), Init: inits[f.Init], Ops: sp.HistNames(f.Hist)})
		c.R.Outcome("violation")
	}
	if len(sp.States) > 3 {
		st := sp.States[len(sp.States)*2/3]
		c.R.Sample(map[string]interface{}{"pkg": site.P.Name, "list": site.Path, "init": inits[st.Init], "calls": sp.HistNames(st.Hist), "state": st.Canon})
	}
}

// ---- C15: generated ordered maps -------------------------------------------------------------

type omOp struct {
	Name   string
	Kind   string // append appendnil appendnilkey appendnew delete get keys values len
	Parent bool
	Key    int
	Mask   int
}

type omSys struct {
	site  *core.ListSite
	ops   []omOp
	names []string
}

func newOmSys(site *core.ListSite) *omSys {
	s := &omSys{site: site}
	add := func(o omOp) { s.ops = append(s.ops, o); s.names = append(s.names, o.Name) }
	nk := len(site.Domain)
	var masks []int
	for c := range site.KeyNames {
		if site.CompNillable(c) {
			masks = append(masks, 1<<uint(c))
		}
	}
	for _, parent := range []bool{false, true} {
		pf := ""
		if parent {
			pf = "P."
		}
		for k := 0; k < nk; k++ {
			add(omOp{Name: fmt.Sprintf("%sAppendNew(k%d)", pf, k), Kind: "appendnew", Parent: parent, Key: k})
		}
		for k := 0; k < nk; k++ {
			add(omOp{Name: fmt.Sprintf("%sAppend(e[k%d])", pf, k), Kind: "append", Parent: parent, Key: k})
		}
		add(omOp{Name: pf + "Append(nil)", Kind: "appendnil", Parent: parent})
		for _, m := range masks {
			add(omOp{Name: fmt.Sprintf("%sAppend(e[nilkey#%d])", pf, m), Kind: "appendnilkey", Parent: parent, Mask: m})
		}
		for k := 0; k < nk; k++ {
			add(omOp{Name: fmt.Sprintf("%sDelete(k%d)", pf, k), Kind: "delete", Parent: parent, Key: k})
		}
		for k := 0; k < nk; k++ {
			add(omOp{Name: fmt.Sprintf("%sGet(k%d)", pf, k), Kind: "get", Parent: parent, Key: k})
		}
		if !parent {
			add(omOp{Name: "Keys()", Kind: "keys"})
			add(omOp{Name: "Values()", Kind: "values"})
			add(omOp{Name: "Len()", Kind: "len"})
		}
	}
	return s
}

func (s *omSys) Name() string    { return s.site.Shape() }
func (s *omSys) Inits() []string { return []string{"nil-receiver", "empty-map"} }
func (s *omSys) Ops() []string   { return s.names }

type omPair struct{ key, id int }

// omExec is one execution: the real object plus the reference model (slice of (key, entry identity)).
type omExec struct {
	s      *omSys
	root   ygot.GoStruct
	parent reflect.Value
	fld    reflect.Value
	ks     *core.KeySet
	ids    map[uintptr]int // entry object -> birth index (only entries that entered the map)
	ref    []omPair        // the reference: insertion-ordered, unique keys
	births int
	exists bool   // the ordered-map object exists (non-nil receiver)
	fp     string // fingerprint of the last raw read of Keys()/Values()
}

func (x *omExec) has(k int) int {
	for i, p := range x.ref {
		if p.key == k {
			return i
		}
	}
	return -1
}

func (x *omExec) sig(clause string, op *omOp) string {
	k := "state"
	if op != nil {
		k = op.Kind
		if op.Parent {
			k = "parent-" + k
		}
		if op.Mask != 0 {
			k += fmt.Sprintf("#%d", op.Mask)
		}
	}
	return clause + ":" + x.s.site.Shape() + ":" + k
}

func (x *omExec) born(e reflect.Value, key int) {
	x.ids[e.Pointer()] = x.births
	x.ref = append(x.ref, omPair{key, x.births})
	x.births++
}

// observe reads the map through its API, checks it against the reference and returns the canonical state.
func (x *omExec) observe() (canon string, clause string, detail string) {
	site := x.s.site
	if x.exists != !x.fld.IsNil() {
		return "", "receiver-nilness", fmt.Sprintf("ordered-map object nil=%v, reference expects exists=%v", x.fld.IsNil(), x.exists)
	}
	keysV := callM(x.fld, "Keys")[0]
	valsV := callM(x.fld, "Values")[0]
	n := int(callM(x.fld, "Len")[0].Int())
	if n != len(x.ref) || keysV.Len() != len(x.ref) || valsV.Len() != len(x.ref) {
		return "", "len", fmt.Sprintf("Len()=%d len(Keys())=%d len(Values())=%d, reference has %d entries", n, keysV.Len(), valsV.Len(), len(x.ref))
	}
	ki := make([]int, n)
	ptrs := make([]uintptr, n)
	var parts []string
	for i := 0; i < n; i++ {
		ki[i] = site.KeyIndex(x.ks, keysV.Index(i))
		ptrs[i] = ptrOf(valsV.Index(i))
	}
	x.fp = fmt.Sprint(ki, ptrs) // what was read, for the repeated-read comparison
	for i := 0; i < n; i++ {
		k := keysV.Index(i)
		if ki[i] != x.ref[i].key {
			return "", "order", fmt.Sprintf("Keys()[%d]=%s, reference has k%d there (reference order %v)", i, site.KeyCanon(k), x.ref[i].key, x.ref)
		}
		id, ok := x.ids[ptrs[i]]
		if ptrs[i] == 0 || !ok || id != x.ref[i].id {
			return "", "identity", fmt.Sprintf("Values()[%d] is not the entry object stored under k%d (nil=%v known=%v)", i, ki[i], ptrs[i] == 0, ok)
		}
		if m, leaves := site.EntryKeyMatches(valsV.Index(i), k); !m {
			return "", "key-leaves", fmt.Sprintf("entry at %d has key leaves {%s}, its key is %s", i, leaves, site.KeyCanon(k))
		}
		parts = append(parts, fmt.Sprintf("k%d#%d", ki[i], id))
	}
	// Keys()/Values() return copies: overwrite every element of the returned slices and read again.
	nk := len(x.ks.Keys)
	for i := 0; i < n; i++ {
		keysV.Index(i).Set(x.ks.Keys[(ki[i]+1)%nk])
		valsV.Index(i).Set(reflect.Zero(site.EntryType))
	}
	keys2 := callM(x.fld, "Keys")[0]
	vals2 := callM(x.fld, "Values")[0]
	if keys2.Len() != n || vals2.Len() != n {
		return "", "keys-values-not-copies", "length changed after writing to the returned slices"
	}
	for i := 0; i < n; i++ {
		if site.KeyIndex(x.ks, keys2.Index(i)) != ki[i] {
			return "", "keys-not-a-copy", fmt.Sprintf("writing to the slice returned by Keys() changed the map's key %d", i)
		}
		if ptrOf(vals2.Index(i)) != ptrs[i] {
			return "", "values-not-a-copy", fmt.Sprintf("writing to the slice returned by Values() changed the map's value %d", i)
		}
	}
	// Get / Get<L> for every key of the domain
	for k := 0; k < nk; k++ {
		var want uintptr
		if i := x.has(k); i >= 0 {
			want = ptrs[i]
		}
		if got := ptrOf(callM(x.fld, "Get", x.ks.Keys[k])[0]); got != want {
			return "", "get", fmt.Sprintf("Get(k%d) returned %s, reference: present=%v", k, nilOrObj(got), want != 0)
		}
		if got := ptrOf(callM(x.parent, "Get"+site.Field, x.ks.Comps[k]...)[0]); got != want {
			return "", "parent-get", fmt.Sprintf("Get%s(k%d) returned %s, reference: present=%v", site.Field, k, nilOrObj(got), want != 0)
		}
	}
	facts := "recv=nil"
	if !x.fld.IsNil() {
		facts = "recv=set"
		for _, fn := range []string{"keys", "valueMap"} {
			if f := x.fld.Elem().FieldByName(fn); f.IsValid() && (f.Kind() == reflect.Slice || f.Kind() == reflect.Map) {
				facts += fmt.Sprintf(" %s.nil=%v", fn, f.IsNil())
			}
		}
	}
	return fmt.Sprintf("%s [%s] births=%d", facts, strings.Join(parts, " "), x.births), "", ""
}

// pureRead reads Keys() and Values() without writing to the results.
func (x *omExec) pureRead() (fp, _a, _b string) {
	kv := callM(x.fld, "Keys")[0]
	vv := callM(x.fld, "Values")[0]
	var ki []int
	var ptrs []uintptr
	for i := 0; i < kv.Len(); i++ {
		ki = append(ki, x.s.site.KeyIndex(x.ks, kv.Index(i)))
	}
	for i := 0; i < vv.Len(); i++ {
		ptrs = append(ptrs, ptrOf(vv.Index(i)))
	}
	return fmt.Sprint(ki, ptrs), "", ""
}

func nilOrObj(p uintptr) string {
	if p == 0 {
		return "nil"
	}
	return "another/an entry object"
}

// step performs one call and compares its return values with the reference. It returns the outcome
// class and, on disagreement, the violated clause.
func (x *omExec) step(op *omOp) (class, clause, detail string) {
	site := x.s.site
	before := seqDump(x.parent)
	recvNil := x.fld.IsNil()
	onNil := recvNil && !op.Parent // direct call on a nil receiver
	pfx := ""
	recv := x.fld
	if op.Parent {
		pfx, recv = site.Field, x.parent
	}
	// unchanged verifies that a rejected or read-only call left everything DeepEqual to before. A
	// rejected parent helper that merely instantiated the (still empty) ordered map is not judged.
	unchanged := func(cl string) (string, string, string) {
		if after := seqDump(x.parent); after != before {
			if op.Parent && recvNil && !x.fld.IsNil() && callM(x.fld, "Len")[0].Int() == 0 {
				x.exists = true
				return cl + "+instantiated-empty-map(not-judged)", "", ""
			}
			return cl, "rejected-or-read-call-changed-map", fmt.Sprintf("%s left the tree different from before: before=%s after=%s", op.Name, before, after)
		}
		return cl, "", ""
	}
	switch op.Kind {
	case "append", "appendnil", "appendnilkey":
		var e reflect.Value
		switch op.Kind {
		case "append":
			e = site.NewEntry(x.ks.Comps[op.Key], 0)
		case "appendnil":
			e = reflect.Zero(site.EntryType)
		default:
			e = site.NewEntry(x.ks.Comps[0], op.Mask)
		}
		failed := !callM(recv, "Append"+pfx, e)[0].IsNil()
		switch {
		case op.Kind == "appendnil":
			if !failed {
				return "", "append-nil-accepted", "Append(nil) returned no error"
			}
			return unchanged("rejected-nil-entry")
		case op.Kind == "appendnilkey":
			if !failed {
				return "", "append-nilkey-accepted", "Append of an entry whose key leaf is nil returned no error"
			}
			return unchanged("rejected-nil-key")
		case onNil:
			if !failed {
				return "", "append-on-nil-receiver-accepted", "Append on a nil ordered map returned no error"
			}
			return unchanged("rejected-nil-receiver")
		case x.has(op.Key) >= 0:
			if !failed {
				return "", "append-duplicate-accepted", fmt.Sprintf("Append of an entry with the existing key k%d returned no error", op.Key)
			}
			return unchanged("rejected-duplicate")
		}
		if failed {
			return "", "append-rejected", fmt.Sprintf("Append of an entry with the new key k%d returned an error", op.Key)
		}
		x.exists = true
		x.born(e, op.Key)
		return "appended", "", ""
	case "appendnew":
		out := callM(recv, "AppendNew"+pfx, x.ks.Comps[op.Key]...)
		failed := !out[1].IsNil()
		switch {
		case onNil:
			if !failed {
				return "", "appendnew-on-nil-receiver-accepted", "AppendNew on a nil ordered map returned no error"
			}
			return unchanged("rejected-nil-receiver")
		case x.has(op.Key) >= 0:
			if !failed {
				return "", "appendnew-duplicate-accepted", fmt.Sprintf("AppendNew(k%d) with an existing key returned no error", op.Key)
			}
			return unchanged("rejected-duplicate")
		}
		if failed || out[0].IsNil() {
			return "", "appendnew-rejected", fmt.Sprintf("AppendNew(k%d) with a new key returned error=%v entry-nil=%v", op.Key, failed, out[0].IsNil())
		}
		x.exists = true
		x.born(out[0], op.Key)
		return "appended-new", "", ""
	case "delete":
		got := callM(recv, "Delete"+pfx, x.argsFor(op)...)[0].Bool()
		i := x.has(op.Key)
		if got != (i >= 0) {
			return "", "delete-result", fmt.Sprintf("Delete(k%d) returned %v, key present=%v", op.Key, got, i >= 0)
		}
		if i < 0 {
			return unchanged("delete-absent")
		}
		x.ref = append(append([]omPair{}, x.ref[:i]...), x.ref[i+1:]...)
		return "deleted", "", ""
	case "get":
		got := ptrOf(callM(recv, "Get"+pfx, x.argsFor(op)...)[0])
		i := x.has(op.Key)
		id, known := x.ids[got]
		if (i < 0 && got != 0) || (i >= 0 && (got == 0 || !known || id != x.ref[i].id)) {
			return "", "get", fmt.Sprintf("Get(k%d) returned %s, key present=%v", op.Key, nilOrObj(got), i >= 0)
		}
		if i < 0 {
			return unchanged("get-absent")
		}
		return unchanged("get-present")
	case "keys":
		kv := callM(recv, "Keys")[0]
		if kv.Len() != len(x.ref) {
			return "", "len", fmt.Sprintf("Keys() has %d elements, reference %d", kv.Len(), len(x.ref))
		}
		for i := 0; i < kv.Len(); i++ {
			if site.KeyIndex(x.ks, kv.Index(i)) != x.ref[i].key {
				return "", "order", fmt.Sprintf("Keys()[%d]=%s, reference k%d", i, site.KeyCanon(kv.Index(i)), x.ref[i].key)
			}
		}
		return unchanged("read")
	case "values":
		vv := callM(recv, "Values")[0]
		if vv.Len() != len(x.ref) {
			return "", "len", fmt.Sprintf("Values() has %d elements, reference %d", vv.Len(), len(x.ref))
		}
		for i := 0; i < vv.Len(); i++ {
			if id, ok := x.ids[ptrOf(vv.Index(i))]; !ok || id != x.ref[i].id {
				return "", "identity", fmt.Sprintf("Values()[%d] is not the entry stored at that position", i)
			}
		}
		return unchanged("read")
	case "len":
		if n := int(callM(recv, "Len")[0].Int()); n != len(x.ref) {
			return "", "len", fmt.Sprintf("Len()=%d, reference %d", n, len(x.ref))
		}
		return unchanged("read")
	}
	panic("harness: unknown op " + op.Kind)
}

func (x *omExec) argsFor(op *omOp) []reflect.Value {
	if op.Parent {
		return x.ks.Comps[op.Key] // parent helpers take the key components
	}
	return []reflect.Value{x.ks.Keys[op.Key]} // the map's own methods take the key (struct for multi-key lists)
}

// run executes a history; it returns the run record and the executor (for state checks).
func (s *omSys) run(init int, ops []uint16) (*core.SeqRun, *omExec) {
	return s.runHook(init, ops, nil)
}

// runHook is run with a callback after the initial state and after every call (used to interleave
// renderings with the history, so that anything the renderers remember about the list goes stale).
func (s *omSys) runHook(init int, ops []uint16, hook func(x *omExec)) (*core.SeqRun, *omExec) {
	run := &core.SeqRun{}
	x := &omExec{s: s, ids: map[uintptr]int{}}
	x.root, x.parent, x.fld = s.site.Fresh()
	ks, err := s.site.NewKeys()
	if err != nil {
		panic("harness: " + err.Error())
	}
	x.ks = ks
	if init == 1 {
		x.fld.Set(reflect.New(x.fld.Type().Elem()))
		x.exists = true
	}
	fail := func(step int, op *omOp, clause, detail string) (*core.SeqRun, *omExec) {
		run.Viol = &core.SeqViol{Step: step, Sig: x.sig(clause, op), Detail: detail}
		return run, x
	}
	guard := func(f func() (string, string, string)) (a, b, c string) {
		defer func() {
			if r := recover(); r != nil {
				if s, ok := r.(string); ok && strings.HasPrefix(s, "harness:") {
					panic(r)
				}
				a, b, c = "", "panic", fmt.Sprintf("panic: %v", r)
			}
		}()
		return f()
	}
	canon, cl, d := guard(x.observe)
	if cl != "" {
		return fail(-1, nil, cl, d)
	}
	run.Canons = append(run.Canons, canon)
	if hook != nil {
		hook(x)
	}
	for i, oi := range ops {
		op := &s.ops[oi]
		class, cl, d := guard(func() (string, string, string) { return x.step(op) })
		if cl != "" {
			return fail(i, op, cl, d)
		}
		canon, cl, d := guard(x.observe)
		if cl != "" {
			if strings.HasSuffix(cl, "not-a-copy") || strings.HasSuffix(cl, "not-copies") {
				// pure reads (nothing written in between) must agree, otherwise the difference seen after
				// writing to the returned slices is run-dependent order, not aliasing
				fp0, _, _ := guard(x.pureRead)
				for rep := 0; rep < 64; rep++ {
					if fp1, _, _ := guard(x.pureRead); fp1 != fp0 {
						return fail(i, nil, "nondeterministic-read", "after "+op.Name+": repeated Keys()/Values() on the same object disagree")
					}
				}
				return fail(i, nil, cl, "after "+op.Name+": "+d) // a property of the read API, whatever call came before
			}
			// the same reads repeated on the same object must give the same verdict; if not, the
			// implementation's answer depends on something outside the history (Go map iteration order)
			fp := x.fp
			for rep := 0; rep < 64; rep++ {
				if _, cl2, d2 := guard(x.observe); cl2 != cl || d2 != d || x.fp != fp {
					return fail(i, nil, "nondeterministic-read", "after "+op.Name+": repeated reads of the same object disagree: "+d+" / "+d2)
				}
			}
			return fail(i, op, "after-call-"+cl, "after "+op.Name+": "+d)
		}
		run.Canons = append(run.Canons, canon)
		run.Classes = append(run.Classes, class)
		if hook != nil {
			hook(x)
		}
	}
	return run, x
}

func (s *omSys) Exec(init int, ops []uint16) *core.SeqRun {
	r, _ := s.run(init, ops)
	return r
}

// c15StateCheck evaluates one order-preservation law in the state reached by the history.
func c15StateCheck(s *omSys, init int, ops []uint16, which string) (clause, detail string) {
	if strings.HasSuffix(which, "+hist") {
		// the same rendering is also performed (result discarded) at ONE earlier point of the history, on the
		// very object that the following calls mutate: once for every such point (a renderer that remembers
		// something about the list sees the list change behind its back), and once at every point
		base := strings.TrimSuffix(which, "+hist")
		for at := -1; at < len(ops); at++ {
			at := at
			n := 0
			hook := func(x *omExec) {
				if at == -1 || n == at {
					c15Render(s.site.P, x.root, base)
				}
				n++
			}
			if cl, d := c15StateCheckHook(s, init, ops, base, hook); cl != "" {
				return cl + "(rendered-along-history)", fmt.Sprintf("also rendered after call #%d (-1: after every call, 0: initial state): %s", at, d)
			}
		}
		return "", ""
	}
	return c15StateCheckHook(s, init, ops, which, nil)
}

func c15StateCheckHook(s *omSys, init int, ops []uint16, which string, hook func(x *omExec)) (clause, detail string) {
	run, x := s.runHook(init, ops, hook)
	if run.Viol != nil {
		return "", "" // reported by the search
	}
	p := s.site.P
	want := p.Observe(x.root)
	var wantOrder []string
	kv := callM(x.fld, "Keys")[0]
	for i := 0; i < kv.Len(); i++ {
		wantOrder = append(wantOrder, s.site.KeyCanon(kv.Index(i)))
	}
	var back ygot.GoStruct
	switch which {
	case "json":
		var j []byte
		if err := safeErr(func() (e error) { j, e = ygot.Marshal7951(x.root); return }); err != nil {
			return "json-render-error", err.Error()
		}
		back = p.NewRoot()
		if err := safeUnmarshal(p, j, back); err != nil {
			return "json-unmarshal-error", fmt.Sprintf("%v json=%s", err, j)
		}
	case "gnmi":
		ns, err := safeNotifs(func() ([]*gpb.Notification, error) {
			return ygot.TogNMINotifications(x.root, 42, ygot.GNMINotificationsConfig{UsePathElem: true})
		})
		if err != nil {
			return "gnmi-render-error", err.Error()
		}
		back = p.NewRoot()
		sch := &ytypes.Schema{Root: back, SchemaTree: p.Schema().SchemaTree, Unmarshal: p.Schema().Unmarshal}
		if err := safeErr(func() error { return ytypes.UnmarshalNotifications(sch, ns) }); err != nil {
			return "gnmi-apply-error", fmt.Sprintf("%v notifications=%v", err, ns)
		}
	case "copy":
		var cp ygot.GoStruct
		if err := safeErr(func() (e error) { cp, e = ygot.DeepCopy(x.root); return }); err != nil {
			return "copy-error", err.Error()
		}
		back = cp
	case "diff":
		// the same entries in another order are a DIFFERENT list: rot = copy of the state with its first entry
		// moved to the end (Delete + Append on the copy); DiffWithAtomic(state, rot) applied to another copy of
		// the state must produce rot's order
		if len(wantOrder) < 2 {
			return "", ""
		}
		var rot, twin ygot.GoStruct
		if err := safeErr(func() (e error) {
			if rot, e = ygot.DeepCopy(x.root); e != nil {
				return e
			}
			twin, e = ygot.DeepCopy(x.root)
			return e
		}); err != nil {
			return "copy-error", err.Error()
		}
		rf := reflect.ValueOf(rot)
		for _, cn := range s.site.Containers {
			rf = rf.Elem().FieldByName(cn)
		}
		rf = rf.Elem().FieldByName(s.site.Field)
		k0 := callM(rf, "Keys")[0].Index(0)
		e0 := callM(rf, "Get", k0)[0]
		callM(rf, "Delete", k0)
		if r := callM(rf, "Append", e0); len(r) > 0 && !r[len(r)-1].IsNil() {
			return "diff-setup-error", fmt.Sprint(r[len(r)-1].Interface())
		}
		wantOrder = append(append([]string{}, wantOrder[1:]...), wantOrder[0])
		want = p.Observe(rot)
		ns, err := safeNotifs(func() ([]*gpb.Notification, error) { return ygot.DiffWithAtomic(x.root, rot) })
		if err != nil {
			return "diff-error", err.Error()
		}
		sch := &ytypes.Schema{Root: twin, SchemaTree: p.Schema().SchemaTree, Unmarshal: p.Schema().Unmarshal}
		if err := safeErr(func() error { return ytypes.UnmarshalNotifications(sch, ns) }); err != nil {
			return "diff-apply-error", fmt.Sprintf("%v notifications=%v", err, ns)
		}
		back = twin
	}
	// order read directly through the generated API of the result
	cur := reflect.ValueOf(back)
	for _, cn := range s.site.Containers {
		if cur.IsNil() {
			break
		}
		cur = cur.Elem().FieldByName(cn)
	}
	var gotOrder []string
	if !cur.IsNil() {
		f := cur.Elem().FieldByName(s.site.Field)
		kv := callM(f, "Keys")[0]
		for i := 0; i < kv.Len(); i++ {
			gotOrder = append(gotOrder, s.site.KeyCanon(kv.Index(i)))
		}
	}
	if fmt.Sprint(gotOrder) != fmt.Sprint(wantOrder) {
		return which + "-order", fmt.Sprintf("order %v became %v", wantOrder, gotOrder)
	}
	got := p.Observe(back)
	if which == "gnmi" || which == "diff" {
		if got.LeafCanon(true) != want.LeafCanon(true) {
			return which + "-tree", core.DiffCanon(want.LeafCanon(true), got.LeafCanon(true))
		}
	} else if got.Canon() != want.Canon() {
		return which + "-tree", core.DiffCanon(want.Canon(), got.Canon())
	}
	return "", ""
}

// c15Render performs one rendering of root and discards the result (errors and panics included:
// they are judged by the state law itself).
func c15Render(p *core.Pkg, root ygot.GoStruct, which string) {
	defer func() { recover() }()
	switch which {
	case "json":
		ygot.Marshal7951(root)
	case "gnmi":
		ygot.TogNMINotifications(root, 42, ygot.GNMINotificationsConfig{UsePathElem: true})
	case "copy":
		ygot.DeepCopy(root)
	}
}

var c15Checks = []string{"json", "gnmi", "copy", "diff", "json+hist", "gnmi+hist", "copy+hist"}

func c15Pkgs(c *core.Ctx) []string {
	var out []string
	for _, p := range core.Packages() {
		out = append(out, p.Name)
	}
	return out
}

func runC15(c *core.Ctx) {
	c.Level = "model_checking"
	depth, full := kFor(c, 5, 6), "3"
	if c.Thorough() {
		full = "4 (packages vtus, vtuw, voccs; 3 in the other packages)"
	}
	c.Rule = fmt.Sprintf("seqmc: for every ordered-by-user list of the 8 corpus packages (single-key ol/olx/rule, two-key ol2), breadth-first search over call histories of length <= %d from a nil and from an empty ordered map; alphabet = {AppendNew(k), Append(e_k), Append(nil), Append(entry with a nil key leaf, one per key leaf), Delete(k), Get(k), Keys(), Values(), Len()} on the map plus the parent's AppendNew<L>/Append<L>/Get<L>/Delete<L> (and Append<L> of nil / nil-key entries), k from a 3-key domain (two-key tuples share components); every successor is the replay of the whole history on a fresh generated struct; states deduplicated by (receiver nil-ness, key order, entry identity by birth index, births); after every call return values, Keys(), Values(), Len(), Get(k) for every k, entry identities and key leaves are compared with a slice of (key, identity), the slices returned by Keys()/Values() are overwritten and re-read, rejected and read-only calls must leave the reflect dump of the parent struct (the list incl. its unexported keys/valueMap fields, every entry, all siblings) unchanged; additionally ALL histories of length %s are executed without deduplication; in every distinct state the order must survive Marshal7951->Unmarshal, TogNMINotifications->UnmarshalNotifications and DeepCopy, and DiffWithAtomic(state, state with its first entry moved to the end) applied to a copy of the state must yield the moved order; the first three each also with the same rendering performed (and discarded) in the initial state and after every call of the history on the object the later calls mutate (anything a renderer remembers about a list must not go stale); non-trivial = state with >= 2 entries", depth, full)
	c.R.Assume("entry identity is pointer identity of the generated entry structs; key equality is Go == on the generated key types")
	c.R.Assume("a rejected parent helper (Append<L>(nil) ...) on a nil field may instantiate the empty ordered map: not judged, counted")
	sites := seqSites(c15Pkgs(c), true, false)
	for _, site := range sites {
		if c.Expired() {
			break
		}
		sys := newOmSys(site)
		sp := core.SeqExplore(sys, depth, c.Expired)
		sp.FullHistories(seqFullLen(c, site), c.Expired)
		seqReport(c, site, sp)
		// state laws
		type res struct{ clause, detail string }
		out := make([][]res, len(sp.States))
		core.ParallelFor(len(sp.States), func(i int) {
			st := sp.States[i]
			for _, w := range c15Checks {
				cl, d := c15StateCheck(sys, st.Init, st.Hist, w)
				out[i] = append(out[i], res{cl, d})
			}
		})
		inits := sys.Inits()
		for i, st := range sp.States {
			n := strings.Count(st.Canon, "#")
			if n >= 2 {
				c.R.NonTrivial(site.P.Name + site.Path + st.Canon)
			}
			for j, r := range out[i] {
				c.R.Add("evaluations", 1)
				c.R.Add("state_law_evaluations", 1)
				c.R.Add("traces_validated_against_impl", 1)
				if r.clause == "" {
					c.R.Outcome(c15Checks[j] + "-order-preserved")
					continue
				}
				c.R.Outcome("violation")
				c.R.Violation(fmt.Sprintf("%s:%s:entries=%d", r.clause, site.Shape(), min(n, 2)),
					fmt.Sprintf("%s %s init=%s calls=%v: %s", site.P.Name, site.Path, inits[st.Init], sp.HistNames(st.Hist), r.detail),
					seqCase{Pkg: site.P.Name, Site: site.ID(), Init: inits[st.Init], Ops: sp.HistNames(st.Hist), Check: c15Checks[j]})
			}
		}
	}
	var names []string
	for _, s := range sites {
		names = append(names, s.P.Name+s.Path)
	}
	sort.Strings(names)
	c.R.Note("lists", names)
	c.R.Note("depth", depth)
	c.R.Note("full_history_length", full)
}

func replayC15(c *core.Ctx, raw []byte) (bool, string) {
	var sc seqCase
	if err := json.Unmarshal(raw, &sc); err != nil {
		return false, err.Error()
	}
	site := findSite(sc.Pkg, sc.Site)
	if site == nil || !site.Ordered {
		return false, "unknown list"
	}
	sys := newOmSys(site)
	ops, ok := opIndices(sys, sc.Ops)
	ii := initIndex(sys, sc.Init)
	if !ok || ii < 0 {
		return false, "unknown calls"
	}
	if sc.Check != "" {
		cl, d := c15StateCheck(sys, ii, ops, sc.Check)
		return cl != "", cl + ": " + d
	}
	for try := 0; try < 20; try++ { // more than one execution only matters for run-dependent (map-order) outcomes
		if run := sys.Exec(ii, ops); run.Viol != nil {
			return true, run.Viol.Sig + ": " + run.Viol.Detail
		}
	}
	return false, ""
}
