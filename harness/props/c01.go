package props

import (
	"encoding/json"
	"fmt"

	"github.com/openconfig/ygot/ygot"
	"github.com/openconfig/ygot/zzverif/core"
)

func init() {
	core.RegisterProp(&core.Prop{ID: "C01", Run: runC01, Replay: replayC01})
}

var c01Opts = []string{"nil", "append", "idref", "emit", "append+rewrite"}

func c01Config(opt string) *ygot.RFC7951JSONConfig {
	switch opt {
	case "append":
		return &ygot.RFC7951JSONConfig{AppendModuleName: true}
	case "idref":
		return &ygot.RFC7951JSONConfig{PrependModuleNameIdentityref: true}
	case "shadow":
		return &ygot.RFC7951JSONConfig{AppendModuleName: true, PreferShadowPath: true}
	case "append+rewrite":
		// member names qualified with REWRITTEN module names must still be read back
		return &ygot.RFC7951JSONConfig{AppendModuleName: true, RewriteModuleNames: map[string]string{"vt": "vtx", "vt-aug": "vt", "voc": "vocx"}}
	}
	return nil
}

func c01Render(t ygot.GoStruct, opt string) (out []byte, err error) {
	defer recoverTo(&err)
	if opt == "emit" {
		s, e := ygot.EmitJSON(t, &ygot.EmitJSONConfig{Format: ygot.RFC7951, SkipValidation: true,
			RFC7951Config: &ygot.RFC7951JSONConfig{AppendModuleName: true}})
		return []byte(s), e
	}
	cfg := c01Config(opt)
	if cfg == nil {
		return ygot.Marshal7951(t)
	}
	return ygot.Marshal7951(t, cfg)
}

// c01Check evaluates the round-trip law on one tree; returns (signature, detail) or "".
func c01Check(p *core.Pkg, atoms []*core.Atom, opt string) (string, string) {
	t, err := p.Build(atoms)
	if err != nil {
		return "", ""
	}
	want := p.Observe(t)
	j1, err := c01Render(t.(ygot.GoStruct), opt)
	if err != nil {
		return "render-error:", fmt.Sprintf("render failed: %v", err)
	}
	back := p.NewRoot()
	if err := safeUnmarshal(p, j1, back); err != nil {
		return "unmarshal-error:", fmt.Sprintf("unmarshal of own output failed: %v json=%s", err, j1)
	}
	got := p.Observe(back)
	if got.Canon() != want.Canon() {
		return "tree-differs:", fmt.Sprintf("round trip changed the tree: %s json=%s", core.DiffCanon(want.Canon(), got.Canon()), j1)
	}
	j2, err := c01Render(back, opt)
	if err != nil {
		return "rerender-error:", fmt.Sprintf("re-render failed: %v", err)
	}
	if string(j1) != string(j2) {
		return "rerender-differs:", fmt.Sprintf("re-rendered JSON differs: %s vs %s", j1, j2)
	}
	return "", ""
}

func safeUnmarshal(p *core.Pkg, j []byte, dst ygot.GoStruct) (err error) {
	defer recoverTo(&err)
	return p.Unmarshal(j, dst)
}

// classify abstracts an atom sequence to the set of schema nodes it touches (signature component).
func classify(atoms []*core.Atom) string {
	s := ""
	seen := map[string]bool{}
	for _, a := range atoms {
		n := ""
		for _, e := range a.Path {
			n += "/" + e.Name
		}
		if !seen[n] {
			seen[n] = true
			if s != "" {
				s += "+"
			}
			s += n
		}
	}
	return s
}

func runC01(c *core.Ctx) {
	c.Level = "model_checking"
	k := kFor(c, 2, 3)
	c.Rule = fmt.Sprintf("explicit-state BFS over atom sequences (every leaf type/value, leaf-list, list entry, presence container of the corpus schemas) up to k=%d populated nodes on fresh real GoStructs, deduplicated by observed Model; every state x every JSON option is rendered, unmarshalled into an empty root and re-rendered; non-trivial = state whose JSON is not {}", k)
	c.R.Assume("builder and observer (reflection walk over struct tags) are correct; union atoms are lexically unambiguous")
	exploreAll(c, core.PackagesWithRev(), k, nil, func(sp *core.Space, st core.State) {
		atoms := sp.SeqAtoms(st)
		opts := c01Opts
		if sp.P.Compressed && !sp.P.IgnoreShadow {
			opts = append(append([]string{}, c01Opts...), "shadow")
		}
		if c.Thorough() && len(st.Seq) == 3 {
			opts = []string{"append"}
		}
		for _, opt := range opts {
			c.R.Add("evaluations", 1)
			sig, detail := c01Check(sp.P, atoms, opt)
			if sig != "" {
				min, msig, mdetail := minimise(atoms, func(a []*core.Atom) (string, string) { return c01Check(sp.P, a, opt) })
				c.R.Violation(sigFor(clauseOf(msig), min), mdetail+" [first seen: "+detail+"]", treeCase{Pkg: sp.P.Name, Atoms: atomNames(min), Opt: opt})
				c.R.Outcome("violation")
			} else {
				c.R.Outcome("roundtrip-ok")
			}
		}
		if len(st.Seq) > 0 {
			c.R.NonTrivial(sp.P.Name + string(st.Key[:]))
		}
	})
}

func replayC01(c *core.Ctx, raw []byte) (bool, string) {
	var tc treeCase
	if err := json.Unmarshal(raw, &tc); err != nil {
		return false, err.Error()
	}
	p := core.AnyPkgByName(tc.Pkg)
	if p == nil {
		return false, "unknown package"
	}
	atoms, ok := p.AtomsByName(tc.Atoms)
	if !ok {
		return false, "unknown atoms"
	}
	sig, d := c01Check(p, atoms, tc.Opt)
	return sig != "", sig + ": " + d
}
