package props

import (
	"encoding/json"
	"fmt"
	"reflect"
	"sort"

	"github.com/openconfig/ygot/ygot"
	"github.com/openconfig/ygot/zzverif/core"
)

func init() { core.RegisterProp(&core.Prop{ID: "C04", Run: runC04, Replay: replayC04}) }

// memSet collects the addresses of all mutable memory reachable from a value: pointees,
// slice backing arrays (cap > 0) and maps. what records a description per address.
type memSet map[uintptr]string

func collectMem(v reflect.Value, where string, out memSet, depth int) {
	if depth > 60 || !v.IsValid() {
		return
	}
	switch v.Kind() {
	case reflect.Ptr:
		if v.IsNil() {
			return
		}
		if _, seen := out[v.Pointer()]; seen {
			return
		}
		if v.Elem().Type().Size() > 0 {
			out[v.Pointer()] = where + " (*" + v.Elem().Type().String() + ")"
		}
		collectMem(v.Elem(), where, out, depth+1)
	case reflect.Interface:
		if !v.IsNil() {
			collectMem(v.Elem(), where, out, depth+1)
		}
	case reflect.Struct:
		for i := 0; i < v.NumField(); i++ {
			collectMem(v.Field(i), where+"."+v.Type().Field(i).Name, out, depth+1)
		}
	case reflect.Map:
		if v.IsNil() {
			return
		}
		out[v.Pointer()] = where + " (map)"
		it := v.MapRange()
		for it.Next() {
			collectMem(it.Key(), where+"[key]", out, depth+1)
			collectMem(it.Value(), where+"[]", out, depth+1)
		}
	case reflect.Slice:
		if v.IsNil() {
			return
		}
		if v.Cap() > 0 {
			out[v.Pointer()] = where + " (slice backing array)"
		}
		for i := 0; i < v.Len(); i++ {
			collectMem(v.Index(i), fmt.Sprintf("%s[%d]", where, i), out, depth+1)
		}
	}
}

func shared(a, b interface{}) []string {
	ma, mb := memSet{}, memSet{}
	collectMem(reflect.ValueOf(a), "", ma, 0)
	collectMem(reflect.ValueOf(b), "", mb, 0)
	var out []string
	for p, w := range ma {
		if w2, ok := mb[p]; ok {
			out = append(out, w+" == "+w2)
		}
	}
	sort.Strings(out)
	return out
}

// scramble overwrites, in place, everything settable that is reachable from v: scalar pointees,
// slice elements, bytes, map contents (all entries scrambled, then deleted).
func scramble(v reflect.Value, depth int) {
	if depth > 60 || !v.IsValid() {
		return
	}
	switch v.Kind() {
	case reflect.Ptr:
		if !v.IsNil() {
			scramble(v.Elem(), depth+1)
		}
	case reflect.Interface:
		if !v.IsNil() {
			e := v.Elem()
			if e.Kind() == reflect.Ptr {
				scramble(e, depth+1)
			}
		}
	case reflect.Struct:
		for i := 0; i < v.NumField(); i++ {
			if v.Field(i).CanSet() || v.Field(i).Kind() == reflect.Ptr || v.Field(i).Kind() == reflect.Map || v.Field(i).Kind() == reflect.Slice {
				scramble(v.Field(i), depth+1)
			}
		}
	case reflect.Map:
		if v.IsNil() {
			return
		}
		for _, k := range v.MapKeys() {
			scramble(v.MapIndex(k), depth+1)
		}
		if v.CanSet() || true {
			func() {
				defer func() { recover() }()
				for _, k := range v.MapKeys() {
					v.SetMapIndex(k, reflect.Value{})
				}
			}()
		}
	case reflect.Slice:
		for i := 0; i < v.Len(); i++ {
			scramble(v.Index(i), depth+1)
		}
	case reflect.String:
		if v.CanSet() {
			v.SetString(v.String() + "#mutated")
		}
	case reflect.Bool:
		if v.CanSet() {
			v.SetBool(!v.Bool())
		}
	case reflect.Int, reflect.Int8, reflect.Int16, reflect.Int32, reflect.Int64:
		if v.CanSet() {
			v.SetInt(v.Int() ^ 0x55)
		}
	case reflect.Uint, reflect.Uint8, reflect.Uint16, reflect.Uint32, reflect.Uint64:
		if v.CanSet() {
			v.SetUint(v.Uint() ^ 0x55)
		}
	case reflect.Float64:
		if v.CanSet() {
			v.SetFloat(v.Float() + 1.5)
		}
	}
}

func safeCopy(t ygot.GoStruct) (c ygot.GoStruct, err error) {
	defer recoverTo(&err)
	return ygot.DeepCopy(t)
}

func c04CheckCopy(p *core.Pkg, atoms []*core.Atom) (string, string) {
	t, err := p.Build(atoms)
	if err != nil {
		return "", ""
	}
	twin, _ := p.Build(atoms)
	cp, err := safeCopy(t.(ygot.GoStruct))
	if err != nil {
		return "deepcopy-error:", err.Error()
	}
	if a, b := p.Observe(t).Canon(), p.Observe(cp).Canon(); a != b {
		return "copy-differs:", core.DiffCanon(a, b)
	}
	if sh := shared(t, cp); len(sh) > 0 {
		return "copy-aliases-original:", fmt.Sprintf("memory reachable from both original and copy: %v", sh)
	}
	// mutate the copy everywhere; the original must still equal its pristine twin
	scramble(reflect.ValueOf(cp), 0)
	if deepSnapshot(t) != deepSnapshot(twin) {
		return "mutating-copy-changed-original:", core.DiffCanon(p.Observe(twin).Canon(), p.Observe(t).Canon())
	}
	// and the reverse
	cp2, _ := safeCopy(t.(ygot.GoStruct))
	snap := deepSnapshot(cp2)
	scramble(reflect.ValueOf(t), 0)
	if deepSnapshot(cp2) != snap {
		return "mutating-original-changed-copy:", "copy changed after mutating the original"
	}
	return "", ""
}

var c04MergeOpts = []string{"none", "overwrite", "emptymaps", "overwrite+emptymaps"}

func mergeOpts(o string) []ygot.MergeOpt {
	switch o {
	case "overwrite":
		return []ygot.MergeOpt{&ygot.MergeOverwriteExistingFields{}}
	case "emptymaps":
		return []ygot.MergeOpt{&ygot.MergeEmptyMaps{}}
	case "overwrite+emptymaps":
		return []ygot.MergeOpt{&ygot.MergeOverwriteExistingFields{}, &ygot.MergeEmptyMaps{}}
	}
	return nil
}

func safeMerge(a, b ygot.GoStruct, opts []ygot.MergeOpt) (c ygot.GoStruct, err error) {
	defer recoverTo(&err)
	return ygot.MergeStructs(a, b, opts...)
}

func c04CheckMerge(p *core.Pkg, aa, ba []*core.Atom, opt string) (string, string) {
	a, err := p.Build(aa)
	if err != nil {
		return "", ""
	}
	b, err := p.Build(ba)
	if err != nil {
		return "", ""
	}
	ta, _ := p.Build(aa)
	tb, _ := p.Build(ba)
	m, err := safeMerge(a.(ygot.GoStruct), b.(ygot.GoStruct), mergeOpts(opt))
	if err != nil {
		if len(err.Error()) > 5 && err.Error()[:5] == "PANIC" {
			return "merge-panic:", err.Error()
		}
		return "", "merge-refused"
	}
	if sh := shared(a, m); len(sh) > 0 {
		return "merge-aliases-a:", fmt.Sprintf("memory reachable from both input a and the result: %v", sh)
	}
	if sh := shared(b, m); len(sh) > 0 {
		return "merge-aliases-b:", fmt.Sprintf("memory reachable from both input b and the result: %v", sh)
	}
	scramble(reflect.ValueOf(m), 0)
	if deepSnapshot(a) != deepSnapshot(ta) {
		return "mutating-result-changed-a:", core.DiffCanon(p.Observe(ta).Canon(), p.Observe(a).Canon())
	}
	if deepSnapshot(b) != deepSnapshot(tb) {
		return "mutating-result-changed-b:", core.DiffCanon(p.Observe(tb).Canon(), p.Observe(b).Canon())
	}
	return "", ""
}

type pairCase struct {
	Pkg  string   `json:"pkg"`
	A    []string `json:"a"`
	B    []string `json:"b"`
	Opt  string   `json:"opt,omitempty"`
	Mode string   `json:"mode,omitempty"`
}

func runC04(c *core.Ctx) {
	c.Level = "model_checking"
	k := kFor(c, 2, 3)
	c.Rule = fmt.Sprintf("explicit-state BFS over atom sequences up to k=%d (incl. empty non-nil maps/ordered maps/leaf-lists) on all 8 corpus packages; every state is deep-copied: equality of Models, an exhaustive pointer-graph walk (pointers, maps, slice backing arrays reachable from both objects = violation), in-place overwrite of everything reachable from the copy (and from the original) compared against a pristine twin; MergeStructs on all ordered pairs of k<=1 states x 4 option sets with the same aliasing walk against both inputs; non-trivial = state with at least one pointer/map/slice", k)
	c.R.Assume("reflect.Value.Pointer identifies shared memory; strings are immutable and not tracked")
	exploreAll(c, core.Packages(), k, nil, func(sp *core.Space, st core.State) {
		atoms := sp.SeqAtoms(st)
		c.R.Add("evaluations", 1)
		sig, detail := c04CheckCopy(sp.P, atoms)
		if sig != "" {
			min, msig, mdetail := minimise(atoms, func(a []*core.Atom) (string, string) { return c04CheckCopy(sp.P, a) })
			c.R.Violation(sigFor(clauseOf(msig), min), mdetail+" [first: "+detail+"]", pairCase{Pkg: sp.P.Name, A: atomNames(min), Mode: "copy"})
			c.R.Outcome("violation")
		} else {
			c.R.Outcome("copy-independent")
		}
		if len(st.Seq) > 0 {
			c.R.NonTrivial(sp.P.Name + string(st.Key[:]))
		}
	})
	// MergeStructs: all ordered pairs of states with <= 1 atom (thorough: focused alphabet k<=2 x k<=1)
	for _, p := range core.Packages() {
		sp := core.Explore(p, p.Atoms(), 1)
		n := len(sp.States)
		c.R.Add("transitions", int64(n*n))
		core.ParallelFor(n, func(i int) {
			if c.Expired() {
				return
			}
			for j := 0; j < n; j++ {
				aa, ba := sp.SeqAtoms(sp.States[i]), sp.SeqAtoms(sp.States[j])
				for _, opt := range c04MergeOpts {
					c.R.Add("evaluations", 1)
					sig, detail := c04CheckMerge(p, aa, ba, opt)
					if sig != "" {
						// minimise the pair: does one side alone (merged with the empty tree) show it?
						ma, mb := aa, ba
						if s2, d2 := c04CheckMerge(p, aa, nil, opt); s2 != "" && clauseOf(s2) == clauseOf(sig) {
							ma, mb, detail = aa, nil, d2
						} else if s2, d2 := c04CheckMerge(p, nil, ba, opt); s2 != "" && clauseOf(s2) == clauseOf(sig) {
							ma, mb, detail = nil, ba, d2
						}
						c.R.Violation(sigFor(clauseOf(sig)+"@"+opt, ma)+" || "+sigFor("", mb), detail, pairCase{Pkg: p.Name, A: atomNames(ma), B: atomNames(mb), Opt: opt, Mode: "merge"})
						c.R.Outcome("violation")
					} else if detail == "merge-refused" {
						c.R.Outcome("merge-refused")
					} else {
						c.R.Outcome("merge-independent")
					}
				}
			}
		})
	}
}

func replayC04(c *core.Ctx, raw []byte) (bool, string) {
	var pc pairCase
	if err := json.Unmarshal(raw, &pc); err != nil {
		return false, err.Error()
	}
	p := core.PkgByName(pc.Pkg)
	if p == nil {
		return false, "unknown package"
	}
	aa, ok := p.AtomsByName(pc.A)
	ba, ok2 := p.AtomsByName(pc.B)
	if !ok || !ok2 {
		return false, "unknown atoms"
	}
	var sig, d string
	if pc.Mode == "copy" {
		sig, d = c04CheckCopy(p, aa)
	} else {
		sig, d = c04CheckMerge(p, aa, ba, pc.Opt)
	}
	return sig != "", sig + " " + d
}
