package props

import (
	"encoding/json"
	"fmt"
	"google.golang.org/protobuf/proto"
	"path/filepath"
	"reflect"
	"regexp"
	"sort"
	"strings"
	"sync"

	gpb "github.com/openconfig/gnmi/proto/gnmi"
	"github.com/openconfig/goyang/pkg/yang"
	"github.com/openconfig/ygot/ygot"
	"github.com/openconfig/ygot/zzverif/core"
)

// C29 -- path structs resolve to the schema's data-tree paths.
//
// Model checking of the generated path API as a finite transition system: states = path nodes
// (accessor chains from DeviceRoot), transitions = accessor calls. For every path-struct package of
// the corpus (scripts/lib.sh gen_ps: schemas voc, vps(+aug,+inl,+mix) and vpsid under 17 generator
// configurations / package layouts) the whole accessor tree is explored breadth-first BY REFLECTION: every method of
// every path-struct type is called with every key tuple of a per-type key domain and in every
// wildcard / partial-wildcard / builder variant, to full depth. The GoStruct type tree is walked in
// parallel (accessor name = GoStruct field name) and yields the expected path from the `path`
// struct tags; the YANG sources are compiled by the harness itself with goyang as a second,
// generator-independent source.
//
// Oracle, per node: ygot.ResolvePath succeeds without panic; element names = tag path = a node of
// the goyang tree of the right kind; key names = the list's YANG key statement; supplied keys
// render as the reference key string (core.KeyMatches), wildcards as "*" (all-wildcard lists
// without keys under -simplify_wildcard_paths, as documented). Per type: the method set is exactly
// the expected API (one non-wildcard accessor per GoStruct field; every other method is a
// classifiable wildcard / builder variant). Per package: every schema node that OpenConfig
// compression keeps is reached by exactly one non-wildcard accessor chain and no chain lands
// elsewhere.

func init() { core.RegisterProp(&core.Prop{ID: "C29", Run: runC29, Replay: replayC29}) }

// ---- case / violation -------------------------------------------------------------------------

type c29Step struct {
	M    string   `json:"m"`              // accessor method name
	Args []string `json:"args,omitempty"` // canonical value (core.Value) of every supplied key, in parameter order
}

type c29Case struct {
	Pkg    string    `json:"pkg"`
	Chain  []c29Step `json:"chain"`
	Clause string    `json:"clause"`
	Node   string    `json:"node,omitempty"` // schema node (coverage clauses)
}

type c29Viol struct {
	clause, shape, detail string
	cs                    c29Case
}

func (v c29Viol) sig() string { return v.clause + ":" + v.shape }

// ---- expected path ----------------------------------------------------------------------------

type c29Key struct {
	Name string
	Val  core.Value
	Wild bool
}

type c29Elem struct {
	Name   string
	IsList bool
	Omit   bool // all keys wildcarded under -simplify_wildcard_paths: documented to carry no keys
	Keys   []c29Key
}

func c29Names(es []c29Elem) []string {
	out := make([]string, len(es))
	for i, e := range es {
		out[i] = e.Name
	}
	return out
}

func c29WantString(es []c29Elem) string {
	var b strings.Builder
	for _, e := range es {
		b.WriteString("/" + e.Name)
		if e.Omit {
			b.WriteString("[keys omitted]")
			continue
		}
		for _, k := range e.Keys {
			if k.Wild {
				fmt.Fprintf(&b, "[%s=*]", k.Name)
			} else {
				fmt.Fprintf(&b, "[%s=%q]", k.Name, string(k.Val))
			}
		}
	}
	if len(es) == 0 {
		return "/"
	}
	return b.String()
}

func c29GotString(p *gpb.Path) string {
	var b strings.Builder
	for _, e := range p.GetElem() {
		b.WriteString("/" + e.GetName())
		for _, k := range core.SortedKeys(e.GetKey()) {
			fmt.Fprintf(&b, "[%s=%q]", k, e.GetKey()[k])
		}
	}
	if len(p.GetElem()) == 0 {
		return "/"
	}
	return b.String()
}

// ---- accessor model ---------------------------------------------------------------------------

type c29KeyInfo struct {
	Name string       // YANG key leaf name
	Var  string       // camel-cased, uniquified (in key order) name used in accessor names
	GoT  reflect.Type // Go type of the key in the GoStruct (pointer stripped)
	Dom  []core.Value // key domain, simplest first
}

type c29Acc struct {
	Name     string
	Kind     string // leaf | container | list | list-partial | list-any | builder-ctor | builder-key
	Field    string
	Rel      []string
	ChildT   reflect.Type // GoStruct struct type of the child (nil for leaves)
	EntryT   reflect.Type // list entry struct type (lists)
	Keys     []c29KeyInfo
	Supplied []int // indexes into Keys that are parameters of this accessor
	BKey     int   // builder-key: index of the key this setter sets
}

type c29Builder struct {
	keys []c29KeyInfo
	set  []int // indexes already set, in call order
	elem int   // index of the list element in want
}

type c29State struct {
	node      reflect.Value
	gt        reflect.Type // GoStruct struct type; nil for leaf nodes
	kind      string       // root | container | list | leaf
	want      []c29Elem
	chain     []c29Step
	schain    string // schema-level identity of the chain (method names; builder setters as a sorted set)
	wild      bool
	via       string // kind of the accessor that produced the node
	builder   *c29Builder
	failed    bool // ResolvePath already failed here or at an ancestor (errors below are consequences)
	checkOnly bool // builder key setters called out of key order: node is checked, subtree is not explored again
}

type c29X struct {
	c          *core.Ctx
	pp         *core.PathPkg
	sp         *core.Pkg
	ref        *c29Ref
	thorough   bool
	oneValue   bool   // schema-level walk: first domain value only (coverage replay)
	rootShadow string // name of a top-level GoStruct field that equals an exported method of ygot.DeviceRootBase
	reexec     bool   // inside exec: calls are repetitions of transitions already counted

	accCache            map[reflect.Type][]c29Acc
	viols               []c29Viol
	cov                 map[string]map[string]bool // schema node -> set of non-wildcard schema-level chains reaching it
	covCase             map[string]c29Case
	states, transitions int64
	outcomes            map[string]int64
	nontriv             []string
	samples             []interface{}
	keyKinds            map[string]bool
}

// ---- reference schema (goyang, compiled by the harness) ---------------------------------------

type c29Ref struct {
	roots map[string]*yang.Entry
	err   error
}

var (
	c29RefMu    sync.Mutex
	c29RefCache = map[string]*c29Ref{}
)

func c29LoadRef(dir string, files []string) *c29Ref {
	key := dir + "|" + strings.Join(files, ",")
	c29RefMu.Lock()
	defer c29RefMu.Unlock()
	if r := c29RefCache[key]; r != nil {
		return r
	}
	r := &c29Ref{roots: map[string]*yang.Entry{}}
	c29RefCache[key] = r
	defer func() {
		if p := recover(); p != nil {
			r.err = fmt.Errorf("goyang panicked: %v", p)
		}
	}()
	ms := yang.NewModules()
	ms.AddPath(dir)
	for _, f := range files {
		if err := ms.Read(filepath.Join(dir, f)); err != nil {
			r.err = err
			return r
		}
	}
	var listed []*yang.Module
	for _, m := range ms.Modules {
		dup := false
		for _, l := range listed {
			dup = dup || l == m
		}
		if !dup {
			listed = append(listed, m)
		}
	}
	if errs := ms.Process(); len(errs) > 0 {
		r.err = fmt.Errorf("goyang: %v", errs)
		return r
	}
	sort.Slice(listed, func(i, j int) bool { return listed[i].Name < listed[j].Name })
	for _, m := range listed {
		e := yang.ToEntry(m)
		if errs := e.GetErrors(); len(errs) > 0 {
			r.err = fmt.Errorf("goyang: %v", errs)
			return r
		}
		for n, ch := range e.Dir {
			if ch.RPC != nil || ch.Kind == yang.NotificationEntry {
				continue
			}
			if _, dup := r.roots[n]; dup {
				r.err = fmt.Errorf("top-level node %s defined twice", n)
				return r
			}
			r.roots[n] = ch
		}
	}
	return r
}

func (r *c29Ref) find(names []string) *yang.Entry {
	if len(names) == 0 {
		return nil
	}
	e := r.roots[names[0]]
	if e == nil || len(names) == 1 {
		return e
	}
	out, _ := core.FindChild(e, names[1:])
	return out
}

func c29IsConfig(e *yang.Entry) bool {
	for ; e != nil; e = e.Parent {
		switch e.Config {
		case yang.TSTrue:
			return true
		case yang.TSFalse:
			return false
		}
	}
	return true
}

func c29DataChildren(e *yang.Entry) []*yang.Entry {
	var out []*yang.Entry
	for _, n := range core.SortedKeys(e.Dir) {
		ch := e.Dir[n]
		if ch.IsChoice() || ch.IsCase() {
			out = append(out, c29DataChildren(ch)...)
			continue
		}
		out = append(out, ch)
	}
	return out
}

// ---- key domains ------------------------------------------------------------------------------

var c29QuickStrings = []string{"a/b", "a[b]", "k=v", "a\\b", "a b", "é✓", "*", "[k=v]/x", "x]"}
var c29ThoroughStrings = []string{" ", "/", "//", "..", "[", "]", "=", "\\", "\\]", "a\\", ":", "x:y", "日本語", "\"", "'", "a\tb", "a\nb", "true", "5", "-5", "1e3", "LOW", "a*", "**"}

func (x *c29X) keyDomain(goT reflect.Type, le *yang.Entry) []core.Value {
	dom := append([]core.Value{}, x.sp.LeafDomain(goT, le)...)
	add := func(vs ...core.Value) {
		for _, v := range vs {
			dup := false
			for _, d := range dom {
				dup = dup || d == v
			}
			if !dup {
				dom = append(dom, v)
			}
		}
	}
	var yt *yang.YangType
	if le != nil {
		yt = le.Type
		if yt != nil && yt.Kind == yang.Yleafref {
			yt = core.ResolveLeafref(le)
		}
	}
	strs := func(restrict *yang.YangType) {
		cands := c29QuickStrings
		if x.thorough {
			cands = append(append([]string{}, cands...), c29ThoroughStrings...)
		}
		for _, s := range cands {
			if restrict != nil && len(restrict.Length) > 0 {
				n := int64(len([]rune(s)))
				ok := false
				for _, r := range restrict.Length {
					lo, hi := core.NumRat(r.Min), core.NumRat(r.Max)
					if lo.Num().Int64() <= n && n <= hi.Num().Int64() && lo.IsInt() && hi.IsInt() {
						ok = true
					}
				}
				if !ok {
					continue
				}
			}
			if restrict != nil && (len(restrict.Pattern) > 0 || len(restrict.POSIXPattern) > 0) {
				continue
			}
			add(core.Value("str:" + s))
		}
	}
	switch goT.Kind() {
	case reflect.String:
		strs(yt)
	case reflect.Uint64:
		add("u64:9223372036854775807", "u64:9223372036854775808", "u64:18446744073709551615")
	case reflect.Int64:
		if !core.IsEnumType(goT) {
			add("i64:9223372036854775807", "i64:-9223372036854775808")
		}
	case reflect.Float64:
		add("dec:-1.25", "dec:0.001")
	case reflect.Interface:
		// union: widen the member domains with the boundaries (values that would also match an earlier
		// member type lexically are still unambiguous as Go values: the accessor receives a typed value)
		var members []*yang.YangType
		var flat func(t *yang.YangType)
		flat = func(t *yang.YangType) {
			for _, m := range t.Type {
				if m.Kind == yang.Yunion {
					flat(m)
				} else {
					members = append(members, m)
				}
			}
		}
		if yt != nil && yt.Kind == yang.Yunion {
			flat(yt)
		}
		for _, m := range members {
			switch m.Kind {
			case yang.Yint64:
				add("i64:9223372036854775807", "i64:-9223372036854775808")
			case yang.Yuint64:
				add("u64:18446744073709551615")
			case yang.Yuint32:
				add("u32:4294967295")
			case yang.Ystring:
				strs(m)
			case yang.Ybool:
				add("bool:false")
			case yang.Ydecimal64:
				add("dec:0", "dec:1.5")
			case yang.Yenum:
				if m.Enum != nil {
					for _, n := range m.Enum.Names() {
						add(core.Value("enum:" + n))
					}
				}
			case yang.Yidentityref:
				if m.IdentityBase != nil {
					for _, id := range m.IdentityBase.Values {
						add(core.Value("enum:" + id.Name))
					}
				}
			}
		}
	}
	return dom
}

// ---- expected API of a GoStruct type ------------------------------------------------------------

func c29LongestAlt(f reflect.StructField) []string {
	var longest []string
	for _, a := range core.TagPaths(f) {
		if longest == nil || len(a) > len(longest) {
			longest = a
		}
	}
	return longest
}

func c29EntryType(f reflect.StructField) reflect.Type {
	switch core.KindOfField(f.Type) {
	case core.FKeyedList:
		return f.Type.Elem().Elem()
	case core.FOrderedList:
		if m, ok := f.Type.MethodByName("Values"); ok && m.Type.NumOut() == 1 {
			return m.Type.Out(0).Elem().Elem()
		}
	}
	return nil
}

func c29Combos(n int) [][]int { // subsets of 0..n-1 as sorted index lists; first = none, last = all
	cs := [][]int{{}}
	for i := 0; i < n; i++ {
		size := len(cs)
		for j := 0; j < size; j++ {
			cs = append(cs, append(append([]int{}, cs[j]...), i))
		}
	}
	return cs
}

// accessors returns the API expected on the path struct of GoStruct type gt whose data-tree path
// (names only) is base. Reported model problems (a key leaf that cannot be found ...) are violations
// of their own clause.
func (x *c29X) accessors(gt reflect.Type, base []string, st *c29State) []c29Acc {
	if a, ok := x.accCache[gt]; ok {
		return a
	}
	var out []c29Acc
	for i := 0; i < gt.NumField(); i++ {
		f := gt.Field(i)
		rel := c29LongestAlt(f)
		if rel == nil || f.PkgPath != "" {
			continue
		}
		switch core.KindOfField(f.Type) {
		case core.FLeaf, core.FLeafList:
			out = append(out, c29Acc{Name: f.Name, Kind: "leaf", Field: f.Name, Rel: rel})
		case core.FContainer:
			out = append(out, c29Acc{Name: f.Name, Kind: "container", Field: f.Name, Rel: rel, ChildT: f.Type.Elem()})
		case core.FUnkeyedList:
			// documented (ypathgen.generateChildConstructors): no accessor is generated, the subtree is unreachable
			x.outcomes["excluded-unkeyed-list"]++
		case core.FKeyedList, core.FOrderedList:
			et := c29EntryType(f)
			if et == nil {
				x.viol(st, "model", "list-entry-type", fmt.Sprintf("cannot determine the entry type of list field %s.%s", gt.Name(), f.Name))
				continue
			}
			abs := append(append([]string{}, base...), rel...)
			var keyNames []string
			if re := x.ref.find(abs); re != nil && re.IsList() {
				keyNames = strings.Fields(re.Key)
			} else {
				keyNames = x.sp.ListKeyNames(et) // reported as path-not-in-schema when the node is checked
			}
			keys, err := x.keyInfos(et, keyNames)
			if err != nil {
				x.viol(st, "model", "list-keys", fmt.Sprintf("list field %s.%s: %v", gt.Name(), f.Name, err))
				continue
			}
			b := c29Acc{Field: f.Name, Rel: rel, ChildT: et, EntryT: et, Keys: keys}
			if x.pp.Wildcards && x.pp.BuilderThreshold > 0 && len(keys) >= x.pp.BuilderThreshold {
				a := b
				a.Name, a.Kind = f.Name+"Any", "builder-ctor"
				out = append(out, a)
				continue
			}
			combos := c29Combos(len(keys))
			for ci, combo := range combos {
				a := b
				a.Supplied = combo
				switch {
				case ci == len(combos)-1:
					a.Name, a.Kind = f.Name, "list"
				case !x.pp.Wildcards:
					continue
				case ci == 0:
					a.Name, a.Kind = f.Name+"Any", "list-any"
				default:
					a.Name, a.Kind = f.Name, "list-partial"
					in := map[int]bool{}
					for _, k := range combo {
						in[k] = true
					}
					for k := range keys {
						if !in[k] {
							a.Name += "Any" + keys[k].Var
						}
					}
				}
				out = append(out, a)
			}
		}
	}
	x.accCache[gt] = out
	return out
}

func (x *c29X) keyInfos(et reflect.Type, keyNames []string) ([]c29KeyInfo, error) {
	if len(keyNames) == 0 {
		return nil, fmt.Errorf("no key names")
	}
	le := x.sp.EntryFor(et)
	used := map[string]bool{}
	var out []c29KeyInfo
	for _, kn := range keyNames {
		var kf *reflect.StructField
		for pass := 0; pass < 2 && kf == nil; pass++ {
			for i := 0; i < et.NumField(); i++ {
				f := et.Field(i)
				for _, a := range core.TagPaths(f) {
					if (pass == 0 && len(a) == 1 && a[0] == kn) || (pass == 1 && a[len(a)-1] == kn) {
						ff := f
						kf = &ff
					}
				}
			}
		}
		if kf == nil {
			return nil, fmt.Errorf("no field of %s carries key leaf %q", et.Name(), kn)
		}
		v := strings.TrimRight(kf.Name, "_")
		for used[v] {
			v += "_"
		}
		used[v] = true
		gt := kf.Type
		if gt.Kind() == reflect.Ptr {
			gt = gt.Elem()
		}
		var leaf *yang.Entry
		if le != nil {
			leaf, _ = core.FindChild(le, c29LongestAlt(*kf))
		}
		out = append(out, c29KeyInfo{Name: kn, Var: v, GoT: gt, Dom: x.keyDomain(gt, leaf)})
	}
	return out, nil
}

// ---- running the implementation -----------------------------------------------------------------

func (x *c29X) root() *c29State {
	n := x.pp.Root("dev")
	return &c29State{node: reflect.ValueOf(n), gt: x.sp.RootType, kind: "root", via: "root"}
}

func (x *c29X) viol(st *c29State, clause, shape, detail string) {
	cs := c29Case{Pkg: x.pp.Name, Clause: clause}
	if st != nil {
		cs.Chain = st.chain
		detail = fmt.Sprintf("%s [pkg %s (%s) chain %s]", detail, x.pp.Name, x.pp.Config, c29ChainString(st.chain))
	}
	x.viols = append(x.viols, c29Viol{clause: clause, shape: shape, detail: detail, cs: cs})
}

func c29ChainString(ch []c29Step) string {
	if len(ch) == 0 {
		return "DeviceRoot()"
	}
	var b strings.Builder
	b.WriteString("DeviceRoot()")
	for _, s := range ch {
		b.WriteString("." + s.M + "(" + strings.Join(s.Args, ", ") + ")")
	}
	return b.String()
}

// apiOf compares the method set of the node's type with the expected API and returns the expected
// accessors (including the builder key setters of a builder node).
func (x *c29X) apiOf(st *c29State, report bool) []c29Acc {
	if st.kind == "leaf" {
		if report && st.node.NumMethod() != 0 {
			x.viol(st, "unexpected-accessor", "on-leaf", fmt.Sprintf("leaf path struct %s has %d exported methods", st.node.Type(), st.node.NumMethod()))
		}
		return nil
	}
	accs := append([]c29Acc{}, x.accessors(st.gt, c29Names(st.want), st)...)
	if st.builder != nil {
		for i, k := range st.builder.keys {
			accs = append(accs, c29Acc{Name: "With" + k.Var, Kind: "builder-key", Keys: st.builder.keys, Supplied: []int{i}, BKey: i})
		}
	}
	if !report {
		return accs
	}
	byName := map[string][]c29Acc{}
	for _, a := range accs {
		byName[a.Name] = append(byName[a.Name], a)
	}
	for n, as := range byName {
		if len(as) > 1 {
			x.viol(st, "model", "ambiguous-accessor-name", fmt.Sprintf("expected accessor name %s is not unique on %s", n, st.node.Type()))
		}
	}
	t := st.node.Type()
	have := map[string]bool{}
	for i := 0; i < t.NumMethod(); i++ {
		m := t.Method(i)
		have[m.Name] = true
		as := byName[m.Name]
		if len(as) == 0 {
			if st.kind == "root" && (m.Name == "Id" || m.Name == "CustomData" || m.Name == "PutCustomData") {
				continue // promoted from ygot.DeviceRootBase
			}
			x.viol(st, "unexpected-accessor", st.kind, fmt.Sprintf("method %s.%s%s corresponds to no GoStruct field / wildcard variant of %s", t, m.Name, strings.TrimPrefix(st.node.Method(i).Type().String(), "func"), c29TypeName(st.gt)))
			continue
		}
		a := as[0]
		mt := st.node.Method(i).Type()
		ok := mt.NumIn() == len(a.Supplied) && mt.NumOut() == 1 && !mt.IsVariadic()
		for j := 0; ok && j < mt.NumIn(); j++ {
			ok = mt.In(j) == a.Keys[a.Supplied[j]].GoT
		}
		if !ok {
			var exp []string
			for _, k := range a.Supplied {
				exp = append(exp, a.Keys[k].GoT.String())
			}
			x.viol(st, "accessor-signature", a.Kind, fmt.Sprintf("%s.%s has type %s, expected parameters (%s) = the GoStruct key types in key order", t, m.Name, mt, strings.Join(exp, ", ")))
		}
	}
	for _, a := range accs {
		if have[a.Name] {
			continue
		}
		switch a.Kind {
		case "leaf", "container", "list":
			x.viol(st, "accessor-missing", a.Kind, fmt.Sprintf("%s has no accessor %s for GoStruct field %s.%s (path %q)", t, a.Name, c29TypeName(st.gt), a.Field, strings.Join(a.Rel, "/")))
		default:
			// a missing wildcard / builder variant is outside the statement: counted, not judged
			x.outcomes["wildcard-variant-absent:"+a.Kind]++
		}
	}
	return accs
}

func c29TypeName(t reflect.Type) string {
	if t == nil {
		return "(leaf)"
	}
	return t.Name()
}

// call performs one transition. A fresh receiver must be used for builder key setters (they modify
// the receiver in place), which the caller guarantees.
func (x *c29X) call(st *c29State, a c29Acc, vals []core.Value) (child *c29State, err error) {
	defer recoverTo(&err)
	m := st.node.MethodByName(a.Name)
	if !m.IsValid() {
		return nil, fmt.Errorf("no method %s on %s", a.Name, st.node.Type())
	}
	mt := m.Type()
	if mt.NumIn() != len(vals) || len(vals) != len(a.Supplied) {
		return nil, fmt.Errorf("method %s takes %d parameters, %d key values supplied", a.Name, mt.NumIn(), len(vals))
	}
	args := make([]reflect.Value, len(vals))
	step := c29Step{M: a.Name}
	for i, v := range vals {
		var parent reflect.Value
		if a.EntryT != nil {
			parent = reflect.New(a.EntryT)
		} else if a.Kind == "builder-key" && st.gt != nil {
			parent = reflect.New(st.gt)
		}
		gv, err := x.sp.ToGo(v, mt.In(i), parent)
		if err != nil {
			return nil, fmt.Errorf("unbuildable:%v", err)
		}
		args[i] = gv
		step.Args = append(step.Args, string(v))
	}
	out := m.Call(args)
	if !x.reexec {
		x.transitions++
	}
	if len(out) != 1 || out[0].Kind() != reflect.Ptr || out[0].IsNil() {
		return nil, fmt.Errorf("accessor %s returned %v", a.Name, out)
	}
	if _, ok := out[0].Interface().(ygot.PathStruct); !ok {
		return nil, fmt.Errorf("accessor %s returned %s, not a ygot.PathStruct", a.Name, out[0].Type())
	}
	ch := &c29State{node: out[0], chain: append(append([]c29Step{}, st.chain...), step), via: a.Kind, failed: st.failed}
	ch.want = make([]c29Elem, len(st.want), len(st.want)+len(a.Rel))
	for i, e := range st.want {
		ch.want[i] = e
		ch.want[i].Keys = append([]c29Key(nil), e.Keys...)
	}
	switch a.Kind {
	case "builder-key":
		b := st.builder
		nb := &c29Builder{keys: b.keys, elem: b.elem, set: append(append([]int{}, b.set...), a.BKey)}
		ch.builder, ch.gt, ch.kind = nb, st.gt, st.kind
		k := &ch.want[b.elem].Keys[a.BKey]
		k.Wild, k.Val = false, vals[0]
		// schema-level identity: the setters as a sorted set
		names := make([]string, 0, len(nb.set))
		for _, i := range nb.set {
			names = append(names, "With"+b.keys[i].Var)
		}
		sort.Strings(names)
		ch.schain = st.schain[:strings.LastIndex(st.schain, "{")] + "{" + strings.Join(names, ",") + "}"
		ch.checkOnly = st.checkOnly
		for _, i := range b.set {
			if i > a.BKey {
				ch.checkOnly = true
			}
		}
		ch.wild = false
		for _, e := range ch.want {
			for _, k := range e.Keys {
				ch.wild = ch.wild || k.Wild
			}
		}
		return ch, nil
	}
	for _, n := range a.Rel {
		ch.want = append(ch.want, c29Elem{Name: n})
	}
	ch.schain = st.schain + "/" + a.Name
	ch.wild = st.wild
	switch a.Kind {
	case "leaf":
		ch.kind = "leaf"
	case "container":
		ch.kind, ch.gt = "container", a.ChildT
	default:
		ch.kind, ch.gt = "list", a.ChildT
		last := &ch.want[len(ch.want)-1]
		last.IsList = true
		sup := map[int]int{}
		for i, k := range a.Supplied {
			sup[k] = i
		}
		for k, ki := range a.Keys {
			if i, ok := sup[k]; ok {
				last.Keys = append(last.Keys, c29Key{Name: ki.Name, Val: vals[i]})
			} else {
				last.Keys = append(last.Keys, c29Key{Name: ki.Name, Wild: true})
				ch.wild = true
			}
		}
		if a.Kind == "list-any" && x.pp.Simplify {
			last.Omit = true
		}
		if a.Kind == "builder-ctor" {
			ch.builder = &c29Builder{keys: a.Keys, elem: len(ch.want) - 1}
			ch.schain += "{}"
		}
	}
	return ch, nil
}

// exec re-runs a chain from a fresh root (used for builder setters, which mutate their receiver, and by replay).
func (x *c29X) exec(chain []c29Step) (*c29State, error) {
	x.reexec = true
	defer func() { x.reexec = false }()
	st := x.root()
	for _, s := range chain {
		var acc *c29Acc
		for _, a := range x.apiOf(st, false) {
			if a.Name == s.M {
				aa := a
				acc = &aa
			}
		}
		if acc == nil {
			return nil, fmt.Errorf("no expected accessor %s at %s", s.M, c29ChainString(st.chain))
		}
		vals := make([]core.Value, len(s.Args))
		for i, a := range s.Args {
			vals[i] = core.Value(a)
		}
		nx, err := x.call(st, *acc, vals)
		if err != nil {
			return nil, err
		}
		st = nx
	}
	return st, nil
}

// ---- node oracle --------------------------------------------------------------------------------

func (x *c29X) lastKeyShape(st *c29State) string {
	for i := len(st.want) - 1; i >= 0; i-- {
		if st.want[i].IsList {
			var ks []string
			for _, k := range st.want[i].Keys {
				if k.Wild {
					ks = append(ks, "*")
				} else {
					ks = append(ks, k.Val.Kind())
				}
			}
			return strings.Join(ks, ",")
		}
	}
	return "nokeys"
}

func (x *c29X) check(st *c29State) {
	x.states++
	var (
		p    *gpb.Path
		errs []error
		perr error
	)
	func() {
		defer recoverTo(&perr)
		p, _, errs = ygot.ResolvePath(st.node.Interface().(ygot.PathStruct))
	}()
	nodeShape := st.kind + "-via-" + st.via
	if perr != nil {
		x.recordCoverage(st, c29Names(st.want))
		x.viol(st, "resolve-panic", nodeShape+"["+x.lastKeyShape(st)+"]", fmt.Sprintf("ygot.ResolvePath panicked: %v; expected %s", perr, c29WantString(st.want)))
		return
	}
	if len(errs) > 0 {
		x.recordCoverage(st, c29Names(st.want))
		if st.failed {
			x.outcomes["resolve-error-below-a-reported-one"]++
			return
		}
		st.failed = true
		nodeShape = st.kind
		msg := c29HexRE.ReplaceAllString(fmt.Sprint(errs), "0x..")
		if x.rootShadow != "" && strings.Contains(msg, "unexpected root") {
			// the schema has a top-level node whose accessor name equals an exported method of ygot.DeviceRootBase:
			// its own signature, so that this finding cannot hide resolve errors of any other origin
			x.viol(st, "resolve-root-shadowed", st.kind, fmt.Sprintf("top-level accessor %s shadows ygot.DeviceRootBase.%s, ygot.ResolvePath returned %s; expected %s", x.rootShadow, x.rootShadow, msg, c29WantString(st.want)))
			return
		}
		x.viol(st, "resolve-error", nodeShape+"["+x.lastKeyShape(st)+"]", fmt.Sprintf("ygot.ResolvePath returned %s; expected %s", msg, c29WantString(st.want)))
		return
	}
	if p == nil {
		x.viol(st, "resolve-error", nodeShape+":nil-path", "ygot.ResolvePath returned a nil path without error")
		return
	}
	if p.GetTarget() != "dev" {
		x.outcomes["target-differs"]++
	}
	got := p.GetElem()
	// 1. element names = tag path
	namesOK := len(got) == len(st.want)
	for i := 0; namesOK && i < len(got); i++ {
		namesOK = got[i].GetName() == st.want[i].Name
	}
	if !namesOK {
		x.viol(st, "path-names", nodeShape, fmt.Sprintf("resolved %s, the GoStruct path tags give %s", c29GotString(p), c29WantString(st.want)))
	} else {
		// 2. keys
		for i, e := range st.want {
			gk := got[i].GetKey()
			switch {
			case !e.IsList:
				if len(gk) != 0 {
					x.viol(st, "keys-on-non-list", nodeShape, fmt.Sprintf("element %q of %s carries keys", e.Name, c29GotString(p)))
				}
			case e.Omit:
				if len(gk) != 0 {
					x.viol(st, "keys-not-simplified", nodeShape, fmt.Sprintf("-simplify_wildcard_paths: all-wildcard element %q of %s carries keys", e.Name, c29GotString(p)))
				}
			default:
				if len(gk) != len(e.Keys) {
					x.viol(st, "key-names", nodeShape+"["+x.lastKeyShape(st)+"]", fmt.Sprintf("element %q: resolved %s, expected %s", e.Name, c29GotString(p), c29WantString(st.want)))
					continue
				}
				for _, k := range e.Keys {
					s, ok := gk[k.Name]
					switch {
					case !ok:
						x.viol(st, "key-names", nodeShape+"["+x.lastKeyShape(st)+"]", fmt.Sprintf("element %q has no key %q: resolved %s, expected %s", e.Name, k.Name, c29GotString(p), c29WantString(st.want)))
					case k.Wild && s != "*":
						x.viol(st, "wildcard-key", nodeShape, fmt.Sprintf("key %q left as wildcard resolves to %q: %s, expected %s", k.Name, s, c29GotString(p), c29WantString(st.want)))
					case !k.Wild && !core.KeyMatches(k.Val, s):
						x.viol(st, "key-value", fmt.Sprintf("%s@%dkey%s", valueKind(k.Val), len(e.Keys), c29Via(st)), fmt.Sprintf("key %q supplied as %q resolves to %q (reference %q): %s", k.Name, string(k.Val), s, core.RefKeyString(k.Val), c29GotString(p)))
					}
				}
			}
		}
	}
	// 3. the tag path against the goyang compile of the YANG sources
	re := x.ref.find(c29Names(st.want))
	switch {
	case len(st.want) == 0:
	case re == nil:
		x.viol(st, "path-not-in-schema", nodeShape, fmt.Sprintf("tag path %s is no data-tree node of the YANG schema", c29WantString(st.want)))
	default:
		kind := "container"
		switch {
		case re.IsLeaf() || re.IsLeafList():
			kind = "leaf"
		case re.IsList():
			kind = "list"
		}
		if kind != st.kind {
			x.viol(st, "node-kind", st.kind+"-vs-"+kind, fmt.Sprintf("accessor chain yields a %s path struct, schema node %s is a %s", st.kind, c29WantString(st.want), kind))
		}
		for i, e := range st.want {
			le := x.ref.find(c29Names(st.want[:i+1]))
			if le == nil {
				continue
			}
			var kn []string
			for _, k := range e.Keys {
				kn = append(kn, k.Name)
			}
			if e.IsList != (le.IsList() && le.Key != "") || (e.IsList && strings.Join(kn, " ") != strings.Join(strings.Fields(le.Key), " ")) {
				x.viol(st, "key-names-vs-schema", nodeShape, fmt.Sprintf("element %q: path struct keys %v, YANG key statement %q", e.Name, kn, le.Key))
			}
		}
	}
	// coverage bookkeeping, by the node the tags name (a resolved path that differs is a path-names violation above)
	x.recordCoverage(st, c29Names(st.want))
	// evidence
	cls := "ok-" + st.kind
	hasKeys := false
	for _, e := range st.want {
		for _, k := range e.Keys {
			hasKeys = true
			if !k.Wild {
				x.keyKinds[valueKind(k.Val)] = true
			}
		}
	}
	switch {
	case st.builder != nil:
		cls += "-builder"
	case st.via == "list-any" && x.pp.Simplify:
		cls += "-simplified"
	case st.wild:
		cls += "-wildcard"
	case hasKeys:
		cls += "-keyed"
	}
	x.outcomes[cls]++
	if hasKeys && len(x.nontriv) < 200000 {
		x.nontriv = append(x.nontriv, x.pp.Name+c29ChainString(st.chain))
	}
	if hasKeys && !st.wild && st.kind == "leaf" && len(st.want) >= 6 && len(x.samples) < 1 {
		x.samples = append(x.samples, map[string]interface{}{"pkg": x.pp.Name, "chain": c29ChainString(st.chain), "resolved": c29GotString(p), "expected": c29WantString(st.want)})
	}
}

var c29HexRE = regexp.MustCompile(`0x[0-9a-f]+`)

func (x *c29X) recordCoverage(st *c29State, names []string) {
	if st.wild || len(names) == 0 {
		return
	}
	n := "/" + strings.Join(names, "/")
	if x.cov[n] == nil {
		x.cov[n] = map[string]bool{}
		x.covCase[n] = c29Case{Pkg: x.pp.Name, Chain: st.chain, Node: n}
	}
	x.cov[n][st.schain] = true
}

func c29Via(st *c29State) string {
	if st.builder != nil {
		return "-builder"
	}
	return ""
}

// ---- exploration --------------------------------------------------------------------------------

func (x *c29X) tuples(a c29Acc) [][]core.Value {
	out := [][]core.Value{{}}
	for _, k := range a.Supplied {
		dom := a.Keys[k].Dom
		if x.oneValue && len(dom) > 1 {
			dom = dom[:1]
		}
		var nx [][]core.Value
		for _, t := range out {
			for _, v := range dom {
				nx = append(nx, append(append([]core.Value{}, t...), v))
			}
		}
		out = nx
	}
	return out
}

func (x *c29X) explore() {
	queue := []*c29State{x.root()}
	for len(queue) > 0 {
		if x.c != nil && x.states%4096 == 0 && x.c.Expired() {
			return
		}
		st := queue[0]
		queue = queue[1:]
		x.check(st)
		accs := x.apiOf(st, true)
		for _, a := range accs {
			if st.checkOnly && a.Kind != "builder-key" {
				continue
			}
			if a.Kind == "builder-key" {
				done := false
				for _, i := range st.builder.set {
					done = done || i == a.BKey
				}
				if done {
					x.outcomes["excluded-builder-key-set-twice"]++
					continue // setting a key twice: which value "appears" is not decided by the statement
				}
			}
			if len(a.Supplied) > 0 && len(x.tuples(a)) == 0 {
				x.viol(st, "model", "empty-key-domain", fmt.Sprintf("no key value could be enumerated for accessor %s", a.Name))
			}
			for _, vals := range x.tuples(a) {
				from := st
				if a.Kind == "builder-key" {
					fresh, err := x.exec(st.chain)
					if err != nil {
						x.viol(st, "accessor-call", "re-exec", fmt.Sprintf("re-executing the chain failed: %v", err))
						continue
					}
					fresh.checkOnly, fresh.failed = st.checkOnly, st.failed
					from = fresh
				}
				ch, err := x.call(from, a, vals)
				if err == nil && a.Kind == "builder-key" {
					// history oracle: resolving the builder node (an observation) BEFORE the key setter
					// is called must not change what the node resolves to afterwards.
					if alt, e2 := x.exec(st.chain); e2 == nil {
						func() {
							defer func() { recover() }()
							ygot.ResolvePath(alt.node.Interface().(ygot.PathStruct))
							x.reexec = true
							ch2, e3 := x.call(alt, a, vals)
							x.reexec = false
							if e3 != nil {
								return
							}
							p1, _, _ := ygot.ResolvePath(ch.node.Interface().(ygot.PathStruct))
							p2, _, _ := ygot.ResolvePath(ch2.node.Interface().(ygot.PathStruct))
							if !proto.Equal(p1, p2) {
								x.viol(st, "resolve-history-dependent", a.Kind, fmt.Sprintf("%s(%v): resolving the node before the key setter changes the result: %v vs %v", a.Name, vals, p1, p2))
							}
						}()
						x.reexec = false
					}
				}
				if err != nil {
					if strings.HasPrefix(err.Error(), "unbuildable:") {
						x.outcomes["domain-value-not-buildable"]++
						continue
					}
					x.viol(st, "accessor-call", a.Kind, fmt.Sprintf("calling %s(%v): %v", a.Name, vals, err))
					continue
				}
				queue = append(queue, ch)
			}
		}
	}
}

// coverage: every schema node kept by OpenConfig compression is reached by exactly one non-wildcard
// schema-level chain, and no chain lands on anything else. The set of kept nodes is computed from
// the goyang tree with the documented compression rules (genutil.FindAllChildren doc comment,
// ypathgen: keyless lists are skipped), not from the generated code.
func (x *c29X) coverage() {
	required := map[string]bool{}
	classes := map[string]int{}
	var walk func(e *yang.Entry, path []string, underUnkeyed, underMulti bool)
	walk = func(e *yang.Entry, path []string, underUnkeyed, underMulti bool) {
		n := "/" + strings.Join(path, "/")
		class := "required"
		parent := e.Parent
		for parent != nil && (parent.IsChoice() || parent.IsCase()) {
			parent = parent.Parent
		}
		prio, deprio := "config", "state"
		if x.pp.OpState {
			prio, deprio = "state", "config"
		}
		switch {
		case underUnkeyed || (e.IsList() && e.Key == ""):
			class = "excluded-unkeyed-list"
			underUnkeyed = true
		case x.pp.ExcludeState && !c29IsConfig(e):
			class = "excluded-state"
		case e.IsContainer() && (e.Name == "config" || e.Name == "state"):
			class = "elided-config-state-container"
		case e.IsContainer() && len(e.Dir) == 1 && c29OnlyChild(e).IsList():
			class = "elided-surrounding-container"
		case e.IsLeaf() && parent != nil && parent.IsList() && e.Type != nil && e.Type.Kind == yang.Yleafref && c29IsKey(parent, e.Name):
			class = "key-leafref-merged-into-target"
		case parent != nil && parent.IsContainer() && parent.Name == deprio && parent.Parent != nil && parent.Parent.Dir[prio] != nil && c29HasDataChild(parent.Parent.Dir[prio], e.Name):
			class = "shadowed-by-" + prio
		}
		classes[class]++
		if class == "required" {
			required[n] = true
			switch chains := x.cov[n]; {
			case len(chains) == 0:
				x.viols = append(x.viols, c29Viol{clause: "node-unreached", shape: c29NodeShape(e), detail: fmt.Sprintf("schema node %s (%s) is reached by no non-wildcard accessor chain [pkg %s (%s)]", n, c29NodeShape(e), x.pp.Name, x.pp.Config),
					cs: c29Case{Pkg: x.pp.Name, Clause: "node-unreached", Node: n}})
			case len(chains) > 1 && underMulti:
				x.outcomes["below-multiply-reached-node"]++ // consequence of the ancestor's finding
			case len(chains) > 1:
				underMulti = true
				cs := x.covCase[n]
				cs.Clause = "node-multiply-reached"
				x.viols = append(x.viols, c29Viol{clause: "node-multiply-reached", shape: n, detail: fmt.Sprintf("schema node %s is reached by %d non-wildcard accessor chains: %v [pkg %s (%s)]", n, len(chains), core.SortedKeys(chains), x.pp.Name, x.pp.Config), cs: cs})
			}
		}
		if e.IsDir() {
			for _, ch := range c29DataChildren(e) {
				walk(ch, append(append([]string{}, path...), ch.Name), underUnkeyed, underMulti)
			}
		}
	}
	for _, n := range core.SortedKeys(x.ref.roots) {
		walk(x.ref.roots[n], []string{n}, false, false)
	}
	for _, n := range core.SortedKeys(x.cov) {
		if !required[n] {
			cs := x.covCase[n]
			cs.Clause = "reached-elided-node"
			x.viols = append(x.viols, c29Viol{clause: "reached-elided-node", shape: n, detail: fmt.Sprintf("a non-wildcard accessor chain resolves to %s, which OpenConfig compression does not keep as a node (or which is no schema node) [pkg %s (%s) chain %s]", n, x.pp.Name, x.pp.Config, c29ChainString(cs.Chain)), cs: cs})
		}
	}
	for k, v := range classes {
		x.outcomes["schema-node-"+k] += int64(v)
	}
}

func c29OnlyChild(e *yang.Entry) *yang.Entry {
	for _, c := range e.Dir {
		return c
	}
	return nil
}

func c29IsKey(list *yang.Entry, name string) bool {
	for _, k := range strings.Fields(list.Key) {
		if k == name {
			return true
		}
	}
	return false
}

func c29HasDataChild(e *yang.Entry, name string) bool {
	for _, c := range c29DataChildren(e) {
		if c.Name == name {
			return true
		}
	}
	return false
}

func c29NodeShape(e *yang.Entry) string {
	switch {
	case e.IsLeafList():
		return "leaf-list"
	case e.IsLeaf():
		return "leaf"
	case e.IsList():
		return "list"
	}
	return "container"
}

// ---- driver -------------------------------------------------------------------------------------

func newC29X(c *core.Ctx, pp *core.PathPkg) (*c29X, error) {
	sp := pp.Structs()
	if sp == nil {
		return nil, fmt.Errorf("path-struct package %s: GoStruct package %s is not registered", pp.Name, pp.StructPkg)
	}
	sp.Schema()
	ref := c29LoadRef(filepath.Join(c.VerifDir, "schemas"), pp.YANGFiles)
	if ref.err != nil {
		return nil, fmt.Errorf("path-struct package %s: reference compile of %v failed: %v", pp.Name, pp.YANGFiles, ref.err)
	}
	x := &c29X{c: c, pp: pp, sp: sp, ref: ref, thorough: c.Thorough(), accCache: map[reflect.Type][]c29Acc{},
		cov: map[string]map[string]bool{}, covCase: map[string]c29Case{}, outcomes: map[string]int64{}, keyKinds: map[string]bool{}}
	base := reflect.TypeOf(&ygot.DeviceRootBase{})
	for i := 0; i < base.NumMethod(); i++ {
		if _, ok := sp.RootType.FieldByName(base.Method(i).Name); ok && x.rootShadow == "" {
			x.rootShadow = base.Method(i).Name
		}
	}
	return x, nil
}

func runC29(c *core.Ctx) {
	c.Level = "model_checking"
	c.Rule = "per generated path-struct package (schemas voc, vps+vps-aug+vps-inl+vps-mix, vps-id; 17 generator configurations / package layouts): BFS by reflection over the whole accessor tree from DeviceRoot - states = path nodes, transitions = accessor calls; every accessor (GoStruct field name; list accessors in every wildcard / partial-wildcard / builder variant) is called with every tuple of the per-type key domains (integers incl. int64 min / uint64 max and MaxInt64+1, strings with / [ ] = \\ space non-ASCII and '*', every enum / identity member, every union member type, decimals, booleans); full depth (the schema tree). Builder key setters: every subset in every order, each key set at most once. Non-trivial: nodes whose path carries at least one list key."
	pps := core.PathPackages()
	if len(pps) == 0 {
		c.R.Violation("infrastructure:no-path-packages", "no path-struct package is registered (scripts/lib.sh gen_ps did not run: VERIF_PS / ID)", c29Case{Clause: "infrastructure"})
		return
	}
	xs := make([]*c29X, len(pps))
	errs := make([]error, len(pps))
	core.ParallelFor(len(pps), func(i int) {
		x, err := newC29X(c, pps[i])
		if err != nil {
			errs[i] = err
			return
		}
		xs[i] = x
		x.explore()
		x.coverage()
	})
	keyKinds := map[string]bool{}
	for i, x := range xs { // deterministic order of reporting
		if errs[i] != nil {
			c.R.Violation("infrastructure:"+pps[i].Name, errs[i].Error(), c29Case{Pkg: pps[i].Name, Clause: "infrastructure"})
			continue
		}
		c.R.Add("states", x.states)
		c.R.Add("transitions", x.transitions)
		c.R.Add("evaluations", x.states)
		c.R.Add("traces_validated_against_impl", x.states)
		for _, v := range x.viols {
			c.R.Violation(v.sig(), v.detail, v.cs)
		}
		for _, k := range core.SortedKeys(x.outcomes) {
			for n := int64(0); n < x.outcomes[k] && n < 1; n++ {
				c.R.Outcome(k)
			}
			c.R.Add("outcome:"+k, x.outcomes[k])
		}
		for _, k := range x.nontriv {
			c.R.NonTrivial(k)
		}
		for _, s := range x.samples {
			c.R.Sample(s)
		}
		for k := range x.keyKinds {
			keyKinds[k] = true
		}
		req := 0
		for _, chains := range x.cov {
			if len(chains) == 1 {
				req++
			}
		}
		c.R.Note("space_"+x.pp.Name, map[string]interface{}{"config": x.pp.Config, "structs": x.pp.StructPkg, "layout": x.pp.Layout, "yang": x.pp.YANGFiles,
			"states": x.states, "transitions": x.transitions, "gostruct_types": len(x.accCache), "schema_nodes_reached_once": req, "violations": len(x.viols)})
	}
	c.R.Note("key_kinds_supplied", core.SortedKeys(keyKinds))
	c.R.Assume("trusted base: Go reflect, goyang (parser / ToEntry) as the source of schema facts, core.KeyMatches as the reference key formatter, the GoStruct `path` tags as the statement's own reference for the node path")
	c.R.Assume("documented behaviour not judged: key-less lists have no accessor; all-wildcard list nodes carry no keys under -simplify_wildcard_paths; leaves with two tag paths (config/name|name) resolve to the longest one; unset (0) enum keys, a builder key set twice and absent wildcard variants are counted only")
}

func replayC29(c *core.Ctx, raw []byte) (bool, string) {
	var cs c29Case
	if err := json.Unmarshal(raw, &cs); err != nil {
		return false, err.Error()
	}
	pp := core.PathPkgByName(cs.Pkg)
	if pp == nil {
		return cs.Clause == "infrastructure", "unknown path-struct package " + cs.Pkg
	}
	x, err := newC29X(c, pp)
	if err != nil {
		return cs.Clause == "infrastructure", err.Error()
	}
	switch cs.Clause {
	case "node-unreached", "node-multiply-reached", "reached-elided-node":
		x.oneValue = true // schema-level walk: the clause does not depend on key values
		x.explore()
		x.viols = nil
		x.coverage()
		for _, v := range x.viols {
			if v.clause == cs.Clause && (v.cs.Node == cs.Node) {
				return true, v.detail
			}
		}
		return false, "clause " + cs.Clause + " does not fail for " + cs.Node
	}
	st, err := x.exec(cs.Chain)
	if err != nil {
		return cs.Clause == "accessor-call", "chain cannot be executed: " + err.Error()
	}
	x.viols = nil
	x.check(st)
	x.apiOf(st, true)
	for _, v := range x.viols {
		if v.clause == cs.Clause {
			return true, v.detail
		}
	}
	return false, "clause " + cs.Clause + " does not fail"
}
