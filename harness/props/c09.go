package props

// C09 — gNMI path relations agree with path-set semantics.
//
// Bounded exhaustive enumeration of ordered pairs of gNMI paths over a small alphabet; the oracle is
// the explicit set denotation of core/refpathset.go (a path = the set of concrete paths of a finite
// universe it covers). Every pair is evaluated several times with the key maps built in every
// insertion order, because util.ComparePaths ranges over Go maps: differing answers for one pair
// are a violation of their own clause.

import (
	"encoding/json"
	"fmt"
	"sort"
	"strings"
	"sync"
	"sync/atomic"
	"time"

	gpb "github.com/openconfig/gnmi/proto/gnmi"
	"github.com/openconfig/ygot/util"
	"github.com/openconfig/ygot/zzverif/core"
)

func init() { core.RegisterProp(&core.Prop{ID: "C09", Run: runC09, Replay: replayC09}) }

// ---------------------------------------------------------------------------------------------
// alphabet

const (
	c09Absent byte = iota
	c09Star
	c09V1
	c09V2
)

var (
	c09KindVal  = []string{"", "*", "v1", "v2"}
	c09KindChar = []byte{'-', '*', 'v', 'v'}
	c09Origins  = []string{"", "openconfig", "other"}
	c09Targets  = []string{"", "t1", "t2"}
)

func c09OriginsEquivalent(oa, ob int) bool {
	return core.PSNormOrigin(c09Origins[oa]) == core.PSNormOrigin(c09Origins[ob])
}

// c09Space is one enumerated family of paths with its precomputed tables.
type c09Space struct {
	Name    string
	Keys    []string // key names of the list "x" ("y" is a container)
	MaxLen  int      // longest enumerated path
	Star    bool     // also the element named "*" (only judged as a query of PathMatchesQuery)
	UVals   []string // values every key ranges over in the universe
	Origins []int    // origins crossed in the pair sweep
	xKinds  [][]byte // admissible key-kind vectors of x, simplest first

	U         *core.PSUniverse
	nE        int
	elemName  []string
	elemKinds [][]byte // nil for y and "*"
	elemCanon []string // denotational identity of the element ('*' == absent)
	kindsIdx  map[string]int
	starElem  int // -1 when absent
	off       []int
	pow       []int
	paths     [][]int
	bits      [][]uint64
	hasStar   []bool
	concrete  []bool // no wildcard at all: every x element has every key bound to a value
	perms     [][]int
	nVar      int
	elemProto [][]*gpb.PathElem // [variant][elem]
	protos    [3][][]*gpb.Path  // [origin][variant][path]
}

func c09AllKinds(nKeys int, alphabet []byte) [][]byte {
	out := [][]byte{{}}
	for k := 0; k < nKeys; k++ {
		var nxt [][]byte
		for _, p := range out {
			for _, a := range alphabet {
				nxt = append(nxt, append(append([]byte{}, p...), a))
			}
		}
		out = nxt
	}
	return out
}

func c09SortKinds(ks [][]byte) {
	set := func(k []byte) int {
		n := 0
		for _, b := range k {
			if b != c09Absent {
				n++
			}
		}
		return n
	}
	sort.SliceStable(ks, func(i, j int) bool {
		if a, b := set(ks[i]), set(ks[j]); a != b {
			return a < b
		}
		return string(ks[i]) < string(ks[j])
	})
}

func c09SpaceDef(name string) *c09Space {
	all := []byte{c09Absent, c09Star, c09V1, c09V2}
	switch name {
	case "A": // three keys (needed to expose order dependence), up to two elements
		return &c09Space{Name: "A", Keys: []string{"k1", "k2", "k3"}, MaxLen: 2, Star: true, UVals: []string{"v1", "v2", "v3"}, Origins: []int{0, 1, 2}, xKinds: c09AllKinds(3, all)}
	case "B": // two keys, up to three elements
		return &c09Space{Name: "B", Keys: []string{"k1", "k2"}, MaxLen: 3, Star: true, UVals: []string{"v1", "v2", "v3"}, Origins: []int{0, 1, 2}, xKinds: c09AllKinds(2, all)}
	case "C": // three keys, each absent, v1 or v2 (closed under dropping keys), up to three elements, no origins
		return &c09Space{Name: "C", Keys: []string{"k1", "k2", "k3"}, MaxLen: 3, UVals: []string{"v1", "v2"}, Origins: []int{0}, xKinds: c09AllKinds(3, []byte{c09Absent, c09V1, c09V2})}
	case "F": // one key, up to two elements: triples for FindPathElemPrefix, nil elements
		return &c09Space{Name: "F", Keys: []string{"k1"}, MaxLen: 2, UVals: []string{"v1", "v2", "v3"}, Origins: []int{0}, xKinds: c09AllKinds(1, all)}
	}
	return nil
}

var (
	c09SpacesMu sync.Mutex
	c09Spaces   = map[string]*c09Space{}
)

func c09GetSpace(name string) *c09Space {
	c09SpacesMu.Lock()
	defer c09SpacesMu.Unlock()
	if sp := c09Spaces[name]; sp != nil {
		return sp
	}
	sp := c09SpaceDef(name)
	if sp == nil {
		return nil
	}
	sp.build()
	c09Spaces[name] = sp
	return sp
}

func c09Perms(n int) [][]int {
	if n == 0 {
		return [][]int{{}}
	}
	var out [][]int
	var rec func(cur []int, used []bool)
	rec = func(cur []int, used []bool) {
		if len(cur) == n {
			out = append(out, append([]int{}, cur...))
			return
		}
		for i := 0; i < n; i++ {
			if !used[i] {
				used[i] = true
				rec(append(cur, i), used)
				used[i] = false
			}
		}
	}
	rec(nil, make([]bool, n))
	return out
}

func (sp *c09Space) build() {
	c09SortKinds(sp.xKinds)
	sp.U = core.NewPSUniverse([]string{"y", "x"}, map[string][]string{"x": sp.Keys}, sp.UVals, sp.MaxLen+1)
	sp.kindsIdx = map[string]int{}
	sp.elemName = []string{"y"}
	sp.elemKinds = [][]byte{nil}
	sp.elemCanon = []string{"y"}
	for _, k := range sp.xKinds {
		sp.kindsIdx[string(k)] = len(sp.elemName)
		sp.elemName = append(sp.elemName, "x")
		sp.elemKinds = append(sp.elemKinds, k)
		cn := make([]byte, len(k))
		for i, b := range k {
			if b == c09Star {
				b = c09Absent
			}
			cn[i] = '0' + b
		}
		sp.elemCanon = append(sp.elemCanon, "x"+string(cn))
	}
	sp.starElem = -1
	if sp.Star {
		sp.starElem = len(sp.elemName)
		sp.elemName = append(sp.elemName, "*")
		sp.elemKinds = append(sp.elemKinds, nil)
		sp.elemCanon = append(sp.elemCanon, "*")
	}
	sp.nE = len(sp.elemName)
	sp.pow = []int{1}
	sp.off = []int{0}
	for l := 1; l <= sp.MaxLen+1; l++ {
		sp.pow = append(sp.pow, sp.pow[l-1]*sp.nE)
		sp.off = append(sp.off, sp.off[l-1]+sp.pow[l-1])
	}
	level := [][]int{{}}
	sp.paths = append(sp.paths, []int{})
	for l := 1; l <= sp.MaxLen; l++ {
		var nxt [][]int
		for _, p := range level {
			for e := 0; e < sp.nE; e++ {
				nxt = append(nxt, append(append(make([]int, 0, l), p...), e))
			}
		}
		sp.paths = append(sp.paths, nxt...)
		level = nxt
	}
	n := len(sp.paths)
	sp.bits = make([][]uint64, n)
	sp.hasStar = make([]bool, n)
	sp.concrete = make([]bool, n)
	core.ParallelFor(n, func(i int) {
		sp.bits[i] = sp.U.Denote(sp.psPath(sp.paths[i], 0, 0)).Bits
		conc := true
		for _, e := range sp.paths[i] {
			if e == sp.starElem {
				sp.hasStar[i] = true
				conc = false
			}
			for _, k := range sp.elemKinds[e] {
				if k == c09Absent || k == c09Star {
					conc = false
				}
			}
		}
		sp.concrete[i] = conc
	})
	sp.perms = c09Perms(len(sp.Keys))
	sp.nVar = len(sp.perms)
	sp.elemProto = make([][]*gpb.PathElem, sp.nVar)
	for v := range sp.perms {
		sp.elemProto[v] = make([]*gpb.PathElem, sp.nE)
		for e := 0; e < sp.nE; e++ {
			sp.elemProto[v][e] = sp.mkElem(e, v)
		}
	}
	for o := range c09Origins {
		sp.protos[o] = make([][]*gpb.Path, sp.nVar)
		for v := 0; v < sp.nVar; v++ {
			ps := make([]*gpb.Path, n)
			for i, p := range sp.paths {
				ps[i] = sp.mkPath(p, o, 0, v, 0)
			}
			sp.protos[o][v] = ps
		}
	}
}

// mkElem builds a fresh PathElem whose key map is filled in the insertion order of permutation v
// (for small Go maps the iteration order is a random rotation of the insertion order, so building
// every insertion order is what makes every visiting order reachable).
func (sp *c09Space) mkElem(e, v int) *gpb.PathElem {
	pe := &gpb.PathElem{Name: sp.elemName[e]}
	ks := sp.elemKinds[e]
	for _, ki := range sp.perms[v] {
		if ki >= len(ks) || ks[ki] == c09Absent {
			continue
		}
		if pe.Key == nil {
			pe.Key = map[string]string{}
		}
		pe.Key[sp.Keys[ki]] = c09KindVal[ks[ki]]
	}
	return pe
}

func (sp *c09Space) mkPath(elems []int, o, t, v, spare int) *gpb.Path {
	p := &gpb.Path{Origin: c09Origins[o], Target: c09Targets[t]}
	if len(elems) > 0 || spare > 0 {
		p.Elem = make([]*gpb.PathElem, 0, len(elems)+spare)
	}
	for _, e := range elems {
		p.Elem = append(p.Elem, sp.elemProto[v][e])
	}
	return p
}

func (sp *c09Space) index(elems []int) int {
	l := len(elems)
	if l > sp.MaxLen {
		return -1
	}
	idx := 0
	for _, e := range elems {
		if e < 0 || e >= sp.nE {
			return -1
		}
		idx = idx*sp.nE + e
	}
	return sp.off[l] + idx
}

func (sp *c09Space) psElem(e int) core.PSElem {
	pe := core.PSElem{Name: sp.elemName[e]}
	for i, k := range sp.elemKinds[e] {
		if k != c09Absent {
			if pe.Keys == nil {
				pe.Keys = map[string]string{}
			}
			pe.Keys[sp.Keys[i]] = c09KindVal[k]
		}
	}
	return pe
}

func (sp *c09Space) psPath(elems []int, o, t int) core.PSPath {
	p := core.PSPath{Origin: c09Origins[o], Target: c09Targets[t], Elems: []core.PSElem{}}
	for _, e := range elems {
		p.Elems = append(p.Elems, sp.psElem(e))
	}
	return p
}

// elemIndexOf maps a name and key map back to the element index (-1: outside the alphabet).
func (sp *c09Space) elemIndexOf(name string, keys map[string]string) int {
	switch name {
	case "y":
		if len(keys) == 0 {
			return 0
		}
		return -1
	case "*":
		if len(keys) == 0 {
			return sp.starElem
		}
		return -1
	case "x":
		ks := make([]byte, len(sp.Keys))
		seen := 0
		for i, kn := range sp.Keys {
			v, ok := keys[kn]
			if !ok {
				continue
			}
			seen++
			found := false
			for kind := 1; kind < len(c09KindVal); kind++ {
				if c09KindVal[kind] == v {
					ks[i] = byte(kind)
					found = true
				}
			}
			if !found {
				return -1
			}
		}
		if seen != len(keys) {
			return -1
		}
		if i, ok := sp.kindsIdx[string(ks)]; ok {
			return i
		}
	}
	return -1
}

// decode maps the elements of a returned path back to element indices (nil, false when an element
// is not in the alphabet or nil).
func (sp *c09Space) decode(p *gpb.Path) ([]int, bool) {
	out := make([]int, 0, len(p.GetElem()))
	for _, e := range p.GetElem() {
		if e == nil {
			return nil, false
		}
		i := sp.elemIndexOf(e.Name, e.Key)
		if i < 0 {
			return nil, false
		}
		out = append(out, i)
	}
	return out, true
}

func c09IntsEqual(a, b []int) bool {
	if len(a) != len(b) {
		return false
	}
	for i := range a {
		if a[i] != b[i] {
			return false
		}
	}
	return true
}

func c09IsPrefix(pre, p []int) bool {
	return len(pre) <= len(p) && c09IntsEqual(pre, p[:len(pre)])
}

// rel is the reference relation between (path i, origin oa) and (path j, origin ob).
func (sp *c09Space) rel(i, oa, j, ob int) core.PSRel {
	return core.PSRelation(core.PSSet{Origin: core.PSNormOrigin(c09Origins[oa]), Bits: sp.bits[i]},
		core.PSSet{Origin: core.PSNormOrigin(c09Origins[ob]), Bits: sp.bits[j]})
}

// ---------------------------------------------------------------------------------------------
// cases, findings

// c09Idx is the internal form of one case (element indices into the space's alphabet).
type c09Idx struct {
	fn             string
	a, b, c        []int
	hasC           bool
	oa, ob, ta, tb int
	prefix         []string
	nilA, nilB     int // querynil: position replaced by a nil element, -1 none
}

// c09Case is the replayable (JSON) form.
type c09Case struct {
	Fn     string       `json:"fn"`
	Space  string       `json:"space"`
	A      core.PSPath  `json:"a"`
	B      *core.PSPath `json:"b,omitempty"`
	C      *core.PSPath `json:"c,omitempty"`
	Prefix []string     `json:"prefix,omitempty"`
	NilA   *int         `json:"nil_elem_in_a,omitempty"`
	NilB   *int         `json:"nil_elem_in_b,omitempty"`
}

func (sp *c09Space) toCase(x c09Idx) c09Case {
	cs := c09Case{Fn: x.fn, Space: sp.Name, A: sp.psPath(x.a, x.oa, x.ta)}
	if x.fn != "prefix" && x.fn != "trimnil" {
		b := sp.psPath(x.b, x.ob, x.tb)
		cs.B = &b
	}
	if x.hasC {
		c := sp.psPath(x.c, 0, 0)
		cs.C = &c
	}
	if x.fn == "prefix" {
		cs.Prefix = append([]string{}, x.prefix...)
	}
	if x.fn == "querynil" {
		na, nb := x.nilA, x.nilB
		cs.NilA, cs.NilB = &na, &nb
	}
	return cs
}

func c09IndexOfString(l []string, s string) int {
	for i, v := range l {
		if v == s {
			return i
		}
	}
	return -1
}

func (sp *c09Space) fromPS(p core.PSPath) (elems []int, o, t int, err error) {
	o, t = c09IndexOfString(c09Origins, p.Origin), c09IndexOfString(c09Targets, p.Target)
	if o < 0 || t < 0 {
		return nil, 0, 0, fmt.Errorf("origin/target outside the alphabet: %q %q", p.Origin, p.Target)
	}
	elems = []int{}
	for _, e := range p.Elems {
		i := sp.elemIndexOf(e.Name, e.Keys)
		if i < 0 {
			return nil, 0, 0, fmt.Errorf("element %v outside the alphabet of space %s", e, sp.Name)
		}
		elems = append(elems, i)
	}
	if len(elems) > sp.MaxLen {
		return nil, 0, 0, fmt.Errorf("path longer than space %s allows", sp.Name)
	}
	return elems, o, t, nil
}

func (sp *c09Space) fromCase(cs c09Case) (c09Idx, error) {
	x := c09Idx{fn: cs.Fn, nilA: -1, nilB: -1}
	var err error
	if x.a, x.oa, x.ta, err = sp.fromPS(cs.A); err != nil {
		return x, err
	}
	if cs.B != nil {
		if x.b, x.ob, x.tb, err = sp.fromPS(*cs.B); err != nil {
			return x, err
		}
	}
	if cs.C != nil {
		x.hasC = true
		if x.c, _, _, err = sp.fromPS(*cs.C); err != nil {
			return x, err
		}
	}
	x.prefix = cs.Prefix
	if cs.NilA != nil {
		x.nilA = *cs.NilA
	}
	if cs.NilB != nil {
		x.nilB = *cs.NilB
	}
	return x, nil
}

// c09F is one finding of the oracle on one case.
type c09F struct{ Clause, Want, Got string }

func c09RelBit(r util.CompareRelation) uint8 {
	switch r {
	case util.Equal:
		return uint8(core.PSEqual)
	case util.Subset:
		return uint8(core.PSSubset)
	case util.Superset:
		return uint8(core.PSSuperset)
	case util.Disjoint:
		return uint8(core.PSDisjoint)
	case util.PartialIntersect:
		return uint8(core.PSPartial)
	}
	return 5
}

func c09MaskString(m uint8) string {
	var out []string
	for b := uint8(0); b < 6; b++ {
		if m&(1<<b) != 0 {
			if b == 5 {
				out = append(out, "invalid-relation")
			} else {
				out = append(out, core.PSRel(b).String())
			}
		}
	}
	return strings.Join(out, "|")
}

func c09Single(m uint8) bool { return m != 0 && m&(m-1) == 0 }

// cmpMask calls ComparePaths evals times on the same pair, with the key maps of a built in every
// insertion order in turn and those of b shifted against it; returns the set of answers.
func (sp *c09Space) cmpMask(i, oa, j, ob, evals int) uint8 {
	return sp.cmpMaskFrom(i, oa, j, ob, 0, evals)
}

func (sp *c09Space) cmpMaskFrom(i, oa, j, ob, start, evals int) uint8 {
	var m uint8
	nv := sp.nVar
	for r := start; r < start+evals; r++ {
		m |= 1 << c09RelBit(util.ComparePaths(sp.protos[oa][r%nv][i], sp.protos[ob][(r/nv+r)%nv][j]))
	}
	return m
}

func c09Safe(f func()) (panicked string) {
	defer func() {
		if r := recover(); r != nil {
			panicked = fmt.Sprint(r)
		}
	}()
	f()
	return ""
}

func c09Bool(b bool) string {
	if b {
		return "true"
	}
	return "false"
}

func c09BoolMask(m uint8) string { // bit0 false, bit1 true
	switch m {
	case 1:
		return "false"
	case 2:
		return "true"
	}
	return "false|true"
}

// queryWant is the oracle of PathMatchesQuery for (path i, query j): sub = the path's set lies inside
// the query's; a false answer is only judged when the path carries no wildcard (the documentation
// allows wildcards in the query only).
func (sp *c09Space) queryWant(i, oa, j, ob int) (sub bool, judgedIfFalse bool) {
	r := sp.rel(i, oa, j, ob)
	return r == core.PSEqual || r == core.PSSubset, sp.concrete[i]
}

func (sp *c09Space) lcp(paths ...[]int) (syn, den int) {
	count := func(eq func(a, b int) bool) int {
		n := 0
		for {
			for _, p := range paths {
				if n >= len(p) || !eq(p[n], paths[0][n]) {
					return n
				}
			}
			n++
		}
	}
	syn = count(func(a, b int) bool { return a == b })
	den = count(func(a, b int) bool { return sp.elemCanon[a] == sp.elemCanon[b] })
	return
}

func (sp *c09Space) keylessIndex(names []string) int {
	var el []int
	for _, n := range names {
		switch n {
		case "y":
			el = append(el, 0)
		case "x":
			i, ok := sp.kindsIdx[string(make([]byte, len(sp.Keys)))]
			if !ok {
				return -1
			}
			el = append(el, i)
		default:
			return -1
		}
	}
	return sp.index(el)
}

// checkCase is the authoritative oracle: evaluates one case evals times and returns the findings.
func (sp *c09Space) checkCase(x c09Idx, evals int) (fs []c09F) {
	if evals < sp.nVar {
		evals = sp.nVar
	}
	ia, ib := sp.index(x.a), sp.index(x.b)
	if ia < 0 || ib < 0 {
		return nil
	}
	starA, starB := sp.hasStar[ia], sp.hasStar[ib]
	add := func(clause, want, got string) { fs = append(fs, c09F{clause, want, got}) }
	nv := sp.nVar
	switch x.fn {
	case "compare", "swap":
		if starA || starB {
			return nil
		}
		var mab, mba uint8
		if p := c09Safe(func() {
			mab = sp.cmpMask(ia, x.oa, ib, x.ob, evals)
			if x.fn == "swap" {
				mba = sp.cmpMask(ib, x.ob, ia, x.oa, evals)
			}
		}); p != "" {
			add(x.fn+"-panic", "", "panic")
			return
		}
		want := sp.rel(ia, x.oa, ib, x.ob)
		if x.fn == "compare" {
			if !c09Single(mab) {
				add("compare-nondeterministic", want.String(), c09MaskString(mab))
			} else if mab != 1<<uint8(want) {
				add("compare-wrong", want.String(), c09MaskString(mab))
			}
			return
		}
		if c09Single(mab) && c09Single(mba) {
			var ab core.PSRel
			for ab = 0; mab != 1<<uint8(ab); ab++ {
			}
			if ab < 5 && mba != 1<<uint8(ab.Swap()) {
				add("swap-law", "ab="+c09MaskString(mab)+",ba="+ab.Swap().String(), "ba="+c09MaskString(mba))
			}
		}
	case "query":
		if starA {
			return nil
		}
		var m uint8
		if p := c09Safe(func() {
			for r := 0; r < evals; r++ {
				if util.PathMatchesQuery(sp.protos[x.oa][r%nv][ia], sp.protos[x.ob][(r/nv+r)%nv][ib]) {
					m |= 2
				} else {
					m |= 1
				}
			}
		}); p != "" {
			add("query-panic", "", "panic")
			return
		}
		sub, judged := sp.queryWant(ia, x.oa, ib, x.ob)
		switch {
		case m == 3:
			add("query-nondeterministic", c09Bool(sub), c09BoolMask(m))
		case m == 2 && !sub:
			add("query-unsound", "false", "true")
		case m == 1 && sub && judged:
			add("query-incomplete", "true", "false")
		}
	case "querynil":
		// nil elements: documented to yield false. Judged when the nil element lies among the
		// elements that are compared (position < len(query)); a nil beyond the query is not judged.
		pa, pb := sp.mkPath(x.a, x.oa, 0, 0, 0), sp.mkPath(x.b, x.ob, 0, 0, 0)
		inRegion := false
		if x.nilA >= 0 && x.nilA < len(pa.Elem) {
			pa.Elem[x.nilA] = nil
			if x.nilA < len(pb.Elem) {
				inRegion = true
			}
		}
		if x.nilB >= 0 && x.nilB < len(pb.Elem) {
			pb.Elem[x.nilB] = nil
			inRegion = true
		}
		if !inRegion || starA {
			return nil
		}
		var got bool
		if p := c09Safe(func() { got = util.PathMatchesQuery(pa, pb) }); p != "" {
			add("querynil-panic", "false", "panic")
		} else if got {
			add("querynil-wrong", "false", "true")
		}
	case "elemprefix":
		if starA || starB {
			return nil
		}
		if x.oa != x.ob && c09OriginsEquivalent(x.oa, x.ob) {
			return nil // "" vs "openconfig": documented as exact match, denotation says equivalent: not judged
		}
		want := x.oa == x.ob && c09IsPrefix(x.b, x.a)
		var m uint8
		if p := c09Safe(func() {
			for r := 0; r < evals; r++ {
				if util.PathMatchesPathElemPrefix(sp.protos[x.oa][r%nv][ia], sp.protos[x.ob][(r/nv+r)%nv][ib]) {
					m |= 2
				} else {
					m |= 1
				}
			}
		}); p != "" {
			add("elemprefix-panic", "", "panic")
			return
		}
		if m == 3 {
			add("elemprefix-nondeterministic", c09Bool(want), c09BoolMask(m))
		} else if (m == 2) != want {
			add("elemprefix-wrong", c09Bool(want), c09BoolMask(m))
		}
	case "trim":
		if starA || starB {
			return nil
		}
		if x.oa != x.ob && c09OriginsEquivalent(x.oa, x.ob) {
			return nil
		}
		match := x.oa == x.ob && c09IsPrefix(x.b, x.a)
		for v := 0; v < nv; v++ {
			pa, pb := sp.protos[x.oa][v][ia], sp.protos[x.ob][(v+1)%nv][ib]
			var got *gpb.Path
			if p := c09Safe(func() { got = util.TrimGNMIPathElemPrefix(pa, pb) }); p != "" {
				add("trim-panic", "", "panic")
				return
			}
			gk := sp.trimKind(got, x.a, x.b)
			wk := "original"
			if match {
				wk = "trimmed"
			}
			if !strings.Contains(gk, wk) {
				add("trim-wrong", wk, gk)
				return
			}
		}
	case "trimnil":
		pa := sp.protos[x.oa][0][ia]
		var got *gpb.Path
		if p := c09Safe(func() { got = util.TrimGNMIPathElemPrefix(pa, nil) }); p != "" {
			add("trimnil-panic", "original", "panic")
		} else if gk := sp.trimKind(got, x.a, nil); !strings.Contains(gk, "original") {
			add("trimnil-wrong", "original", gk)
		}
	case "find":
		if starA || starB {
			return nil
		}
		ins := [][]int{x.a, x.b}
		if x.hasC {
			ins = append(ins, x.c)
		}
		syn, den := sp.lcp(ins...)
		for v := 0; v < nv; v++ {
			var ps []*gpb.Path
			for k, in := range ins {
				ps = append(ps, sp.protos[0][(v+k)%nv][sp.index(in)])
			}
			var got *gpb.Path
			if p := c09Safe(func() { got = util.FindPathElemPrefix(ps) }); p != "" {
				add("find-panic", "", "panic")
				return
			}
			ge, ok := sp.decode(got)
			n := len(ge)
			want := fmt.Sprintf("len=%d", syn)
			if den != syn {
				want = fmt.Sprintf("len=%d..%d", syn, den)
			}
			if !ok {
				add("find-wrong", want, "elements-outside-alphabet")
				return
			}
			if n < syn || n > den {
				add("find-wrong", want, fmt.Sprintf("len=%d", n))
				return
			}
			for k := 0; k < n; k++ {
				found := false
				for _, in := range ins {
					if in[k] == ge[k] {
						found = true
					}
				}
				if !found {
					add("find-wrong", want, "elements-differ")
					return
				}
			}
		}
	case "join":
		if starA || starB {
			return nil
		}
		pa, pb := sp.mkPath(x.a, x.oa, x.ta, 0, 4), sp.mkPath(x.b, x.ob, x.tb, 0, 0)
		wantErr := (x.oa != 0 && x.ob != 0 && x.oa != x.ob) || (x.ta != 0 && x.tb != 0 && x.ta != x.tb)
		var got *gpb.Path
		var err error
		if p := c09Safe(func() { got, err = util.JoinPaths(pa, pb) }); p != "" {
			add("join-panic", "", "panic")
			return
		}
		if wantErr {
			if err == nil {
				add("join-error-missing", "error", "joined")
			}
			return
		}
		if err != nil || got == nil {
			add("join-error-unexpected", "joined", "error")
			return
		}
		cat := append(append([]int{}, x.a...), x.b...)
		if ge, ok := sp.decode(got); !ok || !c09IntsEqual(ge, cat) {
			add("join-wrong-elems", "prefix++suffix", "other")
			return
		}
		wo, wt := x.oa, x.ta
		if x.ob != 0 {
			wo = x.ob
		}
		if x.tb != 0 {
			wt = x.tb
		}
		if got.Origin != c09Origins[wo] {
			add("join-wrong-origin", c09OriginKind(wo, x.oa, x.ob), "other")
		}
		if got.Target != c09Targets[wt] {
			add("join-wrong-target", c09OriginKind(wt, x.ta, x.tb), "other")
		}
		// Trim(Join(p, s), p) gives back s when the origins agree exactly.
		if got.Origin == pa.Origin {
			var tr *gpb.Path
			if p := c09Safe(func() { tr = util.TrimGNMIPathElemPrefix(got, pa) }); p != "" {
				add("join-trim-panic", "", "panic")
			} else if te, ok := sp.decode(tr); !ok || !c09IntsEqual(te, x.b) {
				add("join-trim-law", "suffix", "other")
			}
		}
		// the result must stay what it is when the same prefix is joined with something else
		other := 0
		if len(x.b) > 0 && x.b[0] == 0 {
			other = sp.kindsIdx[string(make([]byte, len(sp.Keys)))]
		}
		pb2 := sp.mkPath([]int{other}, x.ob, x.tb, 0, 0)
		if p := c09Safe(func() { util.JoinPaths(pa, pb2) }); p != "" {
			add("join-panic", "", "panic")
			return
		}
		if ge, ok := sp.decode(got); !ok || !c09IntsEqual(ge, cat) {
			add("join-result-aliases-prefix", "prefix++suffix", "overwritten-by-later-join")
		}
		if pe, ok := sp.decode(pa); !ok || !c09IntsEqual(pe, x.a) {
			add("join-modifies-prefix", "prefix", "other")
		}
	case "prefix":
		if starA {
			return nil
		}
		hasEmpty := false
		for _, s := range x.prefix {
			if s == "" {
				hasEmpty = true
			}
		}
		var got bool
		if p := c09Safe(func() { got = util.PathMatchesPrefix(sp.protos[0][0][ia], x.prefix) }); p != "" {
			add("prefix-panic", "", "panic")
			return
		}
		if hasEmpty {
			return nil // trailing "" elements are trimmed by the implementation; undocumented, not judged
		}
		ki := sp.keylessIndex(x.prefix)
		if ki < 0 {
			return nil
		}
		r := sp.rel(ia, 0, ki, 0)
		want := r == core.PSEqual || r == core.PSSubset
		if got != want {
			add("prefix-wrong", c09Bool(want), c09Bool(got))
		}
	}
	return fs
}

func c09OriginKind(w, a, b int) string {
	switch {
	case w == 0:
		return "empty"
	case w == b:
		return "suffix's"
	case w == a:
		return "prefix's"
	}
	return "?"
}

// trimKind classifies what TrimGNMIPathElemPrefix returned: "original" (elements of path),
// "trimmed" (elements of path after len(prefix)), both when they coincide, or "other".
func (sp *c09Space) trimKind(got *gpb.Path, a, b []int) string {
	if got == nil {
		return "nil"
	}
	ge, ok := sp.decode(got)
	if !ok {
		return "other"
	}
	var ks []string
	if c09IntsEqual(ge, a) {
		ks = append(ks, "original")
	}
	if len(b) <= len(a) && c09IntsEqual(ge, a[len(b):]) {
		ks = append(ks, "trimmed")
	}
	if len(ks) == 0 {
		return "other"
	}
	return strings.Join(ks, "=")
}

// ---------------------------------------------------------------------------------------------
// shapes, signatures, minimisation

func (sp *c09Space) elemShape(e int) string {
	s := sp.elemName[e]
	var ks []string
	for _, k := range sp.elemKinds[e] {
		if k != c09Absent {
			ks = append(ks, string(c09KindChar[k]))
		}
	}
	if len(ks) > 0 {
		sort.Strings(ks)
		s += "[" + strings.Join(ks, ",") + "]"
	}
	return s
}

// elemPairShape abstracts a pair of elements at the same position: the names and, per key, the pair
// (kind in a, kind in b) with '-' absent, '*' wildcard, 'v' a value and 'w' a different value;
// keys absent on both sides are dropped and the rest sorted, so key names/positions and the
// concrete values do not show.
func (sp *c09Space) elemPairShape(ea, eb int) string {
	na, nb := sp.elemName[ea], sp.elemName[eb]
	s := na
	if na != nb {
		s = na + "!" + nb
	}
	ka, kb := sp.elemKinds[ea], sp.elemKinds[eb]
	var ks []string
	for i := range sp.Keys {
		var a, b byte
		if i < len(ka) {
			a = ka[i]
		}
		if i < len(kb) {
			b = kb[i]
		}
		if a == c09Absent && b == c09Absent {
			continue
		}
		cb := c09KindChar[b]
		if a >= c09V1 && b >= c09V1 && a != b {
			cb = 'w'
		}
		ks = append(ks, string([]byte{c09KindChar[a], cb}))
	}
	if len(ks) > 0 {
		sort.Strings(ks)
		s += "[" + strings.Join(ks, ",") + "]"
	}
	return s
}

func (sp *c09Space) pathShape(a []int) string {
	if len(a) == 0 {
		return "/"
	}
	var parts []string
	for _, e := range a {
		parts = append(parts, sp.elemShape(e))
	}
	return strings.Join(parts, "/")
}

// shape is the abstract shape of a case used in signatures.
func (sp *c09Space) shape(x c09Idx) string {
	var b strings.Builder
	switch x.fn {
	case "prefix":
		b.WriteString(sp.pathShape(x.a) + "~[" + strings.Join(x.prefix, ",") + "]")
	case "trimnil":
		b.WriteString(sp.pathShape(x.a))
	case "find":
		b.WriteString(sp.pathShape(x.a) + " , " + sp.pathShape(x.b))
		if x.hasC {
			b.WriteString(" , " + sp.pathShape(x.c))
		}
	default:
		n := len(x.a)
		if len(x.b) < n {
			n = len(x.b)
		}
		if n == 0 {
			b.WriteString("/")
		}
		for i := 0; i < n; i++ {
			if i > 0 {
				b.WriteString("/")
			}
			b.WriteString(sp.elemPairShape(x.a[i], x.b[i]))
		}
		if len(x.a) > n {
			b.WriteString(" +a:" + sp.pathShape(x.a[n:]))
		}
		if len(x.b) > n {
			b.WriteString(" +b:" + sp.pathShape(x.b[n:]))
		}
		if x.oa != 0 || x.ob != 0 {
			b.WriteString(" @origin:" + c09Origins[x.oa] + "|" + c09Origins[x.ob])
		}
		if x.ta != 0 || x.tb != 0 {
			b.WriteString(" @target:" + c09Targets[x.ta] + "|" + c09Targets[x.tb])
		}
		if x.fn == "querynil" {
			fmt.Fprintf(&b, " nil:a%d,b%d", x.nilA, x.nilB)
		}
	}
	return b.String()
}

func c09Has(fs []c09F, f c09F) bool {
	for _, g := range fs {
		if g == f {
			return true
		}
	}
	return false
}

func c09Without(s []int, i int) []int {
	return append(append([]int{}, s[:i]...), s[i+1:]...)
}

// candidates lists the one-step simplifications of a case, larger simplifications first.
func (sp *c09Space) candidates(x c09Idx) []c09Idx {
	var out []c09Idx
	cp := func() c09Idx {
		y := x
		y.a, y.b, y.c = append([]int{}, x.a...), append([]int{}, x.b...), append([]int{}, x.c...)
		y.prefix = append([]string{}, x.prefix...)
		return y
	}
	if x.oa != 0 || x.ob != 0 {
		y := cp()
		y.oa, y.ob = 0, 0
		out = append(out, y)
		if x.oa != 0 {
			y = cp()
			y.oa = 0
			out = append(out, y)
		}
		if x.ob != 0 {
			y = cp()
			y.ob = 0
			out = append(out, y)
		}
	}
	if x.ta != 0 || x.tb != 0 {
		y := cp()
		y.ta, y.tb = 0, 0
		out = append(out, y)
		if x.ta != 0 {
			y = cp()
			y.ta = 0
			out = append(out, y)
		}
		if x.tb != 0 {
			y = cp()
			y.tb = 0
			out = append(out, y)
		}
	}
	if x.hasC {
		y := cp()
		y.hasC, y.c = false, nil
		out = append(out, y)
	}
	// drop elements: from both at the same position, then from one
	for i := len(x.a) - 1; i >= 0; i-- {
		if i < len(x.b) {
			y := cp()
			y.a, y.b = c09Without(x.a, i), c09Without(x.b, i)
			if x.hasC && i < len(x.c) {
				y.c = c09Without(x.c, i)
			}
			y.nilA, y.nilB = c09ShiftNil(x.nilA, i), c09ShiftNil(x.nilB, i)
			out = append(out, y)
		}
	}
	for i := len(x.a) - 1; i >= 0; i-- {
		y := cp()
		y.a = c09Without(x.a, i)
		y.nilA = c09ShiftNil(x.nilA, i)
		out = append(out, y)
	}
	for i := len(x.b) - 1; i >= 0; i-- {
		y := cp()
		y.b = c09Without(x.b, i)
		y.nilB = c09ShiftNil(x.nilB, i)
		out = append(out, y)
	}
	for i := len(x.c) - 1; i >= 0 && x.hasC; i-- {
		y := cp()
		y.c = c09Without(x.c, i)
		out = append(out, y)
	}
	for i := len(x.prefix) - 1; i >= 0; i-- {
		y := cp()
		y.prefix = append(append([]string{}, x.prefix[:i]...), x.prefix[i+1:]...)
		out = append(out, y)
	}
	// an element beyond the end of the other path: replace it by the simplest element (y)
	for i := len(x.b); i < len(x.a); i++ {
		if x.a[i] != 0 {
			y := cp()
			y.a[i] = 0
			out = append(out, y)
		}
	}
	for i := len(x.a); i < len(x.b); i++ {
		if x.b[i] != 0 {
			y := cp()
			y.b[i] = 0
			out = append(out, y)
		}
	}
	// drop keys: the same key on both sides, then on one side
	dropKey := func(e, k int) int {
		ks := sp.elemKinds[e]
		if k >= len(ks) || ks[k] == c09Absent {
			return -1
		}
		n := append([]byte{}, ks...)
		n[k] = c09Absent
		if i, ok := sp.kindsIdx[string(n)]; ok {
			return i
		}
		return -1
	}
	for i := 0; i < len(x.a) && i < len(x.b); i++ {
		for k := range sp.Keys {
			ea, eb := dropKey(x.a[i], k), dropKey(x.b[i], k)
			if ea >= 0 && eb >= 0 {
				y := cp()
				y.a[i], y.b[i] = ea, eb
				out = append(out, y)
			}
		}
	}
	for which, p := range [][]int{x.a, x.b, x.c} {
		for i := range p {
			for k := range sp.Keys {
				if e := dropKey(p[i], k); e >= 0 {
					y := cp()
					switch which {
					case 0:
						y.a[i] = e
					case 1:
						y.b[i] = e
					case 2:
						y.c[i] = e
					}
					out = append(out, y)
				}
			}
		}
	}
	return out
}

func c09ShiftNil(pos, removed int) int {
	switch {
	case pos < 0 || pos < removed:
		return pos
	case pos == removed:
		return -1
	}
	return pos - 1
}

// heavyEvals is the number of evaluations used when a violation is classified and minimised: every
// combination of insertion orders of a and b, twice.
func (sp *c09Space) heavyEvals() int {
	n := 2 * sp.nVar * sp.nVar
	if n < 16 {
		n = 16
	}
	return n
}

func (sp *c09Space) minimise(x c09Idx, f c09F) c09Idx {
	cur := x
	for changed := true; changed; {
		changed = false
		for _, cand := range sp.candidates(cur) {
			if sp.index(cand.a) < 0 || sp.index(cand.b) < 0 {
				continue
			}
			if c09Has(sp.checkCase(cand, sp.heavyEvals()), f) {
				cur, changed = cand, true
				break
			}
		}
	}
	return cur
}

type c09Report struct {
	sig, detail string
	cs          c09Case
}

// classify turns one flagged case into signatures: it is re-evaluated heavily, each finding is
// minimised, and the signature is "<clause>:want=..,got=..:<shape of the minimal case>".
func (sp *c09Space) classify(x c09Idx) []c09Report {
	fs := sp.checkCase(x, sp.heavyEvals())
	if len(fs) == 0 && x.fn == "swap" {
		// the few evaluations of the sweep gave one answer per direction, the many evaluations here
		// show that an answer is nondeterministic: reported under compare-nondeterministic, and the
		// swap law is not judged on answers that are not functions of the arguments
		return nil
	}
	if len(fs) == 0 {
		return []c09Report{{sig: x.fn + "-unreproduced:" + sp.shape(x),
			detail: fmt.Sprintf("space %s: %s was flagged by the sweep but not by %d re-evaluations: %s", sp.Name, x.fn, sp.heavyEvals(), sp.describe(x)), cs: sp.toCase(x)}}
	}
	var out []c09Report
	for _, f := range fs {
		m := sp.minimise(x, f)
		out = append(out, c09Report{
			sig:    fmt.Sprintf("%s:want=%s,got=%s:%s", f.Clause, f.Want, f.Got, sp.shape(m)),
			detail: fmt.Sprintf("space %s: %s: want %s, got %s (over %d evaluations) on %s; minimised from %s", sp.Name, f.Clause, f.Want, f.Got, sp.heavyEvals(), sp.describe(m), sp.describe(x)),
			cs:     sp.toCase(m)})
	}
	return out
}

func (sp *c09Space) describe(x c09Idx) string {
	s := "a=" + sp.psPath(x.a, x.oa, x.ta).String()
	if x.ta != 0 {
		s += "{target " + c09Targets[x.ta] + "}"
	}
	switch x.fn {
	case "prefix":
		s += fmt.Sprintf(" prefix=%q", x.prefix)
	case "trimnil":
	default:
		s += " b=" + sp.psPath(x.b, x.ob, x.tb).String()
		if x.tb != 0 {
			s += "{target " + c09Targets[x.tb] + "}"
		}
	}
	if x.hasC {
		s += " c=" + sp.psPath(x.c, 0, 0).String()
	}
	if x.fn == "querynil" {
		s += fmt.Sprintf(" nil element at a[%d], b[%d]", x.nilA, x.nilB)
	}
	return s
}

// ---------------------------------------------------------------------------------------------
// the sweep

const (
	ocCmpAgree     = 0 // +relation (5)
	ocSwapHolds    = 5
	ocSwapExcl     = 6
	ocQueryTrue    = 7
	ocQueryFalse   = 8
	ocQueryExcl    = 9
	ocEPExcl       = 10
	ocTrimExcl     = 11
	ocEPFalse      = 12
	ocEPTrue       = 13
	ocTrimOriginal = 14
	ocTrimTrimmed  = 15
	ocFindWild     = 16
	ocJoinJoined   = 17
	ocFindLen      = 18 // +len (0..4)
	ocN            = 23
)

var c09OutcomeNames = func() []string {
	n := make([]string, ocN)
	for r := 0; r < 5; r++ {
		n[ocCmpAgree+r] = "compare:agrees:" + c09RelNames[r]
		n[ocFindLen+r] = fmt.Sprintf("find:agrees:len=%d", r)
	}
	n[ocSwapHolds] = "swap:holds"
	n[ocSwapExcl] = "swap:excluded-nondeterministic-answer"
	n[ocQueryTrue] = "query:agrees:true"
	n[ocQueryFalse] = "query:agrees:false"
	n[ocQueryExcl] = "query:excluded-path-has-wildcards-not-matched"
	n[ocEPExcl] = "elemprefix:excluded-origin-unset-vs-openconfig"
	n[ocTrimExcl] = "trim:excluded-origin-unset-vs-openconfig"
	n[ocEPFalse] = "elemprefix:agrees:false"
	n[ocEPTrue] = "elemprefix:agrees:true"
	n[ocTrimOriginal] = "trim:agrees:original"
	n[ocTrimTrimmed] = "trim:agrees:trimmed"
	n[ocFindWild] = "find:implicit-vs-explicit-wildcard-either-length-accepted"
	n[ocJoinJoined] = "join:agrees:joined"
	return n
}()

type c09Agg struct {
	sp      *c09Space
	c       *core.Ctx
	memo    *sync.Map // preKey -> []c09Report
	evals   int64     // oracle judgements
	calls   int64     // calls of the functions under test
	oc      [ocN]int64
	out     map[string]int64
	viol    map[string]*c09Viol
	nontriv [5]bool
}

type c09Viol struct {
	rep c09Report
	n   int64
}

func newC09Agg(c *core.Ctx, sp *c09Space, memo *sync.Map) *c09Agg {
	return &c09Agg{sp: sp, c: c, memo: memo, out: map[string]int64{}, viol: map[string]*c09Viol{}}
}

func (g *c09Agg) flag(x c09Idx) {
	pk := x.fn + "|" + g.sp.Name + "|" + g.sp.shape(x)
	var reps []c09Report
	if v, ok := g.memo.Load(pk); ok {
		reps = v.([]c09Report)
	} else {
		v, _ := g.memo.LoadOrStore(pk, g.sp.classify(x))
		reps = v.([]c09Report)
	}
	if len(reps) == 0 {
		g.out[x.fn+":excluded-nondeterministic-answer"]++
		return
	}
	g.out[x.fn+":violation"]++
	for _, r := range reps {
		if v := g.viol[r.sig]; v != nil {
			v.n++
		} else {
			g.viol[r.sig] = &c09Viol{rep: r, n: 1}
		}
	}
}

func (g *c09Agg) flush() {
	g.c.R.Add("evaluations", g.evals)
	g.c.R.Add("impl_calls", g.calls)
	for k, n := range g.out {
		g.c.R.OutcomeN(k, n)
	}
	for k, n := range g.oc {
		g.c.R.OutcomeN(c09OutcomeNames[k], n)
		g.oc[k] = 0
	}
	sigs := make([]string, 0, len(g.viol))
	for s := range g.viol {
		sigs = append(sigs, s)
	}
	sort.Strings(sigs)
	for _, s := range sigs {
		v := g.viol[s]
		g.c.R.ViolationN(s, v.rep.detail, v.rep.cs, v.n)
	}
	g.evals, g.calls = 0, 0
	g.out, g.viol = map[string]int64{}, map[string]*c09Viol{}
}

var c09RelNames = [5]string{"Equal", "Subset", "Superset", "Disjoint", "PartialIntersect"}

// pair evaluates everything for the unordered pair {i, j}, i <= j, in both directions.
func (g *c09Agg) pair(i, j, R int) {
	sp := g.sp
	starI, starJ := sp.hasStar[i], sp.hasStar[j]
	// the set algebra on the two denotations is done once per pair; the origin part of the
	// denotation (different tree => disjoint, every path denotes a non-empty set) is applied below
	bitsAB := core.PSBitsRelation(sp.bits[i], sp.bits[j])
	bitsBA := core.PSBitsRelation(sp.bits[j], sp.bits[i])
	for _, oa := range sp.Origins {
		for _, ob := range sp.Origins {
			if i == j && oa > ob {
				continue // the same two ordered pairs are met as (ob, oa)
			}
			same := i == j && oa == ob
			wantAB, wantBA := core.PSDisjoint, core.PSDisjoint
			if c09OriginsEquivalent(oa, ob) {
				wantAB, wantBA = bitsAB, bitsBA
			}
			if !starI && !starJ {
				// R evaluations (every insertion order) with unset origins; the origin does not take part
				// in the map iteration, so the other origin combinations get 2 evaluations each, started
				// at different insertion orders
				R, start := R, 0
				if oa != 0 || ob != 0 {
					R, start = 2, 2*(3*oa+ob)
				}
				mab := sp.cmpMaskFrom(i, oa, j, ob, start, R)
				g.compareJudge(i, oa, j, ob, mab, wantAB)
				g.calls += int64(R)
				if !same {
					mba := sp.cmpMaskFrom(j, ob, i, oa, start, R)
					g.compareJudge(j, ob, i, oa, mba, wantBA)
					g.calls += int64(R)
					// swap law
					g.evals++
					if c09Single(mab) && c09Single(mba) {
						var ab core.PSRel
						for ab = 0; ab < 5 && mab != 1<<uint8(ab); ab++ {
						}
						if ab == 5 || mba == 1<<uint8(ab.Swap()) {
							g.oc[ocSwapHolds]++
						} else {
							g.flag(c09Idx{fn: "swap", a: sp.paths[i], b: sp.paths[j], oa: oa, ob: ob, nilA: -1, nilB: -1})
						}
					} else {
						g.oc[ocSwapExcl]++
					}
				}
				g.other(i, oa, j, ob)
				if !same {
					g.other(j, ob, i, oa)
				}
			}
			if !starI {
				g.query(i, oa, j, ob, wantAB)
			}
			if !starJ && !same {
				g.query(j, ob, i, oa, wantBA)
			}
		}
	}
}

func (g *c09Agg) compareJudge(i, oa, j, ob int, m uint8, want core.PSRel) {
	g.evals++
	if m == 1<<uint8(want) {
		g.oc[ocCmpAgree+int(want)]++
		if want != core.PSEqual {
			g.nontriv[want] = true
		}
		return
	}
	g.flag(c09Idx{fn: "compare", a: g.sp.paths[i], b: g.sp.paths[j], oa: oa, ob: ob, nilA: -1, nilB: -1})
}

func (g *c09Agg) query(i, oa, j, ob int, want core.PSRel) {
	sp := g.sp
	g.evals++
	g.calls += 2
	t1 := util.PathMatchesQuery(sp.protos[oa][0][i], sp.protos[ob][0][j])
	t2 := util.PathMatchesQuery(sp.protos[oa][sp.nVar-1][i], sp.protos[ob][sp.nVar/2][j])
	sub := want == core.PSEqual || want == core.PSSubset
	switch {
	case t1 != t2, t1 && !sub:
		g.flag(c09Idx{fn: "query", a: sp.paths[i], b: sp.paths[j], oa: oa, ob: ob, nilA: -1, nilB: -1})
	case !t1 && sub:
		if sp.concrete[i] {
			g.flag(c09Idx{fn: "query", a: sp.paths[i], b: sp.paths[j], oa: oa, ob: ob, nilA: -1, nilB: -1})
		} else {
			g.oc[ocQueryExcl]++
		}
	case t1:
		g.oc[ocQueryTrue]++
	default:
		g.oc[ocQueryFalse]++
	}
}

// other: PathMatchesPathElemPrefix, TrimGNMIPathElemPrefix for (path i, prefix j); for unset
// origins also FindPathElemPrefix([i, j]) and JoinPaths(i, j).
func (g *c09Agg) other(i, oa, j, ob int) {
	sp := g.sp
	a, b := sp.paths[i], sp.paths[j]
	mk := func(fn string) c09Idx { return c09Idx{fn: fn, a: a, b: b, oa: oa, ob: ob, nilA: -1, nilB: -1} }
	if oa != ob && c09OriginsEquivalent(oa, ob) {
		g.oc[ocEPExcl]++
		g.oc[ocTrimExcl]++
	} else {
		want := oa == ob && c09IsPrefix(b, a)
		pa, pb := sp.protos[oa][0][i], sp.protos[ob][sp.nVar-1][j]
		g.evals += 2
		g.calls += 3
		g1 := util.PathMatchesPathElemPrefix(pa, pb)
		g2 := util.PathMatchesPathElemPrefix(sp.protos[oa][sp.nVar/2][i], sp.protos[ob][0][j])
		if g1 != want || g2 != want {
			g.flag(mk("elemprefix"))
		} else {
			if want {
				g.oc[ocEPTrue]++
			} else {
				g.oc[ocEPFalse]++
			}
		}
		got := util.TrimGNMIPathElemPrefix(pa, pb)
		gk := sp.trimKind(got, a, b)
		wk := "original"
		if want {
			wk = "trimmed"
		}
		if !strings.Contains(gk, wk) {
			g.flag(mk("trim"))
		} else {
			if want {
				g.oc[ocTrimTrimmed]++
			} else {
				g.oc[ocTrimOriginal]++
			}
		}
	}
	if oa != 0 || ob != 0 {
		return
	}
	// FindPathElemPrefix
	g.evals++
	g.calls++
	syn, den := sp.lcp(a, b)
	got := util.FindPathElemPrefix([]*gpb.Path{sp.protos[0][0][i], sp.protos[0][sp.nVar-1][j]})
	ge, ok := sp.decode(got)
	okFind := ok && len(ge) >= syn && len(ge) <= den
	for k := 0; okFind && k < len(ge); k++ {
		okFind = ge[k] == a[k] || ge[k] == b[k]
	}
	switch {
	case !okFind:
		g.flag(mk("find"))
	case syn != den:
		g.oc[ocFindWild]++
	default:
		g.oc[ocFindLen+syn]++
	}
	// JoinPaths, unset origins and targets (the origin/target cross is a separate sweep)
	g.evals++
	g.calls++
	jp, err := util.JoinPaths(sp.protos[0][0][i], sp.protos[0][0][j])
	je, ok := sp.decode(jp)
	if err != nil || !ok || len(je) != len(a)+len(b) || !c09IsPrefix(a, je) || !c09IntsEqual(je[len(a):], b) || jp.Origin != "" || jp.Target != "" {
		g.flag(mk("join"))
	} else {
		g.oc[ocJoinJoined]++
	}
}

// row runs pair(i, j) for all j >= i, recovering panics of the code under test.
func (g *c09Agg) row(i, R int) {
	j := i
	defer func() {
		if r := recover(); r != nil {
			sp := g.sp
			x := c09Idx{fn: "compare", a: sp.paths[i], b: sp.paths[j], nilA: -1, nilB: -1}
			g.c.R.Violation("panic-in-sweep:"+sp.shape(x), fmt.Sprintf("space %s: panic %v while evaluating %s (rest of the row skipped)", sp.Name, r, sp.describe(x)), sp.toCase(x))
			g.c.R.Capped("panic-aborted-row")
		}
		g.flush()
	}()
	n := len(g.sp.paths)
	for ; j < n; j++ {
		g.pair(i, j, R)
	}
	for r := 1; r < 5; r++ {
		if g.nontriv[r] {
			g.c.R.NonTrivial(fmt.Sprintf("%s/%d/%s", g.sp.Name, i, c09RelNames[r]))
		}
	}
}

func (sp *c09Space) sweep(c *core.Ctx, R int, memo *sync.Map) {
	n := len(sp.paths)
	var stop int32
	core.ParallelFor(n, func(i int) {
		if atomic.LoadInt32(&stop) != 0 {
			return
		}
		if c.Expired() {
			atomic.StoreInt32(&stop, 1)
			return
		}
		newC09Agg(c, sp, memo).row(i, R)
	})
	c.R.Note("space_"+sp.Name, map[string]interface{}{
		"list_keys": sp.Keys, "elements": sp.nE, "max_elems": sp.MaxLen, "paths": n, "origins_crossed": len(sp.Origins),
		"universe_concrete_paths": sp.U.Size(), "evaluations_per_compare_pair": R, "key_insertion_orders": sp.nVar,
		"completed": atomic.LoadInt32(&stop) == 0,
	})
}

// smallSweeps: the parts that are not a function of one pair of plain paths.
func c09SmallSweeps(c *core.Ctx, main *c09Space, memo *sync.Map) {
	// JoinPaths: all pairs of paths with <= 1 element x all origins x all targets on both sides
	{
		sp := main
		var short []int
		for i, p := range sp.paths {
			if len(p) <= 1 && !sp.hasStar[i] {
				short = append(short, i)
			}
		}
		core.ParallelFor(len(short), func(ii int) {
			g := newC09Agg(c, sp, memo)
			defer g.flush()
			for _, j := range short {
				for oa := range c09Origins {
					for ob := range c09Origins {
						for ta := range c09Targets {
							for tb := range c09Targets {
								x := c09Idx{fn: "join", a: sp.paths[short[ii]], b: sp.paths[j], oa: oa, ob: ob, ta: ta, tb: tb, nilA: -1, nilB: -1}
								g.evals++
								g.calls += 3
								if fs := sp.checkCase(x, 1); len(fs) > 0 {
									g.flag(x)
								} else if (oa != 0 && ob != 0 && oa != ob) || (ta != 0 && tb != 0 && ta != tb) {
									g.out["join:agrees:error"]++
								} else {
									g.out["join:agrees:joined"]++
								}
							}
						}
					}
				}
			}
		})
	}
	// PathMatchesPrefix: every path x every string prefix over {x, y, ""} up to MaxLen; Trim with nil prefix
	{
		sp := main
		prefixes := [][]string{{}}
		level := [][]string{{}}
		for l := 1; l <= sp.MaxLen; l++ {
			var nxt [][]string
			for _, p := range level {
				for _, s := range []string{"x", "y", ""} {
					nxt = append(nxt, append(append([]string{}, p...), s))
				}
			}
			prefixes = append(prefixes, nxt...)
			level = nxt
		}
		core.ParallelFor(len(sp.paths), func(i int) {
			if sp.hasStar[i] {
				return
			}
			g := newC09Agg(c, sp, memo)
			defer g.flush()
			for _, pf := range prefixes {
				x := c09Idx{fn: "prefix", a: sp.paths[i], prefix: pf, nilA: -1, nilB: -1}
				g.calls++
				hasEmpty := false
				for _, s := range pf {
					hasEmpty = hasEmpty || s == ""
				}
				fs := sp.checkCase(x, 1)
				switch {
				case len(fs) > 0:
					g.evals++
					g.flag(x)
				case hasEmpty:
					g.out["prefix:excluded-empty-string-element"]++
				default:
					g.evals++
					g.out["prefix:agrees"]++
				}
			}
			x := c09Idx{fn: "trimnil", a: sp.paths[i], nilA: -1, nilB: -1}
			g.evals++
			g.calls++
			if fs := sp.checkCase(x, 1); len(fs) > 0 {
				g.flag(x)
			} else {
				g.out["trimnil:agrees"]++
			}
		})
	}
	// PathMatchesQuery with keyed wildcard-name query elements (c09_starkeys.go)
	runC09StarKeys(c)
	// FindPathElemPrefix on triples, PathMatchesQuery with nil elements: space F
	{
		sp := c09GetSpace("F")
		n := len(sp.paths)
		core.ParallelFor(n, func(i int) {
			g := newC09Agg(c, sp, memo)
			defer g.flush()
			for j := 0; j < n; j++ {
				for k := 0; k < n; k++ {
					x := c09Idx{fn: "find", a: sp.paths[i], b: sp.paths[j], c: sp.paths[k], hasC: true, nilA: -1, nilB: -1}
					g.evals++
					g.calls += int64(sp.nVar)
					if fs := sp.checkCase(x, 1); len(fs) > 0 {
						g.flag(x)
					} else {
						g.out["find3:agrees"]++
					}
				}
				for na := -1; na < len(sp.paths[i]); na++ {
					for nb := -1; nb < len(sp.paths[j]); nb++ {
						if na < 0 && nb < 0 {
							continue
						}
						x := c09Idx{fn: "querynil", a: sp.paths[i], b: sp.paths[j], nilA: na, nilB: nb}
						g.calls++
						if nb < 0 && na >= len(sp.paths[j]) {
							g.out["querynil:excluded-nil-beyond-query"]++
							continue
						}
						g.evals++
						if fs := sp.checkCase(x, 1); len(fs) > 0 {
							g.flag(x)
						} else {
							g.out["querynil:agrees:false"]++
						}
					}
				}
			}
		})
		c.R.Note("space_F", map[string]interface{}{"list_keys": sp.Keys, "elements": sp.nE, "max_elems": sp.MaxLen, "paths": n, "use": "all triples for FindPathElemPrefix; all pairs x nil element positions for PathMatchesQuery"})
	}
}

// c09RefSelfCheck pins the reference denotation to hand-written expectations before it judges anything.
func c09RefSelfCheck(sp *c09Space) error {
	P := func(s string) core.PSPath { // "x[k1=v1,k2=*]/y"
		p := core.PSPath{Elems: []core.PSElem{}}
		if s == "" {
			return p
		}
		for _, es := range strings.Split(s, "/") {
			e := core.PSElem{Name: es}
			if i := strings.Index(es, "["); i >= 0 {
				e.Name = es[:i]
				e.Keys = map[string]string{}
				for _, kv := range strings.Split(strings.TrimSuffix(es[i+1:], "]"), ",") {
					q := strings.SplitN(kv, "=", 2)
					e.Keys[q[0]] = q[1]
				}
			}
			p.Elems = append(p.Elems, e)
		}
		return p
	}
	for _, tc := range []struct {
		a, b string
		want core.PSRel
	}{
		{"", "", core.PSEqual},
		{"x", "x", core.PSEqual},
		{"x", "y", core.PSDisjoint},
		{"x[k1=v1]", "x[k1=v1]", core.PSEqual},
		{"x[k1=*]", "x", core.PSEqual},
		{"x", "x/y", core.PSSuperset},
		{"x/y", "x", core.PSSubset},
		{"", "y", core.PSSuperset},
		{"x[k1=*]", "x[k1=v1]", core.PSSuperset},
		{"x[k1=v1]", "x", core.PSSubset},
		{"x[k1=v1]", "x[k1=v2]", core.PSDisjoint},
		{"x[k1=v1,k2=v2]", "x[k1=v1,k2=v1]", core.PSDisjoint},
		{"x[k1=v1,k2=*]", "x[k1=*,k2=v1]", core.PSPartial},
		{"x[k1=v1]", "x[k2=v1]", core.PSPartial},
		{"x[k1=*]/y", "x[k2=v1]", core.PSPartial},
		{"x[k1=v1]", "x[k2=*]/y", core.PSPartial},
		{"x[k1=*]", "x[k2=v1]/y", core.PSSuperset},
		{"x[k1=v1,k2=*]/x", "x[k1=*,k2=v1]/y", core.PSDisjoint},
		{"x[k1=*,k2=v1]", "x[k1=v1,k2=v2]", core.PSDisjoint},
		{"*", "x", core.PSSuperset},
		{"*/y", "x", core.PSPartial},
	} {
		a, b := P(tc.a), P(tc.b)
		if got := core.PSRelation(sp.U.Denote(a), sp.U.Denote(b)); got != tc.want {
			return fmt.Errorf("reference self-check: relation(%s, %s) = %v, expected %v", tc.a, tc.b, got, tc.want)
		}
	}
	a, b := P("x"), P("x")
	b.Origin = "openconfig"
	if got := core.PSRelation(sp.U.Denote(a), sp.U.Denote(b)); got != core.PSEqual {
		return fmt.Errorf("reference self-check: unset origin vs openconfig = %v", got)
	}
	b.Origin = "other"
	if got := core.PSRelation(sp.U.Denote(a), sp.U.Denote(b)); got != core.PSDisjoint {
		return fmt.Errorf("reference self-check: unset origin vs other = %v", got)
	}
	return nil
}

func runC09(c *core.Ctx) {
	c.Level = "exploration"
	spaces := []string{"A"}
	R := 6
	if c.Thorough() {
		spaces = []string{"A", "B", "C"}
		R = 12
	}
	c.Rule = "all ordered pairs of gNMI paths over names {x (list), y (container)}; space A: x has keys k1,k2,k3, each absent, '*', v1 or v2, paths of 0..2 elements, origins {unset, openconfig, other} on both sides" +
		" (thorough adds B: keys k1,k2, 0..3 elements, all origins; C: k1..k3 each absent, v1 or v2, 0..3 elements, unset origin, universe values {v1,v2}). " +
		"Oracle: explicit set denotation over the universe of all concrete paths one element longer with every key in {v1,v2,v3} (a path covers its subtree, absent and '*' keys are wildcards, unset origin = openconfig); " +
		fmt.Sprintf("ComparePaths is called %d times per ordered pair with unset origins, the key maps built in every insertion order in turn, and twice for each of the 8 other origin combinations (differing answers = nondeterministic), swap law on both directions; ", R) +
		"PathMatchesQuery (also queries with '*' names), PathMatchesPathElemPrefix, TrimGNMIPathElemPrefix, FindPathElemPrefix (pairs, and all triples of a one-key space), JoinPaths (also all origin x target combinations on paths of <= 1 element), PathMatchesPrefix (all name lists) against the same tables. " +
		"Non-trivial = (path, relation) classes other than Equal on which ComparePaths was judged"
	c.R.Assume("Go reflect-free: the only trusted parts are core/refpathset.go (explicit set denotation, pinned by 23 hand-written expectations at start-up) and the path tables of this file")
	c.R.Assume("origin \"\" denotes the same tree as \"openconfig\" (gNMI mixed-schema specification, as cited in util/gnmi.go)")
	memo := &sync.Map{}
	for si, name := range spaces {
		tb := time.Now()
		sp := c09GetSpace(name)
		c.R.Note("table_build_seconds_"+name, time.Since(tb).Seconds())
		if si == 0 {
			if err := c09RefSelfCheck(sp); err != nil {
				c.R.Violation("harness-reference-self-check", err.Error(), nil)
				return
			}
		}
		t0 := time.Now()
		r := R
		if name == "C" {
			r = 6
		}
		sp.sweep(c, r, memo)
		c.R.Note("sweep_seconds_"+name, time.Since(t0).Seconds())
		if si == 0 {
			t1 := time.Now()
			c09SmallSweeps(c, sp, memo)
			c.R.Note("small_sweeps_seconds", time.Since(t1).Seconds())
			mid := len(sp.paths) / 2
			c.R.Sample(sp.toCase(c09Idx{fn: "compare", a: sp.paths[mid], b: sp.paths[len(sp.paths)-3]}))
			c.R.Sample(sp.toCase(c09Idx{fn: "query", a: sp.paths[len(sp.paths)/3], b: sp.paths[70], oa: 1}))
		}
		if c.Expired() {
			break
		}
	}
	n := 0
	memo.Range(func(k, v interface{}) bool { n++; return true })
	c.R.Note("violating_shapes_classified", n)
}

func replayC09(c *core.Ctx, raw []byte) (bool, string) {
	if v, d, ok := replayC09StarKeys(raw); ok {
		return v, d
	}
	var cs c09Case
	if err := json.Unmarshal(raw, &cs); err != nil {
		return false, err.Error()
	}
	sp := c09GetSpace(cs.Space)
	if sp == nil {
		return false, "unknown space " + cs.Space
	}
	x, err := sp.fromCase(cs)
	if err != nil {
		return false, err.Error()
	}
	fs := sp.checkCase(x, sp.heavyEvals())
	if len(fs) == 0 {
		return false, "no violation"
	}
	var parts []string
	for _, f := range fs {
		parts = append(parts, fmt.Sprintf("%s: want %s, got %s", f.Clause, f.Want, f.Got))
	}
	return true, strings.Join(parts, "; ") + " on " + sp.describe(x)
}
